import Utv.Model.C19
/-!
Helper lemmas for C19: the *frame* of every model computation — the allocator only moves forward,
in-place writes only hit objects allocated by the same computation, and every mutable object in the
result is either one the arguments already contained or one allocated by the computation.
-/
namespace Utv.C19

/-! ### basic facts about id lists -/

theorem mutIdsL_append (xs ys : List Val) : mutIdsL (xs ++ ys) = mutIdsL xs ++ mutIdsL ys := by
  induction xs with
  | nil => simp [mutIdsL]
  | cons x xs ih => simp [mutIdsL, ih, List.append_assoc]

theorem mem_mutIdsL {i : Nat} {xs : List Val} : i ∈ mutIdsL xs ↔ ∃ v ∈ xs, i ∈ v.mutIds := by
  induction xs with
  | nil => simp [mutIdsL]
  | cons x xs ih =>
    simp only [mutIdsL, List.mem_append, ih, List.mem_cons]
    constructor
    · rintro (h | ⟨v, hv, hi⟩)
      · exact ⟨x, Or.inl rfl, h⟩
      · exact ⟨v, Or.inr hv, hi⟩
    · rintro ⟨v, (rfl | hv), hi⟩
      · exact Or.inl hi
      · exact Or.inr ⟨v, hv, hi⟩

theorem mem_opqIdsL {i : Nat} {xs : List Val} : i ∈ opqIdsL xs ↔ ∃ v ∈ xs, i ∈ v.opqIds := by
  induction xs with
  | nil => simp [opqIdsL]
  | cons x xs ih =>
    simp only [opqIdsL, List.mem_append, ih, List.mem_cons]
    constructor
    · rintro (h | ⟨v, hv, hi⟩)
      · exact ⟨x, Or.inl rfl, h⟩
      · exact ⟨v, Or.inr hv, hi⟩
    · rintro ⟨v, (rfl | hv), hi⟩
      · exact Or.inl hi
      · exact Or.inr ⟨v, hv, hi⟩

theorem mutIds_node_sub {i : Nat} {j : Nat} {k : Kind} {ks : List String} {xs : List Val}
    (h : i ∈ (Val.node j k ks xs).mutIds) : i = j ∨ i ∈ mutIdsL xs := by
  simp only [Val.mutIds] at h
  split at h
  · rcases List.mem_cons.mp h with h | h
    · exact Or.inl h
    · exact Or.inr h
  · exact Or.inr h

theorem mutIdsL_sub_node {i : Nat} {j : Nat} {k : Kind} {ks : List String} {xs : List Val}
    (h : i ∈ mutIdsL xs) : i ∈ (Val.node j k ks xs).mutIds := by
  simp only [Val.mutIds]
  split
  · exact List.mem_cons_of_mem _ h
  · exact h

/-! ### copy_value -/

/-- the general equation of `copyValue` (every object but a Schema instance with its `__dict__`) -/
def copyGeneric (j : Nat) (k : Kind) (ks : List String) (xs : List Val) (s : St) : Val × St :=
  if k.copied then
    match copyList xs s with
    | (items', s1) => (.node s1.next k.rebuilt ks items', { s1 with next := s1.next + 1 })
  else (.node j k ks xs, s)

theorem copyGeneric_spec (j : Nat) (k : Kind) (ks : List String) (xs : List Val) (s : St)
    (ih : s.next ≤ (copyList xs s).2.next ∧ (copyList xs s).2.writes = s.writes ∧
      (∀ i ∈ mutIdsL (copyList xs s).1, (s.next ≤ i ∧ i < (copyList xs s).2.next) ∨ i ∈ opqIdsL xs)) :
    s.next ≤ (copyGeneric j k ks xs s).2.next ∧ (copyGeneric j k ks xs s).2.writes = s.writes ∧
    (∀ i ∈ (copyGeneric j k ks xs s).1.mutIds,
      (s.next ≤ i ∧ i < (copyGeneric j k ks xs s).2.next) ∨ i ∈ (Val.node j k ks xs).opqIds) := by
  unfold copyGeneric
  split
  · rename_i hc
    obtain ⟨h1, h2, h3⟩ := ih
    refine ⟨by simp; omega, by simpa using h2, ?_⟩
    intro i hi
    rcases mutIds_node_sub hi with h | h
    · left; simp; omega
    · rcases h3 i h with h | h
      · left; simp; omega
      · right; simp [Val.opqIds, hc, h]
  · rename_i hc
    refine ⟨Nat.le_refl _, rfl, ?_⟩
    intro i hi
    right
    simp only [Val.opqIds, hc]
    rcases mutIds_node_sub hi with h | h
    · simp [h]
    · simp [h]

mutual
theorem copyValue_spec (v : Val) (s : St) :
    s.next ≤ (copyValue v s).2.next ∧ (copyValue v s).2.writes = s.writes ∧
    (∀ i ∈ (copyValue v s).1.mutIds, (s.next ≤ i ∧ i < (copyValue v s).2.next) ∨ i ∈ v.opqIds) := by
  match v with
  | .none => simp [copyValue, Val.mutIds]
  | .int _ => simp [copyValue, Val.mutIds]
  | .str _ => simp [copyValue, Val.mutIds]
  | .node j (.inst c true) (k0 :: ks) (x0 :: xs) =>
    -- a Schema instance: a new plain dict of its items
    obtain ⟨h1, h2, h3⟩ := copyList_spec xs s
    simp only [copyValue]
    refine ⟨by omega, h2, ?_⟩
    intro i hi
    rcases mutIds_node_sub hi with h | h
    · left; omega
    · rcases h3 i h with h | h
      · left; omega
      · right; simp [Val.opqIds, Kind.copied, opqIdsL, h]
  | .node j (.inst c true) [] xs => exact copyGeneric_spec j _ [] xs s (copyList_spec xs s)
  | .node j (.inst c true) (k0 :: ks) [] => exact copyGeneric_spec j _ (k0 :: ks) [] s (copyList_spec [] s)
  | .node j (.inst c false) ks xs => exact copyGeneric_spec j _ ks xs s (copyList_spec xs s)
  | .node j .list ks xs => exact copyGeneric_spec j _ ks xs s (copyList_spec xs s)
  | .node j .tuple ks xs => exact copyGeneric_spec j _ ks xs s (copyList_spec xs s)
  | .node j .set ks xs => exact copyGeneric_spec j _ ks xs s (copyList_spec xs s)
  | .node j .fset ks xs => exact copyGeneric_spec j _ ks xs s (copyList_spec xs s)
  | .node j .dict ks xs => exact copyGeneric_spec j _ ks xs s (copyList_spec xs s)
  | .node j (.opq t) ks xs => exact copyGeneric_spec j _ ks xs s (copyList_spec xs s)
  | .node j (.usr b) ks xs => exact copyGeneric_spec j _ ks xs s (copyList_spec xs s)
theorem copyList_spec (xs : List Val) (s : St) :
    s.next ≤ (copyList xs s).2.next ∧ (copyList xs s).2.writes = s.writes ∧
    (∀ i ∈ mutIdsL (copyList xs s).1, (s.next ≤ i ∧ i < (copyList xs s).2.next) ∨ i ∈ opqIdsL xs) := by
  match xs with
  | [] => simp [copyList, mutIdsL]
  | v :: vs =>
    have h1 := copyValue_spec v s
    have h2 := copyList_spec vs (copyValue v s).2
    simp only [copyList]
    obtain ⟨a1, a2, a3⟩ := h1
    obtain ⟨b1, b2, b3⟩ := h2
    refine ⟨by omega, by rw [b2, a2], ?_⟩
    intro i hi
    simp only [mutIdsL, List.mem_append] at hi
    rcases hi with hi | hi
    · rcases a3 i hi with h | h
      · left; omega
      · right; simp [opqIdsL, h]
    · rcases b3 i hi with h | h
      · left; omega
      · right; simp [opqIdsL, h]
end

mutual
/-- `copy_value` returns "a new value identical to default": equal as a value (for values without data-class
instances; a Schema instance comes back as a plain dict of its items) -/
theorem copyValue_veq (v : Val) (s : St) (hn : v.noInst = true) : (copyValue v s).1.veq v = true := by
  match v with
  | .none => simp [copyValue, Val.veq]
  | .int _ => simp [copyValue, Val.veq]
  | .str _ => simp [copyValue, Val.veq]
  | .node j (.inst c b) ks xs => simp [Val.noInst] at hn
  | .node j .list ks xs => exact copyGeneric_veq j _ ks xs s (by intro c b h; cases h) (copyList_veq xs s (by simpa [Val.noInst] using hn))
  | .node j .tuple ks xs => exact copyGeneric_veq j _ ks xs s (by intro c b h; cases h) (copyList_veq xs s (by simpa [Val.noInst] using hn))
  | .node j .set ks xs => exact copyGeneric_veq j _ ks xs s (by intro c b h; cases h) (copyList_veq xs s (by simpa [Val.noInst] using hn))
  | .node j .fset ks xs => exact copyGeneric_veq j _ ks xs s (by intro c b h; cases h) (copyList_veq xs s (by simpa [Val.noInst] using hn))
  | .node j .dict ks xs => exact copyGeneric_veq j _ ks xs s (by intro c b h; cases h) (copyList_veq xs s (by simpa [Val.noInst] using hn))
  | .node j (.opq t) ks xs => exact copyGeneric_veq j _ ks xs s (by intro c b h; cases h) (copyList_veq xs s (by simpa [Val.noInst] using hn))
  | .node j (.usr b) ks xs => exact copyGeneric_veq j _ ks xs s (by intro c b h; cases h) (copyList_veq xs s (by simpa [Val.noInst] using hn))
theorem copyList_veq (xs : List Val) (s : St) (hn : noInstL xs = true) : veqL (copyList xs s).1 xs = true := by
  match xs with
  | [] => simp [copyList, veqL]
  | v :: vs =>
    simp only [noInstL, Bool.and_eq_true] at hn
    have h1 := copyValue_veq v s hn.1
    have h2 := copyList_veq vs (copyValue v s).2 hn.2
    simp [copyList, veqL, h1, h2]
theorem veq_refl (v : Val) : v.veq v = true := by
  match v with
  | .none => simp [Val.veq]
  | .int _ => simp [Val.veq]
  | .str _ => simp [Val.veq]
  | .node j k ks xs => simp [Val.veq, veqL_refl xs]
theorem veqL_refl (xs : List Val) : veqL xs xs = true := by
  match xs with
  | [] => simp [veqL]
  | v :: vs => simp [veqL, veq_refl v, veqL_refl vs]
theorem copyGeneric_veq (j : Nat) (k : Kind) (ks : List String) (xs : List Val) (s : St)
    (hk : ∀ c b, k ≠ .inst c b)
    (ih : veqL (copyList xs s).1 xs = true) : (copyGeneric j k ks xs s).1.veq (.node j k ks xs) = true := by
  unfold copyGeneric
  split
  · have hb : k.rebuilt.base = k.base := by
      cases k with
      | usr b => cases b <;> rfl
      | inst c b => exact absurd rfl (hk c b)
      | _ => rfl
    simp [Val.veq, ih, hb]
  · simp [Val.veq, veqL_refl]
end

/-! ### the frame of a computation -/

/-- `Fr A s s' out`: from state `s` to `s'` the allocator moved forward, every object written in place
was allocated in between (or had been written before), and every id in `out` is in `A` or was allocated
in between. -/
structure Fr (A : List Nat) (s s' : St) (out : List Nat) : Prop where
  mono : s.next ≤ s'.next
  wr : ∀ i ∈ s'.writes, i ∈ s.writes ∨ (s.next ≤ i ∧ i < s'.next)
  out : ∀ i ∈ out, i ∈ A ∨ (s.next ≤ i ∧ i < s'.next)

theorem Fr.refl {A : List Nat} {s : St} {out : List Nat} (h : ∀ i ∈ out, i ∈ A) : Fr A s s out :=
  ⟨Nat.le_refl _, fun _ hi => Or.inl hi, fun i hi => Or.inl (h i hi)⟩

theorem Fr.comp {A o1 o2 : List Nat} {s s1 s2 : St} (h1 : Fr A s s1 o1) (h2 : Fr (A ++ o1) s1 s2 o2) :
    Fr A s s2 o2 := by
  refine ⟨Nat.le_trans h1.mono h2.mono, ?_, ?_⟩
  · intro i hi
    rcases h2.wr i hi with h | h
    · rcases h1.wr i h with h | h
      · exact Or.inl h
      · right; have := h2.mono; omega
    · right; have := h1.mono; omega
  · intro i hi
    rcases h2.out i hi with h | h
    · rcases List.mem_append.mp h with h | h
      · exact Or.inl h
      · rcases h1.out i h with h | h
        · exact Or.inl h
        · right; have := h2.mono; omega
    · right; have := h1.mono; omega

theorem Fr.weaken {A A' o o' : List Nat} {s s' : St} (h : Fr A s s' o) (hA : ∀ i ∈ A, i ∈ A')
    (ho : ∀ i ∈ o', i ∈ o) : Fr A' s s' o' :=
  ⟨h.mono, h.wr, fun i hi => (h.out i (ho i hi)).imp (hA i) id⟩

/-- outputs of an earlier stage may be carried along -/
theorem Fr.carry {A o1 o2 : List Nat} {s s1 s2 : St} (h1 : Fr A s s1 o1) (h2 : Fr (A ++ o1) s1 s2 o2) :
    Fr A s s2 (o1 ++ o2) := by
  have h3 : Fr (A ++ o1) s1 s2 (o1 ++ o2) :=
    ⟨h2.mono, h2.wr, fun i hi => by
      rcases List.mem_append.mp hi with h | h
      · exact Or.inl (List.mem_append_right _ h)
      · exact h2.out i h⟩
  exact h1.comp h3

theorem Fr.seq {A o1 o2 : List Nat} {s s1 s2 : St} (h1 : Fr A s s1 o1) (h2 : Fr A s1 s2 o2) :
    Fr A s s2 (o1 ++ o2) :=
  h1.carry (h2.weaken (fun _ h => List.mem_append_left _ h) (fun _ h => h))

theorem Fr.err {A o : List Nat} {s s' : St} (h : Fr A s s' o) : Fr A s s' [] :=
  ⟨h.mono, h.wr, by simp⟩

def resIds : Res → List Nat
  | .ok v => v.mutIds
  | .error _ => []

def resIdsL : Except Err (List Val) → List Nat
  | .ok vs => mutIdsL vs
  | .error _ => []

def resIdsKV : Except Err (List (String × Val)) → List Nat
  | .ok kvs => mutIdsL (kvs.map (·.2))
  | .error _ => []

theorem mk_fr (k : Kind) (ks : List String) (xs : List Val) (wr : Bool) (s : St) :
    Fr (mutIdsL xs) s (mk k ks xs wr s).2 (resIds (mk k ks xs wr s).1) := by
  refine ⟨by simp [mk], ?_, ?_⟩
  · intro i hi
    simp only [mk] at hi
    split at hi
    · rcases List.mem_cons.mp hi with h | h
      · right; simp [mk]; omega
      · exact Or.inl h
    · exact Or.inl hi
  · intro i hi
    simp only [mk, resIds] at hi
    rcases mutIds_node_sub hi with h | h
    · right; simp [mk]; omega
    · exact Or.inl h

def bodyIds : Except Err (List String × List Val) → List Nat
  | .ok p => mutIdsL p.2
  | .error _ => []

/-- An in-place write hits exactly the object the target value is: `fill` logs `i` for a target `node i …`. -/
theorem fill_writes (i : Nat) (k : Kind) (ks0 : List String) (xs0 : List Val) (ks : List String) (xs : List Val) (s : St) :
    (fill (.node i k ks0 xs0) ks xs s).2.writes = i :: s.writes ∧ (fill (.node i k ks0 xs0) ks xs s).2.next = s.next := by
  simp [fill]

/-- `x = K(); …; x.<stores>`: the container is created by this computation, so the in-place stores into it — logged
under the identity the variable `x` carries — hit an object allocated here. -/
theorem newThenFill_fr (k : Kind) (body : St → Except Err (List String × List Val) × St) (A : List Nat)
    (hb : ∀ s1, Fr A s1 (body s1).2 (bodyIds (body s1).1)) (s : St) :
    Fr A s (newThenFill k body s).2 (resIds (newThenFill k body s).1) := by
  have h := hb { next := s.next + 1, writes := s.writes }
  simp only [newThenFill, mk, Bool.false_eq_true, ↓reduceIte]
  cases hr : body { next := s.next + 1, writes := s.writes } with
  | mk r s2 =>
    rw [hr] at h
    have hm : s.next + 1 ≤ s2.next := h.mono
    cases r with
    | error e =>
      refine ⟨by simp; omega, ?_, by simp [resIds]⟩
      intro i hi
      rcases h.wr i hi with h' | h'
      · exact Or.inl h'
      · right; simp at h' ⊢; omega
    | ok p =>
      obtain ⟨ks, xs⟩ := p
      simp only [fill]
      refine ⟨by simp; omega, ?_, ?_⟩
      · intro i hi
        simp only [List.mem_cons] at hi
        rcases hi with rfl | hi
        · right; simp; omega
        · rcases h.wr i hi with h' | h'
          · exact Or.inl h'
          · right; simp at h' ⊢; omega
      · intro i hi
        simp only [resIds] at hi
        rcases mutIds_node_sub hi with rfl | hi
        · right; simp; omega
        · rcases h.out i (by simpa [bodyIds] using hi) with h' | h'
          · exact Or.inl h'
          · right; simp at h' ⊢; omega

/-- the object `newThenFill` hands back is the one it created -/
theorem newThenFill_id (k : Kind) (body : St → Except Err (List String × List Val) × St) (s : St)
    (i : Nat) (k' : Kind) (ks : List String) (xs : List Val)
    (hmono : ∀ s1, s1.next ≤ (body s1).2.next)
    (h : (newThenFill k body s).1 = .ok (.node i k' ks xs)) :
    i = s.next ∧ s.next < (newThenFill k body s).2.next := by
  have hm := hmono { next := s.next + 1, writes := s.writes }
  simp only [newThenFill, mk, Bool.false_eq_true, ↓reduceIte] at h ⊢
  cases hr : body { next := s.next + 1, writes := s.writes } with
  | mk r s2 =>
    rw [hr] at h hm
    cases r with
    | error e => simp at h
    | ok p =>
      obtain ⟨ks', xs'⟩ := p
      simp only [fill, Except.ok.injEq, Val.node.injEq] at h
      simp only [fill]
      simp at hm
      exact ⟨h.1.symm, by omega⟩

theorem items_ids_sub (r : Val) : ∀ i ∈ mutIdsL r.kids, i ∈ r.mutIds := by
  intro i hi
  cases r with
  | node j k ks xs => exact mutIdsL_sub_node hi
  | none => simp [Val.kids, mutIdsL] at hi
  | int _ => simp [Val.kids, mutIdsL] at hi
  | str _ => simp [Val.kids, mutIdsL] at hi

theorem dedup_sub (xs : List Val) : ∀ v ∈ dedup xs, v ∈ xs := by
  induction xs with
  | nil => simp [dedup]
  | cons x xs ih =>
    intro v hv
    simp only [dedup] at hv
    split at hv
    · exact List.mem_cons_of_mem _ (ih v hv)
    · rcases List.mem_cons.mp hv with h | h
      · simp [h]
      · exact List.mem_cons_of_mem _ (ih v h)

theorem mutIdsL_dedup_sub (xs : List Val) : ∀ i ∈ mutIdsL (dedup xs), i ∈ mutIdsL xs := by
  intro i hi
  obtain ⟨v, hv, h⟩ := mem_mutIdsL.mp hi
  exact mem_mutIdsL.mpr ⟨v, dedup_sub xs v hv, h⟩

theorem mkSeq_fr (k : Kind) (xs : List Val) (wr : Bool) (s : St) :
    Fr (mutIdsL xs) s (mkSeq k xs wr s).2 (resIds (mkSeq k xs wr s).1) := by
  simp only [mkSeq]
  split
  · split
    · exact (mk_fr k [] (dedup xs) wr s).weaken (mutIdsL_dedup_sub xs) (fun _ h => h)
    · exact Fr.refl (by simp [resIds])
  · exact mk_fr k [] xs wr s

theorem take_ids_sub (n : Nat) (xs : List Val) : ∀ i ∈ mutIdsL (xs.take n), i ∈ mutIdsL xs := by
  intro i hi
  obtain ⟨v, hv, h⟩ := mem_mutIdsL.mp hi
  exact mem_mutIdsL.mpr ⟨v, List.mem_of_mem_take hv, h⟩

theorem convBare_fr (o : Opts) (k : Kind) (v : Val) (s : St) :
    Fr v.mutIds s (convBare o k v s).2 (resIds (convBare o k v s).1) := by
  have hnil : ∀ (e : Err) (s : St), Fr v.mutIds s s (resIds (.error e)) := fun e s => Fr.refl (by simp [resIds])
  have hsame : Fr v.mutIds s s (resIds (.ok v)) := Fr.refl (by simp [resIds])
  have hatom : (∀ i ∈ mutIdsL [v], i ∈ v.mutIds) := by simp [mutIdsL]
  unfold convBare
  split
  · -- sequence targets
    cases v with
    | node j k' ks xs =>
      simp only
      split
      · exact hsame
      · split
        · split
          · exact hnil _ _
          · exact (mkSeq_fr k xs false s).weaken (fun i h => mutIdsL_sub_node h) (fun _ h => h)
        · split
          · split
            · exact hnil _ _
            · split
              · exact hnil _ _
              · split
                · exact (mk_fr k [] [] false s).weaken (by simp [mutIdsL]) (fun _ h => h)
                · exact (mk_fr k [] [Val.node j k' ks xs] false s).weaken hatom (fun _ h => h)
          · split
            · split
              · exact hnil _ _
              · split
                · exact hnil _ _
                · exact (mk_fr k [] [Val.node j k' ks xs] false s).weaken hatom (fun _ h => h)
            · exact hnil _ _
    | none => simp only; split; exact hnil _ _; exact (mkSeq_fr k [Val.none] false s).weaken hatom (fun _ h => h)
    | int n => simp only; split; exact hnil _ _; exact (mkSeq_fr k [Val.int n] false s).weaken hatom (fun _ h => h)
    | str x => simp only; split; exact hnil _ _; exact (mkSeq_fr k [Val.str x] false s).weaken hatom (fun _ h => h)
  · split
    · cases v with
      | node j k' ks xs =>
        simp only
        split
        · exact hsame
        · split
          · split
            · exact hnil _ _
            · split
              · exact (mk_fr .dict [] [] false s).weaken (by simp [mutIdsL]) (fun _ h => h)
              · exact hnil _ _
          · exact hnil _ _
      | none => exact hnil _ _
      | int n => exact hnil _ _
      | str x => exact hnil _ _
    · split
      · cases v with
        | node j k' ks xs =>
          simp only
          split
          · exact hsame
          · exact hnil _ _
        | none => exact hnil _ _
        | int n => exact hnil _ _
        | str x => exact hnil _ _
      · exact hnil _ _

theorem laxCut_fr (n : Nat) (v : Val) (s : St) :
    Fr v.mutIds s (laxCut n v s).2 (resIds (laxCut n v s).1) := by
  cases v with
  | node j k ks xs =>
    simp only [laxCut]
    split
    · exact (mk_fr k.base [] (xs.take n) false s).weaken
        (fun i hi => mutIdsL_sub_node (take_ids_sub n xs i hi)) (fun _ h => h)
    · exact Fr.refl (by simp [resIds])
  | none => exact Fr.refl (by simp [laxCut, resIds])
  | int _ => exact Fr.refl (by simp [laxCut, resIds])
  | str _ => exact Fr.refl (by simp [laxCut, resIds])

theorem andThen_fr (A : List Nat) (c : Comp) (f : Val → Comp) (s : St)
    (hc : Fr A s (c s).2 (resIds (c s).1))
    (hf : ∀ w s, Fr w.mutIds s (f w s).2 (resIds (f w s).1)) :
    Fr A s (andThen c f s).2 (resIds (andThen c f s).1) := by
  unfold andThen
  cases hr : c s with
  | mk r s1 =>
    rw [hr] at hc
    cases r with
    | error e => exact hc.err
    | ok w =>
      simp only
      exact hc.comp ((hf w s1).weaken (fun i hi => List.mem_append_right _ (by simpa [resIds] using hi)) (fun _ h => h))

theorem consLength_fr (c : Option (Nat × Bool)) (v : Val) (s : St) :
    Fr v.mutIds s (consLength c v s).2 (resIds (consLength c v s).1) := by
  unfold consLength
  cases c with
  | none => exact Fr.refl (by simp [resIds])
  | some p =>
    obtain ⟨n, lax⟩ := p
    simp only
    split
    · exact Fr.refl (by simp [resIds])
    · split
      · exact laxCut_fr n v s
      · exact Fr.refl (by simp [resIds])

theorem consMax_fr (c : Option (Nat × Bool)) (v : Val) (s : St) :
    Fr v.mutIds s (consMax c v s).2 (resIds (consMax c v s).1) := by
  unfold consMax
  cases c with
  | none => exact Fr.refl (by simp [resIds])
  | some p =>
    obtain ⟨n, lax⟩ := p
    simp only
    split
    · exact Fr.refl (by simp [resIds])
    · split
      · exact laxCut_fr n v s
      · exact Fr.refl (by simp [resIds])

theorem consMin_fr (c : Option Nat) (v : Val) (s : St) :
    Fr v.mutIds s (consMin c v s).2 (resIds (consMin c v s).1) := by
  unfold consMin
  cases c with
  | none => exact Fr.refl (by simp [resIds])
  | some n =>
    simp only
    split <;> exact Fr.refl (by simp [resIds])

/-- the length validators never write to the validated object: a lax cut is a new object -/
theorem applyCons_fr (lg mx : Option (Nat × Bool)) (mn : Option Nat) (v : Val) (s : St) :
    Fr v.mutIds s (applyCons lg mx mn v s).2 (resIds (applyCons lg mx mn v s).1) := by
  unfold applyCons
  apply andThen_fr
  · apply andThen_fr
    · exact consLength_fr lg v s
    · exact consMax_fr mx
  · exact consMin_fr mn

/-! ### defaults -/

mutual
theorem build_spec (sh : Shape) (s : St) :
    s.next ≤ (sh.build s).2.next ∧ (sh.build s).2.writes = s.writes ∧
    (∀ i ∈ (sh.build s).1.mutIds, s.next ≤ i ∧ i < (sh.build s).2.next) := by
  match sh with
  | .none => simp [Shape.build, Val.mutIds]
  | .int _ => simp [Shape.build, Val.mutIds]
  | .str _ => simp [Shape.build, Val.mutIds]
  | .node k ks xs =>
    obtain ⟨h1, h2, h3⟩ := buildL_spec xs s
    simp only [Shape.build]
    refine ⟨by omega, h2, ?_⟩
    intro i hi
    rcases mutIds_node_sub hi with h | h
    · omega
    · have := h3 i h; omega
theorem buildL_spec (xs : List Shape) (s : St) :
    s.next ≤ (buildL xs s).2.next ∧ (buildL xs s).2.writes = s.writes ∧
    (∀ i ∈ mutIdsL (buildL xs s).1, s.next ≤ i ∧ i < (buildL xs s).2.next) := by
  match xs with
  | [] => simp [buildL, mutIdsL]
  | v :: vs =>
    obtain ⟨a1, a2, a3⟩ := build_spec v s
    obtain ⟨b1, b2, b3⟩ := buildL_spec vs (v.build s).2
    simp only [buildL]
    refine ⟨by omega, by rw [b2, a2], ?_⟩
    intro i hi
    simp only [mutIdsL, List.mem_append] at hi
    rcases hi with hi | hi
    · have := a3 i hi; omega
    · have := b3 i hi; omega
end

theorem opqIds_sub_mutIds : ∀ (v : Val) (i : Nat), i ∈ v.opqIds → i ∈ v.mutIds
  | .none, i, h => by simp [Val.opqIds] at h
  | .int _, i, h => by simp [Val.opqIds] at h
  | .str _, i, h => by simp [Val.opqIds] at h
  | .node j k ks xs, i, h => by
    simp only [Val.opqIds] at h
    split at h
    · obtain ⟨v, hv, hi⟩ := mem_opqIdsL.mp h
      have := opqIds_sub_mutIds v i hi
      exact mutIdsL_sub_node (mem_mutIdsL.mpr ⟨v, hv, this⟩)
    · rename_i hc
      have hm : k.mutable = true := by
        cases k with
        | usr b => cases b <;> simp_all [Kind.copied, Kind.mutable, Kind.base]
        | _ => simp_all [Kind.copied, Kind.mutable, Kind.base]
      simp only [Val.mutIds, hm, if_true]
      exact h
termination_by v => sizeOf v
decreasing_by
  simp_wf
  have := List.sizeOf_lt_of_mem hv
  omega

def optIds : Option Val → List Nat
  | some v => v.mutIds
  | none => []

def Dflt.opqIds (d : Dflt) : List Nat := opqIdsL d.vals

theorem copyValue_fr (v : Val) (s : St) :
    Fr v.opqIds s (copyValue v s).2 (copyValue v s).1.mutIds := by
  obtain ⟨h1, h2, h3⟩ := copyValue_spec v s
  exact ⟨h1, fun i hi => Or.inl (h2 ▸ hi), fun i hi => (h3 i hi).symm⟩

/-- `get_default` hands out only objects it allocated itself — or the opaque objects of the declared default -/
theorem getDefault0_fr (d : Dflt) (s : St) :
    Fr d.opqIds s (getDefault0 d s).2 (optIds (getDefault0 d s).1) := by
  cases d with
  | none => exact Fr.refl (by simp [getDefault0, optIds])
  | val v =>
    simp only [getDefault0, optIds]
    exact (copyValue_fr v s).weaken (by simp [Dflt.opqIds, Dflt.vals, opqIdsL]) (fun _ h => h)
  | shared v =>
    simp only [getDefault0, optIds]
    exact (copyValue_fr v s).weaken (by simp [Dflt.opqIds, Dflt.vals, opqIdsL]) (fun _ h => h)
  | fresh sh =>
    simp only [getDefault0, optIds]
    obtain ⟨a1, a2, a3⟩ := build_spec sh s
    have hb : Fr (Dflt.fresh sh).opqIds s (sh.build s).2 (sh.build s).1.mutIds :=
      ⟨a1, fun i hi => Or.inl (a2 ▸ hi), fun i hi => Or.inr (a3 i hi)⟩
    refine hb.comp ((copyValue_fr _ _).weaken ?_ (fun _ h => h))
    intro i hi
    exact List.mem_append_right _ (opqIds_sub_mutIds _ i hi)

/-- the opaque objects of a `force_default` value -/
def ROpts.opqIds (ro : ROpts) : List Nat := match ro.force with | some a => a.opqIds | none => []

theorem getDefault_fr (ro : ROpts) (d : Dflt) (s : St) :
    Fr (d.opqIds ++ ro.opqIds) s (getDefault ro d s).2 (optIds (getDefault ro d s).1) := by
  unfold getDefault
  split
  · exact Fr.refl (by simp [optIds])
  · cases hf : ro.force with
    | none => simp only; exact (getDefault0_fr d s).weaken (fun i h => List.mem_append_left _ h) (fun _ h => h)
    | some a =>
      simp only [optIds]
      exact (copyValue_fr a s).weaken (fun i h => List.mem_append_right _ (by simp [ROpts.opqIds, hf, h])) (fun _ h => h)

theorem getDefaultAt_fr (defer fdefer : Bool) (ro : ROpts) (d : Dflt) (s : St) :
    Fr (d.opqIds ++ ro.opqIds) s (getDefaultAt defer fdefer ro d s).2 (optIds (getDefaultAt defer fdefer ro d s).1) := by
  unfold getDefaultAt
  split
  · exact Fr.refl (by simp [optIds])
  · split
    · exact Fr.refl (by simp [optIds])
    · exact getDefault_fr ro d s

/-! ### list traversals -/

theorem mapC_fr (f : Val → Comp) (B : List Nat) (xs : List Val)
    (hf : ∀ v ∈ xs, ∀ s, Fr (v.mutIds ++ B) s (f v s).2 (resIds (f v s).1)) (s : St) :
    Fr (mutIdsL xs ++ B) s (mapC f xs s).2 (resIdsL (mapC f xs s).1) := by
  induction xs generalizing s with
  | nil => exact Fr.refl (by simp [mapC, resIdsL, mutIdsL])
  | cons v vs ih =>
    have h1 := hf v (by simp) s
    have hA : ∀ i ∈ v.mutIds ++ B, i ∈ mutIdsL (v :: vs) ++ B := by
      intro i hi; simp only [mutIdsL, List.mem_append] at *; rcases hi with h | h <;> simp [h]
    have hA2 : ∀ i ∈ mutIdsL vs ++ B, i ∈ mutIdsL (v :: vs) ++ B := by
      intro i hi; simp only [mutIdsL, List.mem_append] at *; rcases hi with h | h <;> simp [h]
    simp only [mapC]
    cases hr : f v s with
    | mk r s1 =>
      rw [hr] at h1
      cases r with
      | error e => exact ⟨h1.mono, h1.wr, by simp [resIdsL]⟩
      | ok v' =>
        simp only
        have h2 := ih (fun w hw => hf w (List.mem_cons_of_mem _ hw)) s1
        cases hr2 : mapC f vs s1 with
        | mk r2 s2 =>
          rw [hr2] at h2
          have h1' := h1.weaken hA (fun _ h => h)
          have h2' : Fr ((mutIdsL (v :: vs) ++ B) ++ resIds (Except.ok v')) s1 s2 (resIdsL r2) :=
            h2.weaken (fun i hi => List.mem_append_left _ (hA2 i hi)) (fun _ h => h)
          cases r2 with
          | error e => exact (h1'.comp h2').weaken (fun _ h => h) (by simp [resIdsL])
          | ok vs' =>
            simp only
            refine (h1'.carry h2').weaken (fun _ h => h) ?_
            intro i hi
            simpa [resIdsL, resIds, mutIdsL] using hi

theorem zipC_fr (f : Ty → Val → Comp) (B : List Nat) (ts : List Ty) (xs : List Val)
    (hf : ∀ t, ∀ v ∈ xs, ∀ s, Fr (v.mutIds ++ B) s (f t v s).2 (resIds (f t v s).1)) (s : St) :
    Fr (mutIdsL xs ++ B) s (zipC f ts xs s).2 (resIdsL (zipC f ts xs s).1) := by
  induction ts generalizing xs s with
  | nil => exact Fr.refl (by simp [zipC, resIdsL, mutIdsL])
  | cons t ts ih =>
    cases xs with
    | nil => exact Fr.refl (by simp [zipC, resIdsL])
    | cons v vs =>
      have h1 := hf t v (by simp) s
      have hA : ∀ i ∈ v.mutIds ++ B, i ∈ mutIdsL (v :: vs) ++ B := by
        intro i hi; simp only [mutIdsL, List.mem_append] at *; rcases hi with h | h <;> simp [h]
      have hA2 : ∀ i ∈ mutIdsL vs ++ B, i ∈ mutIdsL (v :: vs) ++ B := by
        intro i hi; simp only [mutIdsL, List.mem_append] at *; rcases hi with h | h <;> simp [h]
      simp only [zipC]
      cases hr : f t v s with
      | mk r s1 =>
        rw [hr] at h1
        cases r with
        | error e => exact ⟨h1.mono, h1.wr, by simp [resIdsL]⟩
        | ok v' =>
          simp only
          have h2 := ih vs (fun t w hw => hf t w (List.mem_cons_of_mem _ hw)) s1
          cases hr2 : zipC f ts vs s1 with
          | mk r2 s2 =>
            rw [hr2] at h2
            have h1' := h1.weaken hA (fun _ h => h)
            have h2' : Fr ((mutIdsL (v :: vs) ++ B) ++ resIds (Except.ok v')) s1 s2 (resIdsL r2) :=
              h2.weaken (fun i hi => List.mem_append_left _ (hA2 i hi)) (fun _ h => h)
            cases r2 with
            | error e => exact (h1'.comp h2').weaken (fun _ h => h) (by simp [resIdsL])
            | ok vs' =>
              simp only
              refine (h1'.carry h2').weaken (fun _ h => h) ?_
              intro i hi
              simpa [resIdsL, resIds, mutIdsL] using hi

theorem lookupKV_mem (k : String) : ∀ (ks : List String) (xs : List Val) (v : Val),
    lookupKV k ks xs = some v → v ∈ xs
  | [], _, v, h => by simp [lookupKV] at h
  | _ :: _, [], v, h => by simp [lookupKV] at h
  | a :: as, x :: xs, v, h => by
    simp only [lookupKV] at h
    split at h
    · simp at h; simp [h]
    · exact List.mem_cons_of_mem _ (lookupKV_mem k as xs v h)

theorem lookupF_mem (f : Field) : ∀ (ks : List String) (xs : List Val) (v : Val),
    lookupF f ks xs = some v → v ∈ xs
  | [], _, v, h => by simp [lookupF] at h
  | _ :: _, [], v, h => by simp [lookupF] at h
  | a :: as, x :: xs, v, h => by
    simp only [lookupF] at h
    split at h
    · simp at h; simp [h]
    · exact List.mem_cons_of_mem _ (lookupF_mem f as xs v h)

/-! ### parse_data -/

theorem fieldsFF_fr (rec : Ty → Val → Comp) (ro : ROpts) (A : List Nat) (ks : List String) (xs : List Val)
    (hx : ∀ v ∈ xs, ∀ i ∈ v.mutIds, i ∈ A)
    (hrec : ∀ t v, (∀ i ∈ v.mutIds, i ∈ A) → ∀ s, Fr A s (rec t v s).2 (resIds (rec t v s).1))
    (hro : ∀ i ∈ ro.opqIds, i ∈ A)
    (fields : List Field) (hB : ∀ f ∈ fields, ∀ i ∈ f.dflt.opqIds, i ∈ A) (s : St) :
    Fr A s (fieldsFF rec ro ks xs fields s).2 (resIdsKV (fieldsFF rec ro ks xs fields s).1) := by
  induction fields generalizing s with
  | nil => exact Fr.refl (by simp [fieldsFF, resIdsKV, mutIdsL])
  | cons f fs ih =>
    have ih' := ih (fun g hg => hB g (List.mem_cons_of_mem _ hg))
    simp only [fieldsFF]
    cases hl : lookupF f ks xs with
    | some v =>
      simp only
      have h1 := hrec f.ty v (hx v (lookupF_mem _ _ _ _ hl)) s
      cases hr : rec f.ty v s with
      | mk r s1 =>
        rw [hr] at h1
        cases r with
        | error e => exact h1.err
        | ok v' =>
          simp only
          have h2 := ih' s1
          cases hr2 : fieldsFF rec ro ks xs fs s1 with
          | mk r2 s2 =>
            rw [hr2] at h2
            cases r2 with
            | error e => exact (h1.seq h2).err
            | ok kvs =>
              simp only
              refine (h1.seq h2).weaken (fun _ h => h) ?_
              intro i hi
              simpa [resIdsKV, resIds, mutIdsL] using hi
    | none =>
      simp only
      split
      · exact Fr.refl (by simp [resIdsKV])
      · have h1 := (getDefaultAt_fr false f.defer ro f.dflt s).weaken
          (fun i hi => by rcases List.mem_append.mp hi with h | h; exact hB f (by simp) i h; exact hro i h) (fun _ h => h)
        cases hg : getDefaultAt false f.defer ro f.dflt s with
        | mk od s1 =>
          rw [hg] at h1
          cases od with
          | none =>
            simp only
            have h2 := ih' s1
            exact (h1.err.seq h2).weaken (fun _ h => h) (fun i hi => by simpa using hi)
          | some d =>
            simp only
            have h2 := ih' s1
            cases hr2 : fieldsFF rec ro ks xs fs s1 with
            | mk r2 s2 =>
              rw [hr2] at h2
              cases r2 with
              | error e => exact (h1.seq h2).err
              | ok kvs =>
                simp only
                refine (h1.seq h2).weaken (fun _ h => h) ?_
                intro i hi
                simpa [resIdsKV, optIds, mutIdsL] using hi

theorem dataLoop_fr (rec : Ty → Val → Comp) (A : List Nat) (fields : List Field)
    (hrec : ∀ t v, (∀ i ∈ v.mutIds, i ∈ A) → ∀ s, Fr A s (rec t v s).2 (resIds (rec t v s).1))
    (ks : List String) (xs : List Val) (hx : ∀ v ∈ xs, ∀ i ∈ v.mutIds, i ∈ A) (s : St) :
    Fr A s (dataLoop rec fields ks xs s).2 (resIdsKV (dataLoop rec fields ks xs s).1) := by
  induction xs generalizing ks s with
  | nil => cases ks <;> exact Fr.refl (by simp [dataLoop, resIdsKV, mutIdsL])
  | cons v vs ih =>
    cases ks with
    | nil => exact Fr.refl (by simp [dataLoop, resIdsKV, mutIdsL])
    | cons k ks =>
      have ih' := ih ks (fun w hw => hx w (List.mem_cons_of_mem _ hw))
      simp only [dataLoop]
      cases hfnd : fields.find? (fun f => keyMatches f k) with
      | none => exact ih' s
      | some f =>
        simp only
        have h1 := hrec f.ty v (hx v (by simp)) s
        cases hr : rec f.ty v s with
        | mk r s1 =>
          rw [hr] at h1
          cases r with
          | error e => exact h1.err
          | ok v' =>
            simp only
            have h2 := ih' s1
            cases hr2 : dataLoop rec fields ks vs s1 with
            | mk r2 s2 =>
              rw [hr2] at h2
              cases r2 with
              | error e => exact (h1.seq h2).err
              | ok kvs =>
                simp only
                refine (h1.seq h2).weaken (fun _ h => h) ?_
                intro i hi
                simpa [resIdsKV, resIds, mutIdsL] using hi

theorem defaultLoop_fr (ro : ROpts) (A : List Nat) (have_ : List String) (fields : List Field)
    (hro : ∀ i ∈ ro.opqIds, i ∈ A)
    (hB : ∀ f ∈ fields, ∀ i ∈ f.dflt.opqIds, i ∈ A) (s : St) :
    Fr A s (defaultLoop ro have_ fields s).2 (resIdsKV (defaultLoop ro have_ fields s).1) := by
  induction fields generalizing s with
  | nil => exact Fr.refl (by simp [defaultLoop, resIdsKV, mutIdsL])
  | cons f fs ih =>
    have ih' := ih (fun g hg => hB g (List.mem_cons_of_mem _ hg))
    simp only [defaultLoop]
    split
    · exact ih' s
    · split
      · exact Fr.refl (by simp [resIdsKV])
      · have h1 := (getDefaultAt_fr false f.defer ro f.dflt s).weaken
          (fun i hi => by rcases List.mem_append.mp hi with h | h; exact hB f (by simp) i h; exact hro i h) (fun _ h => h)
        cases hg : getDefaultAt false f.defer ro f.dflt s with
        | mk od s1 =>
          rw [hg] at h1
          cases od with
          | none =>
            simp only
            have h2 := ih' s1
            exact (h1.err.seq h2).weaken (fun _ h => h) (fun i hi => by simpa using hi)
          | some d =>
            simp only
            have h2 := ih' s1
            cases hr2 : defaultLoop ro have_ fs s1 with
            | mk r2 s2 =>
              rw [hr2] at h2
              cases r2 with
              | error e => exact (h1.seq h2).err
              | ok kvs =>
                simp only
                refine (h1.seq h2).weaken (fun _ h => h) ?_
                intro i hi
                simpa [resIdsKV, optIds, mutIdsL] using hi

theorem parseData_fr (rec : Ty → Val → Comp) (ro : ROpts) (A : List Nat) (d : Decl) (ks : List String) (xs : List Val)
    (hx : ∀ v ∈ xs, ∀ i ∈ v.mutIds, i ∈ A)
    (hrec : ∀ t v, (∀ i ∈ v.mutIds, i ∈ A) → ∀ s, Fr A s (rec t v s).2 (resIds (rec t v s).1))
    (hro : ∀ i ∈ ro.opqIds, i ∈ A)
    (hB : ∀ f ∈ d.fields, ∀ i ∈ f.dflt.opqIds, i ∈ A) (s : St) :
    Fr A s (parseData rec ro d ks xs s).2 (resIdsKV (parseData rec ro d ks xs s).1) := by
  simp only [parseData]
  split
  · have h1 := dataLoop_fr rec A d.fields hrec ks xs hx s
    cases hr : dataLoop rec d.fields ks xs s with
    | mk r s1 =>
      rw [hr] at h1
      cases r with
      | error e => exact h1.err
      | ok r1 =>
        simp only
        have h2 := defaultLoop_fr ro A (r1.map (·.1)) d.fields hro hB s1
        cases hr2 : defaultLoop ro (r1.map (·.1)) d.fields s1 with
        | mk r2 s2 =>
          rw [hr2] at h2
          cases r2 with
          | error e => exact (h1.seq h2).err
          | ok kvs =>
            simp only
            refine (h1.seq h2).weaken (fun _ h => h) ?_
            intro i hi
            simpa [resIdsKV, mutIdsL_append] using hi
  · exact fieldsFF_fr rec ro A ks xs hx hrec hro d.fields hB s

/-! ### instances -/

theorem filter_map_snd_sub (p : String × Val → Bool) (vals : List (String × Val)) :
    ∀ i ∈ mutIdsL ((vals.filter p).map (·.2)), i ∈ mutIdsL (vals.map (·.2)) := by
  intro i hi
  obtain ⟨v, hv, h⟩ := mem_mutIdsL.mp hi
  obtain ⟨q, hq, rfl⟩ := List.mem_map.mp hv
  exact mem_mutIdsL.mpr ⟨q.2, List.mem_map.mpr ⟨q, (List.mem_filter.mp hq).1, rfl⟩, h⟩

theorem mkBinding_fr (vals : List (String × Val)) (s : St) :
    Fr (mutIdsL (vals.map (·.2))) s (mkBinding vals s).2 (resIds (mkBinding vals s).1) :=
  mk_fr .dict _ _ false s

theorem parseInto_fr (rec : Ty → Val → Comp) (ro : ROpts) (A : List Nat) (d : Decl) (ks : List String) (xs : List Val)
    (hx : ∀ v ∈ xs, ∀ i ∈ v.mutIds, i ∈ A)
    (hrec : ∀ t v, (∀ i ∈ v.mutIds, i ∈ A) → ∀ s, Fr A s (rec t v s).2 (resIds (rec t v s).1))
    (hro : ∀ i ∈ ro.opqIds, i ∈ A)
    (hB : ∀ f ∈ d.fields, ∀ i ∈ f.dflt.opqIds, i ∈ A) (s : St) :
    Fr A s (parseInto rec ro d ks xs s).2 (resIds (parseInto rec ro d ks xs s).1) := by
  unfold parseInto
  apply newThenFill_fr
  intro s1
  have h := parseData_fr rec ro A d ks xs hx hrec hro hB s1
  cases hr : parseData rec ro d ks xs s1 with
  | mk r s2 =>
    rw [hr] at h
    cases r with
    | error e => exact h.err
    | ok vals => simpa [bodyIds, resIdsKV] using h

theorem parseInto_id (rec : Ty → Val → Comp) (ro : ROpts) (A : List Nat) (d : Decl) (ks : List String) (xs : List Val)
    (hx : ∀ v ∈ xs, ∀ i ∈ v.mutIds, i ∈ A)
    (hrec : ∀ t v, (∀ i ∈ v.mutIds, i ∈ A) → ∀ s, Fr A s (rec t v s).2 (resIds (rec t v s).1))
    (hro : ∀ i ∈ ro.opqIds, i ∈ A)
    (hB : ∀ f ∈ d.fields, ∀ i ∈ f.dflt.opqIds, i ∈ A) (s : St)
    (i : Nat) (k' : Kind) (ks' : List String) (xs' : List Val)
    (h : (parseInto rec ro d ks xs s).1 = .ok (.node i k' ks' xs')) :
    i = s.next ∧ s.next < (parseInto rec ro d ks xs s).2.next := by
  unfold parseInto at h ⊢
  refine newThenFill_id .dict _ s i k' ks' xs' ?_ h
  intro s1
  have hmn := (parseData_fr rec ro A d ks xs hx hrec hro hB s1).mono
  cases hpd : parseData rec ro d ks xs s1 with
  | mk r' s' =>
    rw [hpd] at hmn
    cases r' <;> simpa using hmn

theorem itemsOf_ids (v : Val) : ∀ i ∈ mutIdsL (itemsOf v).2, i ∈ v.mutIds := by
  intro i hi
  cases v with
  | node j k ks xs => exact mutIdsL_sub_node hi
  | none => simp [itemsOf, mutIdsL] at hi
  | int _ => simp [itemsOf, mutIdsL] at hi
  | str _ => simp [itemsOf, mutIdsL] at hi

theorem zip_filter_snd_sub (p : String × Val → Bool) (ks : List String) (xs : List Val) :
    ∀ i ∈ mutIdsL (((ks.zip xs).filter p).map (·.2)), i ∈ mutIdsL xs := by
  intro i hi
  obtain ⟨v, hv, h⟩ := mem_mutIdsL.mp hi
  obtain ⟨q, hq, rfl⟩ := List.mem_map.mp hv
  have hz : q ∈ ks.zip xs := (List.mem_filter.mp hq).1
  exact mem_mutIdsL.mpr ⟨q.2, (List.of_mem_zip hz).2, h⟩

theorem leak_of_field {E : Env} {k : Nat} {d : Decl} (hk : E[k]? = some d) :
    ∀ f ∈ d.fields, ∀ i ∈ f.dflt.opqIds, i ∈ E.leak := by
  intro f hf i hi
  have hd : d ∈ E := List.mem_of_getElem? hk
  obtain ⟨v, hv, h⟩ := mem_opqIdsL.mp hi
  refine mem_opqIdsL.mpr ⟨v, ?_, h⟩
  simp only [Env.dfltVals, Decl.dfltVals, List.mem_flatMap]
  exact ⟨d, hd, f, hf, hv⟩

/-- the objects an instance creation writes in place — the call's kwargs, the new instance, its `__dict__`, the parser's
result dict — are reached through the variables that hold them; every one of them was created by this very call -/
theorem initWith_fr (rec : Ty → Val → Comp) (ro : ROpts) (A : List Nat) (E : Env) (k : Nat) (ks : List String) (xs : List Val)
    (hx : ∀ v ∈ xs, ∀ i ∈ v.mutIds, i ∈ A)
    (hrec : ∀ t v, (∀ i ∈ v.mutIds, i ∈ A) → ∀ s, Fr A s (rec t v s).2 (resIds (rec t v s).1))
    (hro : ∀ i ∈ ro.opqIds, i ∈ A)
    (hleak : ∀ i ∈ E.leak, i ∈ A) (s : St) :
    Fr A s (initWith rec ro E k ks xs s).2 (resIds (initWith rec ro E k ks xs s).1) := by
  simp only [initWith]
  cases hk : E[k]? with
  | none => exact Fr.refl (by simp [resIds])
  | some d =>
    simp only
    split
    · exact Fr.refl (by simp [resIds])
    · -- kwargs, inst, inst.__dict__ are plain allocations (+ the stores into kwargs)
      simp only [newThenFill, mk, fill, itemsOf, Bool.false_eq_true, ↓reduceIte]
      have hp := parseInto_fr rec ro A d ks xs hx hrec hro
        (fun f hf i hi => hleak i (leak_of_field hk f hf i hi))
        { next := s.next + 1 + 1 + 1, writes := s.next :: s.writes }
      cases hr : parseInto rec ro d ks xs { next := s.next + 1 + 1 + 1, writes := s.next :: s.writes } with
      | mk r s4 =>
        rw [hr] at hp
        have hm : s.next + 3 ≤ s4.next := by have := hp.mono; simp at this; omega
        have hwr : ∀ i ∈ s4.writes, i ∈ s.writes ∨ (s.next ≤ i ∧ i < s4.next) := by
          intro i hi
          rcases hp.wr i hi with h | h
          · simp only [List.mem_cons] at h
            rcases h with rfl | h
            · right; omega
            · exact Or.inl h
          · right; simp at h; omega
        cases r with
        | error e => exact ⟨by simp; omega, by simpa using hwr, by simp [resIds]⟩
        | ok values =>
          have hvals : ∀ i ∈ values.mutIds, i ∈ A ∨ (s.next ≤ i ∧ i < s4.next) := by
            intro i hi
            rcases hp.out i (by simpa [resIds] using hi) with h | h
            · exact Or.inl h
            · right; simp at h; omega
          cases values with
          | none => exact ⟨by simp; omega, by simpa using hwr, by simp [resIds]⟩
          | int _ => exact ⟨by simp; omega, by simpa using hwr, by simp [resIds]⟩
          | str _ => exact ⟨by simp; omega, by simpa using hwr, by simp [resIds]⟩
          | node vi vk vks vxs =>
            simp only
            have hvx : ∀ i ∈ mutIdsL vxs, i ∈ A ∨ (s.next ≤ i ∧ i < s4.next) :=
              fun i hi => hvals i (mutIdsL_sub_node hi)
            refine ⟨by simp; omega, ?_, ?_⟩
            · intro i hi
              simp only [List.mem_cons] at hi
              rcases hi with rfl | rfl | rfl | hi
              · right; simp; omega
              · right; simp; omega
              · -- `values.pop(key)`: `values` is the dict `parseInto` created in this call
                have hid := parseInto_id rec ro A d ks xs hx hrec hro
                  (fun f hf i hi => hleak i (leak_of_field hk f hf i hi))
                  { next := s.next + 1 + 1 + 1, writes := s.next :: s.writes } i vk vks vxs (by rw [hr])
                rw [hr] at hid
                right; simp at hid ⊢; omega
              · exact hwr i hi
            · intro i hi
              simp only [resIds] at hi
              rcases mutIds_node_sub hi with rfl | hi
              · right; simp; omega
              · simp only [mutIdsL, List.mem_append] at hi
                rcases hi with hi | hi
                · rcases mutIds_node_sub hi with rfl | hi
                  · right; simp; omega
                  · rcases hvx i hi with h | h
                    · exact Or.inl h
                    · right; simp; omega
                · split at hi
                  · rcases hvx i (zip_filter_snd_sub _ vks vxs i hi) with h | h
                    · exact Or.inl h
                    · right; simp; omega
                  · simp [mutIdsL] at hi

/-! ### the transformer -/

theorem convInt_ids (o : Opts) (v : Val) : resIds (convInt o v) = [] := by
  cases v <;> simp only [convInt]
  · split <;> simp [resIds, Val.mutIds]
  · simp [resIds, Val.mutIds]
  · split
    · simp [resIds]
    · split
      · simp [resIds, Val.mutIds]
      · split <;> simp [resIds]
  · simp [resIds]

theorem guardL_fr (L : Ty → Cid) (f : Ty → Val → Comp) (A : List Nat) (ty : Ty) (v : Val) (s : St)
    (h : Fr A s (f ty v s).2 (resIds (f ty v s).1)) :
    Fr A s (guardL L f ty v s).2 (resIds (guardL L f ty v s).1) := by
  unfold guardL
  split
  · exact h
  · exact Fr.refl (by simp [resIds])

/-- the body of a container rebuild: convert every item -/
theorem mapBody_fr (A B : List Nat) (f : Val → Comp) (items : List Val) (ks : List String)
    (hitems : ∀ i ∈ mutIdsL items, i ∈ A) (hB : ∀ i ∈ B, i ∈ A)
    (hf : ∀ v ∈ items, ∀ s, Fr (v.mutIds ++ B) s (f v s).2 (resIds (f v s).1)) (s2 : St) :
    Fr A s2 (match mapC f items s2 with
        | (.error e, s3) => ((.error e, s3) : Except Err (List String × List Val) × St)
        | (.ok items', s3) => (.ok (ks, items'), s3)).2
      (bodyIds (match mapC f items s2 with
        | (.error e, s3) => ((.error e, s3) : Except Err (List String × List Val) × St)
        | (.ok items', s3) => (.ok (ks, items'), s3)).1) := by
  have hm := (mapC_fr f B items hf s2).weaken (A' := A)
    (fun i hi => by rcases List.mem_append.mp hi with h | h; exact hitems i h; exact hB i h) (fun _ h => h)
  cases hr : mapC f items s2 with
  | mk r s3 =>
    rw [hr] at hm
    cases r with
    | error e => exact hm.err
    | ok items' => simpa [bodyIds, resIdsL] using hm

theorem zipBody_fr (A B : List Nat) (f : Ty → Val → Comp) (ts : List Ty) (items : List Val)
    (hitems : ∀ i ∈ mutIdsL items, i ∈ A) (hB : ∀ i ∈ B, i ∈ A)
    (hf : ∀ t, ∀ v ∈ items, ∀ s, Fr (v.mutIds ++ B) s (f t v s).2 (resIds (f t v s).1)) (s2 : St) :
    Fr A s2 (match zipC f ts items s2 with
        | (.error e, s3) => ((.error e, s3) : Except Err (List String × List Val) × St)
        | (.ok items', s3) => (.ok ([], items'), s3)).2
      (bodyIds (match zipC f ts items s2 with
        | (.error e, s3) => ((.error e, s3) : Except Err (List String × List Val) × St)
        | (.ok items', s3) => (.ok ([], items'), s3)).1) := by
  have hm := (zipC_fr f B ts items hf s2).weaken (A' := A)
    (fun i hi => by rcases List.mem_append.mp hi with h | h; exact hitems i h; exact hB i h) (fun _ h => h)
  cases hr : zipC f ts items s2 with
  | mk r s3 =>
    rw [hr] at hm
    cases r with
    | error e => exact hm.err
    | ok items' => simpa [bodyIds, resIdsL] using hm

theorem conv_fr (L : Ty → Cid) (E : Env) (A : List Nat) (hleak : ∀ i ∈ E.leak, i ∈ A) :
    ∀ (fuel : Nat) (o : Opts) (ty : Ty) (v : Val), (∀ i ∈ v.mutIds, i ∈ A) → ∀ s,
      Fr A s (conv L E o fuel ty v s).2 (resIds (conv L E o fuel ty v s).1) := by
  intro fuel
  induction fuel generalizing A with
  | zero => intro o ty v hv s; exact Fr.refl (by simp [conv, resIds])
  | succ fuel ih =>
    intro o ty v hv s
    -- the recursive call, in the two shapes the traversals want
    have ihB : ∀ (o : Opts) (t : Ty) (w : Val) (s : St),
        Fr (w.mutIds ++ E.leak) s (conv L E o fuel t w s).2 (resIds (conv L E o fuel t w s).1) :=
      fun o t w s => ih (w.mutIds ++ E.leak) (fun i h => List.mem_append_right _ h) o t w
        (fun i h => List.mem_append_left _ h) s
    have ihA : ∀ (o : Opts) (t : Ty) (w : Val), (∀ i ∈ w.mutIds, i ∈ A) → ∀ s,
        Fr A s (conv L E o fuel t w s).2 (resIds (conv L E o fuel t w s).1) := fun o t w hw s => ih A hleak o t w hw s
    cases ty with
    | any => exact Fr.refl (by simpa [conv, resIds] using hv)
    | int => exact Fr.refl (by simp [conv, convInt_ids])
    | bare k => exact (convBare_fr o k v s).weaken hv (fun _ h => h)
    | seq k t =>
      simp only [conv]
      have h1 := (convBare_fr o k v s).weaken hv (fun _ h => h)
      cases hr : convBare o k v s with
      | mk r s1 =>
        rw [hr] at h1
        cases r with
        | error e => exact h1.err
        | ok w =>
          cases w with
          | none => exact h1.err
          | int n => exact h1.err
          | str x => exact h1.err
          | node j k' ks items =>
            simp only
            have hit : ∀ i ∈ mutIdsL items, i ∈ A ++ resIds (Except.ok (Val.node j k' ks items)) :=
              fun i hi => List.mem_append_right _ (by simp only [resIds]; exact mutIdsL_sub_node hi)
            have h2 := newThenFill_fr .list _ (A ++ resIds (Except.ok (Val.node j k' ks items)))
              (mapBody_fr (A ++ resIds (Except.ok (Val.node j k' ks items))) E.leak (conv L E o fuel t) items [] hit
                (fun i hi => List.mem_append_left _ (hleak i hi)) (fun w _ s => ihB o t w s)) s1
            have h12 := h1.comp h2
            cases hm : newThenFill .list (fun s2 => match mapC (conv L E o fuel t) items s2 with
                | (.error e, s3) => (.error e, s3)
                | (.ok items', s3) => (.ok ([], items'), s3)) s1 with
            | mk r3 s3 =>
              rw [hm] at h12
              cases r3 with
              | error e => exact h12.err
              | ok r =>
                simp only
                split
                · exact h12
                · have h3 := mkSeq_fr k r.kids false s3
                  exact h12.comp (h3.weaken (fun i hi => List.mem_append_right _ (by simpa [resIds] using items_ids_sub r i hi)) (fun _ h => h))
    | map t =>
      simp only [conv]
      have h1 := (convBare_fr o .dict v s).weaken hv (fun _ h => h)
      cases hr : convBare o .dict v s with
      | mk r s1 =>
        rw [hr] at h1
        cases r with
        | error e => exact h1.err
        | ok w =>
          cases w with
          | none => exact h1.err
          | int n => exact h1.err
          | str x => exact h1.err
          | node j k' ks items =>
            simp only
            have hit : ∀ i ∈ mutIdsL items, i ∈ A ++ resIds (Except.ok (Val.node j k' ks items)) :=
              fun i hi => List.mem_append_right _ (by simp only [resIds]; exact mutIdsL_sub_node hi)
            have h2 := newThenFill_fr .dict _ (A ++ resIds (Except.ok (Val.node j k' ks items)))
              (mapBody_fr (A ++ resIds (Except.ok (Val.node j k' ks items))) E.leak (conv L E o fuel t) items ks hit
                (fun i hi => List.mem_append_left _ (hleak i hi)) (fun w _ s => ihB o t w s)) s1
            exact h1.comp h2
    | tup ts =>
      simp only [conv]
      split
      · exact Fr.refl (by simp [resIds])
      · have h1 := (convBare_fr o .tuple v s).weaken hv (fun _ h => h)
        cases hr : convBare o .tuple v s with
        | mk r s1 =>
          rw [hr] at h1
          cases r with
          | error e => exact h1.err
          | ok w =>
            cases w with
            | none => exact h1.err
            | int n => exact h1.err
            | str x => exact h1.err
            | node j k' ks items =>
              simp only
              have hit : ∀ i ∈ mutIdsL items, i ∈ A ++ resIds (Except.ok (Val.node j k' ks items)) :=
                fun i hi => List.mem_append_right _ (by simp only [resIds]; exact mutIdsL_sub_node hi)
              have h2 := newThenFill_fr .list _ (A ++ resIds (Except.ok (Val.node j k' ks items)))
                (zipBody_fr (A ++ resIds (Except.ok (Val.node j k' ks items))) E.leak (conv L E o fuel) ts items hit
                  (fun i hi => List.mem_append_left _ (hleak i hi)) (fun t w _ s => ihB o t w s)) s1
              have h12 := h1.comp h2
              cases hm : newThenFill .list (fun s2 => match zipC (conv L E o fuel) ts items s2 with
                  | (.error e, s3) => (.error e, s3)
                  | (.ok items', s3) => (.ok ([], items'), s3)) s1 with
              | mk r3 s3 =>
                rw [hm] at h12
                cases r3 with
                | error e => exact h12.err
                | ok r =>
                  simp only
                  have h3 := mk_fr .tuple [] r.kids false s3
                  exact h12.comp (h3.weaken (fun i hi => List.mem_append_right _ (by simpa [resIds] using items_ids_sub r i hi)) (fun _ h => h))
    | con t lg mx mn =>
      simp only [conv]
      have h1 := ihA o t v hv s
      cases hr : conv L E o fuel t v s with
      | mk r s1 =>
        rw [hr] at h1
        cases r with
        | error e => exact h1.err
        | ok w =>
          simp only
          exact h1.comp ((applyCons_fr lg mx mn w s1).weaken
            (fun i hi => List.mem_append_right _ (by simpa [resIds] using hi)) (fun _ h => h))
    | opt t =>
      simp only [conv]
      cases v with
      | none => exact Fr.refl (by simp [resIds, Val.mutIds])
      | int n => exact ihA o t _ hv s
      | str x => exact ihA o t _ hv s
      | node j k ks xs => exact ihA o t _ hv s
    | data k =>
      simp only [conv]
      have hinit : ∀ (ks : List String) (xs : List Val), (∀ w ∈ xs, ∀ i ∈ w.mutIds, i ∈ A) →
          Fr A s (initWith (guardL L (conv L E {} fuel)) {} E k ks xs s).2 (resIds (initWith (guardL L (conv L E {} fuel)) {} E k ks xs s).1) :=
        fun ks xs hx => initWith_fr (guardL L (conv L E {} fuel)) {} A E k ks xs hx (fun t w hw s => guardL_fr L _ A t w s (ihA {} t w hw s))
          (by simp [ROpts.opqIds]) hleak s
      cases v with
      | none => exact Fr.refl (by simp [resIds])
      | int n => exact Fr.refl (by simp [resIds])
      | str x => exact Fr.refl (by simp [resIds])
      | node j kd ks xs =>
        have hxs : ∀ w ∈ xs, ∀ i ∈ w.mutIds, i ∈ A :=
          fun w hw i hi => hv i (mutIdsL_sub_node (mem_mutIdsL.mpr ⟨w, hw, hi⟩))
        cases kd with
        | inst k' =>
          simp only
          split
          · exact Fr.refl (by simpa [resIds] using hv)
          · exact Fr.refl (by simp [resIds])
        | usr b =>
          simp only
          split
          · exact hinit [] [] (by simp)
          · exact Fr.refl (by simp [resIds])
        | dict => exact hinit ks xs hxs
        | list =>
          simp only
          split
          · exact hinit [] [] (by simp)
          · exact Fr.refl (by simp [resIds])
        | tuple =>
          simp only
          split
          · exact hinit [] [] (by simp)
          · exact Fr.refl (by simp [resIds])
        | set =>
          simp only
          split
          · exact hinit [] [] (by simp)
          · exact Fr.refl (by simp [resIds])
        | fset =>
          simp only
          split
          · exact hinit [] [] (by simp)
          · exact Fr.refl (by simp [resIds])
        | opq tg =>
          simp only
          split
          · exact hinit [] [] (by simp)
          · exact Fr.refl (by simp [resIds])

/-! ### one parse through the public API -/

theorem zip_snd_ids (ks : List String) (xs : List Val) :
    ∀ i ∈ mutIdsL ((ks.zip xs).map (·.2)), i ∈ mutIdsL xs := by
  intro i hi
  obtain ⟨v, hv, h⟩ := mem_mutIdsL.mp hi
  obtain ⟨q, hq, rfl⟩ := List.mem_map.mp hv
  exact mem_mutIdsL.mpr ⟨q.2, (List.of_mem_zip hq).2, h⟩

theorem callWith_fr (optsOf : List (Option Opts) → Nat → Opts) (L : Ty → Cid) (rb : Bool) (ro : ROpts) (E : Env) (A : List Nat)
    (hleak : ∀ i ∈ E.leak, i ∈ A) (hro : ∀ i ∈ ro.opqIds, i ∈ A) (target wrapper : Nat) (ks : List String) (xs : List Val)
    (hx : ∀ v ∈ xs, ∀ i ∈ v.mutIds, i ∈ A) (s : St) :
    Fr A s (callWith optsOf L rb ro E target wrapper ks xs s).2 (resIds (callWith optsOf L rb ro E target wrapper ks xs s).1) := by
  simp only [callWith]
  cases hk : E[target]? with
  | none => exact Fr.refl (by simp [resIds])
  | some d =>
    simp only
    split
    · exact Fr.refl (by simp [resIds])
    split
    · have h1 := parseInto_fr (guardL L (conv L E (optsOf d.wrappers wrapper) fuelDefault)) {} A { d with dfs := false } ks xs hx
        (fun t w hw s => guardL_fr L _ A t w s (conv_fr L E A hleak fuelDefault _ t w hw s)) (by simp [ROpts.opqIds])
        (fun f hf i hi => hleak i (leak_of_field hk f hf i hi)) s
      cases hr : parseInto (guardL L (conv L E (optsOf d.wrappers wrapper) fuelDefault)) {} { d with dfs := false } ks xs s with
      | mk r s1 =>
        rw [hr] at h1
        cases r with
        | error e => exact h1.err
        | ok pk =>
          simp only
          have hpk : ∀ i ∈ mutIdsL (((itemsOf pk).1.zip (itemsOf pk).2).map (·.2)), i ∈ A ++ resIds (Except.ok pk) :=
            fun i hi => List.mem_append_right _ (by
              simp only [resIds]; exact itemsOf_ids pk i (zip_snd_ids _ _ i hi))
          have hb : ∀ s2, Fr (A ++ resIds (Except.ok pk)) s2 (mkBinding ((itemsOf pk).1.zip (itemsOf pk).2) s2).2
              (resIds (mkBinding ((itemsOf pk).1.zip (itemsOf pk).2) s2).1) :=
            fun s2 => (mkBinding_fr _ s2).weaken hpk (fun _ h => h)
          cases hret : d.ret with
          | none => exact h1.comp (hb s1)
          | some rt =>
            obtain ⟨fname, ty⟩ := rt
            simp only
            cases hl : lookupKV fname (((itemsOf pk).1.zip (itemsOf pk).2).map (·.1)) (((itemsOf pk).1.zip (itemsOf pk).2).map (·.2)) with
            | none => exact h1.comp (hb s1)
            | some v =>
              simp only
              have hv : ∀ i ∈ v.mutIds, i ∈ A ++ resIds (Except.ok pk) := fun i hi =>
                hpk i (mem_mutIdsL.mpr ⟨v, lookupKV_mem _ _ _ _ hl, hi⟩)
              have h2 := guardL_fr L _ _ ty v s1 (conv_fr L E (A ++ resIds (Except.ok pk)) (fun i hi => List.mem_append_left _ (hleak i hi))
                fuelDefault (optsOf d.wrappers wrapper) ty v hv s1)
              cases hc : guardL L (conv L E (optsOf d.wrappers wrapper) fuelDefault) ty v s1 with
              | mk r2 s2 =>
                rw [hc] at h2
                cases r2 with
                | error e => exact (h1.comp h2).err
                | ok _ =>
                  simp only
                  have h12 : Fr A s s2 (resIds (Except.ok pk)) :=
                    (h1.carry h2.err).weaken (fun _ h => h) (fun i hi => by simpa using hi)
                  exact h12.comp (hb s2)
    · exact initWith_fr (guardL L (conv L E {} fuelDefault)) ro A E target ks xs hx
        (fun t w hw s => guardL_fr L _ A t w s (conv_fr L E A hleak fuelDefault _ t w hw s)) hro hleak s

/-! ### in-place writes -/

mutual
theorem write_eq_self (i : Nat) (f : Kind → List String → List Val → Option (List String × List Val)) (v : Val)
    (h : i ∉ v.mutIds) : v.write i f = v := by
  match v with
  | .none => simp [Val.write]
  | .int _ => simp [Val.write]
  | .str _ => simp [Val.write]
  | .node j k ks xs =>
    have hxs : i ∉ mutIdsL xs := fun hh => h (mutIdsL_sub_node hh)
    have ih := writeL_eq_self i f xs hxs
    simp only [Val.write, ih]
    split
    · rename_i hc
      exfalso
      simp only [Bool.and_eq_true, beq_iff_eq] at hc
      apply h
      simp [Val.mutIds, hc.2, hc.1]
    · rfl
theorem writeL_eq_self (i : Nat) (f : Kind → List String → List Val → Option (List String × List Val)) (xs : List Val)
    (h : i ∉ mutIdsL xs) : writeL i f xs = xs := by
  match xs with
  | [] => simp [writeL]
  | v :: vs =>
    simp only [mutIdsL, List.mem_append, not_or] at h
    simp [writeL, write_eq_self i f v h.1, writeL_eq_self i f vs h.2]
end

/-- a write that puts into the object, besides what it held, only objects from `S` -/
def AddsOnly (S : List Nat) (f : Kind → List String → List Val → Option (List String × List Val)) : Prop :=
  ∀ k ks xs ks' xs', f k ks xs = some (ks', xs') → ∀ j ∈ mutIdsL xs', j ∈ mutIdsL xs ∨ j ∈ S

/-- a write that only puts atoms (or nothing) into the object -/
def AddsNoIds (f : Kind → List String → List Val → Option (List String × List Val)) : Prop :=
  ∀ k ks xs ks' xs', f k ks xs = some (ks', xs') → ∀ j ∈ mutIdsL xs', j ∈ mutIdsL xs

theorem addsNoIds_only {f : Kind → List String → List Val → Option (List String × List Val)} (h : AddsNoIds f) :
    AddsOnly [] f := fun k ks xs ks' xs' he j hj => Or.inl (h k ks xs ks' xs' he j hj)

mutual
theorem write_ids_sub' (S : List Nat) (i : Nat) (f : Kind → List String → List Val → Option (List String × List Val))
    (hf : AddsOnly S f) (v : Val) : ∀ j ∈ (v.write i f).mutIds, j ∈ v.mutIds ∨ j ∈ S := by
  match v with
  | .none => intro j hj; simp [Val.write, Val.mutIds] at hj
  | .int _ => intro j hj; simp [Val.write, Val.mutIds] at hj
  | .str _ => intro j hj; simp [Val.write, Val.mutIds] at hj
  | .node a k ks xs =>
    have ih := writeL_ids_sub' S i f hf xs
    intro j hj
    simp only [Val.write] at hj
    have hsub : ∀ j, j ∈ (Val.node a k ks (writeL i f xs)).mutIds → j ∈ (Val.node a k ks xs).mutIds ∨ j ∈ S := by
      intro j hj
      cases hk : k.mutable with
      | true =>
        simp only [Val.mutIds, hk, if_true] at hj ⊢
        rcases List.mem_cons.mp hj with h | h
        · left; simp [h]
        · rcases ih j h with h' | h'
          · exact Or.inl (List.mem_cons_of_mem _ h')
          · exact Or.inr h'
      | false =>
        simp only [Val.mutIds, hk] at hj ⊢
        exact ih j (by simpa using hj)
    by_cases hc : (a == i && k.mutable) = true
    · have hk : k.mutable = true := by simp only [Bool.and_eq_true] at hc; exact hc.2
      simp only [hc, if_true] at hj
      cases hfe : f k ks (writeL i f xs) with
      | none => rw [hfe] at hj; exact hsub j hj
      | some p =>
        obtain ⟨ks', xs'⟩ := p
        rw [hfe] at hj
        simp only at hj
        rcases mutIds_node_sub hj with h | h
        · left; simp [Val.mutIds, hk, h]
        · rcases hf _ _ _ _ _ hfe j h with h' | h'
          · rcases ih j h' with h'' | h''
            · exact Or.inl (mutIdsL_sub_node h'')
            · exact Or.inr h''
          · exact Or.inr h'
    · simp only [hc] at hj
      exact hsub j hj
theorem writeL_ids_sub' (S : List Nat) (i : Nat) (f : Kind → List String → List Val → Option (List String × List Val))
    (hf : AddsOnly S f) (xs : List Val) : ∀ j ∈ mutIdsL (writeL i f xs), j ∈ mutIdsL xs ∨ j ∈ S := by
  match xs with
  | [] => intro j hj; simp [writeL, mutIdsL] at hj
  | v :: vs =>
    intro j hj
    simp only [writeL, mutIdsL, List.mem_append] at hj ⊢
    rcases hj with h | h
    · rcases write_ids_sub' S i f hf v j h with h' | h'
      · exact Or.inl (Or.inl h')
      · exact Or.inr h'
    · rcases writeL_ids_sub' S i f hf vs j h with h' | h'
      · exact Or.inl (Or.inr h')
      · exact Or.inr h'
end

theorem write_ids_sub (i : Nat) (f : Kind → List String → List Val → Option (List String × List Val))
    (hf : AddsNoIds f) (v : Val) : ∀ j ∈ (v.write i f).mutIds, j ∈ v.mutIds := by
  intro j hj
  rcases write_ids_sub' [] i f (addsNoIds_only hf) v j hj with h | h
  · exact h
  · simp at h

/-! ### writes applied to a world -/

theorem map_eq_self {α : Type _} (f : α → α) (l : List α) (h : ∀ a ∈ l, f a = a) : l.map f = l := by
  induction l with
  | nil => rfl
  | cons a l ih =>
    simp only [List.map]
    rw [h a (by simp), ih (fun b hb => h b (List.mem_cons_of_mem _ hb))]

theorem declIds_of_field {E : Env} {d : Decl} {fl : Field} {v : Val} (hd : d ∈ E) (hf : fl ∈ d.fields)
    (hv : v ∈ fl.dflt.vals) : ∀ i ∈ v.mutIds, i ∈ E.declIds := by
  intro i hi
  refine mem_mutIdsL.mpr ⟨v, ?_, hi⟩
  simp only [Env.dfltVals, Decl.dfltVals, List.mem_flatMap]
  exact ⟨d, hd, fl, hf, hv⟩

theorem rootIds_of_root {w : World} {v : Val} (h : some v ∈ w.roots) : ∀ i ∈ v.mutIds, i ∈ w.rootIds := by
  intro i hi
  refine mem_mutIdsL.mpr ⟨v, ?_, hi⟩
  simp only [World.rootVals, List.mem_filterMap]
  exact ⟨some v, h, rfl⟩

theorem writeAll_env_eq (w : World) (i : Nat) (f : Kind → List String → List Val → Option (List String × List Val))
    (h1 : i ∉ w.env.declIds) : (w.writeAll i f).env = w.env := by
  simp only [World.writeAll]
  apply map_eq_self
  intro d hd
  have : d.fields.map (Field.write i f) = d.fields := by
    apply map_eq_self
    intro fl hfl
    have hd' : fl.dflt.write i f = fl.dflt := by
      cases hdf : fl.dflt with
      | none => rfl
      | fresh sh => rfl
      | val v =>
        have hv : i ∉ v.mutIds := fun hh => h1 (declIds_of_field hd hfl (by simp [hdf, Dflt.vals]) i hh)
        simp [Dflt.write, write_eq_self i f v hv]
      | shared v =>
        have hv : i ∉ v.mutIds := fun hh => h1 (declIds_of_field hd hfl (by simp [hdf, Dflt.vals]) i hh)
        simp [Dflt.write, write_eq_self i f v hv]
    simp only [Field.write, hd']
  simp only [Decl.write, this]

theorem writeAll_roots_eq (w : World) (i : Nat) (f : Kind → List String → List Val → Option (List String × List Val))
    (h2 : i ∉ w.rootIds) : (w.writeAll i f).roots = w.roots := by
  simp only [World.writeAll]
  apply map_eq_self
  intro r hr
  cases r with
  | none => rfl
  | some v =>
    have hv : i ∉ v.mutIds := fun hh => h2 (rootIds_of_root hr i hh)
    simp [write_eq_self i f v hv]

theorem writeAll_next (w : World) (i : Nat) (f : Kind → List String → List Val → Option (List String × List Val)) :
    (w.writeAll i f).next = w.next := rfl

theorem World.ext' {a b : World} (h1 : a.env = b.env) (h2 : a.next = b.next) (h3 : a.roots = b.roots)
    (h4 : a.proc = b.proc) : a = b := by
  cases a; cases b; simp_all

theorem writeAll_eq_self (w : World) (i : Nat) (f : Kind → List String → List Val → Option (List String × List Val))
    (h1 : i ∉ w.env.declIds) (h2 : i ∉ w.rootIds) : w.writeAll i f = w :=
  World.ext' (writeAll_env_eq w i f h1) rfl (writeAll_roots_eq w i f h2) rfl

theorem applyWrites_eq_self (w : World) (ws : List Nat)
    (h : ∀ i ∈ ws, i ∉ w.env.declIds ∧ i ∉ w.rootIds) : w.applyWrites ws = w := by
  induction ws with
  | nil => rfl
  | cons i ws ih =>
    simp only [World.applyWrites, List.foldl]
    have := writeAll_eq_self w i clobber (h i (by simp)).1 (h i (by simp)).2
    rw [this]
    exact ih (fun j hj => h j (List.mem_cons_of_mem _ hj))

theorem writeAll_rootIds_sub' (S : List Nat) (w : World) (i : Nat) (f : Kind → List String → List Val → Option (List String × List Val))
    (hf : AddsOnly S f) : ∀ j ∈ (w.writeAll i f).rootIds, j ∈ w.rootIds ∨ j ∈ S := by
  intro j hj
  obtain ⟨v, hv, hjv⟩ := mem_mutIdsL.mp hj
  simp only [World.rootVals, World.writeAll, List.mem_filterMap, List.mem_map] at hv
  obtain ⟨r, ⟨r0, hr0, hr0e⟩, hre⟩ := hv
  cases r0 with
  | none => simp at hr0e; subst hr0e; simp at hre
  | some v0 =>
    simp at hr0e; subst hr0e; simp at hre; subst hre
    rcases write_ids_sub' S i f hf v0 j hjv with h | h
    · exact Or.inl (rootIds_of_root hr0 j h)
    · exact Or.inr h

theorem writeAll_rootIds_sub (w : World) (i : Nat) (f : Kind → List String → List Val → Option (List String × List Val))
    (hf : AddsNoIds f) : ∀ j ∈ (w.writeAll i f).rootIds, j ∈ w.rootIds := by
  intro j hj
  rcases writeAll_rootIds_sub' [] w i f (addsNoIds_only hf) j hj with h | h
  · exact h
  · simp at h

/-! ### the caller's writes insert atoms only -/

theorem setKV_ids (k : String) (v : Val) : ∀ (ks : List String) (xs : List Val),
    ∀ j ∈ mutIdsL (setKV k v ks xs).2, j ∈ mutIdsL xs ∨ j ∈ v.mutIds
  | [], xs, j, h => by simp [setKV, mutIdsL] at h; exact Or.inr h
  | _ :: _, [], j, h => by simp [setKV, mutIdsL] at h; exact Or.inr h
  | a :: as, x :: xs, j, h => by
    simp only [setKV] at h
    split at h
    · simp only [mutIdsL, List.mem_append] at h ⊢
      rcases h with h | h
      · exact Or.inr h
      · exact Or.inl (Or.inr h)
    · simp only [mutIdsL, List.mem_append] at h ⊢
      rcases h with h | h
      · exact Or.inl (Or.inl h)
      · rcases setKV_ids k v as xs j h with h' | h'
        · exact Or.inl (Or.inr h')
        · exact Or.inr h'

theorem delKV_ids (k : String) : ∀ (ks : List String) (xs : List Val),
    ∀ j ∈ mutIdsL (delKV k ks xs).2, j ∈ mutIdsL xs
  | [], xs, j, h => by simp [delKV, mutIdsL] at h
  | _ :: _, [], j, h => by simp [delKV, mutIdsL] at h
  | a :: as, x :: xs, j, h => by
    simp only [delKV] at h
    split at h
    · simp only [mutIdsL, List.mem_append]; exact Or.inr h
    · simp only [mutIdsL, List.mem_append] at h ⊢
      rcases h with h | h
      · exact Or.inl h
      · exact Or.inr (delKV_ids k as xs j h)

theorem dropLast_ids_sub (xs : List Val) : ∀ j ∈ mutIdsL xs.dropLast, j ∈ mutIdsL xs := by
  intro j hj
  obtain ⟨v, hv, h⟩ := mem_mutIdsL.mp hj
  exact mem_mutIdsL.mpr ⟨v, List.dropLast_subset xs hv, h⟩

/-- a caller's write puts into the target only the objects of the value it inserts -/
theorem act_addsOnly (act : Act) : AddsOnly act.ids act.apply := by
  intro k ks xs ks' xs' he j hj
  unfold Act.apply at he
  split at he
  · simp only [Option.some.injEq, Prod.mk.injEq] at he
    obtain ⟨_, rfl⟩ := he
    simpa [mutIdsL_append, mutIdsL, Act.ids] using hj
  · simp only [Option.some.injEq, Prod.mk.injEq] at he
    obtain ⟨_, rfl⟩ := he
    split at hj
    · exact Or.inl hj
    · simpa [mutIdsL_append, mutIdsL, Act.ids] using hj
  · simp only [Option.some.injEq] at he
    have := setKV_ids _ _ _ _ j (by rw [he]; exact hj)
    simpa [Act.ids] using this
  · simp only [Option.some.injEq, Prod.mk.injEq] at he
    obtain ⟨_, rfl⟩ := he
    simp [mutIdsL] at hj
  · simp only [Option.some.injEq, Prod.mk.injEq] at he
    obtain ⟨_, rfl⟩ := he
    simp [mutIdsL] at hj
  · simp only [Option.some.injEq, Prod.mk.injEq] at he
    obtain ⟨_, rfl⟩ := he
    simp [mutIdsL] at hj
  · simp only [Option.some.injEq, Prod.mk.injEq] at he
    obtain ⟨_, rfl⟩ := he
    exact Or.inl (dropLast_ids_sub _ j hj)
  · simp only [Option.some.injEq] at he
    exact Or.inl (delKV_ids _ _ _ j (by rw [he]; exact hj))
  · simp at he

theorem setItemF_ok (fname : String) (v : Val) (hv : v.mutIds = []) : AddsNoIds (setItemF fname v) := by
  intro k ks xs ks' xs' he j hj
  simp only [setItemF, Option.some.injEq] at he
  have := setKV_ids fname v ks xs j (by rw [he]; exact hj)
  simpa [hv] using this

theorem instDelF_ok (fname : String) : AddsNoIds (instDelF fname) := by
  intro k ks xs ks' xs' he j hj
  unfold instDelF at he
  split at he
  · rename_i ks0 x xs0
    simp only [Option.some.injEq, Prod.mk.injEq] at he
    obtain ⟨_, rfl⟩ := he
    simp only [mutIdsL, List.mem_append] at hj ⊢
    rcases hj with h | h
    · exact Or.inl h
    · exact Or.inr (delKV_ids fname ks0 xs0 j h)
  · simp at he

theorem instSetF_ok (fname : String) (v : Val) (hv : v.mutIds = []) : AddsNoIds (instSetF fname v) := by
  intro k ks xs ks' xs' he j hj
  unfold instSetF at he
  split at he
  · rename_i ks0 x xs0
    simp only [Option.some.injEq, Prod.mk.injEq] at he
    obtain ⟨_, rfl⟩ := he
    simp only [mutIdsL, List.mem_append] at hj ⊢
    rcases hj with h | h
    · exact Or.inl h
    · have := setKV_ids fname v ks0 xs0 j h
      exact Or.inr (by simpa [hv] using this)
  · simp at he

theorem setattrWrites_ok (d : Decl) (fname : String) (v : Val) (hv : v.mutIds = []) (root : Val) :
    ∀ p ∈ setattrWrites d fname v root, p.1 ∈ root.mutIds ∧ AddsNoIds p.2 := by
  intro p hp
  unfold setattrWrites at hp
  split at hp
  · rename_i i c b ks a aks avs xs0
    have hi : i ∈ (Val.node i (Kind.inst c b) ks (Val.node a Kind.dict aks avs :: xs0)).mutIds := by
      simp [Val.mutIds, Kind.mutable, Kind.base]
    have ha : a ∈ (Val.node i (Kind.inst c b) ks (Val.node a Kind.dict aks avs :: xs0)).mutIds := by
      simp [Val.mutIds, Kind.mutable, Kind.base, mutIdsL]
    simp only at hp
    split at hp
    · split at hp
      · simp only [List.mem_cons, List.not_mem_nil, or_false] at hp
        rcases hp with rfl | rfl
        · exact ⟨ha, setItemF_ok fname v hv⟩
        · exact ⟨hi, instDelF_ok fname⟩
      · simp only [List.mem_cons, List.not_mem_nil, or_false] at hp
        subst hp
        exact ⟨hi, instSetF_ok fname v hv⟩
    · simp only [List.mem_cons, List.not_mem_nil, or_false] at hp
      subst hp
      exact ⟨ha, setItemF_ok fname v hv⟩
  · simp at hp

theorem schemaCopy_fr (v : Val) (s : St) :
    Fr v.mutIds s (schemaCopy v s).2 (resIds (schemaCopy v s).1) := by
  unfold schemaCopy
  split
  · rename_i j k ks a aks avs xs s0
    simp only [mk, fill, Bool.false_eq_true, ↓reduceIte]
    refine ⟨by simp; omega, ?_, ?_⟩
    · intro i hi
      simp only [List.mem_cons] at hi
      rcases hi with rfl | h
      · right; simp; omega
      · exact Or.inl h
    · intro i hi
      simp only [resIds] at hi
      rcases mutIds_node_sub hi with h | h
      · right; simp; omega
      · simp only [mutIdsL, List.mem_append] at h
        rcases h with h | h
        · rcases mutIds_node_sub h with h | h
          · right; simp; omega
          · left
            apply mutIdsL_sub_node
            simp only [mutIdsL, List.mem_append]
            exact Or.inl (mutIdsL_sub_node h)
        · left
          apply mutIdsL_sub_node
          simp only [mutIdsL, List.mem_append]
          exact Or.inr h
  · exact Fr.refl (by simp [resIds])

theorem setattrWrites_targets (d : Decl) (fname : String) (v : Val) (i k : Nat) (b : Bool) (ks : List String) (a : Nat)
    (aks : List String) (avs xs : List Val) :
    ∀ p ∈ setattrWrites d fname v (.node i (.inst k b) ks (.node a .dict aks avs :: xs)), p.1 = i ∨ p.1 = a := by
  intro p hp
  simp only [setattrWrites] at hp
  split at hp
  · split at hp
    · simp only [List.mem_cons, List.not_mem_nil, or_false] at hp
      rcases hp with rfl | rfl
      · exact Or.inr rfl
      · exact Or.inl rfl
    · simp only [List.mem_cons, List.not_mem_nil, or_false] at hp
      subst hp; exact Or.inl rfl
  · simp only [List.mem_cons, List.not_mem_nil, or_false] at hp
    subst hp; exact Or.inr rfl

end Utv.C19
