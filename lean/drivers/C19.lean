import Utv.Model.C19
import Utv.Util.J
open Lean Utv.J Utv.C19

/-! Line-protocol driver for C19: one program (declarations + history) per line; answers the outcome of
every operation and the final object graph with raw object ids (the harness sorts and relabels). -/

def kindOfName : String → Option Kind
  | "list" => some .list | "tuple" => some .tuple | "set" => some .set | "fset" => some .fset
  | "dict" => some .dict | "bytearray" => some (.opq 0) | "deque" => some (.opq 1)
  -- instances of user subclasses: class SL(list), ST(tuple), SS(set), SF(frozenset), SD(dict), SQ(deque), a namedtuple
  | "SL" => some (.usr .list) | "ST" => some (.usr .tuple) | "SS" => some (.usr .set) | "SF" => some (.usr .fset)
  | "SD" => some (.usr .dict) | "SQ" => some (.usr .deque) | "NT" => some (.usr .ntuple) | _ => none

def kindName : Kind → String
  | .list => "list" | .tuple => "tuple" | .set => "set" | .fset => "fset" | .dict => "dict"
  | .inst k _ => s!"inst:{k}" | .opq 0 => "bytearray" | .opq _ => "deque"
  | .usr .list => "SL" | .usr .tuple => "ST" | .usr .set => "SS" | .usr .fset => "SF"
  | .usr .dict => "SD" | .usr .deque => "SQ" | .usr .ntuple => "NT"

def strs (j : Json) : List String := (arr! j).map str!

/-- sort key/value pairs by key (insertion sort; keys are unique) -/
def insKV (k : String) (v : Val) : List (String × Val) → List (String × Val)
  | [] => [(k, v)]
  | (a, x) :: r => if k < a then (k, v) :: (a, x) :: r else (a, x) :: insKV k v r
def sortKV (l : List (String × Val)) : List (String × Val) := l.foldl (fun acc p => insKV p.1 p.2 acc) []

def atomLt : Val → Val → Bool
  | .none, .none => false
  | .none, _ => true
  | .int _, .none => false
  | .int a, .int b => a < b
  | .int _, _ => true
  | .str a, .str b => a < b
  | .str _, .node .. => true
  | _, _ => false
def insA (v : Val) : List Val → List Val
  | [] => [v]
  | x :: r => if atomLt v x then v :: x :: r else x :: insA v r
def sortA (l : List Val) : List Val := l.foldl (fun acc v => insA v acc) []

/-- children in the canonical order the harness uses -/
def canonKids : Val → List Val
  | .node _ k ks xs =>
      match k.base with
      | .dict => (sortKV (ks.zip xs)).map (·.2)
      | .inst _ _ => match ks.zip xs with
        | p :: r => p.2 :: (sortKV r).map (·.2)
        | [] => []
      | .set | .fset => sortA xs
      | _ => xs
  | _ => []

/-- node found at a canonical child-index path; the flag says "this is an instance's __dict__" -/
def walkPath : Val → List Nat → Bool → Option (Val × Bool)
  | v, [], f => some (v, f)
  | v, i :: p, _ =>
      match (canonKids v)[i]? with
      | some c => walkPath c p (match v with | .node _ (.inst _ _) _ _ => i == 0 | _ => false)
      | none => none

structure B where
  next : Nat
  tags : List (Nat × Val) := []
  bad : Option String := none

/-- build a value with identities from its JSON descriptor -/
partial def buildVal (roots : List (Option Val)) (j : Json) (b : B) : Val × B :=
  match j with
  | .null => (.none, b)
  | .num _ => (.int (int! j), b)
  | .str s => (.str s, b)
  | _ =>
    match obj? j "ref" with
    | some t => match b.tags.lookup (nat! t) with
      | some v => (v, b)
      | none => (.none, { b with bad := some "unknown ref" })
    | none =>
    match obj? j "root" with
    | some r =>
      match (roots[nat! r]?).bind id with
      | some rv => match walkPath rv ((arr! (fld j "path")).map nat!) false with
        | some (v, false) => (v, b)
        | _ => (.none, b)          -- dangling reference / an instance's __dict__: the caller passes None
      | none => (.none, b)
    | none =>
      match kindOfName (str! (fld j "k")) with
      | none => (.none, { b with bad := some "bad kind" })
      | some k =>
        let (items, b1) := (arr! (fld j "items")).foldl (fun (acc : List Val × B) x =>
          let (v, b') := buildVal roots x acc.2; (acc.1 ++ [v], b')) ([], b)
        let v := Val.node b1.next k (strs (fld j "keys")) items
        let b2 := { b1 with next := b1.next + 1 }
        match obj? j "tag" with
        | some t => (v, { b2 with tags := (nat! t, v) :: b2.tags })
        | none => (v, b2)

partial def shapeOf (j : Json) : Option Shape :=
  match j with
  | .null => some .none
  | .num _ => some (.int (int! j))
  | .str s => some (.str s)
  | _ =>
    if (obj? j "ref").isSome || (obj? j "tag").isSome || (obj? j "root").isSome then none else
    match kindOfName (str! (fld j "k")) with
    | none => none
    | some k =>
      let items := (arr! (fld j "items")).map shapeOf
      if items.all Option.isSome then some (.node k (strs (fld j "keys")) (items.filterMap id)) else none

partial def tyOf (j : Json) : Ty :=
  match j with
  | .str "any" => .any
  | .str "int" => .int
  | _ =>
    match obj? j "bare" with
    | some k => .bare ((kindOfName (str! k)).getD .list)
    | none => match obj? j "seq" with
    | some k => .seq ((kindOfName (str! k)).getD .list) (tyOf (fld j "of"))
    | none => match obj? j "map" with
    | some t => .map (tyOf t)
    | none => match obj? j "tup" with
    | some ts => .tup ((arr! ts).map tyOf)
    | none => match obj? j "opt" with
    | some t => .opt (tyOf t)
    | none => .data (nat! (fld j "data"))

def optsOf (j : Json) : Option Opts :=
  if isNull j then none else some { strict := bool! (fld j "no_explicit_cast") }

partial def hasNT : Val → Bool
  | .node _ k _ xs => k == .usr .ntuple || xs.any hasNT
  | _ => false

def boundOf (j : Json) : Option (Nat × Bool) :=
  if isNull j then none else
  match obj? j "lax" with
  | some n => some (nat! n, true)
  | none => some (nat! j, false)

/-- the field type, wrapped in the field's length constraints when it has any -/
def fieldTy (fj : Json) : Ty :=
  let t := tyOf (fld fj "ty")
  match obj? fj "cons" with
  | some c => if isNull c then t else
      .con t (boundOf (fld c "length")) (boundOf (fld c "max_length"))
        (if isNull (fld c "min_length") then none else some (nat! (fld c "min_length")))
  | none => t

/-- one declaration.  A subclass (`"base": j`) takes the base's fields over as they are — the same ParserField
objects, hence the same default objects (cls.py:223-257) — and adds its own. -/
def buildDecl (env : Env) (dj : Json) (b0 : B) : Decl × List Val × B :=
    let (fields, b) := (arr! (fld dj "fields")).foldl (fun (fa : List Field × B) fj =>
      let dj' := fld fj "default"
      let (dflt, b') : Dflt × B :=
        if isNull dj' then (.none, fa.2) else
        match str! (fld dj' "how") with
        | "fresh" => match shapeOf (fld dj' "val") with
          | some sh => (.fresh sh, fa.2)
          | none => (.none, { fa.2 with bad := some "fresh factory with sharing" })
        | "shared" => let (v, b') := buildVal [] (fld dj' "val") fa.2; (.shared v, b')
        | _ => let (v, b') := buildVal [] (fld dj' "val") fa.2; (.val v, b')
      -- `type(data)([...])` on a namedtuple raises TypeError out of get_default: outside the modelled fragment
      let freshNT : Bool := match dflt with
        | .fresh _ => ((fld dj' "val").compress.splitOn "\"NT\"").length > 1
        | _ => false
      let b' := if dflt.vals.any hasNT || freshNT then { b' with bad := some "namedtuple default" } else b'
      (fa.1 ++ [{ name := str! (fld fj "name"), ty := fieldTy fj, dflt := dflt,
                  noOutput := bool! (fld fj "no_output"),
                  defer := bool! (fld fj "defer"),
                  ci := bool! (fld dj "ci") }], b')) ([], b0)      -- ParserField.setup(options of the declaring class)
    let kind := match str! (fld dj "kind") with
      | "schema" => DKind.schema | "dataclass" => DKind.dataclass | _ => DKind.func
    let ws := match obj? dj "wrappers" with
      | some w => if isNull w then [none] else (arr! w).map optsOf
      | none => [none]
    let fk := match (obj? dj "fkind").map str! with
      | some "async" => FKind.async | some "gen" => FKind.gen | some "agen" => FKind.agen | _ => FKind.sync
    let ret := match obj? dj "ret" with
      | some r => if isNull r then none else some (str! (fld r "field"), tyOf (fld r "ty"))
      | none => none
    let inherited : List Field := match (obj? dj "base").bind optNat with
      -- `generate_from_bases`: the base parser's ParserField objects as they are, set up by the base's Options
      | some j => (env[j]?.map (·.fields)).getD []
      | none => []
    let own := [Val.int inherited.length]      -- (re-used slot) the number of fields taken over from the base
    ({ kind := kind, dfs := bool! (fld dj "dfs"), ci := bool! (fld dj "ci"), fields := inherited ++ fields,
       wrappers := ws, fkind := fk, eager := bool! (fld dj "eager"), ret := ret }, own, b)

/-- the declarations made before the history starts (those not marked `late`) -/
def buildEnv (j : Json) : Env × List Val × B :=
  (arr! j).foldl (fun (acc : Env × List Val × B) dj =>
    if bool! (fld dj "late") then acc else
    let (d, own, b) := buildDecl acc.1 dj acc.2.2
    (acc.1 ++ [d], acc.2.1 ++ own, b)) ([], [], { next := 0 })

partial def valJ : Val → Json
  | .none => Json.null
  | .int i => Json.num i
  | .str s => Json.str s
  | .node i k ks xs =>
      Json.mkObj [("k", Json.str (kindName k)), ("id", Json.num i),
                  ("keys", Json.arr (ks.map Json.str).toArray), ("items", Json.arr (xs.map valJ).toArray)]

def outJ : Outcome → Json
  | .ok => Json.str "ok" | .perr => Json.str "perr" | .skip => Json.str "skip"
  | .unmodelled w => Json.str ("unmodelled:" ++ w)

def atomOf (j : Json) : Val := match j with
  | .null => .none | .str s => .str s | _ => .int (int! j)

structure Run where
  w : World
  roptRoots : List Nat := []     -- result roots of parses made under running options
  fpool : List Val := []    -- `force_default` objects of the running-options pool (each built once)
  inh : List Nat := []      -- per declaration: how many of its fields are taken over from a base class
  outs : List Outcome := []
  unm : Option String := none

def stepJ (legacy : Bool) (envJ : Json) (r : Run) (j : Json) : Run :=
  let stp := if legacy then World.stepWith schemaCopyLegacy effectiveOpts else World.step
  let fin (p : World × Outcome) : Run :=
    { r with w := p.1, outs := r.outs ++ [p.2],
             unm := match p.2 with | .unmodelled why => r.unm.orElse (fun _ => some why) | _ => r.unm }
  match str! (fld j "op") with
  | "declare" =>
      let k := nat! (fld j "decl")
      if k != r.w.env.length then { r with unm := some "declaration out of order", outs := r.outs ++ [.unmodelled "declare"] } else
      match (arr! envJ)[k]? with
      | none => { r with unm := some "no such declaration", outs := r.outs ++ [.unmodelled "declare"] }
      | some dj =>
        let (d, own, b) := buildDecl r.w.env dj { next := r.w.next }
        match b.bad with
        | some why => { r with unm := some why, outs := r.outs ++ [.unmodelled why] }
        | none =>
          let n := match own with | [.int i] => i.toNat | _ => 0
          { fin (stp r.w (.declare d (b.next - r.w.next))) with inh := r.inh ++ [n] }
  | "call" =>
      let (inp, b) := buildVal r.w.roots (fld j "input") { next := r.w.next }
      match (match inp with
             | .node _ .dict _ _ => b.bad
             | .node _ .tuple _ [.node _ .dict _ _, .node _ .dict _ _] => b.bad      -- `Cls(d, **kw)`
             | _ => some "input is not a plain dict") with
      | some why => { r with unm := some why, outs := r.outs ++ [.unmodelled why] }
      | none =>
        let rj := fld j "ropt"
        let ro : ROpts := if isNull rj then {} else
          let force : Option Val := match obj? rj "force_ref" with
            | some k => r.fpool[nat! k]?
            | none => (obj? rj "force_default").map atomOf
          { ignoreRequired := bool! (fld rj "ignore_required") || force.isSome,
            noDefault := bool! (fld rj "no_default"),
            deferDefault := bool! (fld rj "defer_default"),
            force := force,
            dfs := match obj? rj "data_first_search" with
              | some d => if isNull d then none else some (bool! d)
              | none => none }
        let r' := fin (stp r.w (.call (nat! (fld j "target")) (nat! (fld j "wrapper")) (b.next - r.w.next) inp ro))
        if isNull rj then r' else { r' with roptRoots := (r.w.roots.length + 1) :: r.roptRoots }
  | "mutate" =>
      match r.w.root (nat! (fld j "root")) with
      | none => { r with outs := r.outs ++ [.skip] }
      | some rv =>
        match walkPath rv ((arr! (fld j "path")).map nat!) false with
        | some (.node i k _ _, false) =>
            -- the inserted value: an atom, or an object of an (older) root the caller holds
            let vj := fld j "val"
            let v : Option Val := match obj? vj "root" with
              | some rr => match r.w.root (nat! rr) with
                | some src => match walkPath src ((arr! (fld vj "path")).map nat!) false with
                  | some (x, false) => some x
                  | _ => none
                | none => none
              | none => some (atomOf vj)
            let key := (obj? j "key").map str! |>.getD "zz"
            let act : Option Act := match str! (fld j "act"), k.base, v with
              | "append", .list, some v => if v.mutIds.contains i then none else some (.append v)
              | "add", .set, some v => if v.hashable then some (.add v) else none
              | "setkey", .dict, some v => if v.mutIds.contains i then none else some (.setkey key v)
              | "clear", .list, _ => some .clear
              | "clear", .set, _ => some .clear
              | "clear", .dict, _ => some .clear
              | "pop", .list, _ => some .popLast
              | "delkey", .dict, _ => some (.delkey key)
              | _, _, _ => none
            match act with
            | some a => fin (stp r.w (.mutate i a))
            | none => { r with outs := r.outs ++ [.skip] }
        | _ => { r with outs := r.outs ++ [.skip] }
  | "setattr" =>
      let root := nat! (fld j "root")
      let fname := str! (fld j "field")
      match r.w.root root with
      | some (.node _ (.inst k _) _ _) =>
          let ok := match r.w.env[k]? with
            | some d => d.fields.any (fun f => f.name == fname && (match f.ty with | .any | .int => true | _ => false))
            | none => false
          let v := fld j "val"
          if ok && (match v with | .num _ => true | _ => false) then fin (stp r.w (.setattr root fname (atomOf v)))
          else { r with unm := some "setattr outside the fragment", outs := r.outs ++ [.unmodelled "setattr"] }
      | _ => { r with outs := r.outs ++ [.skip] }
  | "getattr" =>
      let root := nat! (fld j "root")
      if r.roptRoots.contains root then
        { r with unm := some "attribute access on an instance built under running options",
                 outs := r.outs ++ [.unmodelled "getattr"], w := { r.w with roots := r.w.roots ++ [none] } }
      else fin (stp r.w (.getattr root (str! (fld j "field"))))
  | "copy" =>
      match r.w.root (nat! (fld j "root")) with
      | some (.node _ (.inst k _) _ _) =>
          if (r.w.env[k]?.map (·.kind == .schema)).getD false then fin (stp r.w (.copy (nat! (fld j "root"))))
          else { r with w := { r.w with roots := r.w.roots ++ [none] }, outs := r.outs ++ [.skip] }
      | _ => { r with w := { r.w with roots := r.w.roots ++ [none] }, outs := r.outs ++ [.skip] }
  | _ => { r with unm := some "unknown op" }

def handle (j : Json) : Json :=
  let (env, inh0, b0) := buildEnv (fld j "env")
  let (fpool, b) := (arr! (fld j "fpool")).foldl (fun (acc : List Val × B) x =>
    let (v, b') := buildVal [] x acc.2; (acc.1 ++ [v], b')) ([], b0)
  match (if fpool.any hasNT then some "namedtuple default" else b.bad) with
  | some why => Json.mkObj [("unmodelled", Json.str why)]
  | none =>
    let n0 := env.length
    let w0 : World := { env := env, next := b.next }
    let r := (arr! (fld j "ops")).foldl (stepJ (bool! (fld j "legacy_copy")) (fld j "env")) { w := w0, fpool := fpool, inh := inh0.map (fun | .int i => i.toNat | _ => 0) }
    -- the declared default objects, once each (a subclass shares the default objects of the fields it takes over)
    let own := (r.w.env.zip r.inh).map (fun p => (p.1.fields.drop p.2).flatMap (fun f => f.dflt.vals))
    let dfl := (own.take n0).flatten ++ fpool ++ (own.drop n0).flatten
    Json.mkObj [("outs", Json.arr (r.outs.map outJ).toArray),
                ("defaults", Json.arr (dfl.map valJ).toArray),
                ("roots", Json.arr (r.w.roots.map (fun | some v => valJ v | none => Json.null)).toArray),
                ("unmodelled", match r.unm with | some w => Json.str w | none => Json.null)]

def main : IO Unit := serve handle
