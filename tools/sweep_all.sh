#!/bin/bash
# quick tier of every claimed check over seeds $1..$2 (used with `vp run --with-repo`); prints only runs that are not clean
[ -n "$VP_RUN_REPO" ] && export UTYPE_REPO=$VP_RUN_REPO
export VERIF_JOBS=${VERIF_JOBS:-6}
./check --setup >/dev/null 2>&1
for p in $(python3 -c "import json;print(' '.join(c['property_id'] for c in json.load(open('MANIFEST.json'))['checks']))"); do
  tools/sweep.sh $p $1 $2 quick
done
