import Utv.Model.C05Spec
import Utv.Util.J
/-! C05 / C06 driver: one JSON case per line → model outcome (as declared, data-first, field-first),
`FieldContract`, well-formedness.  Keys are ids, values are canonical JSON texts (strings). -/
open Lean Utv.J Utv.C05

abbrev V := String

def optStr (j : Json) : Option String := j.getStr?.toOption
def optBool (j : Json) : Option Bool := j.getBool?.toOption
def nats (j : Json) : List Nat := (arr! j).map nat!

def mkWorld (j : Json) : World V :=
  let lower := (nats (fld j "lower")).toArray
  let isl := ((arr! (fld j "islower")).map bool!).toArray
  let fp := (arr! (fld j "fp")).map fun r => match arr! r with
    | [a, v, x] => ((nat! a, str! v), optStr x) | _ => ((0, ""), none)
  let pred := (arr! (fld j "pred")).map fun r => match arr! r with
    | [k, v, b] => ((nat! k, str! v), bool! b) | _ => ((0, ""), false)
  let addc := (arr! (fld j "addconv")).map fun r => match arr! r with
    | [v, x] => (str! v, optStr x) | _ => ("", none)
  { lower := fun k => lower.getD k k
    islower := fun k => isl.getD k true
    fp := fun a v => (fp.lookup (a, v)).getD none
    pred := fun k v => (pred.lookup (k, v)).getD false
    addConv := fun v => (addc.lookup v).getD none
    copy := fun v => v
    schemaExcluded := nats (fld j "schema_excluded") }

def mkFlag (j : Json) : Flag :=
  match j with
  | .bool true => .yes
  | .bool false => .no
  | .arr _ => .modes (nats j)
  | _ => match obj? j "pred" with | some k => .pred (nat! k) | none => .no

def mkReq (j : Json) : Option Req :=
  match j with
  | .bool true => some .yes
  | .bool false => some .no
  | .arr _ => some (.modes (nats j))
  | _ => none

def mkOnErr (j : Json) : Option OnErr :=
  match optStr j with
  | some "exclude" => some .exclude
  | some "preserve" => some .preserve
  | some "throw" => some .throw
  | _ => none

def mkFieldDecl (j : Json) : FieldDecl V :=
  { attname := nat! (fld j "attname")
    ty := optNat (fld j "ty")
    alias := optNat (fld j "alias")
    aliasFrom := nats (fld j "alias_from")
    ci := optBool (fld j "ci")
    required := mkReq (fld j "required")
    default := (obj? (fld j "default") "v").map str!
    deferDefault := bool! (fld j "defer")
    noInput := mkFlag (fld j "no_input")
    noOutput := mkFlag (fld j "no_output")
    mode := match fld j "mode" with | .arr a => some (a.toList.map nat!) | _ => none
    deps := nats (fld j "deps")
    onError := mkOnErr (fld j "on_error") }

def mkOpts (j : Json) : Opts V :=
  { mode := optNat (fld j "mode")
    addition := match fld j "addition" with | .bool true => .allow | .bool false => .forbid | _ => .ignore
    ignoreRequired := bool! (fld j "ignore_required")
    noDefault := bool! (fld j "no_default")
    deferDefault := bool! (fld j "defer_default")
    forceDefault := (obj? (fld j "force_default") "v").map str!
    ignoreAliasConflicts := bool! (fld j "ignore_alias_conflicts")
    collectErrors := bool! (fld j "collect_errors")
    maxErrors := optNat (fld j "max_errors")
    maxParams := optNat (fld j "max_params")
    minParams := optNat (fld j "min_params")
    invalidValues := (mkOnErr (fld j "invalid_values")).getD .throw
    dataFirstSearch := match obj? j "data_first_search" with
      | some (.bool b) => some b
      | some .null => none
      | _ => some false
    caseInsensitive := bool! (fld j "case_insensitive") }

def natsJ (l : List Nat) : Json := Json.arr (l.map fun (n : Nat) => Json.num n).toArray

def errJ : Err → Json
  | .paramsExceed => Json.mkObj [("k", "ParamsExceedError")]
  | .paramsLack => Json.mkObj [("k", "ParamsLackError")]
  | .exceed k => Json.mkObj [("k", "ExceedError"), ("i", Json.num k)]
  | .aliasConflict n => Json.mkObj [("k", "AliasConflictError"), ("i", Json.num n)]
  | .absence n => Json.mkObj [("k", "AbsenceError"), ("i", Json.num n)]
  | .parse n => Json.mkObj [("k", "ParseError"), ("i", Json.num n)]
  | .depsAbsence l => Json.mkObj [("k", "DependenciesAbsenceError"), ("i", natsJ l)]

def dictJ (d : List (Key × V)) : Json :=
  Json.arr (d.map fun kv => Json.arr #[Json.num kv.1, Json.str kv.2]).toArray

def outcomeJ (W : World V) (P : Parser V) (o : Opts V) : Outcome V → Json
  | .ok m a => Json.mkObj [("ok", Json.mkObj [("mapping", dictJ m), ("attrs", dictJ a),
      ("getattr", Json.arr (P.fields.map fun kf =>
        Json.arr #[Json.num kf.2.attname, match getattrView W o kf.2 m a with | some v => Json.str v | none => Json.null]).toArray)])]
  | .raised e => Json.mkObj [("raised", errJ e)]
  | .collected es => Json.mkObj [("collected", Json.arr (es.map errJ).toArray)]

def stJ (st : St V) : Json :=
  Json.mkObj [("result", dictJ st.result), ("errs", Json.arr (st.errs.map errJ).toArray)]

def handle (j : Json) : Json :=
  let W := mkWorld j
  let mkClass (cj : Json) : ClassDecl V :=
    { fields := (arr! (fld cj "fields")).map mkFieldDecl
      opts := mkOpts (fld cj "opts")
      ownOpts := !(isNull (fld cj "opts"))
      additionTyped := bool! (fld cj "addition_typed")
      bases := nats (fld cj "bases")
      drops := nats (fld cj "drops")
      excluded := nats (fld cj "excluded") }
  let decls : List (ClassDecl V) := match obj? j "classes" with
    | some cs => (arr! cs).map mkClass
    | none => [mkClass (fld j "cls")]
  let target := nat! (fld j "target")
  let B : Built V := ((buildAll W decls)[target]?).getD (mkParserIn W [] { fields := [], opts := {} })
  let runtime := match fld j "runtime" with | .null => none | r => some (mkOpts r)
  let data := (arr! (fld j "data")).map fun p => match arr! p with
    | [k, v] => (nat! k, str! v) | _ => (0, "")
  let lj := fld j "legacy"
  let L : Legacy := { modeStringReturns := bool! (fld lj "mode_string_returns")
                      predSkipsMode := bool! (fld lj "pred_skips_mode") }
  let P := B.parser
  let o := (runtime.getD B.opts).normalise
  let run (st : St V) := outcomeJ W P o (finish L W P o { st with errs := paramsCheck o data.length ++ st.errs })
  let legacyStrategies := bool! (fld lj "strategies")
  let df := if legacyStrategies then dataFirstLegacy W P o data else dataFirst L W P o data
  let ff := if legacyStrategies then fieldFirstLegacy W P o data else fieldFirst L W P o data
  let declared := if useDataFirst P o then df else ff
  let sp := Spec.contract W P o data
  Json.mkObj [
    ("wf", Json.bool (P.wf W)), ("exclude_vars", natsJ P.excludeVars),
    ("wf_all", Json.arr ((buildAll W decls).map fun b => Json.bool (b.parser.wf W)).toArray),
    ("data_first", Json.bool (useDataFirst P o)),
    ("model", run declared),
    ("df", run df), ("ff", run ff),
    ("df_st", stJ df), ("ff_st", stJ ff),
    ("spec", Json.mkObj [("result", dictJ sp.result), ("errs", Json.arr (sp.errs.map errJ).toArray),
      ("mapping", dictJ (Spec.mappingView W P o sp.result)), ("attrs", dictJ (Spec.attrView P sp.result))]),
    ("fields", Json.arr (P.fields.map fun kf => Json.mkObj [("key", Json.num kf.1), ("name", Json.num kf.2.name), ("attname", Json.num kf.2.attname),
       ("ty", match kf.2.ty with | some t => Json.num t | none => Json.null),
       ("all", natsJ kf.2.allAliases), ("deps", natsJ kf.2.deps)]).toArray)]

def main : IO Unit := serve handle
