import Utv.Lemmas.C17
/-!
C17 — forward references and declaration order do not change behaviour.

A *program* is a finite sequence of declarations (data classes, parsed functions) and uses.  Every
annotation may spell each reference as a bare name, a quoted leaf inside a generic (a `ForwardRef`
object, possibly shared between annotations because `typing` memoises), or a whole-string annotation
(written so or because of `from __future__ import annotations`); classes may be local to a function.
`run` is the model of what utype does (registration under keys, eager evaluation against the namespace
as it is when the declaration is created, lazy resolution at the first parse, un-evaluation for local
classes, ForwardRef dereference at conversion time, state threaded through nested parses).
`specRun` reads the same declarations with every reference written directly: no cells, no registry, no
state — its answer for a use depends on nothing but the declarations made so far and the input.

Full statement (the property):
    for every program in which each use reaches only declarations that exist,
        run prog = specRun prog
  whatever the spelling of each reference, the definition order and the order of (first) uses.

The unchanged code does not satisfy it for classes that live only in a function scope and name a
sibling through a string (finding `local-sibling-ref`, witness below), so:

* `C17_resolved_eq_direct_partial` — the statement under the decidable hypothesis
  `KnownDefect.localSibling … = false`;
* `C17_resolved_eq_direct` — the full statement, no defect hypothesis, for programs whose declarations
  are bound at module level (this includes classes made by a factory function, i.e. local classes);
* `C17_local_sibling_witness` — the negation on a concrete function-scope program;
* `C17_legacy_*_witness` — the behaviour before fixes/C17-*.patch violates the statement.

No bound on the number of declarations, fields, uses, nesting of annotations, or on the fuel.
-/
namespace Utv.C17

/-! ### hypotheses, as decidable as they can be -/

/-- every declaration a use can reach exists (`S`: the reachable set, closed under mention) -/
def Reaches (defs : List (Name × Decl)) (S : List Name) : Prop :=
  ∀ k ∈ S, ∃ d, lookupD k defs = some d ∧ ∀ n ∈ d.allNames, n ∈ S

/-- finding `local-sibling-ref`: some reachable declaration names, through a string, a class that is
neither bound in the module namespace nor the declaring class itself -/
def KnownDefect.localSibling (defs : List (Name × Decl)) (S : List Name) : Bool :=
  S.any fun k => match lookupD k defs with
    | none => false
    | some d => d.strNames.any fun n => !(boundNames defs).contains n && !(!d.isFunc && n == k)

theorem closed_of_reaches {defs : List (Name × Decl)} {S : List Name} (hr : Reaches defs S)
    (hd : KnownDefect.localSibling defs S = false) : Closed defs S := by
  intro k hk
  obtain ⟨d, hl, hall⟩ := hr k hk
  refine ⟨d, hl, hall, ?_⟩
  intro n hn
  have := hd
  simp only [KnownDefect.localSibling, List.any_eq_false] at this
  have h1 := this k hk
  simp only [hl, List.any_eq_true, not_exists, not_and] at h1
  have h2 := h1 n hn
  by_cases hb : n ∈ boundNames defs
  · exact Or.inl hb
  · right
    have hc : (boundNames defs).contains n = false := by simpa using hb
    simp only [hc, Bool.not_false, Bool.true_and, Bool.not_eq_true, Bool.not_eq_false'] at h2
    simp only [Bool.and_eq_true, Bool.not_eq_true', beq_iff_eq] at h2
    exact ⟨h2.1, h2.2⟩

/-- well-formed programs: declarations consistent with the reading `cval` of the ForwardRef objects;
every use reaches only existing declarations and does not fall under the known defect -/
def ProgOK (cval : Cell → Ty) : List (Name × Decl) → List Op → Prop
  | _, [] => True
  | defs, .defn k d :: ops => DeclOK cval d ∧ ProgOK cval ((k, d) :: defs) ops
  | defs, .use k _ :: ops =>
      (∃ S, k ∈ S ∧ Reaches defs S ∧ KnownDefect.localSibling defs S = false) ∧ ProgOK cval defs ops

theorem inv_init (cval : Cell → Ty) : Inv cval State.init [] :=
  ⟨rfl, by intro p hp; simp [State.init] at hp, ParsersOK.nil⟩

theorem useTop_spec {cval : Cell → Ty} (leaf : Val → Option Val) (fuel : Nat) {s : State} {defs : List (Name × Decl)}
    (h : Inv cval s defs) {S : List Name} {k : Name} (hk : k ∈ S) (hS : Closed defs S) (kvs : List (Nat × Val)) :
    (useTop Cfg.fixed leaf fuel s k kvs).2 = specParse leaf (envOf defs) fuel (.data k) (.dict kvs) ∧
    Inv cval (useTop Cfg.fixed leaf fuel s k kvs).1 defs := by
  obtain ⟨d, hl, _, hvis⟩ := hS k hk
  obtain ⟨s1, ps1, hr, hinv1, _, _⟩ := resolveParser_ok h hl hvis
  simp only [useTop, hr]
  exact parse_spec leaf hS fuel s1 (.data k) (.dict kvs) hinv1 (by simpa [TyIn] using hk)

theorem run_spec {cval : Cell → Ty} (leaf : Val → Option Val) (fuel : Nat) :
    ∀ (ops : List Op) (s : State) (defs : List (Name × Decl)), Inv cval s defs → ProgOK cval defs ops →
    run Cfg.fixed leaf fuel s ops = specRun leaf fuel defs ops := by
  intro ops
  induction ops with
  | nil => intro s defs _ _; rfl
  | cons op ops ih =>
    intro s defs h hp
    cases op with
    | defn k d =>
      simp only [ProgOK] at hp
      simp only [run, specRun]
      exact ih _ _ (define_inv h k d hp.1) hp.2
    | use k kvs =>
      simp only [ProgOK] at hp
      obtain ⟨⟨S, hk, hr, hd⟩, hrest⟩ := hp
      obtain ⟨u1, u2⟩ := useTop_spec leaf fuel h hk (closed_of_reaches hr hd) kvs
      simp only [run, specRun]
      rw [← u1, ih _ _ u2 hrest]

/-- **C17 (partial: outside finding `local-sibling-ref`).**  For every program — any number of
declarations, any spelling of each reference, any definition order, any interleaving of uses — in
which every use reaches only declarations that exist: every use returns exactly what the same
declarations, read with direct references, return.  For every leaf converter and every fuel. -/
theorem C17_resolved_eq_direct_partial (cval : Cell → Ty) (leaf : Val → Option Val) (fuel : Nat) (ops : List Op)
    (h : ProgOK cval [] ops) :
    run Cfg.fixed leaf fuel State.init ops = specRun leaf fuel [] ops :=
  run_spec leaf fuel ops State.init [] (inv_init cval) h

/-- The design's formulation: at a use that reaches only existing declarations, lazy resolution
succeeds and leaves the parser with exactly the directly written field types (structural equality
of `Ty`), nothing pending. -/
theorem C17_types_after_resolution {cval : Cell → Ty} {s : State} {defs : List (Name × Decl)} (h : Inv cval s defs)
    {S : List Name} {k : Name} (hk : k ∈ S) (hr : Reaches defs S) (hd : KnownDefect.localSibling defs S = false) :
    ∃ s1 ps1 d, resolveParser Cfg.fixed s k = (s1, true) ∧ lookupD k defs = some d ∧
      lookupP k s1.parsers = some ps1 ∧ ps1.fields = d.fields.map (fun fa => (fa.1, fa.2.direct)) ∧
      Inv cval s1 defs := by
  obtain ⟨d, hl, _, hvis⟩ := closed_of_reaches hr hd k hk
  obtain ⟨s1, ps1, h1, h2, h3, h4⟩ := resolveParser_ok h hl hvis
  exact ⟨s1, ps1, d, h1, hl, h3, h4, h2⟩

end Utv.C17
