import Utv.Lemmas.C05Frame
import Utv.Lemmas.C05Wf
/-!
C05 — data-class parsing implements the declared field contract.

For every world (type conversions, user predicates, `str.lower`), every well-formed parser (what
`ClassParser.setup` accepts without ConfigError), every `Options` and every input mapping with distinct
keys, both lookup strategies of `parse_data` compute `Spec.contract` — the per-field declarative
`FieldContract` written from the documentation:

* `C05_ff_refines`, `C05_df_refines`, `C05_parse_data_refines` : the parsed data equals the contract's
  as a finite map and the handled errors are exactly the contract's violations (as a set);
* `C05_success_iff`, `C05_failfast_sound`, `C05_collected_exact`, `C05_collected_bounded` : what the caller
  observes — success iff the input violates nothing; a fail-fast run raises one of the violations;
  `collect_errors` reports all of them (at most `max_errors`);
* `C05_attr_view` : after `__init__`, `__dict__` holds every value under its attribute name and the
  mapping lacks exactly the `no_output` fields;
* `C05_getattr_view` : attribute access gives that value, else the deferred default;
* `C05_init_refines` : the same for `Cls.__from__(data, options)` from the declaration as written.

No bound on the number of fields, aliases, keys or on the values.  The theorems are about the model of the
code *after* the fix patches; the behaviour before them is refuted by the `C05_legacy_*` witnesses.
-/
namespace Utv.C05
open Spec

variable {V : Type}

/-- equal as finite maps (Python dict equality) -/
def MapEq (a b : List (Key × V)) : Prop := ∀ k, dget k a = dget k b

/-- equal as sets -/
def SetEq (a b : List Err) : Prop := ∀ e, e ∈ a ↔ e ∈ b

/-- the parser state refines the contract: same data, same violations -/
def Refines [DecidableEq V] (W : World V) (P : Parser V) (o : Opts V) (data : List (Key × V)) (st : St V) : Prop :=
  MapEq st.result (contract W P o data).result ∧ SetEq (paramsCheck o data.length ++ st.errs) (contract W P o data).errs

/-- **C05 (field-first).** -/
theorem C05_ff_refines [DecidableEq V] (W : World V) (LL : LowerLaws W) (P : Parser V) (hwf : P.wf W = true)
    (o : Opts V) (data : List (Key × V)) (hnd : (data.map (·.1)).Nodup) :
    Refines W P o data (fieldFirst {} W P o data) := by
  have wf := WF.of_wf hwf
  rw [fieldFirst_eq_ref LL wf o hnd]
  exact refRun_contract LL wf o data hnd

/-- **C05 (data-first).** -/
theorem C05_df_refines [DecidableEq V] (W : World V) (LL : LowerLaws W) (P : Parser V) (hwf : P.wf W = true)
    (o : Opts V) (data : List (Key × V)) (hnd : (data.map (·.1)).Nodup) :
    Refines W P o data (dataFirst {} W P o data) := by
  have wf := WF.of_wf hwf
  obtain ⟨h1, h2⟩ := dataFirst_equiv_ref LL wf o data hnd
  obtain ⟨r1, r2⟩ := refRun_contract LL wf o data hnd
  refine ⟨fun k => (h1 k).trans (r1 k), fun e => ?_⟩
  rw [← r2 e, List.mem_append, List.mem_append, h2 e]

/-- the state `parse_data` returns, with the `max_params / min_params` errors in front -/
theorem parseData_errs [DecidableEq V] (W : World V) (P : Parser V) (o : Opts V) (data : List (Key × V)) :
    (parseData {} W P o data).errs = paramsCheck o data.length ++
        (if useDataFirst P o then dataFirst {} W P o data else fieldFirst {} W P o data).errs
    ∧ (parseData {} W P o data).result =
        (if useDataFirst P o then dataFirst {} W P o data else fieldFirst {} W P o data).result := by
  unfold parseData; exact ⟨rfl, rfl⟩

/-- **C05 (`parse_data`, whichever strategy is selected).** -/
theorem C05_parse_data_refines [DecidableEq V] (W : World V) (LL : LowerLaws W) (P : Parser V)
    (hwf : P.wf W = true) (o : Opts V) (data : List (Key × V)) (hnd : (data.map (·.1)).Nodup) :
    MapEq (parseData {} W P o data).result (contract W P o data).result
    ∧ SetEq (parseData {} W P o data).errs (contract W P o data).errs := by
  obtain ⟨he, hr⟩ := parseData_errs W P o data
  rw [he, hr]
  cases useDataFirst P o
  · exact C05_ff_refines W LL P hwf o data hnd
  · exact C05_df_refines W LL P hwf o data hnd

theorem setEq_nil_iff {a b : List Err} (h : SetEq a b) : a = [] ↔ b = [] := by
  constructor
  · intro e; subst e
    cases b with
    | nil => rfl
    | cons x xs => exact absurd ((h x).2 (by simp)) (by simp)
  · intro e; subst e
    cases a with
    | nil => rfl
    | cons x xs => exact absurd ((h x).1 (by simp)) (by simp)

/-- **Parsing succeeds exactly when the input violates nothing.** -/
theorem C05_success_iff [DecidableEq V] (W : World V) (LL : LowerLaws W) (P : Parser V) (hwf : P.wf W = true)
    (o : Opts V) (data : List (Key × V)) (hnd : (data.map (·.1)).Nodup) :
    (∃ m a, finish {} W P o (parseData {} W P o data) = .ok m a) ↔ (contract W P o data).errs = [] := by
  have h := (C05_parse_data_refines W LL P hwf o data hnd).2
  rw [← setEq_nil_iff h]
  unfold finish
  cases he : (parseData {} W P o data).errs with
  | nil => simp
  | cons e es =>
    simp only [reduceCtorEq, iff_false, not_exists]
    intro m a
    split
    · simp
    · split <;> simp

/-- **A fail-fast run raises one of the contract's violations.** -/
theorem C05_failfast_sound [DecidableEq V] (W : World V) (LL : LowerLaws W) (P : Parser V) (hwf : P.wf W = true)
    (o : Opts V) (data : List (Key × V)) (hnd : (data.map (·.1)).Nodup) (e : Err)
    (h : finish {} W P o (parseData {} W P o data) = .raised e) : e ∈ (contract W P o data).errs := by
  have hs := (C05_parse_data_refines W LL P hwf o data hnd).2
  unfold finish at h
  cases he : (parseData {} W P o data).errs with
  | nil => rw [he] at h; simp at h
  | cons x xs =>
    rw [he] at h
    simp only at h
    split at h
    · simp only [Outcome.raised.injEq] at h
      subst h
      exact (hs x).1 (by rw [he]; simp)
    · split at h <;> cases h

/-- **`collect_errors` (no `max_errors`) reports exactly the contract's violations.** -/
theorem C05_collected_exact [DecidableEq V] (W : World V) (LL : LowerLaws W) (P : Parser V) (hwf : P.wf W = true)
    (o : Opts V) (data : List (Key × V)) (hnd : (data.map (·.1)).Nodup) (es : List Err)
    (hmax : o.maxErrors = none) (h : finish {} W P o (parseData {} W P o data) = .collected es) :
    SetEq es (contract W P o data).errs := by
  have hs := (C05_parse_data_refines W LL P hwf o data hnd).2
  unfold finish at h
  cases he : (parseData {} W P o data).errs with
  | nil => rw [he] at h; simp at h
  | cons x xs =>
    rw [he] at h
    simp only [hmax] at h
    split at h
    · cases h
    · simp only [Outcome.collected.injEq] at h
      rw [← h, ← he]; exact hs

/-- **with `max_errors = n` at most `max n 1` of the violations are reported** -/
theorem C05_collected_bounded [DecidableEq V] (W : World V) (LL : LowerLaws W) (P : Parser V) (hwf : P.wf W = true)
    (o : Opts V) (data : List (Key × V)) (hnd : (data.map (·.1)).Nodup) (es : List Err) (n : Nat)
    (hmax : o.maxErrors = some n) (h : finish {} W P o (parseData {} W P o data) = .collected es) :
    (∀ e ∈ es, e ∈ (contract W P o data).errs) ∧ es.length ≤ max n 1 := by
  have hs := (C05_parse_data_refines W LL P hwf o data hnd).2
  unfold finish at h
  cases he : (parseData {} W P o data).errs with
  | nil => rw [he] at h; simp at h
  | cons x xs =>
    rw [he] at h
    simp only [hmax] at h
    split at h
    · cases h
    · simp only [Outcome.collected.injEq] at h
      subst h
      refine ⟨fun e hm => (hs e).1 (by rw [he]; exact List.mem_of_mem_take hm), ?_⟩
      rw [List.length_take]; exact Nat.min_le_left _ _

/-! ### the two views of the instance -/

theorem contract_result_keys [DecidableEq V] (W : World V) (P : Parser V) (o : Opts V) (data : List (Key × V))
    (k : Key) (h : dget k (contract W P o data).result ≠ none) :
    (∃ kf ∈ P.fields, kf.2.name = k) ∨ anyAccepts W P k = false := by
  have hk : k ∈ (contract W P o data).result.map (·.1) := by
    by_cases hk : k ∈ (contract W P o data).result.map (·.1)
    · exact hk
    · exact absurd ((dget_eq_none_iff _ _).2 hk) h
  unfold contract at hk
  simp only [List.map_append, List.mem_append, List.map_filterMap, List.mem_filterMap, List.mem_map] at hk
  rcases hk with ⟨fo, ⟨f, ⟨kf, hf, rfl⟩, rfl⟩, he⟩ | ⟨a, ⟨kv, hkv, rfl⟩, he⟩
  · left
    refine ⟨kf, hf, ?_⟩
    cases hv : (fieldContract W o kf.2 data).value with
    | none => simp [hv] at he
    | some v => simpa [hv] using he
  · right
    have hkk : kv.1 = k := by
      generalize (additionContract W P.additionTyped (P.excludeVars.contains kv.1) o kv).1 = X at he
      cases X with
      | none => simp at he
      | some v => simpa using he
    rw [List.mem_filter] at hkv
    rw [← hkk]
    unfold anyAccepts
    have := hkv.2
    rw [List.any_map] at this
    simpa using this

/-- **C05 (attribute view = output view ∪ no_output fields).**  After a successful `__init__`, for every
field the instance `__dict__` holds under the attribute name exactly what the contract prescribes, the
mapping holds it under the output name unless the field is `no_output` for that value, and unknown keys
that were kept appear in both. -/
theorem C05_attr_view [DecidableEq V] (W : World V) (LL : LowerLaws W) (P : Parser V) (hwf : P.wf W = true)
    (o : Opts V) (data : List (Key × V)) (hnd : (data.map (·.1)).Nodup) (m a : List (Key × V))
    (h : finish {} W P o (parseData {} W P o data) = .ok m a) :
    (∀ kf ∈ P.fields,
        dget kf.2.attname a = dget kf.2.name (contract W P o data).result
        ∧ dget kf.2.name m = (dget kf.2.name (contract W P o data).result).filter (fun v => !noOutput W o kf.2 v))
    ∧ (∀ k, anyAccepts W P k = false →
        dget k m = dget k (contract W P o data).result ∧ dget k a = dget k (contract W P o data).result) := by
  have wf := WF.of_wf hwf
  have hr := (C05_parse_data_refines W LL P hwf o data hnd).1
  have hkn : ((parseData {} W P o data).result.map (·.1)).Nodup := by
    rw [(parseData_errs W P o data).2]
    cases useDataFirst P o
    · exact fieldFirst_nodup W P o data
    · exact dataFirst_nodup W P o data
  have hok : ResultKeysOk W P (parseData {} W P o data).result := by
    intro k hk
    apply contract_result_keys W P o data k
    rw [← hr k]
    intro hc; exact ((dget_eq_none_iff _ _).1 hc) hk
  have hv := views_spec LL wf o (parseData {} W P o data).result hkn hok
  unfold finish at h
  cases he : (parseData {} W P o data).errs with
  | nil =>
    rw [he] at h
    simp only [Outcome.ok.injEq] at h
    obtain ⟨h1, h2⟩ := h
    subst h1; subst h2
    refine ⟨fun kf hf => ?_, fun k hk => ?_⟩
    · rw [← hr kf.2.name]; exact hv.1 kf hf
    · rw [← hr k]; exact hv.2 k hk
  | cons x xs =>
    rw [he] at h
    simp only at h
    split at h
    · cases h
    · split at h <;> cases h

/-- **Attribute access** (`Schema.__field_getter__`): `inst.<attname>` gives the value the contract prescribes —
also for a `no_output` field — and otherwise the deferred default (`defer_default`), else AttributeError. -/
theorem C05_getattr_view [DecidableEq V] (W : World V) (LL : LowerLaws W) (P : Parser V) (hwf : P.wf W = true)
    (o : Opts V) (data : List (Key × V)) (hnd : (data.map (·.1)).Nodup) (m a : List (Key × V))
    (h : finish {} W P o (parseData {} W P o data) = .ok m a) :
    ∀ kf ∈ P.fields, getattrView W o kf.2 m a =
      (dget kf.2.name (contract W P o data).result).orElse (fun _ => deferred W o kf.2) := by
  intro kf hf
  obtain ⟨h1, h2⟩ := (C05_attr_view W LL P hwf o data hnd m a h).1 kf hf
  unfold getattrView
  rw [h1, h2, getDefault_true_eq]
  cases hr : dget kf.2.name (contract W P o data).result with
  | none => rfl
  | some v => cases hno : noOutput W o kf.2 v <;> simp [Option.filter, hno]

/-- **C05 for `Cls.__from__(data, options=runtime)` from the declaration as written.** -/
theorem C05_init_refines [DecidableEq V] (W : World V) (LL : LowerLaws W) (c : ClassDecl V)
    (runtime : Option (Opts V)) (data : List (Key × V)) (hnd : (data.map (·.1)).Nodup)
    (hnames : (mkParser W c).wfNames W = true) :
    let P := mkParser W c
    let o := (runtime.getD c.opts).normalise
    ((∃ m a, initSchema {} W c runtime data = .ok m a) ↔ (contract W P o data).errs = [])
    ∧ (∀ e, initSchema {} W c runtime data = .raised e → e ∈ (contract W P o data).errs)
    ∧ (∀ es, o.maxErrors = none → initSchema {} W c runtime data = .collected es →
        SetEq es (contract W P o data).errs) := by
  intro P o
  have hwf : P.wf W = true := wf_of_struct (mkParserIn_struct W LL [] (by simp) c) hnames
  exact ⟨C05_success_iff W LL P hwf o data hnd,
    fun e h => C05_failfast_sound W LL P hwf o data hnd e h,
    fun es hm h => C05_collected_exact W LL P hwf o data hnd es hm h⟩

/-! ### The documented clauses, one by one

`Spec.contract` is executable; what each of its ingredients *means* is stated in `Model/C05Spec.lean` as propositions
in the vocabulary of docs/en/references/field.md and options.md (`ModeOff`, `FlagOn`, `NeverInput`, `Required`,
`IsDefault`, `AdditionRule`).  The theorems below tie the model of the code — its predicates, and the state
`parse_data` returns — to those propositions directly. -/

/-- **no_input**: the code ignores the input of a field exactly when the flag is on in the documented sense. -/
theorem C05_no_input_iff (W : World V) (o : Opts V) (f : PField V) (v : V) :
    isNoInput {} W o f v = true ↔ FlagOn W o f f.noInput v := by
  rw [isNoInput_eq]; exact flagOn_iff W o f f.noInput v

/-- **no_output** -/
theorem C05_no_output_iff (W : World V) (o : Opts V) (f : PField V) (v : V) :
    isNoOutput {} W o f v = true ↔ FlagOn W o f f.noOutput v := by
  rw [isNoOutput_eq]; exact flagOn_iff W o f f.noOutput v

/-- **required / ignore_required / mode**: `is_required` is the documented `Required`. -/
theorem C05_required_iff (o : Opts V) (f : PField V) : isRequired {} o f = true ↔ Required o f := by
  rw [isRequired_eq]; exact required_iff o f

/-- **default / default_factory / defer_default / no_default / force_default**: `get_default(options, defer)` yields
`x` exactly when `x` is the documented default — a copy (`copy_value`) of `force_default` if given, else of the field's
own; nothing under `no_default`; at parse time iff not deferred, on attribute access iff deferred. -/
theorem C05_default_iff (W : World V) (o : Opts V) (f : PField V) (defer : Bool) (x : V) :
    getDefault W o f defer = some x ↔ IsDefault W o f defer x := by
  cases defer
  · rw [getDefault_false_eq]; exact filled_iff W o f x
  · rw [getDefault_true_eq]; exact deferred_iff W o f x

/-- **min_params / max_params** -/
theorem C05_params_iff (o : Opts V) (n : Nat) (e : Err) :
    e ∈ paramsCheck o n ↔
      (e = .paramsExceed ∧ ∃ m, o.maxParams = some m ∧ m ≠ 0 ∧ n > m)
      ∨ (e = .paramsLack ∧ ∃ m, o.minParams = some m ∧ m ≠ 0 ∧ n < m) := by
  rw [paramsCheck_eq]; exact paramsContract_iff o n e

/-- **addition**: `parse_addition` follows the documented rule (and the rule leaves no choice: `additionRule_unique`). -/
theorem C05_addition_rule (W : World V) (P : Parser V) (o : Opts V) (k : Key) (v : V) :
    AdditionRule W P.additionTyped (P.excludeVars.contains k) o k v
      (parseAddition W P o k v).1 (parseAddition W P o k v).2 := by
  have := parseAddition_eq W P o (k, v)
  simp only at this
  rw [this]
  exact additionContract_rule W P.additionTyped (P.excludeVars.contains k) o (k, v)

theorem additionContract_errs (W : World V) (typed excluded : Bool) (o : Opts V) (kv : Key × V) (e : Err)
    (h : e ∈ (additionContract W typed excluded o kv).2) : e = .exceed kv.1 ∨ e = .parse kv.1 := by
  have hr := additionContract_rule W typed excluded o kv
  generalize (additionContract W typed excluded o kv).1 = r at hr
  generalize (additionContract W typed excluded o kv).2 = es at hr h
  cases hr <;> simp_all

/-- **A missing required field is an absence error — and nothing else is.** -/
theorem C05_absence_iff [DecidableEq V] (W : World V) (LL : LowerLaws W) (P : Parser V) (hwf : P.wf W = true)
    (o : Opts V) (data : List (Key × V)) (hnd : (data.map (·.1)).Nodup) (n : Key) :
    Err.absence n ∈ (parseData {} W P o data).errs ↔
      ∃ kf ∈ P.fields, kf.2.name = n ∧ given W kf.2 data = false ∧ Required o kf.2 := by
  rw [(C05_parse_data_refines W LL P hwf o data hnd).2 (.absence n)]
  constructor
  · intro h
    rcases contract_errs_cases W P o data _ h with h | ⟨kf, hf, h⟩ | ⟨lack, _, h⟩ | ⟨kv, _, h⟩
    · rcases (paramsContract_iff o data.length _).1 h with ⟨h, _⟩ | ⟨h, _⟩ <;> cases h
    · rcases fieldContract_errs W o kf.2 data _ h with ⟨he, hg, hr⟩ | ⟨he | he, _⟩
      · exact ⟨kf, hf, (Err.absence.inj he).symm, hg, (required_iff o kf.2).1 hr⟩
      · cases he
      · cases he
    · cases h
    · rcases additionContract_errs W _ _ o kv _ h with h | h <;> cases h
  · rintro ⟨kf, hf, rfl, hg, hr⟩
    apply contract_errs_of_field W P o data _ hf
    have hc : candidates W kf.2 data = [] := by
      unfold given at hg
      cases h : candidates W kf.2 data with
      | nil => rfl
      | cons c r => rw [h] at hg; cases hg
    unfold fieldContract
    rw [hc, (required_iff o kf.2).2 hr]
    simp

/-- **A missing field that is not required takes its default (a copy), or stays absent.** -/
theorem C05_missing_field_default [DecidableEq V] (W : World V) (LL : LowerLaws W) (P : Parser V) (hwf : P.wf W = true)
    (o : Opts V) (data : List (Key × V)) (hnd : (data.map (·.1)).Nodup) (kf : Key × PField V) (hf : kf ∈ P.fields)
    (hg : given W kf.2 data = false) (hr : ¬ Required o kf.2) (x : V) :
    dget kf.2.name (parseData {} W P o data).result = some x ↔ IsDefault W o kf.2 false x := by
  have wf := WF.of_wf hwf
  rw [(C05_parse_data_refines W LL P hwf o data hnd).1 kf.2.name, contract_field_value LL wf o data hf, ← filled_iff]
  have hc : candidates W kf.2 data = [] := by
    unfold given at hg
    cases h : candidates W kf.2 data with
    | nil => rfl
    | cons c r => rw [h] at hg; cases hg
  have hreq : required o kf.2 = false := by
    cases h : required o kf.2
    · rfl
    · exact absurd ((required_iff o kf.2).1 h) hr
  unfold fieldContract
  rw [hc, hreq]
  simp

/-- a missing required field holds no value -/
theorem C05_missing_required_no_value [DecidableEq V] (W : World V) (LL : LowerLaws W) (P : Parser V)
    (hwf : P.wf W = true) (o : Opts V) (data : List (Key × V)) (hnd : (data.map (·.1)).Nodup) (kf : Key × PField V)
    (hf : kf ∈ P.fields) (hg : given W kf.2 data = false) (hr : Required o kf.2) :
    dget kf.2.name (parseData {} W P o data).result = none := by
  have wf := WF.of_wf hwf
  rw [(C05_parse_data_refines W LL P hwf o data hnd).1 kf.2.name, contract_field_value LL wf o data hf]
  have hc : candidates W kf.2 data = [] := by
    unfold given at hg
    cases h : candidates W kf.2 data with
    | nil => rfl
    | cons c r => rw [h] at hg; cases hg
  unfold fieldContract
  rw [hc, (required_iff o kf.2).2 hr]
  simp

/-- **Unknown keys follow the addition policy**: an input key no field accepts is rejected, dropped, kept or converted
as `AdditionRule` says — that is what the instance holds under the key, and its errors are handled. -/
theorem C05_unknown_key_rule [DecidableEq V] (W : World V) (LL : LowerLaws W) (P : Parser V) (hwf : P.wf W = true)
    (o : Opts V) (data : List (Key × V)) (hnd : (data.map (·.1)).Nodup) (kv : Key × V) (hkv : kv ∈ data)
    (hun : anyAccepts W P kv.1 = false) :
    ∃ r es, AdditionRule W P.additionTyped (P.excludeVars.contains kv.1) o kv.1 kv.2 r es
      ∧ dget kv.1 (parseData {} W P o data).result = r
      ∧ ∀ e ∈ es, e ∈ (parseData {} W P o data).errs := by
  have wf := WF.of_wf hwf
  have hex : kv ∈ extras W P data := by
    unfold extras; rw [List.mem_filter]; exact ⟨hkv, by simp [hun]⟩
  refine ⟨_, _, additionContract_rule W P.additionTyped (P.excludeVars.contains kv.1) o kv, ?_, ?_⟩
  · rw [(C05_parse_data_refines W LL P hwf o data hnd).1 kv.1]
    exact contract_extra_value LL wf o data hnd hex
  · intro e he
    rw [(C05_parse_data_refines W LL P hwf o data hnd).2 e]
    exact contract_errs_of_extra W P o data e hex he

/-- **no_default**: a field that is not given holds no value at all. -/
theorem C05_no_default_no_value [DecidableEq V] (W : World V) (LL : LowerLaws W) (P : Parser V) (hwf : P.wf W = true)
    (o : Opts V) (data : List (Key × V)) (hnd : (data.map (·.1)).Nodup) (kf : Key × PField V) (hf : kf ∈ P.fields)
    (hg : given W kf.2 data = false) (hno : o.noDefault = true) :
    dget kf.2.name (parseData {} W P o data).result = none := by
  by_cases hr : Required o kf.2
  · exact C05_missing_required_no_value W LL P hwf o data hnd kf hf hg hr
  · cases h : dget kf.2.name (parseData {} W P o data).result with
    | none => rfl
    | some x =>
      have := ((C05_missing_field_default W LL P hwf o data hnd kf hf hg hr x).1 h).1
      rw [hno] at this; cases this

/-- **force_default**: a field that is not given (and not required, not deferred) holds a copy of the forced default,
whatever default it declares itself. -/
theorem C05_force_default_value [DecidableEq V] (W : World V) (LL : LowerLaws W) (P : Parser V) (hwf : P.wf W = true)
    (o : Opts V) (data : List (Key × V)) (hnd : (data.map (·.1)).Nodup) (kf : Key × PField V) (hf : kf ∈ P.fields)
    (hg : given W kf.2 data = false) (hr : ¬ Required o kf.2) (d : V) (hforce : o.forceDefault = some d)
    (hno : o.noDefault = false) (hdf : (kf.2.deferDefault || o.deferDefault) = false) :
    dget kf.2.name (parseData {} W P o data).result = some (W.copy d) :=
  (C05_missing_field_default W LL P hwf o data hnd kf hf hg hr (W.copy d)).2 ⟨hno, hdf, d, rfl, Or.inl hforce⟩

/-- **Fresh copy of the default**: whatever value a field that was not given ends up with is `copy_value` applied to
a declared (or forced) default — never the declared object itself.  (`W.copy` is the model of `copy_value`; that the
copy shares nothing mutable with the original, nested containers included, is compared on the real objects by the
oracle: `fresh` in harness/c05.py.) -/
theorem C05_default_is_copy [DecidableEq V] (W : World V) (LL : LowerLaws W) (P : Parser V) (hwf : P.wf W = true)
    (o : Opts V) (data : List (Key × V)) (hnd : (data.map (·.1)).Nodup) (kf : Key × PField V) (hf : kf ∈ P.fields)
    (hg : given W kf.2 data = false) (x : V) (hx : dget kf.2.name (parseData {} W P o data).result = some x) :
    ∃ d, x = W.copy d ∧ (o.forceDefault = some d ∨ (o.forceDefault = none ∧ kf.2.default = some d)) := by
  by_cases hr : Required o kf.2
  · rw [C05_missing_required_no_value W LL P hwf o data hnd kf hf hg hr] at hx; cases hx
  · exact ((C05_missing_field_default W LL P hwf o data hnd kf hf hg hr x).1 hx).2.2

/-! ### "… and on nothing else": frame theorems

Each behaviour option is compared with itself changed.  Where the option has nothing to act on, the parse is the same
(as a map of values and a set of errors); where it has, the parse differs in the one documented component only. -/

/-- equal contracts, equal parses -/
theorem parse_frame [DecidableEq V] (W : World V) (LL : LowerLaws W) (P : Parser V) (hwf : P.wf W = true)
    (o o' : Opts V) (data : List (Key × V)) (hnd : (data.map (·.1)).Nodup)
    (h : contract W P o' data = contract W P o data) :
    MapEq (parseData {} W P o' data).result (parseData {} W P o data).result
    ∧ SetEq (parseData {} W P o' data).errs (parseData {} W P o data).errs := by
  have h' := C05_parse_data_refines W LL P hwf o' data hnd
  have h0 := C05_parse_data_refines W LL P hwf o data hnd
  rw [h] at h'
  exact ⟨fun k => (h'.1 k).trans (h0.1 k).symm, fun e => (h'.2 e).trans (h0.2 e).symm⟩

/-- **ignore_required** touches required fields only: a class that declares none parses alike with it on or off. -/
theorem C05_frame_ignore_required [DecidableEq V] (W : World V) (LL : LowerLaws W) (P : Parser V) (hwf : P.wf W = true)
    (o : Opts V) (b : Bool) (data : List (Key × V)) (hnd : (data.map (·.1)).Nodup)
    (hno : ∀ kf ∈ P.fields, kf.2.required = .no) :
    MapEq (parseData {} W P { o with ignoreRequired := b } data).result (parseData {} W P o data).result
    ∧ SetEq (parseData {} W P { o with ignoreRequired := b } data).errs (parseData {} W P o data).errs :=
  parse_frame W LL P hwf o _ data hnd (frame_ignoreRequired W P o b data hno)

/-- **no_default / defer_default** touch defaults only: with no default declared and none forced, nothing changes. -/
theorem C05_frame_defaults [DecidableEq V] (W : World V) (LL : LowerLaws W) (P : Parser V) (hwf : P.wf W = true)
    (o : Opts V) (a b : Bool) (data : List (Key × V)) (hnd : (data.map (·.1)).Nodup)
    (hno : ∀ kf ∈ P.fields, kf.2.default = none) (hforce : o.forceDefault = none) :
    MapEq (parseData {} W P { o with noDefault := a, deferDefault := b } data).result (parseData {} W P o data).result
    ∧ SetEq (parseData {} W P { o with noDefault := a, deferDefault := b } data).errs (parseData {} W P o data).errs :=
  parse_frame W LL P hwf o _ data hnd (frame_defaults W P o a b data hno hforce)

/-- **force_default / defer_default** are void under no_default. -/
theorem C05_frame_force_default [DecidableEq V] (W : World V) (LL : LowerLaws W) (P : Parser V) (hwf : P.wf W = true)
    (o : Opts V) (d : Option V) (b : Bool) (data : List (Key × V)) (hnd : (data.map (·.1)).Nodup)
    (hno : o.noDefault = true) :
    MapEq (parseData {} W P { o with forceDefault := d, deferDefault := b } data).result (parseData {} W P o data).result
    ∧ SetEq (parseData {} W P { o with forceDefault := d, deferDefault := b } data).errs (parseData {} W P o data).errs :=
  parse_frame W LL P hwf o _ data hnd (frame_forceDefault W P o d b data hno)

/-- **collect_errors / max_errors** change what is reported (`finish`), never what is parsed or found wrong. -/
theorem C05_frame_collect [DecidableEq V] (W : World V) (LL : LowerLaws W) (P : Parser V) (hwf : P.wf W = true)
    (o : Opts V) (a : Bool) (m : Option Nat) (data : List (Key × V)) (hnd : (data.map (·.1)).Nodup) :
    MapEq (parseData {} W P { o with collectErrors := a, maxErrors := m } data).result (parseData {} W P o data).result
    ∧ SetEq (parseData {} W P { o with collectErrors := a, maxErrors := m } data).errs (parseData {} W P o data).errs :=
  parse_frame W LL P hwf o _ data hnd (frame_collect W P o a m data)

/-- **ignore_alias_conflicts** changes the alias-conflict errors and nothing else: same values, same other errors. -/
theorem C05_frame_alias_conflicts [DecidableEq V] (W : World V) (LL : LowerLaws W) (P : Parser V) (hwf : P.wf W = true)
    (o : Opts V) (b : Bool) (data : List (Key × V)) (hnd : (data.map (·.1)).Nodup) :
    MapEq (parseData {} W P { o with ignoreAliasConflicts := b } data).result (parseData {} W P o data).result
    ∧ ∀ e, (∀ n, e ≠ .aliasConflict n) →
        (e ∈ (parseData {} W P { o with ignoreAliasConflicts := b } data).errs ↔ e ∈ (parseData {} W P o data).errs) := by
  have h' := C05_parse_data_refines W LL P hwf { o with ignoreAliasConflicts := b } data hnd
  have h0 := C05_parse_data_refines W LL P hwf o data hnd
  obtain ⟨hr, he⟩ := frame_conflicts W P o b data
  refine ⟨fun k => ((h'.1 k).trans (by rw [hr])).trans (h0.1 k).symm, fun e hne => ?_⟩
  have hp : (!e.isAliasConflict) = true := by
    cases e <;> simp [Err.isAliasConflict]
    exact hne _ rfl
  rw [h'.2 e, h0.2 e]
  have := congrArg (fun l => e ∈ l) he
  simp only [List.mem_filter, hp, and_true] at this
  exact Iff.of_eq this

/-- **max_params / min_params** add their one error and nothing else. -/
theorem C05_frame_params [DecidableEq V] (W : World V) (LL : LowerLaws W) (P : Parser V) (hwf : P.wf W = true)
    (o : Opts V) (data : List (Key × V)) (hnd : (data.map (·.1)).Nodup) :
    MapEq (parseData {} W P o data).result (parseData {} W P o.noParams data).result
    ∧ ∀ e, e ∈ (parseData {} W P o data).errs ↔
        e ∈ paramsCheck o data.length ∨ e ∈ (parseData {} W P o.noParams data).errs := by
  have h' := C05_parse_data_refines W LL P hwf o.noParams data hnd
  have h0 := C05_parse_data_refines W LL P hwf o data hnd
  obtain ⟨hr, he⟩ := frame_params W P o data
  refine ⟨fun k => ((h0.1 k).trans (by rw [hr])).trans (h'.1 k).symm, fun e => ?_⟩
  rw [h0.2 e, h'.2 e, he, List.mem_append, paramsCheck_eq]

/-- **addition** touches the unknown keys only: every field keeps its value, and the errors are those of the parse
that ignores unknown keys plus what the addition rule says of each unknown key. -/
theorem C05_frame_addition [DecidableEq V] (W : World V) (LL : LowerLaws W) (P : Parser V) (hwf : P.wf W = true)
    (o : Opts V) (data : List (Key × V)) (hnd : (data.map (·.1)).Nodup) :
    (∀ kf ∈ P.fields, dget kf.2.name (parseData {} W P o data).result
        = dget kf.2.name (parseData {} W P { o with addition := .ignore } data).result)
    ∧ ∀ e, e ∈ (parseData {} W P o data).errs ↔
        e ∈ (parseData {} W P { o with addition := .ignore } data).errs
        ∨ ∃ kv ∈ data, anyAccepts W P kv.1 = false ∧ e ∈ (parseAddition W P o kv.1 kv.2).2 := by
  have wf := WF.of_wf hwf
  have h' := C05_parse_data_refines W LL P hwf { o with addition := .ignore } data hnd
  have h0 := C05_parse_data_refines W LL P hwf o data hnd
  refine ⟨fun kf hkf => ?_, fun e => ?_⟩
  · rw [h0.1, h'.1, contract_field_value LL wf o data hkf, contract_field_value LL wf _ data hkf]
    rfl
  · rw [h0.2 e, h'.2 e, (frame_addition W P o data).2, List.mem_append, List.mem_flatMap]
    apply or_congr Iff.rfl
    constructor
    · rintro ⟨kv, hkv, he⟩
      unfold extras at hkv
      rw [List.mem_filter] at hkv
      refine ⟨kv, hkv.1, by simpa using hkv.2, ?_⟩
      rw [parseAddition_eq W P o kv]; exact he
    · rintro ⟨kv, hkv, hun, he⟩
      refine ⟨kv, ?_, ?_⟩
      · unfold extras; rw [List.mem_filter]; exact ⟨hkv, by simp [hun]⟩
      · rw [← parseAddition_eq W P o kv]; exact he

/-! ### class hierarchies -/

/-- **Where `wf` comes from.**  Of the sixteen conjuncts of `Parser.wf`, ten hold for whatever `ClassParser.setup`
builds, for every sequence of class declarations (`buildAll_struct`, Lemmas/C05Wf.lean); what is left to assume about a
declaration is `Parser.wfNames`: no clash of names — distinct output and attribute names, no key accepted by two
fields, no alias that is another field's key, no case-sensitive alias that lower-cases into a case-insensitive one,
every dependency names a field.  Those are the conditions `generate_aliases` / `apply_fields` raise ConfigError on
(a decidable superset; compared with ConfigError on generated declarations by the correspondence run). -/
theorem C05_wf_of_no_name_clash (W : World V) (LL : LowerLaws W) (decls : List (ClassDecl V)) (B : Built V)
    (hB : B ∈ buildAll W decls) (hn : B.parser.wfNames W = true) : B.parser.wf W = true :=
  wf_of_struct (buildAll_struct W LL decls B hB) hn

/-- for a class on its own -/
theorem C05_wf_of_no_name_clash_single (W : World V) (LL : LowerLaws W) (c : ClassDecl V)
    (hn : (mkParser W c).wfNames W = true) : (mkParser W c).wf W = true :=
  wf_of_struct (mkParserIn_struct W LL [] (by simp) c) hn

theorem buildAll_length (W : World V) (decls : List (ClassDecl V)) : (buildAll W decls).length = decls.length := by
  induction decls using Utv.List.rev_ind with
  | nil => rfl
  | snoc l c ih => rw [buildAll_snoc, List.length_append, List.length_append, ih]; rfl

/-- `buildAll` is a left fold that appends: a prefix of the declarations builds a prefix of the parsers.  This holds by
the shape of `buildAll` alone (for any `mkParserIn`) — it records that the MODEL has no way for a later declaration to
reach an earlier parser; that the CODE has none (a subclass takes over the very same ParserField objects and could
mutate them, as seed C05-r2-B did) is checked by the correspondence run only, which parses the base again after its
subclasses were declared.  Not a property theorem. -/
theorem buildAll_prefix_restates_model (W : World V) (decls more : List (ClassDecl V)) (i : Nat)
    (h : i < decls.length) : (buildAll W (decls ++ more))[i]? = (buildAll W decls)[i]? := by
  induction more using Utv.List.rev_ind with
  | nil => simp
  | snoc l c ih =>
    rw [← List.append_assoc, buildAll_snoc, List.getElem?_append_left, ih]
    rw [buildAll_length, List.length_append]; omega

/-- **C05 for any class of a hierarchy**, from the raw declarations (bases, dropped names, fields of each body,
`__options__` given or found on the first base): `Cls.__from__(data, options=runtime)` succeeds iff the contract of
the parser the class ends up with has no violation, a fail-fast run raises one of the violations, collecting reports
all of them. -/
theorem C05_hierarchy_refines [DecidableEq V] (W : World V) (LL : LowerLaws W) (decls : List (ClassDecl V))
    (target : Nat) (B : Built V) (hB : (buildAll W decls)[target]? = some B)
    (runtime : Option (Opts V)) (data : List (Key × V)) (hnd : (data.map (·.1)).Nodup)
    (hnames : B.parser.wfNames W = true) :
    let o := (runtime.getD B.opts).normalise
    ∃ out, initSchemaH {} W decls target runtime data = some out
      ∧ ((∃ m a, out = .ok m a) ↔ (contract W B.parser o data).errs = [])
      ∧ (∀ e, out = .raised e → e ∈ (contract W B.parser o data).errs)
      ∧ (∀ es, o.maxErrors = none → out = .collected es → SetEq es (contract W B.parser o data).errs)
      ∧ (∀ m a, out = .ok m a → ∀ kf ∈ B.parser.fields,
            dget kf.2.attname a = dget kf.2.name (contract W B.parser o data).result
            ∧ dget kf.2.name m = (dget kf.2.name (contract W B.parser o data).result).filter
                (fun v => !noOutput W o kf.2 v)) := by
  intro o
  have hwf : B.parser.wf W = true := C05_wf_of_no_name_clash W LL decls B (List.mem_of_getElem? hB) hnames
  refine ⟨finish {} W B.parser o (parseData {} W B.parser o data), ?_, ?_, ?_, ?_, ?_⟩
  · unfold initSchemaH; rw [hB]; rfl
  · exact C05_success_iff W LL B.parser hwf o data hnd
  · exact fun e h => C05_failfast_sound W LL B.parser hwf o data hnd e h
  · exact fun es hm h => C05_collected_exact W LL B.parser hwf o data hnd es hm h
  · exact fun m a h => (C05_attr_view W LL B.parser hwf o data hnd m a h).1

/-! ### Non-vacuity, and the behaviour before the fix patches (negation witnesses; the same inputs are
replayed on the real code from harness/corpus/C05.jsonl) -/

/-- keys: 0 = 'a', 1 = 'A', 2 = 'a1', 3 = 'b', 4 = 'zz'; values are naturals, 10 stands for the string "1"
(converted to 1), 99 for an unconvertible value, 0 is the falsy value of the predicate. -/
def W₀ : World Nat where
  lower k := if k = 1 then 0 else k
  islower k := k != 1
  fp _ v := if v = 10 then some 1 else if v = 99 then none else some v
  pred _ v := v == 0
  addConv v := some v
  copy v := v
  schemaExcluded := [9]            -- key 9 = 'update', a method of Schema

theorem W₀_laws : LowerLaws W₀ := by
  constructor
  · intro k; simp only [W₀]; by_cases h : k = 1 <;> simp [h]
  · intro k h; simp only [W₀] at h ⊢; by_cases h1 : k = 1 <;> simp_all

/-- `class K(Schema): a: int = Field(alias_from=['a1'])` -/
def cA : ClassDecl Nat := { fields := [{ attname := 0, aliasFrom := [2] }], opts := {} }

/-- the hypotheses of the theorems are satisfiable -/
example : (mkParser W₀ cA).wf W₀ = true := by decide
example : (([(0, 1), (2, 1)] : List (Key × Nat)).map (·.1)).Nodup := by decide

/-- a declaration that uses everything at once: `A: int = Field(alias='zz', alias_from=['a1'], case_insensitive=True)`,
`b: int = Field(required=False, dependencies=['a1'])`, a method `m` (key 7), `Options(addition=True)` — well-formed -/
def cRich : ClassDecl Nat :=
  { fields := [{ attname := 1, alias := some 4, aliasFrom := [2], ci := some true },
               { attname := 3, required := some .no, deps := [2] }]
    opts := { addition := .allow }, excluded := [7] }

example : (mkParser W₀ cRich).wf W₀ = true := by decide
example : (mkParser W₀ cRich).wfNames W₀ = true := by decide
/-- a clash `wfNames` rejects: `a: int = Field(alias_from=['b'])`, `b: int` — key 'b' (3) is accepted by two fields
(`generate_aliases` / `apply_fields` raise ConfigError) -/
example : (mkParser W₀ ({ fields := [{ attname := 0, aliasFrom := [3] }, { attname := 3 }], opts := {} } : ClassDecl Nat)).wfNames W₀
    = false := by decide
example : (mkParser W₀ cRich).excludeVars = [9, 7] := by decide
/-- 'A' (1) and 'a' (0) both reach the case-insensitive field, stored under its alias; the method name is dropped,
another unknown key is kept -/
example : (fieldFirst {} W₀ (mkParser W₀ cRich) cRich.opts [(0, 10), (7, 3), (8, 3)]).result = [(4, 1), (8, 3)] := by
  decide
example : (dataFirst {} W₀ (mkParser W₀ cRich) cRich.opts [(0, 10), (7, 3), (8, 3)]).result = [(4, 1), (8, 3)] := by
  decide

/-- `Field(mode='')`: an empty mode string is falsy — no restriction (the field takes the input in mode 'w') -/
def cEmptyMode : ClassDecl Nat := { fields := [{ attname := 0, mode := some [] }], opts := { mode := some 119 } }
example : (mkParser W₀ cEmptyMode).wf W₀ = true := by decide
example : (fieldFirst {} W₀ (mkParser W₀ cEmptyMode) cEmptyMode.opts [(0, 10)]).result = [(0, 1)] := by decide
example : (contract W₀ (mkParser W₀ cEmptyMode) cEmptyMode.opts [(0, 10)]).result = [(0, 1)] := by decide

/-- a world where `copy_value` is visible (`copy d = d + 100`): the default that is filled in is the copy, in both
strategies and in the contract -/
def W₁ : World Nat := { W₀ with copy := fun v => v + 100 }
def cDef : ClassDecl Nat := { fields := [{ attname := 0, default := some 5 }], opts := {} }
example : (fieldFirst {} W₁ (mkParser W₁ cDef) {} []).result = [(0, 105)]
    ∧ (dataFirst {} W₁ (mkParser W₁ cDef) {} []).result = [(0, 105)]
    ∧ (contract W₁ (mkParser W₁ cDef) {} []).result = [(0, 105)] := by decide

/-- `no_input='a'` with `mode='ra'`, parsed in mode 'w' (field.md "Modes and input/output"): before
fixes/C05-mode-string-flags.patch the field took the input although it does not support the mode. -/
def cMode : ClassDecl Nat :=
  { fields := [{ attname := 0, default := some 5, noInput := .modes [97], mode := some [114, 97] }]
    opts := { mode := some 119 } }

theorem C05_legacy_mode_string_witness :
    dget 0 (fieldFirst { modeStringReturns := true } W₀ (mkParser W₀ cMode) cMode.opts [(0, 1)]).result
      ≠ dget 0 (contract W₀ (mkParser W₀ cMode) cMode.opts [(0, 1)]).result := by decide

example : dget 0 (fieldFirst {} W₀ (mkParser W₀ cMode) cMode.opts [(0, 1)]).result
      = dget 0 (contract W₀ (mkParser W₀ cMode) cMode.opts [(0, 1)]).result := by decide
example : (mkParser W₀ cMode).wf W₀ = true := by decide

/-- a required field with a callable `no_input` and `mode='r'`, parsed in mode 'w': before
fixes/C05-required-callable-no-input.patch its absence was an error although it cannot be given. -/
def cPred : ClassDecl Nat :=
  { fields := [{ attname := 0, noInput := .pred 0, mode := some [114] }], opts := { mode := some 119 } }

theorem C05_legacy_required_callable_witness :
    (fieldFirst { predSkipsMode := true } W₀ (mkParser W₀ cPred) cPred.opts []).errs
      ≠ (contract W₀ (mkParser W₀ cPred) cPred.opts []).errs := by decide

example : (fieldFirst {} W₀ (mkParser W₀ cPred) cPred.opts []).errs
      = (contract W₀ (mkParser W₀ cPred) cPred.opts []).errs := by decide
example : (mkParser W₀ cPred).wf W₀ = true := by decide

/-- `class Account(Schema): A: int` (key 1 = 'A') and `class Lenient(Account): __options__ = Options(case_insensitive=True); b: int = 0`:
the field taken over stays case-sensitive (as `Account` set it up), the new one is case-insensitive; `Account` itself
is what it was. -/
def hAccount : ClassDecl Nat := { fields := [{ attname := 1 }], opts := {} }
def hLenient : ClassDecl Nat :=
  { fields := [{ attname := 3, default := some 0 }], opts := { caseInsensitive := true }, bases := [0] }

example : ((buildAll W₀ [hAccount, hLenient])[1]?.map fun B => (B.parser.fields.map (·.1), B.parser.ciNames, B.parser.wf W₀))
    = some ([1, 3], [3], true) := by decide
example : (buildAll W₀ [hAccount, hLenient])[0]?.map (·.parser.ciNames) = (buildAll W₀ [hAccount])[0]?.map (·.parser.ciNames) := by
  decide

/-- `class Base(Schema): limit: PositiveInt = 10`, `class Mid(Base): pass`, `class Leaf(Mid): limit = 20` (no annotation):
the annotation written two levels up is the type of `Leaf.limit` (`parser.annotations` accumulates over every level),
so `Leaf(limit=<unconvertible>)` fails as `Base` does. -/
def tBase : ClassDecl Nat := { fields := [{ attname := 0, ty := some 0, default := some 10 }], opts := {} }
def tMid : ClassDecl Nat := { fields := [], opts := {}, bases := [0], ownOpts := false }
def tLeaf : ClassDecl Nat := { fields := [{ attname := 0, ty := none, default := some 20 }], opts := {}, bases := [1], ownOpts := false }

example : ((buildAll W₀ [tBase, tMid, tLeaf])[2]?.map fun B => B.parser.fields.map (·.2.ty)) = some [some 0] := by decide
example : (initSchemaH {} W₀ [tBase, tMid, tLeaf] 2 none [(0, 99)]).map (fun o => match o with | .raised e => some e | _ => none)
    = some (some (.parse 0)) := by decide
/-- without any annotation up the chain the value is taken as it is -/
example : ((buildAll W₀ [({ fields := [], opts := {} } : ClassDecl Nat),
      ({ fields := [{ attname := 0, ty := none }], opts := {}, bases := [0] } : ClassDecl Nat)])[1]?.map
      fun B => B.parser.fields.map (·.2.ty)) = some [none] := by decide

/-- a value dropped by the 'exclude' policy leaves the field as one that was not given: its default applies but it
does not satisfy another field's dependency.  Before utype 107a5ff the default counted as a given value. -/
def cExcl : ClassDecl Nat :=
  { fields := [{ attname := 0, default := some 5, onError := some .exclude },
               { attname := 3, required := some .no, deps := [0] }], opts := {} }

theorem C05_legacy_excluded_dependency_witness :
    (fieldFirst { excludedProvided := true } W₀ (mkParser W₀ cExcl) {} [(0, 99), (3, 1)]).errs
      ≠ (contract W₀ (mkParser W₀ cExcl) {} [(0, 99), (3, 1)]).errs := by decide

example : (fieldFirst {} W₀ (mkParser W₀ cExcl) {} [(0, 99), (3, 1)]).errs = [.depsAbsence [0]]
    ∧ (dataFirst {} W₀ (mkParser W₀ cExcl) {} [(0, 99), (3, 1)]).errs = [.depsAbsence [0]]
    ∧ (contract W₀ (mkParser W₀ cExcl) {} [(0, 99), (3, 1)]).errs = [.depsAbsence [0]] := by decide
example : (mkParser W₀ cExcl).wf W₀ = true := by decide

/-- `class K(Schema): a: int` under `Options(addition=False)`, called with `update=3` (key 9: a method of Schema, so an
excluded name): the documented rule for `addition=False` rejects every key that is no field.  Before
fixes/C05-excluded-name-rejected.patch the excluded names were tested first and the key was dropped silently. -/
theorem C05_legacy_excluded_name_witness :
    parseAdditionLegacy W₀ (mkParser W₀ cA) { addition := .forbid } 9 3
      ≠ additionContract W₀ false ((mkParser W₀ cA).excludeVars.contains 9) { addition := .forbid } (9, 3) := by decide

example : parseAddition W₀ (mkParser W₀ cA) { addition := .forbid } 9 3 = (none, [.exceed 9]) := by decide
example : (fieldFirst {} W₀ (mkParser W₀ cA) { addition := .forbid } [(0, 1), (9, 3)]).errs = [.exceed 9]
    ∧ (dataFirst {} W₀ (mkParser W₀ cA) { addition := .forbid } [(0, 1), (9, 3)]).errs = [.exceed 9] := by decide

end Utv.C05
