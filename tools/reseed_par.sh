#!/bin/bash
# Re-run every kept seeded change on the current /repo HEAD, N at a time.  Each lane has its own copy of /verif
# (with its Lean build directory) and its own worktree of /repo under $ROOT (default /tmp/rs), so lanes never share
# a patched tree or a build; /repo itself is not touched.  Results (seeded/<id>/meta.json) are copied back.
# usage: tools/reseed_par.sh [N=4] [seed-id ...]
N=${1:-4}; shift
ROOT=${RESEED_ROOT:-/tmp/rs}
V=$(cd "$(dirname "$0")/.." && pwd)
VH=$(git -C $V rev-parse --short HEAD)
ids=("$@"); [ ${#ids[@]} -eq 0 ] && ids=($(ls $V/seeded))
rm -rf $ROOT; mkdir -p $ROOT
for k in $(seq 1 $N); do
  mkdir -p $ROOT/$k
  rsync -a --exclude .git $V/ $ROOT/$k/verif/
  (cd $ROOT/$k/verif && git init -q && git add -A evidence >/dev/null 2>&1 && git -c user.name=x -c user.email=x@x commit -qm e >/dev/null)
  git -C /repo worktree add -f --detach $ROOT/$k/repo HEAD >/dev/null 2>&1
done
lane() {
  k=$1; shift
  for id in "$@"; do
    d=$ROOT/$k/verif/seeded/$id
    p=$(python3 -c "import json;print(json.load(open('$d/meta.json'))['property'])")
    extra=$(python3 -c "
import json;d=json.load(open('$d/meta.json'));print(' '.join('--check '+c for c in dict.fromkeys(list(d.get('results') or {})+list(d.get('also_check') or [])) if c!=d['property']))")
    (cd $ROOT/$k/verif && SEEDRUN_REPO=$ROOT/$k/repo SEEDRUN_VERIF_HEAD=$VH VERIF_JOBS=3 tools/seedrun.py $p seeded/$id $id $extra 2>&1 | grep -E "SEED|->")
    cp $d/meta.json $V/seeded/$id/meta.json
    git -C $ROOT/$k/repo checkout -- . 2>/dev/null
  done
}
for k in $(seq 1 $N); do
  mine=(); i=0
  for id in "${ids[@]}"; do [ $((i % N + 1)) -eq $k ] && mine+=($id); i=$((i+1)); done
  lane $k "${mine[@]}" > $ROOT/lane$k.log 2>&1 &
done
wait
cat $ROOT/lane*.log
for k in $(seq 1 $N); do git -C /repo worktree remove --force $ROOT/$k/repo; done
git -C /repo worktree prune
rm -rf $ROOT
