/-
Parse-level places that read the two preferences (C12): `Options.__init__` (options.py:151-155), the tuple
prefix parser (rule.py:1891-1899) and the list input of a data class (cls.py:598-606).  Element / field
parsers are abstract parameters.
-/
import Utv.Model.Conv
namespace Utv.C12M
open Utv.Conv

end Utv.C12M
