import Utv.Model.C05
import Utv.Util.ListLemmas
/-! Lemmas about the association-list dictionaries of the C05 model. -/
namespace Utv.C05

variable {α : Type}

@[simp] theorem dget_nil (k : Key) : dget k ([] : List (Key × α)) = none := rfl

theorem dget_cons (k : Key) (x : Key × α) (d : List (Key × α)) :
    dget k (x :: d) = if x.1 = k then some x.2 else dget k d := by
  obtain ⟨a, b⟩ := x; rfl

theorem dget_dset (k k' : Key) (v : α) (d : List (Key × α)) :
    dget k (dset k' v d) = if k' = k then some v else dget k d := by
  induction d with
  | nil => simp [dset, dget]
  | cons x xs ih =>
    obtain ⟨a, b⟩ := x
    simp only [dset]
    by_cases h : a = k'
    · subst h; simp only [if_true, dget]
      by_cases h2 : a = k <;> simp [h2]
    · simp only [h, if_false, dget, ih]
      by_cases h2 : a = k
      · subst h2
        have : ¬ k' = a := fun e => h e.symm
        simp [this]
      · simp [h2]

theorem dhas_dset (k k' : Key) (v : α) (d : List (Key × α)) :
    dhas k (dset k' v d) = (decide (k' = k) || dhas k d) := by
  unfold dhas; rw [dget_dset]; by_cases h : k' = k <;> simp [h]

theorem dget_eq_none_iff (k : Key) (d : List (Key × α)) : dget k d = none ↔ k ∉ d.map (·.1) := by
  induction d with
  | nil => simp
  | cons x xs ih =>
    rw [dget_cons]
    by_cases h : x.1 = k
    · simp [h]
    · simp only [h, if_false, ih, List.map_cons, List.mem_cons]
      constructor
      · intro hn hc; rcases hc with hc | hc
        · exact h hc.symm
        · exact hn hc
      · intro hn hc; exact hn (Or.inr hc)

theorem dhas_iff (k : Key) (d : List (Key × α)) : dhas k d = true ↔ k ∈ d.map (·.1) := by
  unfold dhas
  rw [Option.isSome_iff_ne_none, Ne, dget_eq_none_iff]; simp

theorem dget_mem {k : Key} {v : α} {d : List (Key × α)} (h : dget k d = some v) : (k, v) ∈ d := by
  induction d with
  | nil => simp at h
  | cons x xs ih =>
    rw [dget_cons] at h
    by_cases hx : x.1 = k
    · simp only [hx, if_true, Option.some.injEq] at h
      obtain ⟨a, b⟩ := x; simp at hx h; subst hx h; simp
    · simp only [hx, if_false] at h; exact List.mem_cons_of_mem _ (ih h)

/-- setting an absent key appends -/
theorem dset_of_not_mem (k : Key) (v : α) (d : List (Key × α)) (h : k ∉ d.map (·.1)) :
    dset k v d = d ++ [(k, v)] := by
  induction d with
  | nil => rfl
  | cons x xs ih =>
    obtain ⟨a, b⟩ := x
    simp only [List.map_cons, List.mem_cons, not_or] at h
    have : ¬ a = k := fun e => h.1 e.symm
    simp [dset, this, ih h.2]

theorem keys_dset (k : Key) (v : α) (d : List (Key × α)) :
    ∀ x, x ∈ (dset k v d).map (·.1) ↔ x = k ∨ x ∈ d.map (·.1) := by
  intro x
  rw [← dhas_iff, dhas_dset, ← dhas_iff]
  by_cases h : k = x
  · subst h; simp
  · have : ¬ x = k := fun e => h e.symm
    simp [h, this]

theorem nodup_keys_dset (k : Key) (v : α) (d : List (Key × α)) (h : (d.map (·.1)).Nodup) :
    ((dset k v d).map (·.1)).Nodup := by
  induction d with
  | nil => simp [dset]
  | cons x xs ih =>
    obtain ⟨a, b⟩ := x
    simp only [List.map_cons, List.nodup_cons] at h
    simp only [dset]
    by_cases hk : a = k
    · subst hk; simpa using h
    · simp only [hk, if_false, List.map_cons, List.nodup_cons]
      refine ⟨?_, ih h.2⟩
      intro hc
      rcases (keys_dset k v xs a).1 hc with h1 | h1
      · exact hk h1
      · exact h.1 h1

/-- unique keys: membership determines lookup -/
theorem dget_of_mem {k : Key} {v : α} {d : List (Key × α)} (hn : (d.map (·.1)).Nodup) (h : (k, v) ∈ d) :
    dget k d = some v := by
  induction d with
  | nil => simp at h
  | cons x xs ih =>
    simp only [List.map_cons, List.nodup_cons] at hn
    rw [dget_cons]
    rcases List.mem_cons.mp h with h1 | h1
    · subst h1; simp
    · have : x.1 ≠ k := by
        intro e; apply hn.1; rw [e]; exact List.mem_map_of_mem (f := (·.1)) h1
      simp [this, ih hn.2 h1]

theorem dget_append (k : Key) (a b : List (Key × α)) :
    dget k (a ++ b) = (dget k a).orElse (fun _ => dget k b) := by
  induction a with
  | nil => simp
  | cons x xs ih =>
    rw [List.cons_append, dget_cons, dget_cons]
    by_cases h : x.1 = k <;> simp [h, ih]

theorem dget_dupdate (k : Key) (d e : List (Key × α)) :
    dget k (dupdate d e) = (dget k e.reverse).orElse (fun _ => dget k d) := by
  unfold dupdate
  induction e using Utv.List.rev_ind generalizing d with
  | nil => simp
  | snoc l a ih =>
    rw [List.foldl_append]
    simp only [List.foldl_cons, List.foldl_nil, List.reverse_append, List.reverse_cons, List.reverse_nil,
      List.nil_append, List.cons_append]
    rw [dget_dset, dget_cons, ih]
    by_cases h : a.1 = k <;> simp [h]

theorem dget_reverse_of_nodup (k : Key) (e : List (Key × α)) (hn : (e.map (·.1)).Nodup) :
    dget k e.reverse = dget k e := by
  cases h : dget k e with
  | none =>
    rw [dget_eq_none_iff] at h ⊢
    simpa using h
  | some v =>
    apply dget_of_mem
    · rw [List.map_reverse]
      unfold List.Nodup at hn ⊢
      rw [List.pairwise_reverse]
      exact hn.imp (fun h => fun e => h e.symm)
    · simpa using dget_mem h

end Utv.C05
