import Utv.Model.C13Defs
import Utv.Lemmas.C13Json
/-! The `$defs` registry (`get_def_name` / `set_def`): invariants over arbitrary operation histories. -/
set_option linter.unusedSimpArgs false
namespace Utv.C13
open Utv.JsonSchema

/-- identities and names are both pairwise distinct -/
def RegOk (reg : Reg) : Prop := (reg.map (·.uid)).Nodup ∧ (reg.map (·.name)).Nodup

theorem nameOf_none_iff (reg : Reg) (u : Nat) : reg.nameOf u = none ↔ u ∉ reg.map (·.uid) := by
  induction reg with
  | nil => simp [Reg.nameOf]
  | cons e rest ih =>
    simp only [Reg.nameOf, List.map_cons, List.mem_cons, not_or]
    by_cases h : (e.uid == u) = true
    · have : e.uid = u := by simpa using h
      simp [h, this]
    · have hne : ¬ u = e.uid := by intro hh; apply h; simp [hh]
      simp only [h, Bool.false_eq_true, if_false]
      rw [ih]
      exact ⟨fun hh => ⟨hne, hh⟩, fun hh => hh.2⟩

theorem nameOf_some_mem {reg : Reg} {u : Nat} {n : String} (h : reg.nameOf u = some n) :
    ∃ e ∈ reg, e.uid = u ∧ e.name = n := by
  induction reg with
  | nil => simp [Reg.nameOf] at h
  | cons e rest ih =>
    simp only [Reg.nameOf] at h
    by_cases hu : (e.uid == u) = true
    · simp only [hu, if_true, Option.some.injEq] at h
      exact ⟨e, List.mem_cons_self .., by simpa using hu, h⟩
    · simp only [hu] at h
      obtain ⟨e', he', h1, h2⟩ := ih h
      exact ⟨e', List.mem_cons_of_mem _ he', h1, h2⟩

theorem nameOf_of_mem {reg : Reg} (hok : (reg.map (·.uid)).Nodup) {e : Entry} (he : e ∈ reg) :
    reg.nameOf e.uid = some e.name := by
  induction reg with
  | nil => cases he
  | cons x rest ih =>
    simp only [List.map_cons, List.nodup_cons] at hok
    simp only [Reg.nameOf]
    rcases List.mem_cons.mp he with rfl | he
    · simp
    · have hne : (x.uid == e.uid) = false := by
        apply beq_false_of_ne
        intro hh
        apply hok.1
        rw [hh]
        exact List.mem_map_of_mem he
      simp only [hne, Bool.false_eq_true, if_false]
      exact ih hok.2 he

theorem nameOf_append (a b : Reg) (u : Nat) :
    (a ++ b).nameOf u = (match a.nameOf u with
      | some n => some n
      | none => b.nameOf u) := by
  induction a with
  | nil => simp [Reg.nameOf]
  | cons e rest ih =>
    simp only [List.cons_append, Reg.nameOf]
    by_cases h : (e.uid == u) = true
    · simp [h]
    · simp only [h]; exact ih

theorem nameOf_fill (reg : Reg) (uid : Nat) (d : Obj) (u : Nat) : (reg.fill uid d).nameOf u = reg.nameOf u := by
  induction reg with
  | nil => rfl
  | cons e rest ih =>
    simp only [Reg.fill, Reg.nameOf]
    by_cases h : (e.uid == uid) = true
    · simp only [h, if_true]
      by_cases h2 : (e.uid == u) = true
      · simp only [h2, if_true]
      · simp only [h2, Bool.false_eq_true, if_false]; exact ih
    · simp only [h, Bool.false_eq_true, if_false]
      by_cases h2 : (e.uid == u) = true
      · simp only [h2, if_true]
      · simp only [h2, Bool.false_eq_true, if_false]; exact ih

theorem fill_uids (reg : Reg) (uid : Nat) (d : Obj) : (reg.fill uid d).map (·.uid) = reg.map (·.uid) := by
  induction reg with
  | nil => rfl
  | cons e rest ih =>
    simp only [Reg.fill, List.map_cons, ih]
    by_cases h : (e.uid == uid) = true
    · simp only [h, if_true]
    · simp only [h, Bool.false_eq_true, if_false]

theorem fill_names (reg : Reg) (uid : Nat) (d : Obj) : (reg.fill uid d).map (·.name) = reg.map (·.name) := by
  induction reg with
  | nil => rfl
  | cons e rest ih =>
    simp only [Reg.fill, List.map_cons, ih]
    by_cases h : (e.uid == uid) = true
    · simp only [h, if_true]
    · simp only [h, Bool.false_eq_true, if_false]

theorem used_iff (reg : Reg) (n : String) : reg.used n = true ↔ n ∈ reg.map (·.name) := by
  simp only [Reg.used, List.any_eq_true, List.mem_map]
  constructor
  · rintro ⟨e, he, h⟩; exact ⟨e, he, by simpa using h⟩
  · rintro ⟨e, he, h⟩; exact ⟨e, he, by simp [h]⟩

theorem freeName_unused {reg : Reg} {name n : String} (h : freeName reg name = some n) : n ∉ reg.map (·.name) := by
  unfold freeName at h
  have := List.find?_some h
  rw [← used_iff]
  simpa using this

/-! ### one `set_def` -/

theorem setDef_eq_fresh (reg : Reg) (name : String) (uid : Nat) (d : Option Obj) (hnone : reg.nameOf uid = none) :
    setDef reg name uid d = (match freeName reg name with
      | some n => (n, reg ++ [⟨uid, n, d⟩])
      | none => (name, reg)) := by
  unfold setDef
  simp only [hnone, Option.isSome_none, Bool.false_eq_true, if_false]
  cases freeName reg name <;> rfl

theorem setDef_eq_registered (reg : Reg) (name : String) (uid : Nat) (d : Option Obj) (n : String)
    (h : reg.nameOf uid = some n) :
    setDef reg name uid d = (name, match d with
      | some d => reg.fill uid d
      | none => reg) := by
  unfold setDef
  simp only [h, Option.isSome_some, if_true]
  cases d <;> rfl

theorem setDef_ok (reg : Reg) (name : String) (uid : Nat) (d : Option Obj) (hok : RegOk reg) :
    RegOk (setDef reg name uid d).2 := by
  cases hr : reg.nameOf uid with
  | some m =>
    rw [setDef_eq_registered reg name uid d m hr]
    cases d with
    | none => exact hok
    | some d => exact ⟨by simp only [fill_uids]; exact hok.1, by simp only [fill_names]; exact hok.2⟩
  | none =>
    rw [setDef_eq_fresh reg name uid d hr]
    cases hf : freeName reg name with
    | none => exact hok
    | some n =>
      refine ⟨?_, ?_⟩
      · simp only [List.map_append, List.map_cons, List.map_nil]
        rw [List.nodup_append]
        refine ⟨hok.1, by simp, ?_⟩
        intro a ha b hb
        simp only [List.mem_singleton] at hb
        subst hb
        intro hab; subst hab
        exact (nameOf_none_iff reg _).mp hr ha
      · simp only [List.map_append, List.map_cons, List.map_nil]
        rw [List.nodup_append]
        refine ⟨hok.2, by simp, ?_⟩
        intro a ha b hb
        simp only [List.mem_singleton] at hb
        subst hb
        intro hab; subst hab
        exact freeName_unused hf ha

theorem setDef_stable (reg : Reg) (name : String) (uid : Nat) (d : Option Obj) (u : Nat) (n : String)
    (h : reg.nameOf u = some n) : (setDef reg name uid d).2.nameOf u = some n := by
  cases hr : reg.nameOf uid with
  | some m =>
    rw [setDef_eq_registered reg name uid d m hr]
    cases d with
    | none => exact h
    | some d => simp only [nameOf_fill]; exact h
  | none =>
    rw [setDef_eq_fresh reg name uid d hr]
    cases freeName reg name with
    | none => exact h
    | some m => simp only [nameOf_append, h]

theorem setDef_fresh (reg : Reg) (name : String) (uid : Nat) (d : Option Obj) (n : String)
    (hnone : reg.nameOf uid = none) (hf : freeName reg name = some n) :
    (setDef reg name uid d).1 = n ∧ (setDef reg name uid d).2.nameOf uid = some n := by
  rw [setDef_eq_fresh reg name uid d hnone, hf]
  refine ⟨rfl, ?_⟩
  simp only [nameOf_append, hnone]
  simp [Reg.nameOf]

theorem setDef_registered (reg : Reg) (name : String) (uid : Nat) (d : Obj) (n : String)
    (h : reg.nameOf uid = some n) :
    (setDef reg name uid (some d)).1 = name ∧ (setDef reg name uid (some d)).2 = reg.fill uid d := by
  rw [setDef_eq_registered reg name uid (some d) n h]
  exact ⟨rfl, rfl⟩

/-! ### histories -/

structure DefOp where
  name : String
  uid : Nat
  data : Option Obj

def runOps (reg : Reg) : List DefOp → Reg
  | [] => reg
  | op :: rest => runOps (setDef reg op.name op.uid op.data).2 rest

theorem runOps_ok (reg : Reg) (ops : List DefOp) (hok : RegOk reg) : RegOk (runOps reg ops) := by
  induction ops generalizing reg with
  | nil => exact hok
  | cons op rest ih => exact ih _ (setDef_ok reg op.name op.uid op.data hok)

theorem runOps_stable (reg : Reg) (ops : List DefOp) (u : Nat) (n : String) (h : reg.nameOf u = some n) :
    (runOps reg ops).nameOf u = some n := by
  induction ops generalizing reg with
  | nil => exact h
  | cons op rest ih => exact ih _ (setDef_stable reg op.name op.uid op.data u n h)

/-! ### definitions by name -/

theorem lookup_getDefs_fill (reg : Reg) (uid : Nat) (d : Obj) (n : String) (hok : RegOk reg)
    (h : reg.nameOf uid = some n) : lookup n (getDefs (reg.fill uid d)) = some (.obj d) := by
  induction reg with
  | nil => simp [Reg.nameOf] at h
  | cons e rest ih =>
    obtain ⟨hu, hn⟩ := hok
    simp only [List.map_cons, List.nodup_cons] at hu hn
    simp only [Reg.nameOf] at h
    simp only [Reg.fill, getDefs, List.map_cons, lookup]
    by_cases he : (e.uid == uid) = true
    · simp only [he, if_true, Option.some.injEq] at h
      simp only [he, if_true, h, beq_self_eq_true]
    · simp only [he, Bool.false_eq_true, if_false] at h
      obtain ⟨e', he', h1, h2⟩ := nameOf_some_mem h
      have hne : (e.name == n) = false := by
        apply beq_false_of_ne
        intro hh
        apply hn.1
        rw [hh, ← h2]
        exact List.mem_map_of_mem he'
      simp only [he, Bool.false_eq_true, if_false, hne]
      exact ih ⟨hu.2, hn.2⟩ h

end Utv.C13
