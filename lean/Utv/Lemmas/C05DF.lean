import Utv.Lemmas.C05FF
/-! data_first_parse: the key scan (first alias in declaration order wins), the provided-field loop,
the absent-field loop. -/
namespace Utv.C05
open Spec

variable {V : Type}

/-! ### choosing the input of least rank, first among equals -/

theorem head?_append_of {α : Type} (l₁ l₂ : List α) : (l₁ ++ l₂).head? = l₁.head?.or l₂.head? := by
  cases l₁ <;> simp

def better (a b : Nat × V) : Nat × V := if b.1 < a.1 then b else a

def pickStep (acc : Option (Nat × V)) (x : Nat × V) : Option (Nat × V) :=
  match acc with
  | none => some x
  | some a => some (better a x)

def pickMin (l : List (Nat × V)) : Option (Nat × V) := l.foldl pickStep none

theorem pickMin_snoc (l : List (Nat × V)) (x : Nat × V) : pickMin (l ++ [x]) = pickStep (pickMin l) x := by
  simp [pickMin, List.foldl_append]

/-- once an input of rank 0 is held it stays -/
theorem foldl_pick_zero (l : List (Nat × V)) (v : V) : l.foldl pickStep (some (0, v)) = some (0, v) := by
  induction l with
  | nil => rfl
  | cons x xs ih => simp [pickStep, better, ih]

theorem foldl_pick_shift (l : List (Nat × V)) (acc : Option (Nat × V)) :
    (l.map fun rv => (rv.1 + 1, rv.2)).foldl pickStep (acc.map fun rv => (rv.1 + 1, rv.2))
      = (l.foldl pickStep acc).map fun rv => (rv.1 + 1, rv.2) := by
  induction l generalizing acc with
  | nil => rfl
  | cons x xs ih =>
    simp only [List.map_cons, List.foldl_cons]
    rw [← ih]
    congr 1
    cases acc with
    | none => rfl
    | some a =>
      simp only [Option.map_some, pickStep, better]
      by_cases h : x.1 < a.1
      · have : x.1 + 1 < a.1 + 1 := by omega
        simp [h, this]
      · have : ¬ x.1 + 1 < a.1 + 1 := by omega
        simp [h, this]

/-- with an accumulator of positive rank (or none), the first rank-0 input wins -/
theorem foldl_pick_first_zero (l : List (Nat × V)) (acc : Option (Nat × V)) (hacc : ∀ a, acc = some a → 0 < a.1)
    (v : V) (pre post : List (Nat × V)) (hl : l = pre ++ (0, v) :: post) (hpre : ∀ x ∈ pre, 0 < x.1) :
    l.foldl pickStep acc = some (0, v) := by
  subst hl
  induction pre generalizing acc with
  | nil =>
    simp only [List.nil_append, List.foldl_cons]
    have : pickStep acc (0, v) = some (0, v) := by
      cases acc with
      | none => rfl
      | some a => have := hacc a rfl; simp [pickStep, better, this]
    rw [this, foldl_pick_zero]
  | cons x xs ih =>
    simp only [List.cons_append, List.foldl_cons]
    apply ih
    · intro a ha
      cases acc with
      | none => simp [pickStep] at ha; rw [← ha]; exact hpre x (by simp)
      | some b =>
        simp only [pickStep, Option.some.injEq] at ha
        rw [← ha]; unfold better
        split
        · exact hpre x (by simp)
        · exact hacc b rfl
    · intro y hy; exact hpre y (List.mem_cons_of_mem _ hy)

theorem first_zero_split {α : Type} (g : α → Option (Nat × V)) (h : α → Option V) (v : V)
    (H0 : ∀ kv x, h kv = some x → g kv = some (0, x))
    (H1 : ∀ kv, h kv = none → ∀ r, g kv = some r → 0 < r.1) (data : List α)
    (hv : (data.filterMap h).head? = some v) :
    ∃ pre post, data.filterMap g = pre ++ (0, v) :: post ∧ ∀ x ∈ pre, 0 < x.1 := by
  induction data with
  | nil => simp at hv
  | cons kv data ih =>
    cases hh : h kv with
    | some x =>
      rw [List.filterMap_cons_some hh] at hv
      have : x = v := by simpa using hv
      subst this
      rw [List.filterMap_cons_some (H0 kv x hh)]
      exact ⟨[], _, rfl, by simp⟩
    | none =>
      rw [List.filterMap_cons_none hh] at hv
      obtain ⟨pre, post, hl, hpre⟩ := ih hv
      cases hg : g kv with
      | none =>
        rw [List.filterMap_cons_none hg, hl]
        exact ⟨pre, post, rfl, hpre⟩
      | some r =>
        rw [List.filterMap_cons_some hg, hl]
        refine ⟨r :: pre, post, rfl, ?_⟩
        intro x hx
        rcases List.mem_cons.mp hx with e | e
        · rw [e]; exact H1 kv hh r hg
        · exact hpre x e

/-- **least rank, first among equals = first alias in declaration order, first key in input order** -/
theorem pickMin_ranked (nk : Key → Key) (L : List Key) (data : List (Key × V)) :
    (pickMin (data.filterMap fun kv =>
        if nk kv.1 ∈ L then some (idxOf (nk kv.1) L, kv.2) else none)).map (·.2)
      = (L.flatMap fun a => data.filterMap fun kv => if nk kv.1 = a then some kv.2 else none).head? := by
  induction L with
  | nil =>
    have : (data.filterMap fun kv => if nk kv.1 ∈ ([] : List Key) then some (idxOf (nk kv.1) [], kv.2) else none) = [] := by
      rw [List.filterMap_eq_nil_iff]; intro kv _; simp
    rw [this]; rfl
  | cons a L ih =>
    rw [List.flatMap_cons, head?_append_of]
    cases hA : (data.filterMap fun kv => if nk kv.1 = a then some kv.2 else none) with
    | nil =>
      -- no key normalises to `a`: every accepted key has its rank in `L`, plus one
      rw [List.filterMap_eq_nil_iff] at hA
      have hne : ∀ kv ∈ data, ¬ nk kv.1 = a := by
        intro kv hkv e; have := hA kv hkv; simp [e] at this
      have hlist : (data.filterMap fun kv => if nk kv.1 ∈ a :: L then some (idxOf (nk kv.1) (a :: L), kv.2) else none)
          = (data.filterMap fun kv => if nk kv.1 ∈ L then some (idxOf (nk kv.1) L, kv.2) else none).map
              fun rv => (rv.1 + 1, rv.2) := by
        rw [List.map_filterMap]
        apply filterMap_congr'
        intro kv hkv
        have h1 := hne kv hkv
        have h1' : ¬ a = nk kv.1 := fun e => h1 e.symm
        by_cases h2 : nk kv.1 ∈ L
        · simp [h1, h1', h2, idxOf]
        · simp [h1, h2]
      rw [hlist]
      have := foldl_pick_shift (data.filterMap fun kv => if nk kv.1 ∈ L then some (idxOf (nk kv.1) L, kv.2) else none) none
      simp only [Option.map_none] at this
      unfold pickMin
      rw [this, Option.map_map]
      simp only [List.head?_nil, Option.none_or]
      rw [← ih]
      unfold pickMin
      congr 1
    | cons v vs =>
      simp only [List.head?_cons, Option.some_or]
      -- the first key normalising to `a` has rank 0
      have hv : (data.filterMap fun kv => if nk kv.1 = a then some kv.2 else none).head? = some v := by rw [hA]; rfl
      clear hA ih
      suffices h : ∃ pre post, (data.filterMap fun kv =>
            if nk kv.1 ∈ a :: L then some (idxOf (nk kv.1) (a :: L), kv.2) else none) = pre ++ (0, v) :: post
            ∧ ∀ x ∈ pre, 0 < x.1 by
        obtain ⟨pre, post, hl, hpre⟩ := h
        unfold pickMin
        rw [foldl_pick_first_zero _ none (by intro a h; cases h) v pre post hl hpre]
        rfl
      apply first_zero_split _ _ v _ _ data hv
      · intro kv x hx
        by_cases h1 : nk kv.1 = a
        · simp only [h1, if_true, Option.some.injEq] at hx
          simp [h1, idxOf, hx]
        · simp [h1] at hx
      · intro kv hx r hr
        by_cases h1 : nk kv.1 = a
        · simp [h1] at hx
        · have h1' : ¬ a = nk kv.1 := fun e => h1 e.symm
          by_cases h2 : nk kv.1 ∈ L
          · simp only [List.mem_cons, h1, h2, or_true, if_true, idxOf, h1', if_false, Option.some.injEq] at hr
            rw [← hr]; simp
          · simp [h1, h2] at hr

end Utv.C05

namespace Utv.C05
open Spec
variable {V : Type}

/-! ### the key scan -/

def rankOf (W : World V) (f : PField V) (k : Key) : Nat :=
  idxOf (if f.allAliases.contains k then k else W.lower k) f.allAliases

def ranked (W : World V) (f : PField V) (data : List (Key × V)) : List (Nat × V) :=
  data.filterMap fun kv => if accepts W f kv.1 then some (rankOf W f kv.1, kv.2) else none

def valsOf (W : World V) (f : PField V) (data : List (Key × V)) : List V :=
  data.filterMap fun kv => if accepts W f kv.1 then some kv.2 else none

def best (W : World V) (f : PField V) (data : List (Key × V)) : Option (Nat × V) := pickMin (ranked W f data)

theorem ranked_snoc (W : World V) (f : PField V) (data : List (Key × V)) (kv : Key × V) :
    ranked W f (data ++ [kv]) = ranked W f data ++ (if accepts W f kv.1 then [(rankOf W f kv.1, kv.2)] else []) := by
  unfold ranked
  rw [List.filterMap_append]
  cases h : accepts W f kv.1 <;> simp [h]

theorem valsOf_snoc (W : World V) (f : PField V) (data : List (Key × V)) (kv : Key × V) :
    valsOf W f (data ++ [kv]) = valsOf W f data ++ (if accepts W f kv.1 then [kv.2] else []) := by
  unfold valsOf
  rw [List.filterMap_append]
  cases h : accepts W f kv.1 <;> simp [h]

theorem best_snoc_reject (W : World V) (f : PField V) (data : List (Key × V)) (kv : Key × V)
    (h : accepts W f kv.1 = false) : best W f (data ++ [kv]) = best W f data := by
  unfold best; rw [ranked_snoc]; simp [h]

theorem best_snoc_accept (W : World V) (f : PField V) (data : List (Key × V)) (kv : Key × V)
    (h : accepts W f kv.1 = true) :
    best W f (data ++ [kv]) = pickStep (best W f data) (rankOf W f kv.1, kv.2) := by
  unfold best; rw [ranked_snoc]; simp only [h, if_true]; exact pickMin_snoc _ _

theorem pickMin_mem (l : List (Nat × V)) {x : Nat × V} (h : pickMin l = some x) : x ∈ l := by
  induction l using Utv.List.rev_ind generalizing x with
  | nil => simp [pickMin] at h
  | snoc l a ih =>
    rw [pickMin_snoc] at h
    cases hp : pickMin l with
    | none => rw [hp] at h; simp [pickStep] at h; simp [h]
    | some b =>
      rw [hp] at h
      simp only [pickStep, Option.some.injEq] at h
      unfold better at h
      split at h
      · simp [← h]
      · rw [← h]; exact List.mem_append_left _ (ih hp)

theorem pickMin_none (l : List (Nat × V)) (h : pickMin l = none) : l = [] := by
  induction l using Utv.List.rev_ind with
  | nil => rfl
  | snoc l a _ =>
    rw [pickMin_snoc] at h
    cases hp : pickMin l <;> simp [hp, pickStep] at h

theorem best_value_mem (W : World V) (f : PField V) (data : List (Key × V)) {w : Nat × V}
    (h : best W f data = some w) : w.2 ∈ valsOf W f data := by
  have := pickMin_mem _ h
  unfold ranked at this
  rw [List.mem_filterMap] at this
  obtain ⟨kv, hkv, he⟩ := this
  unfold valsOf
  rw [List.mem_filterMap]
  refine ⟨kv, hkv, ?_⟩
  cases ha : accepts W f kv.1
  · simp [ha] at he
  · simp only [ha, if_true, Option.some.injEq] at he ⊢
    rw [← he]

theorem valsOf_nil_of_best_none (W : World V) (f : PField V) (data : List (Key × V))
    (h : best W f data = none) : valsOf W f data = [] := by
  have := pickMin_none _ h
  unfold ranked at this
  rw [List.filterMap_eq_nil_iff] at this
  unfold valsOf
  rw [List.filterMap_eq_nil_iff]
  intro kv hkv
  have := this kv hkv
  cases ha : accepts W f kv.1
  · simp
  · simp [ha] at this

theorem WF.name_inj {W : World V} {P : Parser V} (wf : WF W P) {kf kg : Key × PField V}
    (hf : kf ∈ P.fields) (hg : kg ∈ P.fields) (h : kf.2.name = kg.2.name) : kf = kg := by
  have hn := wf.names_nodup
  generalize P.fields = l at hf hg hn
  induction l with
  | nil => simp at hf
  | cons x xs ih =>
    simp only [List.map_cons, List.nodup_cons] at hn
    rcases List.mem_cons.mp hf with h1 | h1 <;> rcases List.mem_cons.mp hg with h2 | h2
    · rw [h1, h2]
    · subst h1; exfalso; apply hn.1; rw [h]; exact List.mem_map_of_mem (f := fun x => x.2.name) h2
    · subst h2; exfalso; apply hn.1; rw [← h]; exact List.mem_map_of_mem (f := fun x => x.2.name) h1
    · exact ih h1 h2 hn.2

theorem extras_snoc (W : World V) (P : Parser V) (data : List (Key × V)) (kv : Key × V) :
    extras W P (data ++ [kv]) = extras W P data ++ (if anyAccepts W P kv.1 then [] else [kv]) := by
  unfold extras
  rw [List.filter_append]
  cases h : anyAccepts W P kv.1 <;> simp [h]

theorem addAll_snoc (W : World V) (P : Parser V) (o : Opts V) (l : List (Key × V)) (kv : Key × V) :
    addAll W P o (l ++ [kv]) = addStep W P o (addAll W P o l) kv := by
  simp [addAll, List.foldl_append]

/-- the conflict bookkeeping of one more accepted key, abstractly -/
theorem conflict_step [DecidableEq V] (vals : List V) (b : Option (Nat × V)) (rank : Nat) (v : V)
    (inC : Prop) (hb : ∀ w, b = some w → w.2 ∈ vals) (hnil : b = none → vals = [])
    (hC : inC ↔ ∃ x ∈ vals, some x ≠ b.map (·.2)) :
    (inC ∨ ∃ w, b = some w ∧ w.2 ≠ v) ↔ ∃ x ∈ vals ++ [v], some x ≠ (pickStep b (rank, v)).map (·.2) := by
  cases b with
  | none =>
    have hv := hnil rfl
    subst hv
    simp only [pickStep, Option.map_some, List.nil_append, List.mem_singleton]
    constructor
    · rintro (h | ⟨w, h, _⟩)
      · obtain ⟨x, hx, _⟩ := hC.1 h; simp at hx
      · cases h
    · rintro ⟨x, hx, hne⟩; subst hx; exact absurd rfl hne
  | some w =>
    have hw := hb w rfl
    simp only [pickStep, Option.map_some] at hC ⊢
    by_cases hwv : w.2 = v
    · have hbv : (better w (rank, v)).2 = v := by unfold better; split <;> simp [hwv]
      rw [hbv]
      constructor
      · rintro (h | ⟨w', h, hne⟩)
        · obtain ⟨x, hx, hne⟩ := hC.1 h
          exact ⟨x, List.mem_append_left _ hx, by rw [← hwv]; exact hne⟩
        · cases h; exact absurd hwv hne
      · rintro ⟨x, hx, hne⟩
        rcases List.mem_append.mp hx with hx | hx
        · exact Or.inl (hC.2 ⟨x, hx, by rw [hwv]; exact hne⟩)
        · simp at hx; subst hx; exact absurd rfl hne
    · constructor
      · intro _
        unfold better
        split
        · exact ⟨w.2, List.mem_append_left _ hw, by simpa using hwv⟩
        · exact ⟨v, by simp, by simpa using fun e => hwv e.symm⟩
      · intro _; exact Or.inr ⟨w, rfl, hwv⟩

end Utv.C05

namespace Utv.C05
open Spec
variable {V : Type}

/-- an entry of `inputs` that is an additional key -/
def extraOf (ni : Key × Input V) : Option (Key × V) := if ni.2.field.isNone then some (ni.1, ni.2.value) else none

theorem mem_dset {α : Type} {k : Key} {v : α} {d : List (Key × α)} (hnd : (d.map (·.1)).Nodup) {x : Key × α}
    (h : x ∈ dset k v d) : x = (k, v) ∨ (x ∈ d ∧ x.1 ≠ k) := by
  induction d with
  | nil => simp [dset] at h; exact Or.inl h
  | cons y ys ih =>
    obtain ⟨a, b⟩ := y
    simp only [List.map_cons, List.nodup_cons] at hnd
    simp only [dset] at h
    by_cases hk : a = k
    · simp only [hk, if_true] at h
      rcases List.mem_cons.mp h with e | e
      · exact Or.inl e
      · refine Or.inr ⟨List.mem_cons_of_mem _ e, ?_⟩
        intro hx; apply hnd.1; rw [hk, ← hx]; exact List.mem_map_of_mem (f := (·.1)) e
    · simp only [hk, if_false] at h
      rcases List.mem_cons.mp h with e | e
      · subst e; exact Or.inr ⟨by simp, hk⟩
      · rcases ih hnd.2 e with e' | e'
        · exact Or.inl e'
        · exact Or.inr ⟨List.mem_cons_of_mem _ e'.1, e'.2⟩

theorem filterMap_dset_none {α β : Type} (g : Key × α → Option β) (k : Key) (x : α) (l : List (Key × α))
    (h1 : g (k, x) = none) (h2 : ∀ y, (k, y) ∈ l → g (k, y) = none) :
    (dset k x l).filterMap g = l.filterMap g := by
  induction l with
  | nil => simp [dset, h1]
  | cons y ys ih =>
    obtain ⟨a, b⟩ := y
    simp only [dset]
    by_cases hk : a = k
    · subst hk
      simp only [if_true, List.filterMap_cons, h1, h2 b (by simp)]
    · simp only [hk, if_false, List.filterMap_cons]
      rw [ih (fun y hy => h2 y (List.mem_cons_of_mem _ hy))]

structure ScanInv (W : World V) (P : Parser V) (data : List (Key × V)) (s : DfScan V) : Prop where
  ext : s.inputs.filterMap extraOf = extras W P data
  inp : ∀ kf ∈ P.fields, dget kf.2.name s.inputs = (best W kf.2 data).map fun rv => ⟨some kf.2, rv.2, rv.1⟩
  keys : ∀ ni ∈ s.inputs,
      (ni.2.field = none ∧ anyAccepts W P ni.1 = false ∧ ni.1 ∈ data.map (·.1))
      ∨ (ni.2.field.isSome = true ∧ ∃ kf ∈ P.fields, kf.2.name = ni.1)
  nodup : (s.inputs.map (·.1)).Nodup
  conf : ∀ kf ∈ P.fields, kf.2.name ∈ s.conflicts ↔ ∃ x ∈ valsOf W kf.2 data, some x ≠ (best W kf.2 data).map (·.2)

theorem anyAccepts_false_iff (W : World V) (P : Parser V) (k : Key) :
    anyAccepts W P k = false ↔ ∀ kf ∈ P.fields, accepts W kf.2 k = false := by
  unfold anyAccepts; rw [List.any_eq_false]; simp

theorem scanInv_step [DecidableEq V] {W : World V} (LL : LowerLaws W) {P : Parser V} (wf : WF W P)
    {data : List (Key × V)} {s : DfScan V} (kv : Key × V) (hnew : kv.1 ∉ data.map (·.1))
    (inv : ScanInv W P data s) :
    ScanInv W P (data ++ [kv]) (dfScanStep W P s kv) := by
  have hkeysmono : ∀ ni : Key × Input V,
      ((ni.2.field = none ∧ anyAccepts W P ni.1 = false ∧ ni.1 ∈ data.map (·.1))
        ∨ (ni.2.field.isSome = true ∧ ∃ kf ∈ P.fields, kf.2.name = ni.1)) →
      ((ni.2.field = none ∧ anyAccepts W P ni.1 = false ∧ ni.1 ∈ (data ++ [kv]).map (·.1))
        ∨ (ni.2.field.isSome = true ∧ ∃ kf ∈ P.fields, kf.2.name = ni.1)) := by
    intro ni h
    rcases h with ⟨h1, h2, h3⟩ | h
    · exact Or.inl ⟨h1, h2, by rw [List.map_append]; exact List.mem_append_left _ h3⟩
    · exact Or.inr h
  unfold dfScanStep
  cases hg : getField W P kv.1 with
  | none =>
    have hrej := (getField_none_iff LL wf kv.1).1 hg
    have hany : anyAccepts W P kv.1 = false := (anyAccepts_false_iff W P kv.1).2 hrej
    -- the key is new among the entries: earlier additional keys are other input keys, field names are accepted keys
    have hfresh : kv.1 ∉ s.inputs.map (·.1) := by
      intro hc
      rw [List.mem_map] at hc
      obtain ⟨ni, hni, he⟩ := hc
      rcases inv.keys ni hni with ⟨_, _, h3⟩ | ⟨_, kf, hf, hn⟩
      · rw [he] at h3; exact hnew h3
      · have := wf.accepts_name LL hf
        rw [hn, he, hrej kf hf] at this; cases this
    simp only
    rw [dset_of_not_mem _ _ _ hfresh]
    refine ⟨?_, ?_, ?_, ?_, ?_⟩
    · rw [List.filterMap_append, inv.ext, extras_snoc, hany]
      simp [extraOf]
    · intro kf hf
      rw [best_snoc_reject W kf.2 data kv (hrej kf hf), dget_append, inv.inp kf hf]
      have hne : ¬ kv.1 = kf.2.name := by
        intro e
        have := wf.accepts_name LL hf
        rw [← e, hrej kf hf] at this; cases this
      cases (best W kf.2 data) <;> simp [dget_cons, hne]
    · intro ni hni
      rcases List.mem_append.mp hni with h | h
      · exact hkeysmono ni (inv.keys ni h)
      · simp only [List.mem_singleton] at h
        subst h
        exact Or.inl ⟨rfl, hany, by simp⟩
    · rw [List.map_append, List.nodup_append]
      refine ⟨inv.nodup, by simp, ?_⟩
      intro a ha b hb e
      simp only [List.map_cons, List.map_nil, List.mem_singleton] at hb
      rw [hb] at e; rw [e] at ha; exact hfresh ha
    · intro kf hf
      rw [best_snoc_reject W kf.2 data kv (hrej kf hf), valsOf_snoc]; simp only [hrej kf hf]
      simpa using inv.conf kf hf
  | some f =>
    obtain ⟨kf0, hf0, hfe, hacc⟩ := (getField_some_iff LL wf kv.1 f).1 hg
    subst hfe
    have hany : anyAccepts W P kv.1 = true := by
      unfold anyAccepts; rw [List.any_eq_true]; exact ⟨kf0, hf0, hacc⟩
    have hother : ∀ kf ∈ P.fields, kf ≠ kf0 → accepts W kf.2 kv.1 = false := by
      intro kf hf hne
      cases ha : accepts W kf.2 kv.1
      · rfl
      · exact absurd (wf.accepts_unique LL hf hf0 ha hacc) hne
    have hname : ∀ kf ∈ P.fields, kf ≠ kf0 → ¬ kf0.2.name = kf.2.name := by
      intro kf hf hne e; exact hne (wf.name_inj hf hf0 e.symm)
    have hbest := best_snoc_accept W kf0.2 data kv hacc
    have hinp0 := inv.inp kf0 hf0
    -- an entry under the field's name is a field entry
    have hfieldentry : ∀ y, (kf0.2.name, y) ∈ s.inputs → extraOf (kf0.2.name, y) = none := by
      intro y hy
      rcases inv.keys _ hy with ⟨_, h2, _⟩ | ⟨h1, _⟩
      · have := wf.accepts_name LL hf0
        simp only at h2
        rw [(anyAccepts_false_iff W P _).1 h2 kf0 hf0] at this; cases this
      · simp only at h1
        unfold extraOf
        cases hfy : y.field with
        | none => rw [hfy] at h1; cases h1
        | some g => simp
    have hextset : ∀ (r : Nat), (dset kf0.2.name (⟨some kf0.2, kv.2, r⟩ : Input V) s.inputs).filterMap extraOf
        = extras W P (data ++ [kv]) := by
      intro r
      rw [filterMap_dset_none extraOf _ _ _ (by simp [extraOf]) hfieldentry, inv.ext, extras_snoc, hany]
      simp
    have hextsame : s.inputs.filterMap extraOf = extras W P (data ++ [kv]) := by
      rw [inv.ext, extras_snoc, hany]; simp
    have hkeysset : ∀ (r : Nat), ∀ ni ∈ dset kf0.2.name (⟨some kf0.2, kv.2, r⟩ : Input V) s.inputs,
        ((ni.2.field = none ∧ anyAccepts W P ni.1 = false ∧ ni.1 ∈ (data ++ [kv]).map (·.1))
          ∨ (ni.2.field.isSome = true ∧ ∃ kf ∈ P.fields, kf.2.name = ni.1)) := by
      intro r ni hni
      rcases mem_dset inv.nodup hni with e | ⟨e, _⟩
      · subst e; exact Or.inr ⟨rfl, kf0, hf0, rfl⟩
      · exact hkeysmono ni (inv.keys ni e)
    simp only
    -- the conflict bookkeeping, for whichever state the `if` produces
    have hconf : ∀ (C' : List Key),
        (∀ n, n ∈ C' ↔ n ∈ s.conflicts ∨ (n = kf0.2.name ∧ ∃ w, best W kf0.2 data = some w ∧ w.2 ≠ kv.2)) →
        ∀ kf ∈ P.fields, kf.2.name ∈ C' ↔
          ∃ x ∈ valsOf W kf.2 (data ++ [kv]), some x ≠ (best W kf.2 (data ++ [kv])).map (·.2) := by
      intro C' hC' kf hf
      by_cases hk : kf = kf0
      · subst hk
        rw [hC', valsOf_snoc, hbest]; simp only [hacc, if_true, true_and]
        exact conflict_step _ _ _ _ _ (fun w h => best_value_mem W kf.2 data h)
          (valsOf_nil_of_best_none W kf.2 data) (inv.conf kf hf)
      · rw [hC', best_snoc_reject W kf.2 data kv (hother kf hf hk), valsOf_snoc]
        simp only [hother kf hf hk, Bool.false_eq_true, if_false, List.append_nil]
        have : ¬ kf.2.name = kf0.2.name := fun e => hname kf hf hk e.symm
        simp only [this, false_and, or_false]
        exact inv.conf kf hf
    have hinpOther : ∀ (I' : List (Key × Input V)),
        (∀ n, n ≠ kf0.2.name → dget n I' = dget n s.inputs) →
        ∀ kf ∈ P.fields, kf ≠ kf0 → dget kf.2.name I' = (best W kf.2 (data ++ [kv])).map fun rv => ⟨some kf.2, rv.2, rv.1⟩ := by
      intro I' hI' kf hf hk
      rw [hI' _ (fun e => hname kf hf hk e.symm), best_snoc_reject W kf.2 data kv (hother kf hf hk)]
      exact inv.inp kf hf
    have hdsetOther : ∀ (x : Input V) n, n ≠ kf0.2.name → dget n (dset kf0.2.name x s.inputs) = dget n s.inputs := by
      intro x n hn
      rw [dget_dset]
      have : ¬ kf0.2.name = n := fun e => hn e.symm
      simp [this]
    cases hd : dget kf0.2.name s.inputs with
    | none =>
      have hbn : best W kf0.2 data = none := by
        rw [hd] at hinp0
        cases hb : best W kf0.2 data with
        | none => rfl
        | some w => rw [hb] at hinp0; cases hinp0
      simp only
      refine ⟨hextset _, ?_, hkeysset _, nodup_keys_dset _ _ _ inv.nodup, ?_⟩
      · intro kf hf
        by_cases hk : kf = kf0
        · subst hk; simp only; rw [dget_dset, hbest, hbn]; simp [pickStep, rankOf]
        · exact hinpOther _ (hdsetOther _) kf hf hk
      · apply hconf
        intro n; rw [hbn]; simp
    | some used =>
      have hbu : best W kf0.2 data = some (used.rank, used.value) ∧ used.field = some kf0.2 := by
        rw [hd] at hinp0
        cases hb : best W kf0.2 data with
        | none => rw [hb] at hinp0; cases hinp0
        | some w =>
          rw [hb] at hinp0
          simp only [Option.map_some, Option.some.injEq] at hinp0
          rw [hinp0]; exact ⟨rfl, rfl⟩
      simp only
      -- conflicts after the first `if`
      have hC : ∀ n, n ∈ (if used.value ≠ kv.2 ∧ (!s.conflicts.contains kf0.2.name) = true
                          then { s with conflicts := s.conflicts ++ [kf0.2.name] } else s).conflicts
                ↔ n ∈ s.conflicts ∨ (n = kf0.2.name ∧ ∃ w, best W kf0.2 data = some w ∧ w.2 ≠ kv.2) := by
        intro n
        rw [hbu.1]
        by_cases hc : used.value ≠ kv.2 ∧ (!s.conflicts.contains kf0.2.name) = true
        · rw [if_pos hc]
          simp only [List.mem_append, List.mem_singleton, Option.some.injEq, exists_eq_left']
          constructor
          · rintro (h | h)
            · exact Or.inl h
            · exact Or.inr ⟨h, hc.1⟩
          · rintro (h | h)
            · exact Or.inl h
            · exact Or.inr h.1
        · rw [if_neg hc]
          simp only [Option.some.injEq, exists_eq_left']
          constructor
          · intro h; exact Or.inl h
          · rintro (h | ⟨hn, hne⟩)
            · exact h
            · subst hn
              by_cases hin : kf0.2.name ∈ s.conflicts
              · exact hin
              · exfalso; apply hc; exact ⟨hne, by simpa using hin⟩
      have hS : (if used.value ≠ kv.2 ∧ (!s.conflicts.contains kf0.2.name) = true
                          then { s with conflicts := s.conflicts ++ [kf0.2.name] } else s).inputs = s.inputs := by
        split <;> rfl
      by_cases hr : rankOf W kf0.2 kv.1 ≥ used.rank
      · have hr' : (idxOf (if kf0.2.allAliases.contains kv.1 = true then kv.1 else W.lower kv.1) kf0.2.allAliases ≥ used.rank) := hr
        rw [if_pos hr']
        refine ⟨?_, ?_, ?_, ?_, hconf _ hC⟩
        · rw [hS]; exact hextsame
        · intro kf hf
          rw [hS]
          by_cases hk : kf = kf0
          · subst hk
            rw [hd, hbest, hbu.1]
            have : ¬ rankOf W kf.2 kv.1 < used.rank := by omega
            simp only [pickStep, better, this, if_false, Option.map_some, Option.some.injEq]
            cases used; simp at hbu ⊢; exact hbu.2
          · exact hinpOther _ (fun n _ => rfl) kf hf hk
        · rw [hS]; intro ni hni; exact hkeysmono ni (inv.keys ni hni)
        · rw [hS]; exact inv.nodup
      · have hr' : ¬ (idxOf (if kf0.2.allAliases.contains kv.1 = true then kv.1 else W.lower kv.1) kf0.2.allAliases ≥ used.rank) := hr
        rw [if_neg hr']
        refine ⟨?_, ?_, ?_, ?_, hconf _ hC⟩
        · simp only [hS]; exact hextset _
        · intro kf hf
          simp only [hS]
          by_cases hk : kf = kf0
          · subst hk
            rw [dget_dset, hbest, hbu.1]
            have : rankOf W kf.2 kv.1 < used.rank := by omega
            rw [show pickStep (some (used.rank, used.value)) (rankOf W kf.2 kv.1, kv.2)
                  = some (rankOf W kf.2 kv.1, kv.2) from by simp [pickStep, better, this]]
            simp [rankOf]
          · exact hinpOther _ (hdsetOther _) kf hf hk
        · simp only [hS]; exact hkeysset _
        · simp only [hS]; exact nodup_keys_dset _ _ _ inv.nodup

theorem scanInv [DecidableEq V] {W : World V} (LL : LowerLaws W) {P : Parser V} (wf : WF W P)
    (data : List (Key × V)) (hnd : (data.map (·.1)).Nodup) :
    ScanInv W P data (data.foldl (dfScanStep W P) {}) := by
  induction data using Utv.List.rev_ind with
  | nil =>
    refine ⟨rfl, ?_, ?_, ?_, ?_⟩
    · intro kf _; rfl
    · intro ni hni; simp at hni
    · simp
    · intro kf _; simp [valsOf]
  | snoc l kv ih =>
    rw [List.foldl_append]
    rw [List.map_append, List.nodup_append] at hnd
    exact scanInv_step LL wf kv (fun hc => hnd.2.2 _ hc _ (by simp) rfl) (ih hnd.1)

end Utv.C05

namespace Utv.C05
open Spec
variable {V : Type}

/-! ### what the scan found is what the contract names -/

theorem rank_key_eq {W : World V} {P : Parser V} (wf : WF W P) {kf : Key × PField V} (hf : kf ∈ P.fields) {k : Key}
    (hacc : accepts W kf.2 k = true) :
    (if kf.2.allAliases.contains k then k else W.lower k) = normKey W kf.2 k := by
  rw [accepts_iff] at hacc
  unfold normKey at hacc ⊢
  cases hci : kf.2.ci
  · simp only [hci, Bool.false_eq_true, if_false] at hacc ⊢
    simp [hacc]
  · simp only [hci, if_true] at hacc ⊢
    by_cases hk : k ∈ kf.2.allAliases
    · simp [hk, wf.ci_lower kf hf hci k hk]
    · simp [hk]

theorem ranked_eq {W : World V} {P : Parser V} (wf : WF W P) {kf : Key × PField V} (hf : kf ∈ P.fields)
    (data : List (Key × V)) :
    ranked W kf.2 data = data.filterMap fun kv =>
      if normKey W kf.2 kv.1 ∈ kf.2.allAliases then some (idxOf (normKey W kf.2 kv.1) kf.2.allAliases, kv.2) else none := by
  unfold ranked
  apply filterMap_congr'
  intro kv _
  cases ha : accepts W kf.2 kv.1
  · have : ¬ normKey W kf.2 kv.1 ∈ kf.2.allAliases := by
      intro h; rw [← accepts_iff, ha] at h; cases h
    simp [this]
  · have h1 := (accepts_iff W kf.2 kv.1).1 ha
    simp only [if_true, h1]
    unfold rankOf
    rw [rank_key_eq wf hf ha]

theorem best_eq_head {W : World V} {P : Parser V} (wf : WF W P) {kf : Key × PField V} (hf : kf ∈ P.fields)
    (data : List (Key × V)) : (best W kf.2 data).map (·.2) = (candidates W kf.2 data).head? := by
  unfold best
  rw [ranked_eq wf hf]
  exact pickMin_ranked (normKey W kf.2) kf.2.allAliases data

theorem mem_valsOf_iff (W : World V) (f : PField V) (data : List (Key × V)) (x : V) :
    x ∈ valsOf W f data ↔ x ∈ candidates W f data := by
  unfold valsOf candidates
  simp only [List.mem_filterMap, List.mem_flatMap]
  constructor
  · rintro ⟨kv, hkv, he⟩
    cases ha : accepts W f kv.1
    · simp [ha] at he
    · simp only [ha, if_true, Option.some.injEq] at he
      exact ⟨normKey W f kv.1, (accepts_iff W f kv.1).1 ha, kv, hkv, by simp [he]⟩
  · rintro ⟨a, ha, kv, hkv, he⟩
    by_cases hn : normKey W f kv.1 = a
    · simp only [hn, if_true, Option.some.injEq] at he
      refine ⟨kv, hkv, ?_⟩
      have : accepts W f kv.1 = true := by rw [accepts_iff, hn]; exact ha
      simp [this, he]
    · simp [hn] at he

/-! ### the second loop (what was given, in input order) and the absent-field loop -/

def fieldsOf (l : List (Key × Input V)) : List (PField V) := l.filterMap (·.2.field)

def extrasOf (l : List (Key × Input V)) : List (Key × V) := l.filterMap extraOf

/-- keeping one additional key -/
def keepStep (W : World V) (P : Parser V) (o : Opts V) (a : List (Key × V)) (kv : Key × V) : List (Key × V) :=
  match (parseAddition W P o kv.1 kv.2).1 with | some x => dset kv.1 x a | none => a

theorem addStep_fold (W : World V) (P : Parser V) (o : Opts V) (X : List (Key × V)) (a : List (Key × V)) (e : List Err) :
    X.foldl (addStep W P o) (a, e) =
      (X.foldl (keepStep W P o) a, e ++ X.flatMap fun kv => (parseAddition W P o kv.1 kv.2).2) := by
  induction X generalizing a e with
  | nil => simp
  | cons x xs ih =>
    simp only [List.foldl_cons, List.flatMap_cons]
    have : addStep W P o (a, e) x = (keepStep W P o a x, e ++ (parseAddition W P o x.1 x.2).2) := by
      unfold addStep keepStep; rfl
    rw [this, ih, List.append_assoc]

/-- the data parts of a fold of contracts do not depend on the errors collected so far -/
theorem foldOut_core (out : PField V → FieldOut V) (F : List (PField V)) (st st' : St V)
    (h1 : st.result = st'.result) (h2 : st.deps = st'.deps) (h3 : st.unprov = st'.unprov) :
    (foldOut out F st).result = (foldOut out F st').result ∧ (foldOut out F st).deps = (foldOut out F st').deps
    ∧ (foldOut out F st).unprov = (foldOut out F st').unprov := by
  induction F generalizing st st' with
  | nil => exact ⟨h1, h2, h3⟩
  | cons g F ih =>
    simp only [foldOut_cons]
    apply ih
    · simp only [applyOut, h1]
    · simp only [applyOut, h2]
    · simp only [applyOut, h3]

theorem dfItems_fold [DecidableEq V] {W : World V} (LL : LowerLaws W) {P : Parser V} (wf : WF W P) (o : Opts V)
    {data : List (Key × V)} {s : DfScan V} (inv : ScanInv W P data s)
    (l : List (Key × Input V)) (hl : ∀ ni ∈ l, ni ∈ s.inputs) (acc : DfRun V) :
    ((l.foldl (dfItemStep {} W P o s.conflicts) acc).st.result = (foldOut (outA W o data) (fieldsOf l) acc.st).result
      ∧ (l.foldl (dfItemStep {} W P o s.conflicts) acc).st.deps = (foldOut (outA W o data) (fieldsOf l) acc.st).deps
      ∧ (l.foldl (dfItemStep {} W P o s.conflicts) acc).st.unprov = (foldOut (outA W o data) (fieldsOf l) acc.st).unprov)
    ∧ (∀ e, e ∈ (l.foldl (dfItemStep {} W P o s.conflicts) acc).st.errs ↔
          e ∈ (foldOut (outA W o data) (fieldsOf l) acc.st).errs
          ∨ ∃ kv ∈ extrasOf l, e ∈ (parseAddition W P o kv.1 kv.2).2)
    ∧ (l.foldl (dfItemStep {} W P o s.conflicts) acc).addition = (extrasOf l).foldl (keepStep W P o) acc.addition
    ∧ (∀ ni ∈ l, ∀ g, ni.2.field = some g →
        ∃ kf ∈ P.fields, kf.2 = g ∧ kf.2.name = ni.1 ∧ given W kf.2 data = true)
    ∧ (∀ n, n ∈ (l.foldl (dfItemStep {} W P o s.conflicts) acc).excluded ↔
          n ∈ acc.excluded ∨ ∃ ni ∈ l, ∃ g, ni.2.field = some g ∧ ni.1 = n ∧ isExcluded W o g data = true) := by
  induction l generalizing acc with
  | nil => exact ⟨⟨rfl, rfl, rfl⟩, fun e => by simp [fieldsOf, extrasOf], rfl, by simp, by simp⟩
  | cons ni l ih =>
    have hni := hl ni (by simp)
    have hl' : ∀ x ∈ l, x ∈ s.inputs := fun x hx => hl x (List.mem_cons_of_mem _ hx)
    rw [List.foldl_cons]
    cases hfield : ni.2.field with
    | none =>
      have hstep : dfItemStep {} W P o s.conflicts acc ni =
          { acc with st := { acc.st with errs := acc.st.errs ++ (parseAddition W P o ni.1 ni.2.value).2 }
                     addition := keepStep W P o acc.addition (ni.1, ni.2.value) } := by
        unfold dfItemStep keepStep; simp only [hfield]; rfl
      have hF : fieldsOf (ni :: l) = fieldsOf l := by
        unfold fieldsOf; rw [List.filterMap_cons_none (f := fun x : Key × Input V => x.2.field) hfield]
      have hX : extrasOf (ni :: l) = (ni.1, ni.2.value) :: extrasOf l := by
        unfold extrasOf
        rw [List.filterMap_cons_some (b := (ni.1, ni.2.value)) (by simp [extraOf, hfield])]
      obtain ⟨⟨i1, i2, i3⟩, i4, i5, i6, i7⟩ := ih hl' (dfItemStep {} W P o s.conflicts acc ni)
      rw [hF, hX]
      obtain ⟨c1, c2, c3⟩ := foldOut_core (outA W o data) (fieldsOf l)
        (dfItemStep {} W P o s.conflicts acc ni).st acc.st (by rw [hstep]) (by rw [hstep]) (by rw [hstep])
      refine ⟨⟨i1.trans c1, i2.trans c2, i3.trans c3⟩, ?_, ?_, ?_, ?_⟩
      · intro e
        rw [i4 e, foldOut_errs, foldOut_errs, hstep]
        simp only [List.mem_append, List.mem_cons, exists_eq_or_imp]
        constructor
        · rintro (((h | h) | h) | h)
          · exact Or.inl (Or.inl h)
          · exact Or.inr (Or.inl h)
          · exact Or.inl (Or.inr h)
          · exact Or.inr (Or.inr h)
        · rintro ((h | h) | (h | h))
          · exact Or.inl (Or.inl (Or.inl h))
          · exact Or.inl (Or.inr h)
          · exact Or.inl (Or.inl (Or.inr h))
          · exact Or.inr h
      · rw [i5, hstep]; rfl
      · intro x hx g hg
        rcases List.mem_cons.mp hx with e | e
        · subst e; rw [hfield] at hg; cases hg
        · exact i6 x e g hg
      · intro n
        rw [i7 n, hstep]
        simp only [List.mem_cons, exists_eq_or_imp, hfield, reduceCtorEq, false_and, exists_false, false_or]
    | some f =>
      -- a field entry: the scan invariant tells what it holds
      obtain ⟨kf, hf, hname⟩ : ∃ kf ∈ P.fields, kf.2.name = ni.1 := by
        rcases inv.keys ni hni with ⟨h1, _, _⟩ | ⟨_, h⟩
        · rw [hfield] at h1; cases h1
        · exact h
      have hd : dget ni.1 s.inputs = some ni.2 := dget_of_mem inv.nodup hni
      have hinp := inv.inp kf hf
      rw [hname, hd] at hinp
      cases hb : best W kf.2 data with
      | none => rw [hb] at hinp; cases hinp
      | some w =>
        rw [hb] at hinp
        simp only [Option.map_some, Option.some.injEq] at hinp
        have hfe : f = kf.2 := by rw [hinp] at hfield; exact (Option.some.inj hfield).symm
        have hhead : (candidates W kf.2 data).head? = some w.2 := by rw [← best_eq_head wf hf, hb]; rfl
        obtain ⟨rest, hc⟩ : ∃ rest, candidates W kf.2 data = w.2 :: rest := by
          cases hcd : candidates W kf.2 data with
          | nil => rw [hcd] at hhead; cases hhead
          | cons c rest => rw [hcd] at hhead; simp at hhead; exact ⟨rest, by rw [hhead]⟩
        have hflag : (s.conflicts.contains ni.1 && !o.ignoreAliasConflicts)
            = (!o.ignoreAliasConflicts && rest.any (· ≠ w.2)) := by
          rw [Bool.and_comm]
          congr 1
          rw [Bool.eq_iff_iff, List.contains_iff_mem, ← hname, inv.conf kf hf, hb, List.any_eq_true]
          simp only [Option.map_some, ne_eq, Option.some.injEq, decide_eq_true_eq]
          constructor
          · rintro ⟨x, hx, hne⟩
            rw [mem_valsOf_iff, hc] at hx
            rcases List.mem_cons.mp hx with e | e
            · exact absurd e hne
            · exact ⟨x, e, hne⟩
          · rintro ⟨x, hx, hne⟩
            exact ⟨x, by rw [mem_valsOf_iff, hc]; exact List.mem_cons_of_mem _ hx, hne⟩
        have hval : ni.2.value = w.2 := by rw [hinp]
        obtain ⟨hp1, hp2⟩ := provide_eq W o kf.2 data acc.st w.2 rest hc
        have hstep : dfItemStep {} W P o s.conflicts acc ni =
            { acc with st := applyOut kf.2 (outA W o data kf.2) acc.st
                       excluded := if isExcluded W o kf.2 data then acc.excluded ++ [ni.1] else acc.excluded } := by
          unfold dfItemStep
          rw [hfield]
          simp only
          rw [hflag, hfe, hval, hp1, hp2]
        have hgiven : given W kf.2 data = true := by unfold given; rw [hc]; rfl
        have hF : fieldsOf (ni :: l) = kf.2 :: fieldsOf l := by
          unfold fieldsOf
          rw [List.filterMap_cons_some (f := fun x : Key × Input V => x.2.field) (b := kf.2) (by simp only [hfield, hfe])]
        have hX : extrasOf (ni :: l) = extrasOf l := by
          unfold extrasOf; rw [List.filterMap_cons_none (by simp [extraOf, hfield])]
        obtain ⟨i123, i4, i5, i6, i7⟩ := ih hl' (dfItemStep {} W P o s.conflicts acc ni)
        rw [hF, hX, foldOut_cons, hstep]
        rw [hstep] at i123 i4 i5 i7
        refine ⟨i123, i4, i5, ?_, ?_⟩
        · intro x hx g hg
          rcases List.mem_cons.mp hx with e | e
          · subst e
            rw [hfield] at hg
            exact ⟨kf, hf, by rw [← hfe]; exact Option.some.inj hg, hname, hgiven⟩
          · exact i6 x e g hg
        · intro n
          rw [i7 n]
          simp only [List.mem_cons, exists_eq_or_imp, hfield, Option.some.injEq, exists_eq_left']
          rw [hfe]
          cases hex : isExcluded W o kf.2 data
          · simp
          · simp only [if_true, List.mem_append, List.mem_singleton, true_and, and_true]
            constructor
            · rintro ((h | h) | h)
              · exact Or.inl h
              · exact Or.inr (Or.inl h.symm)
              · exact Or.inr (Or.inr h)
            · rintro (h | h | h)
              · exact Or.inl (Or.inl h)
              · exact Or.inl (Or.inr h.symm)
              · exact Or.inr h

theorem dhas_inputs_iff [DecidableEq V] {W : World V} {P : Parser V} (wf : WF W P)
    {data : List (Key × V)} {s : DfScan V} (inv : ScanInv W P data s) {kf : Key × PField V} (hf : kf ∈ P.fields) :
    dhas kf.2.name s.inputs = given W kf.2 data := by
  unfold dhas given
  rw [inv.inp kf hf]
  have := best_eq_head wf hf data
  cases hb : best W kf.2 data with
  | none =>
    rw [hb] at this
    have : candidates W kf.2 data = [] := eq_nil_of_head?_none this.symm
    simp [this]
  | some w =>
    rw [hb] at this
    cases hc : candidates W kf.2 data with
    | nil => rw [hc] at this; cases this
    | cons c rest => simp

/-- the fill loop: the statements for a field without input, run for the fields that were not given and for
those whose value was dropped -/
theorem dfAbsent_fold [DecidableEq V] {W : World V} {P : Parser V} (wf : WF W P) (o : Opts V)
    {data : List (Key × V)} {s : DfScan V} (inv : ScanInv W P data s) (excluded : List Key)
    (hex : ∀ kf ∈ P.fields, excluded.contains kf.2.name = (given W kf.2 data && isExcluded W o kf.2 data))
    (l : List (Key × PField V)) (hl : ∀ kf ∈ l, kf ∈ P.fields) (st : St V) :
    l.foldl (fun st kf => if dhas kf.2.name s.inputs && !excluded.contains kf.2.name then st
                          else absent {} W o kf.2 st) st
      = foldOut (outB W o data) ((l.filter fun kf => !(outOf W o data kf.2).provided).map (·.2)) st := by
  induction l generalizing st with
  | nil => rfl
  | cons kf l ih =>
    have hf := hl kf (by simp)
    have hcond : (dhas kf.2.name s.inputs && !excluded.contains kf.2.name) = (outOf W o data kf.2).provided := by
      rw [dhas_inputs_iff wf inv hf, hex kf hf]
      unfold outOf; rw [provided_eq]
      cases given W kf.2 data <;> cases isExcluded W o kf.2 data <;> rfl
    rw [List.foldl_cons, hcond, List.filter_cons]
    cases hp : (outOf W o data kf.2).provided
    · simp only [Bool.false_eq_true, if_false, Bool.not_false, if_true, List.map_cons, foldOut_cons]
      have hstep : absent {} W o kf.2 st = applyOut kf.2 (outB W o data kf.2) st := by
        cases hx : isExcluded W o kf.2 data
        · have hg : given W kf.2 data = false := by
            unfold outOf at hp; rw [provided_eq, hx] at hp; simpa using hp
          have hc : candidates W kf.2 data = [] := by
            unfold given at hg
            cases h : candidates W kf.2 data with
            | nil => rfl
            | cons c r => rw [h] at hg; cases hg
          rw [absent_eq W o kf.2 data st hc]
          unfold outB; rw [hx]; rfl
        · exact absent_excluded_eq W o kf.2 data st hx
      rw [hstep]
      exact ih (fun x hx => hl x (List.mem_cons_of_mem _ hx)) _
    · simp only [if_true, Bool.not_true, Bool.false_eq_true, if_false]
      exact ih (fun x hx => hl x (List.mem_cons_of_mem _ hx)) _

end Utv.C05

namespace Utv.C05
open Spec
variable {V : Type}

/-! ### data_first_parse against the reference run -/

theorem depsCheck_fields (P : Parser V) (st : St V) :
    (depsCheck P st).result = st.result ∧
    ∀ e, e ∈ (depsCheck P st).errs ↔ e ∈ st.errs ∨ ((lackOf P st).isEmpty = false ∧ e = .depsAbsence (lackOf P st)) := by
  rw [depsCheck_eq]
  cases h : (lackOf P st).isEmpty
  · simp
  · simp

theorem lackOf_of_eq (P : Parser V) {a b : St V} (h1 : ∀ k, dget k a.result = dget k b.result)
    (h2 : ∀ d, d ∈ a.deps ↔ d ∈ b.deps) (h3 : ∀ n, n ∈ a.unprov ↔ n ∈ b.unprov) : lackOf P a = lackOf P b := by
  have : StEq a { b with errs := a.errs } := ⟨h1, h2, h3, fun _ => Iff.rfl⟩
  rw [lackOf_congr P this]
  rfl

theorem nodup_map_filter_of {α : Type} (f : α → Key) (p : α → Bool) {l : List α} (h : (l.map f).Nodup) :
    ((l.filter p).map f).Nodup := by
  induction l with
  | nil => simp
  | cons x xs ih =>
    simp only [List.map_cons, List.nodup_cons] at h
    rw [List.filter_cons]
    split
    · simp only [List.map_cons, List.nodup_cons]
      refine ⟨?_, ih h.2⟩
      intro hc
      apply h.1
      rw [List.mem_map] at hc ⊢
      obtain ⟨y, hy, he⟩ := hc
      exact ⟨y, (List.mem_filter.mp hy).1, he⟩
    · exact ih h.2

/-- **data_first_parse and the reference run agree as finite maps / error sets.** -/
theorem dataFirst_equiv_ref [DecidableEq V] {W : World V} (LL : LowerLaws W) {P : Parser V} (wf : WF W P)
    (o : Opts V) (data : List (Key × V)) (hndata : (data.map (·.1)).Nodup) :
    (∀ k, dget k (dataFirst {} W P o data).result = dget k (refRun W P o data).result)
    ∧ (∀ e, e ∈ (dataFirst {} W P o data).errs ↔ e ∈ (refRun W P o data).errs) := by
  have inv := scanInv LL wf data hndata
  generalize hs : data.foldl (dfScanStep W P) {} = s at inv
  obtain ⟨⟨p1, p2, p3⟩, p4, p5, hprovmem, p7⟩ :=
    dfItems_fold LL wf o inv s.inputs (fun _ h => h) ({} : DfRun V)
  generalize hr : s.inputs.foldl (dfItemStep {} W P o s.conflicts) ({} : DfRun V) = r at p1 p2 p3 p4 p5 p7
  let provL := fieldsOf s.inputs
  let absL := (P.fields.filter fun kf => !(outOf W o data kf.2).provided).map (·.2)
  -- membership in the two lists
  have hmemprov : ∀ g, g ∈ provL ↔ ∃ kf ∈ P.fields, kf.2 = g ∧ given W kf.2 data = true := by
    intro g
    constructor
    · intro hg
      simp only [provL, fieldsOf, List.mem_filterMap] at hg
      obtain ⟨ni, hni, he⟩ := hg
      obtain ⟨kf, hf, hfe, _, hp⟩ := hprovmem ni hni g he
      exact ⟨kf, hf, hfe, hp⟩
    · rintro ⟨kf, hf, rfl, hg⟩
      have hd : dhas kf.2.name s.inputs = true := by rw [dhas_inputs_iff wf inv hf, hg]
      unfold dhas at hd
      cases hgt : dget kf.2.name s.inputs with
      | none => rw [hgt] at hd; cases hd
      | some inp =>
        have hm := dget_mem hgt
        have hi := inv.inp kf hf
        rw [hgt] at hi
        cases hb : best W kf.2 data with
        | none => rw [hb] at hi; cases hi
        | some w =>
          rw [hb] at hi
          simp only [Option.map_some, Option.some.injEq] at hi
          simp only [provL, fieldsOf, List.mem_filterMap]
          exact ⟨(kf.2.name, inp), hm, by rw [hi]⟩
  have hmemabs : ∀ g, g ∈ absL ↔ ∃ kf ∈ P.fields, kf.2 = g ∧ (outOf W o data kf.2).provided = false := by
    intro g
    simp only [absL, List.mem_map, List.mem_filter, Bool.not_eq_true']
    constructor
    · rintro ⟨kf, ⟨hf, hp⟩, he⟩; exact ⟨kf, hf, he, hp⟩
    · rintro ⟨kf, hf, he, hp⟩; exact ⟨kf, ⟨hf, hp⟩, he⟩
  have hprovided : ∀ kf ∈ P.fields, (outOf W o data kf.2).provided = (given W kf.2 data && !isExcluded W o kf.2 data) := by
    intro kf _; unfold outOf; exact provided_eq W o kf.2 data
  -- the names dropped by 'exclude'
  have hex : ∀ kf ∈ P.fields, r.excluded.contains kf.2.name = (given W kf.2 data && isExcluded W o kf.2 data) := by
    intro kf hf
    rw [Bool.eq_iff_iff, List.contains_iff_mem, p7]
    simp only [List.not_mem_nil, false_or, Bool.and_eq_true]
    constructor
    · rintro ⟨ni, hni, g, hg, hn, hx⟩
      obtain ⟨kg, hgf, hge, hname, hgiven⟩ := hprovmem ni hni g hg
      have : kg = kf := wf.name_inj hgf hf (by rw [hname, hn])
      subst this
      rw [hge]; exact ⟨by rw [← hge]; exact hgiven, hx⟩
    · rintro ⟨hg, hx⟩
      have hm := (hmemprov kf.2).2 ⟨kf, hf, rfl, hg⟩
      simp only [provL, fieldsOf, List.mem_filterMap] at hm
      obtain ⟨ni, hni, he⟩ := hm
      obtain ⟨kg, hgf, hge, hname, _⟩ := hprovmem ni hni kf.2 he
      have : kg = kf := by
        cases kg; cases kf; simp only at hge
        exact wf.name_inj hgf hf (by simp only; rw [hge])
      subst this
      exact ⟨ni, hni, kg.2, he, hname.symm, hx⟩
  have habs := dfAbsent_fold wf o inv r.excluded hex P.fields (fun _ h => h) r.st
  -- the additional keys
  have hX : extrasOf s.inputs = extras W P data := inv.ext
  have haddfold := addStep_fold W P o (extras W P data) [] []
  have hadd1 : r.addition = (addAll W P o (extras W P data)).1 := by
    rw [p5, hX]; unfold addAll; rw [haddfold]
  have hadd2 : ∀ e, (∃ kv ∈ extrasOf s.inputs, e ∈ (parseAddition W P o kv.1 kv.2).2)
      ↔ e ∈ (addAll W P o (extras W P data)).2 := by
    intro e
    rw [hX]; unfold addAll; rw [haddfold]
    simp [List.mem_flatMap]
  -- names are distinct in each list
  have hndF : ((P.fields.map (·.2)).map (·.name)).Nodup := by
    rw [List.map_map]; exact wf.names_nodup
  have hndA : (absL.map (·.name)).Nodup := by
    simp only [absL, List.map_map]
    exact nodup_map_filter_of (fun kf : Key × PField V => kf.2.name) _ wf.names_nodup
  have hndP : (provL.map (·.name)).Nodup := by
    have hgen : ∀ (l : List (Key × Input V)), (∀ ni ∈ l, ni ∈ s.inputs) → (l.map (·.1)).Nodup →
        ((fieldsOf l).map (·.name)).Nodup ∧ ∀ n ∈ (fieldsOf l).map (·.name), n ∈ l.map (·.1) := by
      intro l
      induction l with
      | nil => intro _ _; exact ⟨by simp [fieldsOf], by simp [fieldsOf]⟩
      | cons ni l ih =>
        intro hl hn
        simp only [List.map_cons, List.nodup_cons] at hn
        obtain ⟨ih1, ih2⟩ := ih (fun x hx => hl x (List.mem_cons_of_mem _ hx)) hn.2
        cases hfield : ni.2.field with
        | none =>
          have : fieldsOf (ni :: l) = fieldsOf l := by
            unfold fieldsOf; rw [List.filterMap_cons_none (f := fun x : Key × Input V => x.2.field) hfield]
          rw [this]
          exact ⟨ih1, fun n hn' => List.mem_cons_of_mem _ (ih2 n hn')⟩
        | some g =>
          have : fieldsOf (ni :: l) = g :: fieldsOf l := by
            unfold fieldsOf; rw [List.filterMap_cons_some (f := fun x : Key × Input V => x.2.field) hfield]
          rw [this]
          obtain ⟨kf, hf, hfe, hname, _⟩ := hprovmem ni (hl ni (by simp)) g hfield
          have hgn : g.name = ni.1 := by rw [← hfe]; exact hname
          simp only [List.map_cons, List.nodup_cons]
          refine ⟨⟨?_, ih1⟩, ?_⟩
          · intro hc; rw [hgn] at hc; exact hn.1 (ih2 _ hc)
          · intro n hn'
            rcases List.mem_cons.mp hn' with e | e
            · rw [e, hgn]; simp
            · exact List.mem_cons_of_mem _ (ih2 n e)
    exact (hgen s.inputs (fun _ h => h) inv.nodup).1
  -- a name in a list of declared fields identifies the field
  have hname_mem : ∀ (L : List (PField V)), (∀ g ∈ L, ∃ kf ∈ P.fields, kf.2 = g) →
      ∀ kf ∈ P.fields, kf.2.name ∈ L.map (·.name) → kf.2 ∈ L := by
    intro L hL kf hf hn
    rw [List.mem_map] at hn
    obtain ⟨g, hg, he⟩ := hn
    obtain ⟨kg, hgf, hge⟩ := hL g hg
    have : kg = kf := wf.name_inj hgf hf (by rw [hge, he])
    subst this; rw [hge]; exact hg
  have hLprov : ∀ g ∈ provL, ∃ kf ∈ P.fields, kf.2 = g := fun g hg => by
    obtain ⟨kf, hf, he, _⟩ := (hmemprov g).1 hg; exact ⟨kf, hf, he⟩
  have hLabs : ∀ g ∈ absL, ∃ kf ∈ P.fields, kf.2 = g := fun g hg => by
    obtain ⟨kf, hf, he, _⟩ := (hmemabs g).1 hg; exact ⟨kf, hf, he⟩
  -- the states
  let stX := foldOut (outA W o data) provL ({} : St V)
  let st2 := foldOut (outB W o data) absL r.st
  let stY := foldOut (outB W o data) absL stX
  let stF := foldOut (outOf W o data) (P.fields.map (·.2)) ({} : St V)
  have hst2 : dfAbsentAll {} W P o s.inputs r.excluded r.st = st2 := by unfold dfAbsentAll; rw [habs]
  obtain ⟨hres2, hdeps2, hunp2⟩ := foldOut_core (outB W o data) absL r.st stX p1 p2 p3
  -- outA / outB against the contract
  have hA_ne : ∀ g, isExcluded W o g data = false → outA W o data g = outOf W o data g := by
    intro g h; unfold outA outOf; rw [h]; rfl
  have hB_ne : ∀ g, isExcluded W o g data = false → outB W o data g = outOf W o data g := by
    intro g h; unfold outB outOf; rw [h]; rfl
  have hres : ∀ k, dget k st2.result = dget k stF.result := by
    intro k
    rw [hres2]
    by_cases hk : k ∈ (P.fields.map (·.2)).map (·.name)
    · rw [List.mem_map] at hk
      obtain ⟨g, hg, rfl⟩ := hk
      obtain ⟨kf, hf, rfl⟩ := List.mem_map.mp hg
      rw [foldOut_result_mem _ _ _ hndF hg]
      cases hp : (outOf W o data kf.2).provided
      · -- not given, or dropped: the fill loop stores the contract's value
        have hga : kf.2 ∈ absL := (hmemabs kf.2).2 ⟨kf, hf, rfl, hp⟩
        rw [foldOut_result_mem _ _ _ hndA hga]
        have hvB : (outB W o data kf.2).value = (outOf W o data kf.2).value := by
          unfold outB outOf; split <;> rfl
        have hX0 : dget kf.2.name stX.result = none ∨ (outOf W o data kf.2).value.isSome = true → True := fun _ => trivial
        rw [hvB]
        cases hv : (outOf W o data kf.2).value with
        | some v => rfl
        | none =>
          simp only [Option.orElse]
          by_cases hgp : kf.2 ∈ provL
          · rw [foldOut_result_mem _ _ _ hndP hgp]
            obtain ⟨kg, hgf, hge, hgiv⟩ := (hmemprov kf.2).1 hgp
            have : kg = kf := wf.name_inj hgf hf (by rw [hge])
            subst this
            have hx : isExcluded W o kg.2 data = true := by
              rw [hprovided kg hf, hgiv] at hp; simpa using hp
            unfold outA; rw [hx]; rfl
          · have : kf.2.name ∉ provL.map (·.name) := fun hc => hgp (hname_mem provL hLprov kf hf hc)
            rw [foldOut_result_other _ _ _ _ this]
      · -- given and taken: stored by the second loop
        have hgiv : given W kf.2 data = true ∧ isExcluded W o kf.2 data = false := by
          rw [hprovided kf hf] at hp
          cases hg : given W kf.2 data <;> cases hx : isExcluded W o kf.2 data <;> simp_all
        have hgp : kf.2 ∈ provL := (hmemprov kf.2).2 ⟨kf, hf, rfl, hgiv.1⟩
        have hna : kf.2.name ∉ absL.map (·.name) := by
          intro hc
          obtain ⟨kg, hgf, hge, hpf⟩ := (hmemabs kf.2).1 (hname_mem absL hLabs kf hf hc)
          have : kg = kf := wf.name_inj hgf hf (by rw [hge])
          subst this; rw [hp] at hpf; cases hpf
        rw [foldOut_result_other _ _ _ _ hna, foldOut_result_mem _ _ _ hndP hgp, hA_ne _ hgiv.2]
    · have hk1 : k ∉ absL.map (·.name) := by
        intro hc; apply hk
        rw [List.mem_map] at hc ⊢
        obtain ⟨g, hg, he⟩ := hc
        obtain ⟨kf, hf, hge⟩ := hLabs g hg
        exact ⟨g, List.mem_map.mpr ⟨kf, hf, hge⟩, he⟩
      have hk2 : k ∉ provL.map (·.name) := by
        intro hc; apply hk
        rw [List.mem_map] at hc ⊢
        obtain ⟨g, hg, he⟩ := hc
        obtain ⟨kf, hf, hge⟩ := hLprov g hg
        exact ⟨g, List.mem_map.mpr ⟨kf, hf, hge⟩, he⟩
      rw [foldOut_result_other _ _ _ _ hk1, foldOut_result_other _ _ _ _ hk2, foldOut_result_other _ _ _ _ hk]
  -- a field of the contract, as seen by the two loops
  have hcover : ∀ kf ∈ P.fields, (kf.2 ∈ provL ∧ (isExcluded W o kf.2 data = true ∨ (outOf W o data kf.2).provided = true))
      ∨ (kf.2 ∈ absL ∧ given W kf.2 data = false) := by
    intro kf hf
    cases hg : given W kf.2 data
    · right
      refine ⟨(hmemabs kf.2).2 ⟨kf, hf, rfl, ?_⟩, rfl⟩
      rw [hprovided kf hf, hg]; rfl
    · left
      refine ⟨(hmemprov kf.2).2 ⟨kf, hf, rfl, hg⟩, ?_⟩
      cases hx : isExcluded W o kf.2 data
      · right; rw [hprovided kf hf, hg, hx]; rfl
      · left; rfl
  have hnotgiven_ne : ∀ g, given W g data = false → isExcluded W o g data = false := by
    intro g hg
    unfold given at hg
    cases hc : candidates W g data with
    | nil => exact isExcluded_of_nil W o g data hc
    | cons c r => rw [hc] at hg; cases hg
  have hdeps : ∀ d, d ∈ st2.deps ↔ d ∈ stF.deps := by
    intro d
    rw [hdeps2, foldOut_deps, foldOut_deps, foldOut_deps]
    simp only [List.not_mem_nil, false_or]
    constructor
    · rintro (⟨g, hg, ha, hd⟩ | ⟨g, hg, ha, hd⟩)
      · obtain ⟨kf, hf, he⟩ := hLprov g hg
        have hx : isExcluded W o g data = false := by
          cases hx : isExcluded W o g data
          · rfl
          · unfold outA at ha; rw [hx] at ha; cases ha
        rw [hA_ne g hx] at ha
        exact ⟨g, List.mem_map.mpr ⟨kf, hf, he⟩, ha, hd⟩
      · obtain ⟨kf, hf, he⟩ := hLabs g hg
        have hx : isExcluded W o g data = false := by
          cases hx : isExcluded W o g data
          · rfl
          · unfold outB at ha; rw [hx] at ha; cases ha
        rw [hB_ne g hx] at ha
        exact ⟨g, List.mem_map.mpr ⟨kf, hf, he⟩, ha, hd⟩
    · rintro ⟨g, hg, ha, hd⟩
      obtain ⟨kf, hf, rfl⟩ := List.mem_map.mp hg
      have hx : isExcluded W o kf.2 data = false := by
        cases hx : isExcluded W o kf.2 data
        · rfl
        · exfalso
          have := ffExcluded_eq W o kf.2 data ({} : St V) hx
          -- in the dropped branch the contract is inactive
          unfold outOf at ha
          unfold isExcluded at hx
          unfold fieldContract at ha
          cases hc : candidates W kf.2 data with
          | nil => rw [hc] at hx; cases hx
          | cons c rest =>
            rw [hc] at hx ha
            simp only [Bool.and_eq_true, Bool.not_eq_true', Option.isNone_iff_eq_none, decide_eq_true_eq] at hx
            obtain ⟨⟨⟨hn, hfp⟩, hoe⟩, hr⟩ := hx
            simp [hn, hfp, hoe, hr] at ha
      rcases hcover kf hf with ⟨hp, _⟩ | ⟨hp, _⟩
      · exact Or.inl ⟨kf.2, hp, by rw [hA_ne _ hx]; exact ha, hd⟩
      · exact Or.inr ⟨kf.2, hp, by rw [hB_ne _ hx]; exact ha, hd⟩
  have hunp : ∀ n, n ∈ st2.unprov ↔ n ∈ stF.unprov := by
    intro n
    rw [hunp2, foldOut_unprov, foldOut_unprov, foldOut_unprov]
    simp only [List.not_mem_nil, false_or]
    constructor
    · rintro (⟨g, hg, hp, hn⟩ | ⟨g, hg, hp, hn⟩)
      · obtain ⟨kf, hf, he⟩ := hLprov g hg
        have hx : isExcluded W o g data = false := by
          cases hx : isExcluded W o g data
          · rfl
          · unfold outA at hp; rw [hx] at hp; cases hp
        rw [hA_ne g hx] at hp
        exact ⟨g, List.mem_map.mpr ⟨kf, hf, he⟩, hp, hn⟩
      · obtain ⟨kf, hf, he, hpf⟩ := (hmemabs g).1 hg
        exact ⟨g, List.mem_map.mpr ⟨kf, hf, he⟩, by rw [← he]; exact hpf, hn⟩
    · rintro ⟨g, hg, hp, hn⟩
      obtain ⟨kf, hf, rfl⟩ := List.mem_map.mp hg
      right
      refine ⟨kf.2, (hmemabs kf.2).2 ⟨kf, hf, rfl, hp⟩, ?_, hn⟩
      unfold outB; split
      · rfl
      · exact hp
  have herr : ∀ e, e ∈ st2.errs ↔ e ∈ (addAll W P o (extras W P data)).2 ∨ e ∈ stF.errs := by
    intro e
    rw [foldOut_errs, p4, foldOut_errs, foldOut_errs, hadd2]
    simp only [List.not_mem_nil, false_or]
    have hAerrs : ∀ g, (outA W o data g).errs = (outOf W o data g).errs := by
      intro g; unfold outA outOf; split <;> rfl
    constructor
    · rintro ((⟨g, hg, h⟩ | h) | ⟨g, hg, h⟩)
      · obtain ⟨kf, hf, he⟩ := hLprov g hg
        exact Or.inr ⟨g, List.mem_map.mpr ⟨kf, hf, he⟩, by rw [← hAerrs]; exact h⟩
      · exact Or.inl h
      · obtain ⟨kf, hf, he⟩ := hLabs g hg
        have hx : isExcluded W o g data = false := by
          cases hx : isExcluded W o g data
          · rfl
          · unfold outB at h; rw [hx] at h; simp at h
        rw [hB_ne g hx] at h
        exact Or.inr ⟨g, List.mem_map.mpr ⟨kf, hf, he⟩, h⟩
    · rintro (h | ⟨g, hg, h⟩)
      · exact Or.inl (Or.inr h)
      · obtain ⟨kf, hf, rfl⟩ := List.mem_map.mp hg
        rcases hcover kf hf with ⟨hp, _⟩ | ⟨hp, hng⟩
        · exact Or.inl (Or.inl ⟨kf.2, hp, by rw [hAerrs]; exact h⟩)
        · exact Or.inr ⟨kf.2, hp, by rw [hB_ne _ (hnotgiven_ne _ hng)]; exact h⟩
  have hlack : lackOf P st2 = lackOf P stF := lackOf_of_eq P hres hdeps hunp
  obtain ⟨hd2r, hd2e⟩ := depsCheck_fields P st2
  obtain ⟨hdFr, hdFe⟩ := depsCheck_fields P stF
  unfold dataFirst refRun
  simp only [hs, hr]
  rw [hst2]
  constructor
  · intro k
    show dget k (dupdate (depsCheck P st2).result r.addition) = dget k (dupdate (depsCheck P stF).result _)
    rw [dget_dupdate, dget_dupdate, hd2r, hdFr, hres k, hadd1]
  · intro e
    show e ∈ (depsCheck P st2).errs ↔ e ∈ (depsCheck P stF).errs ++ _
    rw [List.mem_append, hd2e, hdFe, herr, hlack]
    constructor
    · rintro ((h | h) | h)
      · exact Or.inr h
      · exact Or.inl (Or.inl h)
      · exact Or.inl (Or.inr h)
    · rintro ((h | h) | h)
      · exact Or.inl (Or.inr h)
      · exact Or.inr h
      · exact Or.inl (Or.inl h)

end Utv.C05
