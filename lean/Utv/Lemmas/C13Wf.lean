import Utv.Model.C13
import Utv.Lemmas.C13Json
/-! Lemmas for `C13_wf`: every member the generator model emits has the value type the 2020-12 metaschema asks for. -/
set_option linter.unusedSimpArgs false
namespace Utv.C13
open Utv.JsonSchema

/-! ### constraint keywords -/

theorem kw_numeric (prim : String) (hp : prim = "integer" ∨ prim = "number") (n : String)
    (hn : numericCons.contains n = true) (v : Json) (hv : conValueOk (n, v) = true) :
    wfEntry (keywordOf prim n) (kwValue (keywordOf prim n) v) = true := by
  simp [numericCons] at hn
  rcases hp with rfl | rfl <;> rcases hn with rfl | rfl | rfl | rfl | rfl | rfl | rfl | rfl | rfl <;>
    simp [keywordOf, constraintsMapFor, TYPE_CONSTRAINTS_MAP, assoc, wfEntry, wfSimple, schemaKeywords,
      schemaArrayKeywords, schemaMapKeywords, conValueOk, isNum, kwValue] at hv ⊢ <;>
    (cases v <;> simp_all)

theorem kw_string (n : String) (hn : stringCons.contains n = true) (v : Json) (hv : conValueOk (n, v) = true) :
    wfEntry (keywordOf "string" n) (kwValue (keywordOf "string" n) v) = true := by
  simp [stringCons] at hn
  rcases hn with rfl | rfl | rfl | rfl | rfl | rfl <;>
    simp [keywordOf, constraintsMapFor, TYPE_CONSTRAINTS_MAP, assoc, wfEntry, wfSimple, schemaKeywords,
      schemaArrayKeywords, schemaMapKeywords, conValueOk, isNum, kwValue] at hv ⊢ <;>
    (cases v <;> simp_all [strOf])

theorem kw_array (n : String) (hn : arrayCons.contains n = true) (v : Json) (hv : conValueOk (n, v) = true) :
    wfEntry (keywordOf "array" n) (kwValue (keywordOf "array" n) v) = true := by
  simp [arrayCons] at hn
  rcases hn with rfl | rfl | rfl | rfl <;>
    simp [keywordOf, constraintsMapFor, TYPE_CONSTRAINTS_MAP, assoc, wfEntry, wfSimple, schemaKeywords,
      schemaArrayKeywords, schemaMapKeywords, conValueOk, isNum, kwValue] at hv ⊢ <;>
    (cases v <;> simp_all)

theorem kw_object (n : String) (hn : objectCons.contains n = true) (v : Json) (hv : conValueOk (n, v) = true) :
    wfEntry (keywordOf "object" n) (kwValue (keywordOf "object" n) v) = true := by
  simp [objectCons] at hn
  rcases hn with rfl | rfl | rfl <;>
    simp [keywordOf, constraintsMapFor, TYPE_CONSTRAINTS_MAP, assoc, wfEntry, wfSimple, schemaKeywords,
      schemaArrayKeywords, schemaMapKeywords, conValueOk, isNum, kwValue] at hv ⊢ <;>
    (cases v <;> simp_all)

theorem mem_orderedCons {cs : Cons} {c : String × Json} (h : c ∈ orderedCons cs) : c ∈ cs := by
  unfold orderedCons at h
  rw [List.mem_flatMap] at h
  obtain ⟨_, _, hc⟩ := h
  exact (List.mem_filter.mp hc).1

theorem wf_consSchema (prim : String) (allowed : List String) (cs : Cons) (h : consOk allowed cs = true)
    (hk : ∀ n, allowed.contains n = true → ∀ v, conValueOk (n, v) = true →
      wfEntry (keywordOf prim n) (kwValue (keywordOf prim n) v) = true) :
    wfKws (consSchema prim cs) = true := by
  rw [wfKws_eq_all, List.all_eq_true]
  intro e he
  unfold consSchema at he
  rw [List.mem_map] at he
  obtain ⟨c, hc, rfl⟩ := he
  have hc' := mem_orderedCons hc
  unfold consOk at h
  rw [Bool.and_eq_true, List.all_eq_true] at h
  have := h.2 c hc'
  rw [Bool.and_eq_true] at this
  exact hk c.1 this.1 c.2 this.2

theorem consOk_nil_allowed (cs : Cons) (h : consOk [] cs = true) : cs = [] := by
  unfold consOk at h
  rw [Bool.and_eq_true, List.all_eq_true] at h
  cases cs with
  | nil => rfl
  | cons c rest => have := h.2 c (List.mem_cons_self ..); simp at this

theorem consSchema_nil (prim : String) : consSchema prim [] = [] := by
  unfold consSchema orderedCons
  simp

/-! ### heads -/

theorem getPrimitive_name (p : Prim) : primitiveNames.contains (getPrimitive p) = true := by
  cases p <;> decide

theorem wf_optStr_format (o : Option String) : wfKws (optStr "format" o) = true := by
  cases o <;> simp [optStr, wfKws_nil, wfKws_cons, wfEntry, wfSimple, schemaKeywords, schemaArrayKeywords,
    schemaMapKeywords, strOf]

theorem wf_optStr_title (o : Option String) : wfKws (optStr "title" o) = true := by
  cases o <;> simp [optStr, wfKws_nil, wfKws_cons, wfEntry, wfSimple, schemaKeywords, schemaArrayKeywords,
    schemaMapKeywords, strOf]

theorem wf_optStr_description (o : Option String) : wfKws (optStr "description" o) = true := by
  cases o <;> simp [optStr, wfKws_nil, wfKws_cons, wfEntry, wfSimple, schemaKeywords, schemaArrayKeywords,
    schemaMapKeywords, strOf]

theorem wfEntry_type (t : String) (h : primitiveNames.contains t = true) : wfEntry "type" (.str t) = true := by
  simp [wfEntry, wfSimple, wfType, typeNonEmpty, schemaKeywords, schemaArrayKeywords, schemaMapKeywords]
  simpa using h

theorem wf_plainSchema (p : Prim) : wfKws (plainSchema p) = true := by
  unfold plainSchema
  rw [wfKws_append, wfKws_cons, wfKws_nil, wfEntry_type _ (getPrimitive_name p), wf_optStr_format]
  rfl

theorem rulePrimitive_name (origin : Option Prim) (m : RuleMeta) (h : overridesPrimitive m = true) :
    primitiveNames.contains (rulePrimitive origin m) = true := by
  unfold overridesPrimitive at h
  unfold rulePrimitive
  cases hm : m.primitive with
  | none => simp [hm] at h
  | some pr =>
    simp only [hm] at h
    simp only [h, if_true]
    exact h

theorem wf_ruleHead (origin : Option Prim) (m : RuleMeta) : wfKws (ruleHead origin m) = true := by
  unfold ruleHead
  rw [wfKws_append, wf_optStr_format, Bool.and_true]
  by_cases h : overridesPrimitive m = true
  · simp only [h, if_true]
    rw [wfKws_cons, wfKws_nil, wfEntry_type _ (rulePrimitive_name origin m h)]; rfl
  · simp only [h]
    cases origin with
    | none => simp [wfKws_nil]
    | some p => simp only [Bool.false_eq_true, if_false]; rw [wfKws_cons, wfKws_nil, wfEntry_type _ (getPrimitive_name p)]; rfl

/-- the primitive a scalar's constraints are mapped with: its own, or `number` for an integer origin -/
theorem rulePrimitive_scalar (p : Prim) (m : RuleMeta) (h : metaOk m (getPrimitive p) = true) :
    rulePrimitive (some p) m = getPrimitive p ∨
      (rulePrimitive (some p) m = "number" ∧ getPrimitive p = "integer") := by
  unfold metaOk at h
  unfold rulePrimitive
  cases hm : m.primitive with
  | none => simp
  | some pr =>
    simp only [hm] at h
    by_cases hc : PRIMITIVES.contains pr = true
    · simp only [hc, if_true]
      simp only [hc, Bool.not_true, Bool.or_false, Bool.or_eq_true, Bool.and_eq_true, beq_iff_eq] at h
      rcases h with h | h
      · left; exact h
      · right; exact h
    · left; simp only [hc]; rfl

theorem rulePrimitive_fixed (p : Prim) (m : RuleMeta) (own : String) (ho : getPrimitive p = own)
    (hne : (own == "integer") = false) (h : metaOk m own = true) : rulePrimitive (some p) m = own := by
  have := rulePrimitive_scalar p m (by rw [ho]; exact h)
  rcases this with h1 | ⟨_, h2⟩
  · rw [h1, ho]
  · rw [ho] at h2; subst h2; simp at hne

theorem wf_scalar_cons (p : Prim) (m : RuleMeta) (cs : Cons) (hc : consOk (scalarCons p) cs = true)
    (hm : metaOk m (getPrimitive p) = true) : wfKws (consSchema (rulePrimitive (some p) m) cs) = true := by
  cases p with
  | int =>
    apply wf_consSchema _ numericCons cs hc
    intro n hn v hv
    rcases rulePrimitive_scalar .int m hm with h | ⟨h, _⟩ <;> rw [h]
    · exact kw_numeric "integer" (Or.inl rfl) n hn v hv
    · exact kw_numeric "number" (Or.inr rfl) n hn v hv
  | float =>
    apply wf_consSchema _ numericCons cs hc
    intro n hn v hv
    rw [rulePrimitive_fixed .float m "number" rfl rfl hm]
    exact kw_numeric "number" (Or.inr rfl) n hn v hv
  | decimal =>
    apply wf_consSchema _ numericCons cs
    · unfold consOk at hc ⊢
      rw [Bool.and_eq_true, List.all_eq_true] at hc ⊢
      refine ⟨hc.1, fun c hcm => ?_⟩
      have := hc.2 c hcm
      simp only [scalarCons, Bool.and_eq_true] at this ⊢
      refine ⟨?_, this.2⟩
      have h1 := this.1
      simp [numericCons] at h1 ⊢
      rcases h1 with h1 | h1 <;> simp [h1]
    · intro n hn v hv
      rw [rulePrimitive_fixed .decimal m "number" rfl rfl hm]
      exact kw_numeric "number" (Or.inr rfl) n hn v hv
  | str =>
    apply wf_consSchema _ stringCons cs hc
    intro n hn v hv
    rw [rulePrimitive_fixed .str m "string" rfl rfl hm]
    exact kw_string n hn v hv
  | null | bool | bytes | date | datetime | time | timedelta | uuid | list | tuple | set | dict =>
    rw [consOk_nil_allowed cs hc, consSchema_nil]; exact wfKws_nil

theorem wf_array_cons (p : Prim) (m : RuleMeta) (cs : Cons) (hp : getPrimitive p = "array")
    (hc : consOk arrayCons cs = true) (hm : metaOk m "array" = true) :
    wfKws (consSchema (rulePrimitive (some p) m) cs) = true := by
  apply wf_consSchema _ arrayCons cs hc
  intro n hn v hv
  rw [rulePrimitive_fixed p m "array" hp rfl hm]
  exact kw_array n hn v hv

theorem wf_object_cons (m : RuleMeta) (cs : Cons) (hc : consOk objectCons cs = true) (hm : metaOk m "object" = true) :
    wfKws (consSchema (rulePrimitive (some .dict) m) cs) = true := by
  apply wf_consSchema _ objectCons cs hc
  intro n hn v hv
  rw [rulePrimitive_fixed .dict m "object" rfl rfl hm]
  exact kw_object n hn v hv

/-! ### distinct names -/

theorem memEqv_strs (x : String) (xs : List String) : memEqv (.str x) (xs.map Json.str) = xs.contains x := by
  induction xs with
  | nil => simp [memEqv]
  | cons y rest ih =>
    simp only [memEqv, List.map_cons, List.any_cons, Json.eqv, List.contains_cons] at ih ⊢
    rw [ih, BEq.comm]

theorem allDistinct_strs (xs : List String) : allDistinct (xs.map Json.str) = strDistinct xs := by
  induction xs with
  | nil => rfl
  | cons x rest ih => simp only [List.map_cons, allDistinct, strDistinct, memEqv_strs, ih]

theorem strDistinct_iff_nodup (xs : List String) : strDistinct xs = true ↔ xs.Nodup := by
  induction xs with
  | nil => simp [strDistinct]
  | cons x rest ih => simp [strDistinct, ih, List.nodup_cons]

theorem strDistinct_filter_map {α : Type} (f : α → String) (p : α → Bool) (l : List α)
    (h : strDistinct (l.map f) = true) : strDistinct ((l.filter p).map f) = true := by
  rw [strDistinct_iff_nodup] at *
  exact List.Nodup.sublist (List.Sublist.map f List.filter_sublist) h

theorem strDistinct_sort (xs : List String) (h : strDistinct xs = true) : strDistinct (sortStrings xs) = true := by
  rw [strDistinct_iff_nodup] at *
  exact (List.mergeSort_perm xs _).nodup_iff.mpr h

theorem uniqueStrArray_strArr (xs : List String) (h : strDistinct xs = true) : uniqueStrArray (strArr xs) = true := by
  simp only [uniqueStrArray, strArr, isStrArray, Bool.and_eq_true, List.all_eq_true]
  refine ⟨?_, by rw [allDistinct_strs]; exact h⟩
  intro x hx
  rw [List.mem_map] at hx
  obtain ⟨s, _, rfl⟩ := hx
  rfl

/-! ### members of a data class document -/

theorem wf_fieldExtras (f : FieldMeta) : wfKws (fieldExtras f) = true := by
  unfold fieldExtras
  simp only [wfKws_append, wf_optStr_title, wf_optStr_description, Bool.true_and, Bool.and_eq_true]
  refine ⟨⟨⟨?_, ?_⟩, ?_⟩, ?_⟩
  · unfold deprecatedSeg; split <;> simp [wfKws_nil, wfKws_cons, wfEntry, wfSimple, schemaKeywords, schemaArrayKeywords, schemaMapKeywords]
  · unfold modeSeg; split <;> simp [wfKws_nil, wfKws_cons, wfEntry, wfSimple, schemaKeywords, schemaArrayKeywords, schemaMapKeywords]
  · unfold exampleSeg; split <;> simp [wfKws_nil, wfKws_cons, wfEntry, wfSimple, schemaKeywords, schemaArrayKeywords, schemaMapKeywords]
  · unfold aliasSeg; split <;> simp [wfKws_nil, wfKws_cons, wfEntry, wfSimple, schemaKeywords, schemaArrayKeywords, schemaMapKeywords]

theorem wf_reqSeg (cfg : Cfg) (o : Opts) (ms : List FieldMeta) (h : strDistinct (ms.map (·.name)) = true) :
    wfKws (reqSeg cfg o ms) = true := by
  unfold reqSeg
  split
  · exact wfKws_nil
  · rw [wfKws_cons, wfKws_nil, Bool.and_true]
    have : wfEntry "required" (strArr (requiredNames cfg o ms)) = uniqueStrArray (strArr (requiredNames cfg o ms)) := by
      simp [wfEntry, wfSimple, schemaKeywords, schemaArrayKeywords, schemaMapKeywords]
    rw [this]
    exact uniqueStrArray_strArr _ (strDistinct_filter_map _ _ ms h)

theorem strDistinct_filter (p : String → Bool) (l : List String) (h : strDistinct l = true) :
    strDistinct (l.filter p) = true := by
  rw [strDistinct_iff_nodup] at *
  exact List.Nodup.sublist List.filter_sublist h

theorem wf_depSeg (cfg : Cfg) (o : Opts) (ms : List FieldMeta) (h : ∀ f ∈ ms, strDistinct f.deps = true) :
    wfKws (depSeg cfg o ms) = true := by
  unfold depSeg
  split
  · exact wfKws_nil
  · rw [wfKws_cons, wfKws_nil, Bool.and_true]
    have : wfEntry "dependentRequired" (.obj (dependentRequired cfg o ms)) =
        (dependentRequired cfg o ms).all fun d => uniqueStrArray d.2 := by
      simp [wfEntry, wfSimple, schemaKeywords, schemaArrayKeywords, schemaMapKeywords]
    rw [this, List.all_eq_true]
    intro d hd
    unfold dependentRequired at hd
    by_cases hout : cfg.output = true
    · simp [hout] at hd
    · simp only [hout, Bool.false_eq_true, if_false] at hd
      rw [List.mem_map] at hd
      obtain ⟨d', hd', rfl⟩ := hd
      rw [List.mem_filter, List.mem_map] at hd'
      obtain ⟨⟨f, hf, rfl⟩, _⟩ := hd'
      exact uniqueStrArray_strArr _ (strDistinct_filter _ _ (strDistinct_sort _ (h f (List.mem_filter.mp hf).1)))

theorem wf_classAnnotations (o : Opts) : wfKws (classAnnotations o) = true := by
  unfold classAnnotations
  cases o.mode <;> simp [wfKws_nil, wfKws_cons, wfEntry, wfSimple, schemaKeywords, schemaArrayKeywords, schemaMapKeywords]

theorem wf_addSeg (o : Opts) (s : Obj) (h : wfKws s = true) : wfKws (addSeg o s) = true := by
  unfold addSeg
  cases o.addition <;> simp [wfKws_nil, wfKws_cons, wfEntry, wfSimple, schemaKeywords, schemaArrayKeywords,
    schemaMapKeywords, wf_obj, h, wf]

theorem mem_dedupStrs {x : String} {l : List String} : x ∈ dedupStrs l ↔ x ∈ l := by
  induction l with
  | nil => simp [dedupStrs]
  | cons y rest ih =>
    simp only [dedupStrs, List.mem_cons, List.mem_filter, ih]
    constructor
    · rintro (h | ⟨h, _⟩)
      · exact Or.inl h
      · exact Or.inr h
    · intro h
      by_cases hxy : x = y
      · exact Or.inl hxy
      · rcases h with h | h
        · exact Or.inl h
        · exact Or.inr ⟨h, by simpa using hxy⟩

theorem dedupStrs_nodup (l : List String) : (dedupStrs l).Nodup := by
  induction l with
  | nil => simp [dedupStrs]
  | cons y rest ih =>
    simp only [dedupStrs, List.nodup_cons, List.mem_filter]
    refine ⟨fun h => by simp at h, List.Nodup.sublist List.filter_sublist ih⟩

theorem mem_dedupPrims {x : Prim} {l : List Prim} : x ∈ dedupPrims l ↔ x ∈ l := by
  induction l with
  | nil => simp [dedupPrims]
  | cons y rest ih =>
    simp only [dedupPrims, List.mem_cons, List.mem_filter, ih]
    constructor
    · rintro (h | ⟨h, _⟩)
      · exact Or.inl h
      · exact Or.inr h
    · intro h
      by_cases hxy : x = y
      · exact Or.inl hxy
      · rcases h with h | h
        · exact Or.inl h
        · exact Or.inr ⟨h, by simpa using hxy⟩

theorem wfType_names (ts : List String) (hne : ts ≠ []) (hn : ∀ t ∈ ts, primitiveNames.contains t = true) (hd : ts.Nodup) :
    (wfType (.arr (ts.map Json.str)) && typeNonEmpty (.arr (ts.map Json.str))) = true := by
  have hne' : typeNonEmpty (.arr (ts.map Json.str)) = true := by
    cases ts with
    | nil => exact absurd rfl hne
    | cons t rest => rfl
  rw [hne', Bool.and_true]
  simp only [wfType, Bool.and_eq_true, List.all_eq_true]
  refine ⟨?_, by rw [allDistinct_strs]; exact (strDistinct_iff_nodup ts).mpr hd⟩
  intro j hj
  rw [List.mem_map] at hj
  obtain ⟨t, ht, rfl⟩ := hj
  exact hn t ht

theorem wfType_dedup (ps : List Prim) (hps : ps ≠ []) :
    (wfType (namesType (dedupStrs (ps.map getPrimitive))) && typeNonEmpty (namesType (dedupStrs (ps.map getPrimitive)))) = true := by
  have hne : dedupStrs (ps.map getPrimitive) ≠ [] := by
    cases ps with
    | nil => exact absurd rfl hps
    | cons p rest => simp [dedupStrs]
  have hmem : ∀ t ∈ dedupStrs (ps.map getPrimitive), primitiveNames.contains t = true := by
    intro t ht
    rw [mem_dedupStrs, List.mem_map] at ht
    obtain ⟨p, _, rfl⟩ := ht
    exact getPrimitive_name p
  have hnd := dedupStrs_nodup (ps.map getPrimitive)
  generalize dedupStrs (ps.map getPrimitive) = ts at hmem hnd hne
  unfold namesType
  match ts with
  | [] => exact absurd rfl hne
  | [t] => simp only [wfType, typeNonEmpty, Bool.and_true]; exact hmem t (List.mem_cons_self ..)
  | t :: u :: rest => exact wfType_names _ (by simp) hmem hnd

theorem wfType_enumType (e : EnumDecl) : (wfType (enumType e) && typeNonEmpty (enumType e)) = true := by
  unfold enumType
  generalize enumPyTypes e = ps
  match ps with
  | [] => decide
  | [p] => simp only [wfType, typeNonEmpty, Bool.and_true]; exact getPrimitive_name p
  | p :: q :: rest => exact wfType_dedup _ (by simp)

theorem wf_enumSchema (e : EnumDecl) : wfKws (enumSchema e) = true := by
  unfold enumSchema
  rw [wfKws_append, wf_optStr_format, Bool.and_true, wfKws_cons, wfKws_cons, wfKws_cons, wfKws_nil]
  have := wfType_enumType e
  simp [wfEntry, wfSimple, schemaKeywords, schemaArrayKeywords, schemaMapKeywords, this]

theorem fieldNames_eq (fs : List Fld) : fieldNames fs = (fs.map Fld.meta).map (·.name) := by
  unfold fieldNames; simp [List.map_map, Function.comp_def]

theorem wfFields_deps (fs : List Fld) (h : wfFields fs = true) : ∀ f ∈ fs.map Fld.meta, strDistinct f.deps = true := by
  induction fs with
  | nil => simp
  | cons f rest ih =>
    obtain ⟨m, ty⟩ := f
    rw [wfFields.eq_def] at h
    simp only [Bool.and_eq_true] at h
    intro g hg
    simp only [List.map_cons, Fld.meta, List.mem_cons] at hg
    rcases hg with rfl | hg
    · have := h.1.1
      unfold fieldMetaOk at this
      simp only [Bool.and_eq_true] at this
      exact this.2
    · exact ih h.2 g hg

end Utv.C13
