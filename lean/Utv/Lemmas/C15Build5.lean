import Utv.Lemmas.C15Build4
/-! Building succeeds: one schema object given the induction hypotheses for its members. -/
set_option linter.unusedSimpArgs false
set_option linter.unusedVariables false
namespace Utv.C15
open Utv.JsonSchema
open KnownDefect

def degEntry (k : String) (v : Json) : Bool :=
  if oneKeywords.contains k then degenerate v
  else if manyKeywords.contains k then (match v with
    | .arr ss => degenerateList ss
    | _ => false)
  else if k == "properties" then (match v with
    | .obj ps => degenerateProps ps
    | _ => false)
  else false

theorem degenerateKws_cons (k : String) (v : Json) (rest : List (String × Json)) :
    degenerateKws ((k, v) :: rest) = (degEntry k v || degenerateKws rest) := by
  conv => lhs; rw [degenerateKws.eq_def]
  rfl

theorem degenerateKws_mem : (kws : List (String × Json)) → degenerateKws kws = false → ∀ k v, (k, v) ∈ kws → degEntry k v = false
  | [], _, k, v, hm => by simp at hm
  | (k', v') :: rest, h, k, v, hm => by
    rw [degenerateKws_cons] at h
    simp only [Bool.or_eq_false_iff] at h
    rcases List.mem_cons.mp hm with h1 | h1
    · cases h1; exact h.1
    · exact degenerateKws_mem rest h.2 k v h1

theorem degenerateList_mem : (ss : List Json) → degenerateList ss = false → ∀ s ∈ ss, degenerate s = false
  | [], _, s, hm => by simp at hm
  | s' :: rest, h, s, hm => by
    rw [degenerateList] at h
    simp only [Bool.or_eq_false_iff] at h
    rcases List.mem_cons.mp hm with h1 | h1
    · subst h1; exact h.1
    · exact degenerateList_mem rest h.2 s h1

theorem degenerateProps_mem : (ps : List (String × Json)) → degenerateProps ps = false → ∀ p ∈ ps, degenerate p.2 = false
  | [], _, p, hm => by simp at hm
  | (n, s') :: rest, h, p, hm => by
    rw [degenerateProps] at h
    simp only [Bool.or_eq_false_iff] at h
    rcases List.mem_cons.mp hm with h1 | h1
    · subst h1; exact h.1
    · exact degenerateProps_mem rest h.2 p h1

theorem degenerate_obj (kvs : Obj) : degenerate (.obj kvs) = (degenerateHere kvs || degenerateKws kvs) := by
  rw [degenerate]

/-- one schema object builds when its members do -/
theorem obj_builds (N : Names) (kvs : Obj)
    (ih1 : ∀ k v, (k, v) ∈ kvs → SubBuilds N v)
    (ihA : ∀ k ss, (k, Json.arr ss) ∈ kvs → ∀ s ∈ ss, SubBuilds N s)
    (ihP : ∀ k ps, (k, Json.obj ps) ∈ kvs → ∀ p ∈ ps, SubBuilds N p.2) : SubBuilds N (.obj kvs) := by
  intro hfr hdeg
  rw [inFragment_obj] at hfr
  simp only [Bool.and_eq_true] at hfr
  obtain ⟨hd, hf⟩ := hfr
  rw [degenerate_obj] at hdeg
  simp only [Bool.or_eq_false_iff] at hdeg
  obtain ⟨hhere, hkws⟩ := hdeg
  unfold degenerateHere at hhere
  simp only [Bool.or_eq_false_iff] at hhere
  obtain ⟨⟨⟨hb, hs⟩, hct⟩, hcb⟩ := hhere
  -- the induction hypotheses in the shape the shape lemmas want
  have ihOne : ∀ k v, (k, v) ∈ kvs → oneKeywords.contains k = true → inFragment v = true → (parse N v).isSome = true := by
    intro k v hm hk hfv
    have := degenerateKws_mem kvs hkws k v hm
    simp only [degEntry, hk, if_true] at this
    exact ih1 k v hm hfv this
  have ihMany : ∀ k ss, (k, Json.arr ss) ∈ kvs → manyKeywords.contains k = true → ∀ s ∈ ss, (parse N s).isSome = true := by
    intro k ss hm hk s hs
    have hno : oneKeywords.contains k = false := by
      simp [manyKeywords] at hk
      rcases hk with rfl | rfl | rfl | rfl <;> simp [oneKeywords]
    have := degenerateKws_mem kvs hkws k _ hm
    simp only [degEntry, hno, hk, Bool.false_eq_true, if_false, if_true] at this
    have hfe := fragKws_mem kvs kvs hf k _ hm
    simp only [fragEntry, Bool.and_eq_true] at hfe
    have h2 := hfe.2
    have hnot : (k == "items" || k == "additionalProperties") = false := by
      simp [manyKeywords] at hk
      rcases hk with rfl | rfl | rfl | rfl <;> simp
    simp only [hnot, hk, Bool.false_eq_true, if_false, if_true] at h2
    cases ss with
    | nil => simp at hs
    | cons s0 rest =>
      simp only [Bool.and_eq_true] at h2
      have hfs : inFragment s = true := by
        rcases List.mem_cons.mp hs with h | h
        · subst h; exact h2.1
        · exact fragList_mem rest h2.2 s h
      exact ihA k _ hm s hs hfs (degenerateList_mem _ this s hs)
  have ihProps : ∀ ps, ("properties", Json.obj ps) ∈ kvs → ∀ p ∈ ps, (parse N p.2).isSome = true := by
    intro ps hm p hp
    have := degenerateKws_mem kvs hkws _ _ hm
    simp [degEntry, oneKeywords, manyKeywords] at this
    obtain ⟨_, _, _, hfps⟩ := frag_properties kvs hf _ hm
    have hps : ∃ ps', Json.obj ps = Json.obj ps' ∧ True := ⟨ps, rfl, trivial⟩
    have hfp : inFragment p.2 = true := by
      obtain ⟨ps', he, _, hall⟩ := frag_properties kvs hf _ hm
      cases he
      exact hall p hp
    exact ihP _ ps hm p hp hfp (degenerateProps_mem ps this p hp)
  rw [parse_obj]
  unfold assemble
  unfold constBad at hcb
  cases hlt : lookup "type" kvs with
  | none =>
    simp only
    apply with_builds N kvs hd hf hb hs hct none (by intro t ht; cases ht) _ ihOne ihMany ihProps
    intro t v ht hv
    simp only [hv, hlt] at hcb
    simp at ht
    simp only [ht] at hcb
    exact hcb
  | some tv =>
    have htm := mem_of_lookup kvs _ _ hlt
    have hfe := fragKws_mem kvs kvs hf _ _ htm
    simp only [fragEntry, Bool.and_eq_true] at hfe
    have hft := hfe.2
    simp [manyKeywords, fragSimple] at hft
    cases tv with
    | str t =>
      simp at hft
      have hne : (t == "") = false := by
        simp [primitiveNames] at hft
        rcases hft with rfl | rfl | rfl | rfl | rfl | rfl | rfl <;> simp
      simp only [hne, Bool.false_eq_true, if_false]
      apply with_builds N kvs hd hf hb hs hct (some t) (by intro t' ht'; cases ht'; simpa using hft) _ ihOne ihMany ihProps
      intro t' v ht' hv
      simp only [hv, hlt] at hcb
      simp at ht'
      subst ht'
      exact hcb
    | arr ts =>
      simp only
      simp at hft
      obtain ⟨_, hwf⟩ := hft
      simp only [wfType, Bool.and_eq_true] at hwf
      have : (allSome ((ts.filterMap strOf).map fun t => assembleWith N kvs (parseKws N kvs) (some t))).isSome = true := by
        apply allSome_isSome
        intro x hx
        obtain ⟨t, htm2, rfl⟩ := List.mem_map.mp hx
        obtain ⟨y, hy, hys⟩ := List.mem_filterMap.mp htm2
        have hyp := List.all_eq_true.mp hwf.1 y hy
        cases y with
        | str s =>
          simp [strOf] at hys
          subst hys
          have hps : primitiveNames.contains s = true := by simpa using hyp
          apply with_builds N kvs hd hf hb hs hct (some s) (by intro t' ht'; cases ht'; exact hps) _ ihOne ihMany ihProps
          intro t' v ht' hv
          simp only [hv, hlt] at hcb
          simp at ht'
          subst ht'
          have := List.any_eq_false.mp hcb s htm2
          simpa using this
        | _ => simp [strOf] at hys
      obtain ⟨Ts, hTs⟩ := Option.isSome_iff_exists.mp this
      rw [hTs]
      rfl
    | _ => simp at hft

end Utv.C15
