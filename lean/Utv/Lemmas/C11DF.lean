import Utv.Model.C11
/-!
Helper lemmas for `C11_fields_df_general` (Props/C11): the data-first strategy seen as a finite map.
`data_first_parse` inserts in data order, then fills defaults in declaration order; the strict parse of
the filtered data inserts the same values in a different order, so the two logs are compared through
`lookup` (all keys of such a log are distinct, so `lookup` is the dict the log builds).
-/
namespace Utv.C11

variable {κ α : Type} [DecidableEq κ]

def valueOf : FieldOut α → Option α
  | .value v => some v
  | _ => none

def addValueOf : AddOut α → Option α
  | .value v => some v
  | _ => none

/-- what one data entry contributes to `result` -/
def rEntry (inv : Policy) (fields : List (Field κ α)) (kv : κ × α) : Option α :=
  match findField kv.1 fields with
  | some f => valueOf (parseValue inv f kv.2)
  | none => none

/-- what one data entry contributes to `addition` -/
def adEntry (inv : Policy) (fields : List (Field κ α)) (a : Addition α) (kv : κ × α) : Option α :=
  match findField kv.1 fields with
  | some _ => none
  | none => addValueOf (parseAddition inv a kv.2)

/-- the error one data entry raises, if any -/
def stepErr (inv : Policy) (fields : List (Field κ α)) (a : Addition α) (kv : κ × α) : Option (DataErr κ) :=
  match findField kv.1 fields with
  | some f => (match parseValue inv f kv.2 with | .raise => some (.parse kv.1) | _ => none)
  | none => (match parseAddition inv a kv.2 with
      | .exceed => some (.exceed kv.1) | .raise => some (.parse kv.1) | _ => none)

def consOpt (k : κ) (o : Option α) (l : List (κ × α)) : List (κ × α) :=
  match o with
  | some y => (k, y) :: l
  | none => l

/-- `dfLoop`, one entry at a time -/
theorem dfLoop_cons (inv : Policy) (fields : List (Field κ α)) (a : Addition α) (kv : κ × α) (rest : List (κ × α)) :
    dfLoop inv fields a (kv :: rest) =
      match stepErr inv fields a kv with
      | some e => .error e
      | none => (dfLoop inv fields a rest).map fun (r, ad) =>
          (consOpt kv.1 (rEntry inv fields kv) r, consOpt kv.1 (adEntry inv fields a kv) ad) := by
  obtain ⟨k, v⟩ := kv
  cases hf : findField k fields with
  | none =>
    cases hv : parseAddition inv a v <;>
      simp only [dfLoop, stepErr, rEntry, adEntry, hf, hv, addValueOf, valueOf, consOpt] <;>
      cases dfLoop inv fields a rest <;> rfl
  | some f =>
    cases hv : parseValue inv f v <;>
      simp only [dfLoop, stepErr, rEntry, adEntry, hf, hv, addValueOf, valueOf, consOpt] <;>
      cases dfLoop inv fields a rest <;> rfl

theorem lookup_consOpt_same (k : κ) (o : Option α) (l : List (κ × α)) (h : lookup k l = none) :
    lookup k (consOpt k o l) = o := by
  cases o <;> simp [consOpt, lookup, h]

theorem lookup_consOpt_other (k k' : κ) (o : Option α) (l : List (κ × α)) (h : ¬ k' = k) :
    lookup k (consOpt k' o l) = lookup k l := by
  cases o <;> simp [consOpt, lookup, h]

theorem lookup_none_of_not_mem' (k : κ) (data : List (κ × α)) (h : k ∉ data.map (·.1)) :
    lookup k data = none := by
  induction data with
  | nil => rfl
  | cons kv rest ih =>
    obtain ⟨k', v⟩ := kv
    simp at h
    have hk : ¬ k' = k := fun e => h.1 e.symm
    simp only [lookup, hk, if_false]
    exact ih (by simpa using h.2)

/-- `result` and `addition` of the data loop, as finite maps -/
theorem dfLoop_lookup (inv : Policy) (fields : List (Field κ α)) (a : Addition α) :
    ∀ (data r ad : List (κ × α)), (data.map (·.1)).Nodup → dfLoop inv fields a data = .ok (r, ad) →
      ∀ k, lookup k r = (match lookup k data with | some v => rEntry inv fields (k, v) | none => none) ∧
           lookup k ad = (match lookup k data with | some v => adEntry inv fields a (k, v) | none => none) := by
  intro data
  induction data with
  | nil =>
    intro r ad _ h k
    simp [dfLoop] at h
    obtain ⟨rfl, rfl⟩ := h
    simp [lookup]
  | cons kv rest ih =>
    intro r ad hnd h k
    obtain ⟨k', v⟩ := kv
    rw [dfLoop_cons] at h
    simp at hnd
    cases hs : stepErr inv fields a (k', v) with
    | some e => simp [hs] at h
    | none =>
      simp only [hs] at h
      cases hr : dfLoop inv fields a rest with
      | error e => simp [hr, Except.map] at h
      | ok p =>
        obtain ⟨r0, ad0⟩ := p
        simp [hr, Except.map] at h
        obtain ⟨hr0, had0⟩ := h
        have ih' := ih r0 ad0 hnd.2 hr k
        by_cases hk : k' = k
        · subst hk
          have hnone : lookup k' rest = none := lookup_none_of_not_mem' k' rest (by simpa using hnd.1)
          rw [hnone] at ih'
          rw [← hr0, ← had0]
          simp [lookup, lookup_consOpt_same _ _ _ ih'.1, lookup_consOpt_same _ _ _ ih'.2]
        · rw [← hr0, ← had0]
          simp [lookup, hk, lookup_consOpt_other _ _ _ _ hk, ih']

theorem mem_keys_iff_lookup (k : κ) (l : List (κ × α)) : k ∈ l.map (·.1) ↔ (lookup k l).isSome = true := by
  induction l with
  | nil => simp [lookup]
  | cons kv rest ih =>
    obtain ⟨k', v⟩ := kv
    by_cases hk : k' = k
    · simp [lookup, hk]
    · have hk' : ¬ k = k' := fun e => hk e.symm
      simp [lookup, hk, hk', ih]

theorem lookup_append (k : κ) (l₁ l₂ : List (κ × α)) :
    lookup k (l₁ ++ l₂) = (match lookup k l₁ with | some v => some v | none => lookup k l₂) := by
  induction l₁ with
  | nil => rfl
  | cons kv rest ih =>
    obtain ⟨k', v⟩ := kv
    by_cases hk : k' = k <;> simp [lookup, hk, ih]

theorem findField_none_of_not_mem (k : κ) (fs : List (Field κ α)) (h : k ∉ fs.map (·.name)) :
    findField k fs = none := by
  induction fs with
  | nil => rfl
  | cons g gs ih =>
    simp at h
    have hg : ¬ g.name = k := fun e => h.1 e.symm
    simp only [findField, hg, if_false]
    exact ih (by simpa using h.2)

/-- the fill loop as a finite map -/
theorem dfFill_lookup (P : List κ) :
    ∀ (fs : List (Field κ α)) (filled : List (κ × α)), (fs.map (·.name)).Nodup → dfFill P fs = .ok filled →
      ∀ k, lookup k filled =
        (if k ∈ P then none else match findField k fs with | some f => f.default | none => none) := by
  intro fs
  induction fs with
  | nil =>
    intro filled _ h k
    simp [dfFill] at h
    subst h
    simp [lookup, findField]
  | cons f fs ih =>
    intro filled hnd h k
    simp at hnd
    simp only [dfFill] at h
    have hnotin : f.name ∉ fs.map (·.name) := by simpa using hnd.1
    by_cases hP : f.name ∈ P
    · simp only [hP, if_true] at h
      have := ih filled hnd.2 h k
      by_cases hk : f.name = k
      · subst hk
        simp [this, hP]
      · simp [this, findField, hk]
    · simp only [hP, if_false] at h
      cases hreq : f.required with
      | true => simp [hreq] at h
      | false =>
        simp only [hreq] at h
        have hff : ∀ l, dfFill P fs = .ok l → lookup f.name l = none := by
          intro l hl
          have := ih l hnd.2 hl f.name
          rw [this]
          have : findField f.name fs = none := findField_none_of_not_mem f.name fs hnotin
          simp [this]
        cases hd : f.default with
        | none =>
          simp only [hd] at h
          have := ih filled hnd.2 h k
          by_cases hk : f.name = k
          · subst hk
            simp [hff filled h, hP, findField, hd]
          · simp [this, findField, hk]
        | some d =>
          simp only [hd] at h
          cases hr : dfFill P fs with
          | error e => simp [hr, Except.map] at h
          | ok l =>
            simp [hr, Except.map] at h
            subst h
            have := ih l hnd.2 hr k
            by_cases hk : f.name = k
            · subst hk
              simp [lookup, hP, findField, hd]
            · simp [lookup, hk, this, findField]

/-- the fill loop only looks at membership in `present`; shrinking `present` by names of optional
fields changes neither whether it fails nor the error -/
theorem dfFill_transfer (g : Field κ α → Field κ α) (hname : ∀ f, (g f).name = f.name)
    (hreq : ∀ f, (g f).required = f.required) (hdef : ∀ f, (g f).default = f.default) (P P' : List κ)
    (h1 : ∀ k, k ∈ P' → k ∈ P) :
    ∀ fs : List (Field κ α), (∀ f ∈ fs, f.name ∈ P → f.name ∉ P' → f.required = false) →
      (∀ e, dfFill P fs = .error e → dfFill P' (fs.map g) = .error e) ∧
      (∀ l, dfFill P fs = .ok l → ∃ l', dfFill P' (fs.map g) = .ok l') := by
  intro fs
  induction fs with
  | nil => intro _; simp [dfFill]
  | cons f fs ih =>
    intro h2
    have ih' := ih (fun x hx => h2 x (by simp [hx]))
    simp only [List.map_cons, dfFill, hname, hreq, hdef]
    by_cases hP' : f.name ∈ P'
    · have hP := h1 _ hP'
      simp only [hP, hP', if_true]
      exact ih'
    · by_cases hP : f.name ∈ P
      · have hr := h2 f (by simp) hP hP'
        simp only [hP, hP', if_true, if_false, hr]
        cases f.default with
        | none => exact ih'
        | some d =>
          constructor
          · intro e he
            simp [Bool.false_eq_true, ih'.1 e he, Except.map]
          · intro l hl
            obtain ⟨l', hl'⟩ := ih'.2 l hl
            refine ⟨(f.name, d) :: l', ?_⟩
            simp [hl', Except.map]
      · simp only [hP, hP', if_false]
        cases f.required with
        | true => simp
        | false =>
          simp only [Bool.false_eq_true, if_false]
          cases f.default with
          | none => exact ih'
          | some d =>
            constructor
            · intro e he
              cases hr : dfFill P fs with
              | error e' =>
                simp [hr, Except.map] at he
                subst he
                simp [ih'.1 e' hr, Except.map]
              | ok l => simp [hr, Except.map] at he
            · intro l hl
              cases hr : dfFill P fs with
              | error e' => simp [hr, Except.map] at hl
              | ok l0 =>
                obtain ⟨l', hl'⟩ := ih'.2 l0 hr
                refine ⟨(f.name, d) :: l', ?_⟩
                simp [hl', Except.map]

end Utv.C11
