"""C17 — forward references and declaration order do not change behaviour.

A case is a small *program*: data classes / parsed functions whose annotations are type expressions
with reference leaves in every spelling (bare name, quoted leaf inside List/Dict/Optional/Union/Tuple,
whole annotation as one string, `from __future__ import annotations`, classes local to a function),
a definition order and a sequence of uses.  The adapter generates Python source from the descriptor,
execs it in a fresh module against the real utype and canonicalises every use's outcome.  The Lean
driver runs `Utv.C17.run` (registration, key uniquifying, lazy resolution, local clearing, stateful
parsing) on the same descriptor.  The oracle (`spec`) is the property itself: every use made when all
the classes it can reach exist must return what the *directly written* declaration returns, computed by
`ref_parse` below from the type structure alone.
"""
from __future__ import annotations

import json
import random

from .common import Check, REPO

# ------------------------------------------------------------------------------------------------
# type descriptors
#   {"t":"int"}
#   {"t":"ref","n":"B","q":bool}          q: quoted leaf ('B') / bare name
#   {"t":"list","a":T} {"t":"dict","a":T} {"t":"opt","a":T} {"t":"tuple","as":[T..]} {"t":"union","as":[T..]}
#   {"t":"whole","a":T}                   the whole annotation is one string (top level only)
# ------------------------------------------------------------------------------------------------

CLASS_NAMES = ["A", "B", "C", "D", "E"]
FUNC_NAMES = ["g0", "g1"]
KEY_IDS = {**{f"f{i}": i for i in range(40)}, "a": 0, "<return>": 1, "*": 2, "**": 3, "x": 50, "y": 51, "k": 60, "k2": 61, "zz": 99}
KEY_NAMES = {}
for _k, _v in KEY_IDS.items():
    KEY_NAMES.setdefault(_v, _k)
FUEL = 60


RULE_NAMES = ["Q", "R"]          # constrained scalar types: `class Q(int, Rule): gt = 0`
CON_KINDS = ["le", "ge", "gt", "lt", "max_length", "min_length", "multiple_of"]


def name_id(n: str) -> int:
    if n in CLASS_NAMES:
        return CLASS_NAMES.index(n)
    if n in RULE_NAMES:
        return 200 + RULE_NAMES.index(n)
    return 100 + FUNC_NAMES.index(n)


def con_id(c) -> int:
    """a constraint [kind, bound] as the number the Lean driver decodes"""
    return CON_KINDS.index(c[0]) * 1000 + c[1]


def con_ok(c, v) -> bool:
    kind, b = c
    if kind in ("max_length", "min_length"):
        n = len(v["%"]) if isinstance(v, dict) else len(v) - 1      # canonical list/tuple carry a tag
        return n <= b if kind == "max_length" else n >= b
    if kind == "multiple_of":
        return v % b == 0
    return {"le": v <= b, "ge": v >= b, "gt": v > b, "lt": v < b}[kind]


def field_con(case, owner, fname):
    """the Field(...)/Param(...) constraint declared with a field (looked up through the bases)"""
    cons = case.get("cons") or {}
    if fname in cons.get(owner, {}):
        return cons[owner][fname]
    if owner in case["classes"]:
        for b in bases_of(case["classes"][owner]):
            c = field_con(case, b, fname)
            if c:
                return c
    return None


def ann_src(t, quoted_ok=True) -> str:
    k = t["t"]
    if k == "int":
        return "int"
    if k == "ref":
        n = t.get("src", t["n"])      # `src`: the name as written when the class it denotes was bound to it again
        return repr(n) if (t.get("q") and quoted_ok) else n
    if k == "list":
        return f"List[{ann_src(t['a'], quoted_ok)}]"
    if k == "dict":
        return f"Dict[str, {ann_src(t['a'], quoted_ok)}]"
    if k == "opt":
        return f"Optional[{ann_src(t['a'], quoted_ok)}]"
    if k == "tuple":
        return "Tuple[" + ", ".join(ann_src(a, quoted_ok) for a in t["as"]) + "]"
    if k == "union":
        if t.get("op") and quoted_ok:
            # utype's own operator on a Schema class: `C | 'B' | int` (LogicalType.combine makes the ForwardRef)
            return " | ".join(ann_src(a, quoted_ok) for a in t["as"])
        return "Union[" + ", ".join(ann_src(a, quoted_ok) for a in t["as"]) + "]"
    if k == "whole":
        return repr(ann_src(t["a"], False))
    # typing special forms and utype combinators (oracle: the directly written twin program)
    if k == "final":
        return f"Final[{ann_src(t['a'], quoted_ok)}]"
    if k == "classvar":
        return f"ClassVar[{ann_src(t['a'], quoted_ok)}]"
    if k == "annot":
        return f"Annotated[{ann_src(t['a'], quoted_ok)}, Field({t['c'][0]}={t['c'][1]})]"
    if k == "negint":
        return "types.NegativeInt"
    if k in ("xor", "and", "or"):
        return {"xor": " ^ ", "and": " & ", "or": " | "}[k].join(ann_src(a, quoted_ok) for a in t["as"])
    raise ValueError(k)


def field_src(case, t) -> str:
    # with postponed annotations the whole annotation is a string already: leaves are written bare
    # (a quoted leaf inside a string annotation would be a ForwardRef nested in the evaluated value)
    if case.get("future"):
        return ann_src(strip(t), False)
    return ann_src(t)


def func_slots(g) -> list:
    """the typed slots of a parsed function: (key, annotation, how the model wraps it)"""
    out = [("a", g["arg"], None)]
    if g.get("ret"):
        out.append(("<return>", g["ret"], None))
    if g.get("va"):
        out.append(("*", g["va"], "list"))       # *args: every extra positional argument
    if g.get("kw"):
        out.append(("**", g["kw"], "dict"))      # **kwargs: every extra keyword argument
    return out


def bases_of(c) -> list:
    """base classes as written (`base`: single-base form kept for recorded witnesses)"""
    return list(c.get("bases") or ([c["base"]] if c.get("base") else []))


def class_src(case, name, ind) -> list:
    c = case["classes"][name]
    lines = []
    name = c.get("as", name)          # a second class bound to a name that is already taken
    base = ", ".join(bases_of(c))
    if c.get("kind") == "dataclass":
        lines.append(f"{ind}@utype.dataclass")
        lines.append(f"{ind}class {name}" + (f"({base}):" if base else ":"))
    else:
        lines.append(f"{ind}class {name}({base or 'Schema'}):")
    if not c["fields"]:
        lines.append(f"{ind}    pass")
    for fname, t in c["fields"]:
        con = (case.get("cons") or {}).get(name, {}).get(fname)
        kw = f", {con[0]}={con[1]}" if con else ""
        lines.append(f"{ind}    {fname}: {field_src(case, t)} = Field(required=False{kw})")
    return lines


def program_src(case) -> str:
    """Python source of the program; every use appends its canonical outcome to `_out`."""
    head = []
    if case.get("future"):
        head.append("from __future__ import annotations")
    head += ["import utype", "from utype import Schema, Field, Rule, types",
             "from typing import List, Dict, Optional, Tuple, Union, Final, ClassVar, Annotated"]
    for g in case.get("funcs", {}):
        head.append(f"_seen_{g} = []")
    lines = []
    ind = ""
    if case.get("scope") == "function":
        lines.append("def _scope(_out, _canon, _call):")
        ind = "    "
    for op in case["prog"]:
        if "def" in op:
            name = op["def"]
            if case["classes"][name].get("local") and case.get("scope") != "function":
                lines.append(f"def _mk_{name}():")
                lines += class_src(case, name, "    ")
                lines.append(f"    return {name}")
                lines.append(f"{name} = _mk_{name}()")
            else:
                lines += class_src(case, name, ind)
        elif "fn" in op:
            f = case["funcs"][op["fn"]]
            ret = f" -> {field_src(case, f['ret'])}" if f.get("ret") else ""
            con = (case.get("cons") or {}).get(op["fn"], {}).get("a")
            dflt = f"utype.Param(None, {con[0]}={con[1]})" if con else "None"
            extra = (f", *args: {field_src(case, f['va'])}" if f.get("va") else "") + \
                    (f", **kw: {field_src(case, f['kw'])}" if f.get("kw") else "")
            seen = "a" + (", list(args)" if f.get("va") else ", None") + (", dict(kw)" if f.get("kw") else ", None")
            loc = bool(f.get("local")) and case.get("scope") != "function"
            i2 = "    " if loc else ind
            if loc:      # a function made inside another function (qualname contains <locals>)
                lines.append(f"def _mk_{op['fn']}():")
            lines.append(f"{i2}@utype.parse")
            lines.append(f"{i2}def {op['fn']}(a: {field_src(case, f['arg'])} = {dflt}, r=None{extra}){ret}:")
            lines.append(f"{i2}    _seen_{op['fn']}.append(({seen}))")
            lines.append(f"{i2}    return r")
            if loc:
                lines.append(f"    return {op['fn']}")
                lines.append(f"{op['fn']} = _mk_{op['fn']}()")
        elif "rule" in op:
            kind, b = case["rules"][op["rule"]]
            lines.append(f"{ind}class {op['rule']}(int, Rule):")
            lines.append(f"{ind}    {kind} = {b}")
        elif "use" in op and op.get("set"):
            # construct, then assign an attribute (immutability of Final fields)
            lines.append(f"{ind}_canon(_out, lambda: _set({op['use']}(**{op['input']!r}), {op['set'][0]!r}, {op['set'][1]!r}))")
        elif "use" in op:
            lines.append(f"{ind}_canon(_out, lambda: {op['use']}(**{op['input']!r}))")
        elif "call" in op:
            g = op["call"]
            extra = "".join(f", {x!r}" for x in op["input"].get("*", [])) + \
                    "".join(f", {k}={x!r}" for k, x in op["input"].get("**", {}).items())
            lines.append(f"{ind}_call(_out, {g!r}, _seen_{g}, {bool(case['funcs'][g].get('ret'))}, "
                         f"lambda: {g}({op['input']['a']!r}, {op['input']['<return>']!r}{extra}))")
    if case.get("scope") == "function":
        lines.append("_scope(_out, _canon, _call)")
    return "\n".join(head + [""] + lines) + "\n"


# ------------------------------------------------------------------------------------------------
# adapter (runs in worker processes against the real utype)
# ------------------------------------------------------------------------------------------------

_COUNTER = [0]


def _canon_value(v):
    parser = getattr(type(v), "__parser__", None)
    if parser is not None and not isinstance(v, type):
        d = {}
        for k in parser.fields:
            if isinstance(v, dict):
                if k in v:
                    d[k] = _canon_value(v[k])
            elif k in getattr(v, "__dict__", {}):
                d[k] = _canon_value(v.__dict__[k])
        return {"$": type(v).__name__, "f": d}
    if isinstance(v, dict):
        return {"%": {str(k): _canon_value(x) for k, x in v.items()}}
    if isinstance(v, (list, tuple)):
        return [("T" if isinstance(v, tuple) else "L")] + [_canon_value(x) for x in v]
    if v is None or isinstance(v, (bool, int, str)):
        return v
    return {"?": type(v).__name__}


def _err(e):
    from utype.utils import exceptions as exc
    if isinstance(e, exc.ParseError):
        return {"err": "parse", "unresolved": "not evaluated" in str(e)}
    if isinstance(e, NameError):
        return {"err": "name"}
    if isinstance(e, RecursionError):
        return {"err": "recursion"}
    return {"err": "escape:" + type(e).__name__}


def _canon(out, thunk):
    try:
        out.append({"ok": _canon_value(thunk())})
    except Exception as e:  # noqa: canonicalised
        out.append(_err(e))


def _call(out, name, seen, has_ret, thunk):
    del seen[:]
    try:
        r = thunk()
        a, va, kw = seen[-1]
        f = {"a": _canon_value(a)}
        if has_ret:
            f["<return>"] = _canon_value(r)
        if va:                      # (nothing extra given: nothing was parsed)
            f["*"] = _canon_value(va)
        if kw:
            f["**"] = _canon_value(kw)
        out.append({"ok": {"$": name, "f": f}})
    except Exception as e:  # noqa: canonicalised
        out.append(_err(e))


def _set(obj, name, value):
    setattr(obj, name, value)
    return obj


def impl(case):
    res = impl_one(case)
    if case.get("twin"):
        # the property itself: the same program with every reference written directly (declarations
        # ordered so that every name exists when it is used, no postponed evaluation)
        t = impl_one(direct_twin(case))
        res["twin"] = t["outs"]
        if t.get("setup"):
            res["twin_setup"] = t["setup"]
    return res


def impl_one(case):
    import sys
    import types
    import typing
    import warnings
    warnings.simplefilter("ignore")
    # typing memoises List['B'] etc. process-wide; a case must not see ForwardRef objects of earlier cases
    for f in getattr(typing, "_cleanups", []):
        f()
    _COUNTER[0] += 1
    modname = f"_c17_mod_{_COUNTER[0]}"
    mod = types.ModuleType(modname)
    sys.modules[modname] = mod
    out = []
    mod.__dict__.update(_out=out, _canon=_canon, _call=_call, _set=_set)
    res = {}
    try:
        exec(compile(program_src(case), modname + ".py", "exec", dont_inherit=True), mod.__dict__)
    except Exception as e:  # the program itself could not be set up (generator bug or class creation failed)
        res["setup"] = f"{type(e).__name__}: {e}"[:200]
    finally:
        sys.modules.pop(modname, None)
    res["outs"] = out
    return res


# ------------------------------------------------------------------------------------------------
# the property's own reading: every reference written directly (independent of the Lean files)
# ------------------------------------------------------------------------------------------------

def strip(t):
    return t["a"] if t["t"] == "whole" else t


def all_fields(case, name):
    """inherited fields first (`for base in reversed(bases): fields.update(...)`), then the class's own;
    a repeated name keeps its first position and takes the last value (dict.update)"""
    c = case["classes"][name]
    d = {}
    for b in reversed(bases_of(c)):
        d.update(all_fields(case, b))
    d.update((f, strip(t)) for f, t in c["fields"])
    return list(d.items())


class Bad(Exception):
    pass


def leaf_int(v):
    if v is None:
        return 0     # utype's lenient int(None)
    if isinstance(v, bool):
        raise Bad()
    if isinstance(v, int):
        return v
    if isinstance(v, str):
        try:
            return int(v)
        except ValueError:
            raise Bad()
    raise Bad()


def flat_union(t):
    """typing flattens nested Union/Optional; None member kept where it appears"""
    out = []
    if t["t"] == "opt":
        out += flat_union(t["a"]) + [{"t": "none"}]
    elif t["t"] == "union":
        for a in t["as"]:
            out += flat_union(a)
    else:
        return [t]
    res = []
    for m in out:
        if m["t"] in ("none", "int") and any(x["t"] == m["t"] for x in res):
            continue
        res.append(m)
    return res


def ref_parse(case, defined, t, v, depth=0):
    if depth > 40:
        raise Bad()
    k = t["t"]
    if k == "int":
        return leaf_int(v)
    if k == "none":
        if v is None:
            return None
        raise Bad()
    if k == "ref":
        if t["n"] not in defined:
            raise Bad()
        if t["n"] in (case.get("rules") or {}):
            r = leaf_int(v)
            if not con_ok(case["rules"][t["n"]], r):
                raise Bad()
            return r
        if not isinstance(v, dict):
            raise Bad()
        return ref_cls(case, defined, t["n"], v, depth + 1)
    if k == "list":
        if not isinstance(v, list):
            raise Bad()
        return ["L"] + [ref_parse(case, defined, t["a"], x, depth + 1) for x in v]
    if k == "dict":
        if not isinstance(v, dict):
            raise Bad()
        return {"%": {key: ref_parse(case, defined, t["a"], x, depth + 1) for key, x in v.items()}}
    if k == "tuple":
        if not isinstance(v, list) or len(v) != len(t["as"]):
            raise Bad()
        return ["T"] + [ref_parse(case, defined, a, x, depth + 1) for a, x in zip(t["as"], v)]
    if k in ("opt", "union"):
        ms = flat_union(t)
        if v is None and any(m["t"] == "none" for m in ms):
            return None
        for m in ms:
            try:
                return ref_parse(case, defined, m, v, depth + 1)
            except Bad:
                continue
        raise Bad()
    raise ValueError(k)


def ref_field(case, defined, owner, fname, t, v, depth=0):
    """a field with its declared constraint: the value is converted, then (unless None) checked"""
    r = ref_parse(case, defined, t, v, depth)
    con = field_con(case, owner, fname)
    if con and r is not None and not con_ok(con, r):
        raise Bad()
    return r


def ref_cls(case, defined, name, data, depth=0):
    f = {}
    for fname, t in all_fields(case, name):
        if fname in data:
            f[fname] = ref_field(case, defined, name, fname, t, data[fname], depth + 1)
    return {"$": case["classes"][name].get("as", name), "f": f}


def ref_use(case, defined, op):
    try:
        if "use" in op:
            return {"ok": ref_cls(case, defined, op["use"], op["input"])}
        g = case["funcs"][op["call"]]
        f = {"a": ref_field(case, defined, op["call"], "a", strip(g["arg"]), op["input"]["a"])}
        if g.get("ret"):
            f["<return>"] = ref_parse(case, defined, strip(g["ret"]), op["input"]["<return>"])
        if g.get("va") and op["input"].get("*"):
            f["*"] = ["L"] + [ref_parse(case, defined, strip(g["va"]), x) for x in op["input"]["*"]]
        if g.get("kw") and op["input"].get("**"):
            f["**"] = {"%": {k: ref_parse(case, defined, strip(g["kw"]), x) for k, x in op["input"]["**"].items()}}
        return {"ok": {"$": op["call"], "f": f}}
    except Bad:
        return {"err": "parse"}


def refs_of(t, out=None):
    out = [] if out is None else out
    k = t["t"]
    if k == "ref":
        out.append(t)
    elif k in ("list", "dict", "opt", "whole", "final", "classvar", "annot"):
        refs_of(t["a"], out)
    elif k in ("tuple", "union", "xor", "and", "or"):
        for a in t["as"]:
            refs_of(a, out)
    return out


def all_direct_any(t):
    """every reference as a bare name, no whole-string annotation (any node kind)"""
    if t["t"] == "whole":
        return all_direct_any(t["a"])
    if t["t"] == "ref":
        return dict(t, q=False)
    t = dict(t)
    if "a" in t:
        t["a"] = all_direct_any(t["a"])
    if "as" in t:
        t["as"] = [all_direct_any(a) for a in t["as"]]
    return t


def direct_twin(case):
    import copy
    tw = copy.deepcopy(case)
    tw["future"] = False
    tw.pop("twin", None)
    for c in tw["classes"].values():
        c["fields"] = [[f, all_direct_any(t)] for f, t in c["fields"]]
    for g in tw["funcs"].values():
        for k in ("arg", "ret", "va", "kw"):
            if g.get(k):
                g[k] = all_direct_any(g[k])
    defs = [op for op in tw["prog"] if "def" in op or "fn" in op or "rule" in op]
    rest = [op for op in tw["prog"] if op not in defs]
    name = lambda op: op.get("def") or op.get("fn") or op.get("rule")  # noqa: E731
    ordered, todo = [], defs[:]
    while todo:
        done = {name(o) for o in ordered}
        nxt = next((o for o in todo if all(m in done or m == name(o) for m in mentions(tw, name(o)))), todo[0])
        ordered.append(nxt)
        todo.remove(nxt)
    tw["prog"] = ordered + rest
    return tw


def anns_of(case, name):
    if name in (case.get("rules") or {}):
        return []
    if name in case["classes"]:
        return [t for _, t in case["classes"][name]["fields"]]
    g = case["funcs"][name]
    return [t for t in (g["arg"], g.get("ret"), g.get("va"), g.get("kw")) if t]


def mentions(case, name):
    """class names a declaration mentions (own annotations, base)"""
    ms = [r["n"] for t in anns_of(case, name) for r in refs_of(t)]
    if name in case["classes"]:
        ms += bases_of(case["classes"][name])
    return ms


def reach_bases(case, name):
    """strict ancestors of a class"""
    out = []
    for b in bases_of(case["classes"][name]):
        for a in [b] + reach_bases(case, b):
            if a not in out:
                out.append(a)
    return out


def reach(case, name):
    seen, todo = [], [name]
    while todo:
        n = todo.pop()
        if n in seen:
            continue
        seen.append(n)
        todo += mentions(case, n)
    return seen


def walk(case):
    """yield (op index, op, names defined before the op)"""
    defined = []
    for i, op in enumerate(case["prog"]):
        yield i, op, list(defined)
        if "def" in op:
            defined.append(op["def"])
        elif "fn" in op:
            defined.append(op["fn"])
        elif "rule" in op:
            defined.append(op["rule"])


def uses(case):
    return [(i, op, d) for i, op, d in walk(case) if "use" in op or "call" in op]


def closed(case, op, defined):
    tgt = op.get("use") or op.get("call")
    return all(n in defined for n in reach(case, tgt))


def string_spelled_sibling(case, name):
    """does `name` reach a declaration that names another class through a string?"""
    for n in reach(case, name):
        for t in anns_of(case, n):
            whole = t["t"] == "whole" or case.get("future")
            for r in refs_of(t):
                if (whole or r.get("q")) and r["n"] != n:
                    return True
    return False


# ------------------------------------------------------------------------------------------------
# model line: names -> numbers, ForwardRef object identities from the real `typing`
# ------------------------------------------------------------------------------------------------

def is_top_string(case, t):
    """is the whole annotation one string for utype (field.py:1134)?"""
    return bool(case.get("future")) or t["t"] == "whole" or (t["t"] == "ref" and bool(t.get("q")))


def _typing_cells(case):
    """Which quoted leaves are the same ForwardRef object?  Ask `typing` itself: evaluate every
    annotation the way the class body does (bare names bound to dummy classes) in program order on
    cleared caches, and read the object identities off the generic aliases."""
    import typing
    for f in getattr(typing, "_cleanups", []):
        f()
    ns = {n: getattr(typing, n) for n in ("List", "Dict", "Optional", "Tuple", "Union")}
    for n in CLASS_NAMES + RULE_NAMES:
        ns[n] = type(n, (), {})
    keep, ids, cells = [], {}, {}
    fresh = [500]

    def src(t):
        # an operator union is a class for typing: stand-in name, its quoted members are fresh ForwardRefs
        if t["t"] == "union" and t.get("op"):
            fresh[0] += 1
            ns[f"_OP{fresh[0]}"] = type(f"_OP{fresh[0]}", (), {})
            return f"_OP{fresh[0]}"
        k = t["t"]
        if k in ("list", "dict", "opt"):
            inner = src(t["a"])
            return {"list": f"List[{inner}]", "dict": f"Dict[str, {inner}]", "opt": f"Optional[{inner}]"}[k]
        if k in ("tuple", "union"):
            return ("Tuple[" if k == "tuple" else "Union[") + ", ".join(src(a) for a in t["as"]) + "]"
        return ann_src(t)

    def assign(t, obj, path):
        k = t["t"]
        if k == "union" and t.get("op"):
            for i, m in enumerate(t["as"]):
                if m["t"] == "ref" and m.get("q"):
                    fresh[0] += 1
                    cells[path + (i,)] = fresh[0]
            return
        if k == "ref":
            if t.get("q"):
                assert isinstance(obj, typing.ForwardRef), (t, obj)
                keep.append(obj)
                cells[path] = ids.setdefault(id(obj), len(ids) + 1)
            return
        if k == "int":
            return
        args = typing.get_args(obj)
        if k == "list":
            assign(t["a"], args[0], path + (0,))
        elif k == "dict":
            assign(t["a"], args[1], path + (0,))
        elif k == "tuple":
            for i, a in enumerate(t["as"]):
                assign(a, args[i], path + (i,))
        elif k in ("opt", "union"):
            ms = flat_union(t)
            assert len(ms) == len(args), (t, obj)
            for i, m in enumerate(ms):
                if m["t"] != "none":
                    assign(m, args[i], path + (i,))

    for i, op, _ in walk(case):
        n = op.get("def") or op.get("fn")
        if not n:
            continue
        fields = case["classes"][n]["fields"] if n in case["classes"] else \
            [(k, t) for k, t, _ in func_slots(case["funcs"][n])]
        for f, t in fields:
            if is_top_string(case, t):
                continue
            text = src(t)
            obj = eval(text, dict(ns))  # noqa: typing objects only
            keep.append(obj)
            assign(t, obj, (i, f))
    return cells


def model_ann(t, cells, path):
    k = t["t"]
    if k == "int":
        return "int"
    if k == "none":
        return "none"
    if k == "ref":
        if t.get("q") and path in cells:
            return {"q": [cells[path], name_id(t["n"])]}
        return {"name": name_id(t["n"])}
    if k == "list":
        return {"list": model_ann(t["a"], cells, path + (0,))}
    if k == "dict":
        return {"dict": model_ann(t["a"], cells, path + (0,))}
    if k == "tuple":
        return {"tuple": [model_ann(a, cells, path + (i,)) for i, a in enumerate(t["as"])]}
    if k in ("opt", "union"):
        return {"union": [model_ann(m, cells, path + (i,)) for i, m in enumerate(flat_union(t))]}
    raise ValueError(k)


def model_val(v):
    if v is None or isinstance(v, (int, str)):
        return v
    if isinstance(v, list):
        return {"list": [model_val(x) for x in v]}
    if isinstance(v, dict):
        return {"dict": [[KEY_IDS[k], model_val(x)] for k, x in v.items()]}
    raise ValueError(v)


def modelled(case) -> bool:
    # the Lean model follows names: a program that binds a class name twice is checked by the oracle only;
    # so are typing special forms (Final / ClassVar / Annotated) and utype's ^ & combinators (`twin`)
    return not any(c.get("as") for c in case["classes"].values()) and not case.get("twin")


def model_line(case, cfg=None):
    cells = _typing_cells(case)
    ops = []
    top = [10000]
    for i, op, _ in walk(case):
        if "rule" in op:
            ops.append({"def": name_id(op["rule"]), "fields": [], "local": case.get("scope") == "function",
                        "bound": case.get("scope") != "function", "func": False, "bases": [],
                        "rule": con_id(case["rules"][op["rule"]])})
        elif "def" in op or "fn" in op:
            if "def" in op:
                name = op["def"]
                c = case["classes"][name]
                anns = c["fields"]
                local = bool(c.get("local")) or case.get("scope") == "function"
                func = False
            else:
                name = op["fn"]
                g = case["funcs"][name]
                anns = [(k, t) for k, t, _ in func_slots(g)]
                shape = {k: w for k, _, w in func_slots(g)}
                local = case.get("scope") == "function" or bool(g.get("local"))
                func = True
            fields = []
            for f, t in anns:
                con = (case.get("cons") or {}).get(name, {}).get(f)
                wrap = (lambda a: {"con": [con_id(con), a]}) if con else (lambda a: a)
                if func and shape.get(f):
                    wrap = (lambda a, w=shape[f]: {w: a})
                if is_top_string(case, t):
                    top[0] += 1
                    fa = {"str": top[0], "e": wrap(model_ann(strip(t), {}, ()))}
                else:
                    fa = {"plain": wrap(model_ann(t, cells, (i, f)))}
                fields.append([KEY_IDS[f], fa])
            bases = bases_of(case["classes"][name]) if not func else []
            ops.append({"def": name_id(name), "fields": fields, "local": local,
                        "bound": case.get("scope") != "function", "func": func,
                        "bases": [name_id(b) for b in bases]})
        elif "use" in op:
            ops.append({"use": name_id(op["use"]), "kvs": model_val(op["input"])["dict"]})
        else:
            given = {k: v for k, v in op["input"].items() if k not in ("*", "**") or v}
            ops.append({"use": name_id(op["call"]), "kvs": model_val(given)["dict"]})
    line = {"ops": ops, "fuel": FUEL}
    if cfg:
        line["cfg"] = cfg
    return line


def unmodel_val(v):
    if v is None or isinstance(v, (int, str)):
        return v
    if "list" in v:
        return ["L"] + [unmodel_val(x) for x in v["list"]]
    if "tup" in v:
        return ["T"] + [unmodel_val(x) for x in v["tup"]]
    if "dict" in v:
        return {"%": {KEY_NAMES[k]: unmodel_val(x) for k, x in v["dict"]}}
    if "inst" in v:
        k, fs = v["inst"]
        name = CLASS_NAMES[k] if k < 100 else FUNC_NAMES[k - 100]     # (constrained scalars yield plain ints)
        fn = (lambda i: KEY_NAMES[i]) if k < 100 else (lambda i: {0: "a", 1: "<return>", 2: "*", 3: "**"}[i])
        return {"$": name, "f": {fn(i): unmodel_val(x) for i, x in fs}}
    raise ValueError(v)


def unmodel_out(o):
    if isinstance(o, dict) and "ok" in o:
        return {"ok": unmodel_val(o["ok"])}
    return {"err": {"perr": "parse", "name": "name", "fuel": "fuel"}.get(o, str(o))}


def norm_impl(o):
    if "ok" in o:
        return {"ok": o["ok"]}
    return {"err": o["err"]}


# ------------------------------------------------------------------------------------------------
# generator
# ------------------------------------------------------------------------------------------------

def gen_leaf(rng, names, p_int=0.2):
    if rng.random() < p_int:
        return {"t": "int"}
    return {"t": "ref", "n": rng.choice(names), "q": True}


def gen_type(rng, names, depth=2):
    r = rng.random()
    if depth == 0 or r < 0.3:
        return gen_leaf(rng, names)
    if r < 0.45:
        return {"t": "list", "a": gen_type(rng, names, depth - 1)}
    if r < 0.58:
        return {"t": "dict", "a": gen_type(rng, names, depth - 1)}
    if r < 0.72:
        a = gen_type(rng, names, depth - 1)
        if a["t"] in ("opt", "union"):
            a = gen_leaf(rng, names, 0.1)
        return {"t": "opt", "a": a}
    if r < 0.84:
        return {"t": "tuple", "as": [gen_type(rng, names, depth - 1) for _ in range(rng.choice([1, 2, 2, 3]))]}
    # union of distinct references, then possibly int (scalars last: conversions to int are lenient)
    k = rng.choice([1, 2, 2])
    uniq = sorted(set(names))
    # members in name order: typing treats unions as sets when it memoises List[Union[..]], so two spellings
    # of one member set would share the first one's member order
    ms = [{"t": "ref", "n": n, "q": True} for n in sorted(rng.sample(uniq, min(k, len(uniq))))]
    if rng.random() < 0.6 or len(ms) < 2:
        ms.append({"t": "int"})
    t = {"t": "union", "as": ms}
    if rng.random() < 0.2:
        return {"t": "opt", "a": t}
    if rng.random() < 0.45:
        t["op"] = True
    return t


def respell(rng, t, allowed_direct, p_direct):
    """choose a spelling for every reference leaf"""
    k = t["t"]
    if k == "ref":
        q = not (t["n"] in allowed_direct and rng.random() < p_direct)
        return {"t": "ref", "n": t["n"], "q": q}
    if k in ("list", "dict", "opt"):
        return {"t": k, "a": respell(rng, t["a"], allowed_direct, p_direct)}
    if k == "union" and t.get("op"):
        # needs a Schema class as first operand, written as a bare name
        first = t["as"][0]
        if first["t"] == "ref" and first["n"] in allowed_direct and first["n"] in SCHEMA_OK[0]:
            rest = [respell(rng, a, allowed_direct, p_direct) for a in t["as"][1:]]
            return {"t": "union", "op": True, "as": [{"t": "ref", "n": first["n"], "q": False}] + rest}
        return {"t": "union", "as": [respell(rng, a, allowed_direct, p_direct) for a in t["as"]]}
    if k in ("tuple", "union"):
        return {"t": k, "as": [respell(rng, a, allowed_direct, p_direct) for a in t["as"]]}
    return t


SCHEMA_OK = [set()]


def all_direct(t):
    k = t["t"]
    if k == "ref":
        return {"t": "ref", "n": t["n"], "q": False}
    if k in ("list", "dict", "opt"):
        return {"t": k, "a": all_direct(t["a"])}
    if k in ("tuple", "union"):
        return {"t": k, "as": [all_direct(a) for a in t["as"]]}
    return t


SHALLOW_UNIONS = [False]


def gen_input(rng, case, t, depth, p_bad=0.08):
    k = t["t"]
    if k == "whole":
        return gen_input(rng, case, t["a"], depth, p_bad)
    if k == "int":
        return rng.choice([5, 5, "7", 12, "x"] if rng.random() < p_bad * 3 else [5, "7", 12, 3])
    if k == "ref" and t["n"] in (case.get("rules") or {}):
        # a constrained scalar: values at and around every bound in play
        v = rng.choice(BOUND_POOL)
        if rng.random() < p_bad:
            return "x"
        return str(v) if rng.random() < 0.25 else v
    if rng.random() < p_bad:
        # a scalar where a structure is expected (containers wrap a lone number leniently: only the string)
        return rng.choice([5, "x"]) if k == "ref" else "x"
    if k == "ref":
        fields = all_fields(case, t["n"])
        d = {}
        if depth > 0:
            for f, ft in fields:
                if rng.random() < 0.6:
                    x = gen_field_input(rng, case, t["n"], f, ft, depth - 1, p_bad)
                    if x is not OMIT:
                        d[f] = x
        if not d or rng.random() < 0.15:
            d["zz"] = 1
        return d
    if k == "list":
        return [gen_input(rng, case, t["a"], depth, p_bad) for _ in range(rng.choice([0, 1, 1, 2]))]
    if k == "dict":
        return {key: gen_input(rng, case, t["a"], depth, p_bad) for key in rng.sample(["k", "k2"], rng.choice([1, 1, 2]))}
    if k == "tuple":
        return [gen_input(rng, case, a, depth, p_bad) for a in t["as"]]
    if k in ("opt", "union"):
        ms = flat_union(t)
        m = rng.choice(ms)
        if m["t"] == "none":
            return None
        first_ref = next((x for x in ms if x["t"] == "ref"), None)
        if m["t"] == "ref" and m is not first_ref:
            # members are tried in order and the field conversions are lenient (a mapping is wrapped into a
            # list, ...): content meant for a later class could be swallowed by an earlier one
            return {"zz": 1}
        if sum(x["t"] != "none" for x in ms) > 1:
            p_bad = 0.0     # a failing first member hands content meant for it to the next one
            if SHALLOW_UNIONS[0] and m["t"] == "ref":
                # ... and where a member may fail because its class cannot be resolved (use before the
                # definition, function scope), nothing but an unknown key is given
                return {"zz": 1}
        return gen_input(rng, case, m, depth, p_bad)
    raise ValueError(k)


BOUND_POOL = [0, 1, 2, 3, 4, 5, 6, 8, 9, 10, 11, 49, 50, 51, 60]


OMIT = object()


def gen_field_input(rng, case, owner, fname, t, depth, p_bad):
    """input for a field.  Inside a union member (p_bad == 0) nothing may fail — a failing member hands
    its content to the next one, whose conversions are lenient — so there only accepted values are kept."""
    v = gen_field_input_(rng, case, owner, fname, t, depth, p_bad)
    if p_bad != 0.0:
        return v
    everything = list(case["classes"]) + list(case.get("rules") or {}) + list(case["funcs"])
    for _ in range(6):
        try:
            ref_field(case, everything, owner, fname, strip(t), v)
            return v
        except Bad:
            v = gen_field_input_(rng, case, owner, fname, t, depth, p_bad)
    return OMIT


def gen_field_input_(rng, case, owner, fname, t, depth, p_bad):
    """with a length constraint the container is filled to the bound -1/0/+1"""
    con = field_con(case, owner, fname)
    st = strip(t)
    if con and con[0] in ("max_length", "min_length") and st["t"] in ("list", "dict") and rng.random() < 0.9:
        n = max(0, con[1] + rng.choice([-1, 0, 0, 1]))
        if st["t"] == "list":
            return [gen_input(rng, case, st["a"], depth, 0.0) for _ in range(n)]
        return {key: gen_input(rng, case, st["a"], depth, 0.0) for key in ["k", "k2"][:n]}
    return gen_input(rng, case, t, depth, p_bad)


def gen_use(rng, case, tgt, risky=False):
    SHALLOW_UNIONS[0] = risky or case.get("scope") == "function"
    depth = rng.choice([1, 2, 2, 3])
    if tgt in case["classes"]:
        inp = None
        while not isinstance(inp, dict):
            inp = gen_input(rng, case, {"t": "ref", "n": tgt}, depth, 0.06)
        return {"use": tgt, "input": inp}
    g = case["funcs"][tgt]
    inp = {"a": gen_field_input(rng, case, tgt, "a", g["arg"], depth, 0.06)}
    inp["<return>"] = gen_input(rng, case, g["ret"], depth, 0.06) if g.get("ret") else 5
    if g.get("va"):
        inp["*"] = [gen_input(rng, case, g["va"], depth, 0.04) for _ in range(rng.choice([0, 1, 2]))]
    if g.get("kw"):
        inp["**"] = {k: gen_input(rng, case, g["kw"], depth, 0.04) for k in rng.sample(["k", "k2"], rng.choice([0, 1, 2]))}
    return {"call": tgt, "input": inp}


RULE_OWN = {"Q": [("gt", 0), ("ge", 1)], "R": [("le", 50), ("lt", 60)]}
RANGE_CONS = [("le", 3), ("le", 10), ("ge", 2), ("ge", 5), ("lt", 8), ("gt", 1), ("multiple_of", 3), ("multiple_of", 2)]


def sub_rules(rng, t, rules):
    """put a constrained scalar type where an int (often) or a class reference (sometimes) stood"""
    if not rules:
        return t
    k = t["t"]
    if k == "int":
        return {"t": "ref", "n": rng.choice(rules), "q": True} if rng.random() < 0.5 else t
    if k == "ref":
        return {"t": "ref", "n": rng.choice(rules), "q": True} if rng.random() < 0.12 else t
    if k in ("list", "dict", "opt"):
        return {"t": k, "a": sub_rules(rng, t["a"], rules)}
    if k == "tuple":
        return {"t": k, "as": [sub_rules(rng, a, rules) for a in t["as"]]}
    if k == "union":
        ms = []
        for a in t["as"]:
            a = sub_rules(rng, a, rules)
            if not any(x == a for x in ms):
                ms.append(a)
        ms.sort(key=lambda m: (m["t"] != "ref", m.get("n", "")))
        if len(ms) == 1:
            return ms[0]
        return dict(t, **{"as": ms})
    return t


def pick_con(rng, case, st):
    """a constraint that fits the annotation: ranges on constrained scalars (also through Optional/Union),
    lengths on containers"""
    rules = case.get("rules") or {}
    k = st["t"]
    scalar = lambda m: m["t"] == "int" or (m["t"] == "ref" and m["n"] in rules)  # noqa: E731
    if k == "ref" and st["n"] in rules and rng.random() < 0.65:
        return list(rng.choice(RANGE_CONS))
    if k in ("opt", "union") and not st.get("op"):
        ms = [m for m in flat_union(st) if m["t"] != "none"]
        if ms and all(scalar(m) for m in ms) and any(m["t"] == "ref" for m in ms) and rng.random() < 0.5:
            return list(rng.choice(RANGE_CONS))
    if k == "list" and rng.random() < 0.3:
        return list(rng.choice([("max_length", 1), ("max_length", 2), ("min_length", 1)]))
    if k == "dict" and rng.random() < 0.3:
        return list(rng.choice([("max_length", 1), ("min_length", 1)]))
    return None


def gen_case(rng, tier="quick"):
    ncls = rng.choice([2, 2, 3, 3, 4, 4, 5])
    names = CLASS_NAMES[:ncls]
    order = names[:]
    rng.shuffle(order)
    future = rng.random() < 0.15
    scope = "function" if rng.random() < 0.06 else "module"
    classes = {}
    for n in names:
        nf = rng.choice([1, 2, 2, 3, 4])
        fields = []
        for i in range(nf):
            if rng.random() < 0.12:
                t = {"t": "int"}
            elif rng.random() < 0.35 and fields and fields[-1][1]["t"] != "int":
                # the same name again in another annotation: the multi-use paths
                prev = [r["n"] for r in refs_of(fields[-1][1])]
                t = gen_type(rng, prev or names, 2)
            else:
                t = gen_type(rng, names, 2)
            fields.append([f"f{i}", t])
        classes[n] = {"fields": fields, "kind": "dataclass" if rng.random() < 0.3 else "schema",
                      "local": scope == "module" and rng.random() < 0.15}
    # inheritance: chains of any depth, several bases, diamonds; field names unique in the family; some
    # classes add nothing that needs a reference (their own registry stays empty)
    if ncls >= 3 and rng.random() < 0.3:
        kind = rng.choice(["schema", "schema", "dataclass"])
        anc = {n: set() for n in names}
        dummy = {}
        for pos, n in enumerate(order):
            classes[n]["kind"] = kind
            earlier = order[:pos]
            r = rng.random()
            bases = []
            if earlier and r < 0.6:
                bases = [earlier[-1] if rng.random() < 0.7 else rng.choice(earlier)]
            elif len(earlier) >= 2 and r < 0.85:
                cand = [(x, y) for x in earlier for y in earlier if x != y and x not in anc[y] and y not in anc[x]]
                bases = list(rng.choice(cand)) if cand else []
            try:        # Python must find a method resolution order for the family
                dummy[n] = type(n, tuple(dummy[x] for x in bases), {})
            except TypeError:
                bases = bases[:1]
                dummy[n] = type(n, tuple(dummy[x] for x in bases), {})
            classes[n]["bases"] = bases
            for b in bases:
                anc[n] |= {b} | anc[b]
        off = 0
        for n in order:
            fs = classes[n]["fields"]
            if classes[n]["bases"] and rng.random() < 0.45:
                fs = [[f, {"t": "int"}] for f, _ in fs][:2]
            classes[n]["fields"] = [[f"f{off + i}", t] for i, (_, t) in enumerate(fs)]
            off += len(fs)
    # constrained scalar types (`class Q(int, Rule): gt = 0`) take the place of some leaves; they are declared
    # somewhere among the classes, so a reference to them can be a forward reference as well
    rules = {}
    if rng.random() < 0.4:
        for q in RULE_NAMES[:rng.choice([1, 1, 2])]:
            rules[q] = list(rng.choice(RULE_OWN[q]))
        for n in order:
            classes[n]["fields"] = [[f, sub_rules(rng, t, list(rules))] for f, t in classes[n]["fields"]]
    order_all = order[:]
    for q in rules:
        order_all.insert(rng.randint(0, len(order_all)), q)
    # spellings
    p_direct = rng.choice([0.0, 0.3, 0.5, 0.8])
    SCHEMA_OK[0] = set() if future else {n for n in names if classes[n]["kind"] == "schema"}
    for n in order:
        earlier = order_all[:order_all.index(n)]
        fs = []
        for f, t in classes[n]["fields"]:
            if rng.random() < 0.2 and t["t"] != "int":
                fs.append([f, {"t": "whole", "a": all_direct(t)}])
            else:
                fs.append([f, respell(rng, t, order_all if future else earlier, p_direct)])
        classes[n]["fields"] = fs
    case = {"classes": classes, "funcs": {}, "future": future, "scope": scope, "rules": rules, "cons": {}}
    prog = [({"rule": n} if n in rules else {"def": n}) for n in order_all]
    # a parsed function somewhere in the program
    if rng.random() < 0.3:
        pos = rng.randint(0, len(prog))
        earlier = [op.get("def") or op.get("rule") for op in prog[:pos]]
        targ = sub_rules(rng, gen_type(rng, names, 2), list(rules))
        tret = gen_type(rng, [r["n"] for r in refs_of(targ) if r["n"] in names] or names, 1) if rng.random() < 0.6 else None

        def sp(t):
            if t is None:
                return None
            if rng.random() < 0.25 and t["t"] != "int":
                return {"t": "whole", "a": all_direct(t)}
            return respell(rng, t, order_all if future else earlier, p_direct)
        case["funcs"]["g0"] = {"arg": sp(targ), "ret": sp(tret),
                               "va": sp(gen_type(rng, names, 1)) if rng.random() < 0.4 else None,
                               "kw": sp(gen_type(rng, names, 1)) if rng.random() < 0.4 else None,
                               "local": scope == "module" and rng.random() < 0.35}
        prog.insert(pos, {"fn": "g0"})
    case["prog"] = prog
    # Field(...)/Param(...) constraints on annotations that (may) go through a forward reference
    owners = [(n, classes[n]["fields"]) for n in order] + [(g, [["a", case["funcs"][g]["arg"]]]) for g in case["funcs"]]
    for owner, fields in owners:
        for f, t in fields:
            con = pick_con(rng, case, strip(t))
            if con:
                case["cons"].setdefault(owner, {})[f] = con
    # uses: mostly after everything is defined, in a random first-use order
    targets = names + list(case["funcs"])
    rng.shuffle(targets)
    nuse = rng.choice([2, 3, 4, 5]) if tier == "quick" else rng.choice([3, 4, 6, 8])
    use_ops = []
    for j in range(nuse):
        tgt = targets[j] if j < len(targets) else rng.choice(targets)
        use_ops.append(gen_use(rng, case, tgt))
    case["prog"] = prog + use_ops
    # sometimes a use in the middle of the definitions (possibly before a referenced class exists)
    if rng.random() < 0.3:
        pos = rng.randint(1, len(prog))
        before = [x for x in (op.get("def") or op.get("fn") for op in prog[:pos]) if x]
        if before:
            case["prog"].insert(pos, gen_use(rng, case, rng.choice(before), risky=True))
    return case


def shapes(maxk=2):
    """systematic part: every combination of up to `maxk` annotations out of 9 spellings of A -> B,
    both definition orders, every mode"""
    R = lambda q=True: {"t": "ref", "n": "B", "q": q}  # noqa: E731
    mk = {
        "ref": lambda q: R(q), "list": lambda q: {"t": "list", "a": R(q)}, "dict": lambda q: {"t": "dict", "a": R(q)},
        "opt": lambda q: {"t": "opt", "a": R(q)}, "tuple": lambda q: {"t": "tuple", "as": [R(q), R(q)]},
        "union": lambda q: {"t": "union", "as": [R(q), {"t": "int"}]},
        "listopt": lambda q: {"t": "list", "a": {"t": "opt", "a": R(q)}},
        "optlist": lambda q: {"t": "opt", "a": {"t": "list", "a": R(q)}},
        "whole": lambda q: {"t": "whole", "a": {"t": "list", "a": R(False)}},
    }
    out = []
    rng = random.Random(17)
    SHALLOW_UNIONS[0] = False
    keys = list(mk)
    for mode in ({}, {"future": True}, {"scope": "function"}, {"local": True}, {"kind": "dataclass"}):
        for order in (["A", "B"], ["B", "A"]):
            combos = [[k] for k in keys] + [[a, b] for a in keys for b in keys if a != b]
            if maxk >= 3 and mode in ({}, {"local": True}):
                combos += [[a, b, c] for a in keys for b in keys for c in keys if len({a, b, c}) == 3]
            for combo in combos:
                direct_ok = order[0] == "B" or mode.get("future")
                for q in ([True, False] if direct_ok else [True]):
                    fields = [[f"f{i}", mk[k](q)] for i, k in enumerate(combo)]
                    case = {"classes": {"A": {"fields": fields, "kind": mode.get("kind", "schema"), "local": bool(mode.get("local"))},
                                        "B": {"fields": [["x", {"t": "int"}]], "kind": mode.get("kind", "schema"), "local": False}},
                            "funcs": {}, "future": bool(mode.get("future")), "scope": mode.get("scope", "module")}
                    case["prog"] = [{"def": n} for n in order]
                    for f, t in reversed(fields):
                        case["prog"].append({"use": "A", "input": {f: gen_input(rng, case, t, 1, 0.0)}})
                    out.append(case)
    return out


def abort_shapes():
    """histories with a use that cannot be resolved yet: A names B through a generic that another class E
    writes identically (typing memoises it: one ForwardRef object) and a class C that is declared late;
    A / E module-level or made in a factory; use A (fails) - use E - declare C - use A, and permutations"""
    out = []
    SHALLOW_UNIONS[0] = False
    R = lambda n, q=True: {"t": "ref", "n": n, "q": q}  # noqa: E731
    gens = {"list": lambda: {"t": "list", "a": R("B")}, "dict": lambda: {"t": "dict", "a": R("B")},
            "opt": lambda: {"t": "opt", "a": R("B")}, "tuple": lambda: {"t": "tuple", "as": [R("B"), {"t": "int"}]},
            "listopt": lambda: {"t": "list", "a": {"t": "opt", "a": R("B")}}}
    inp = {"list": [{"x": 5}], "dict": {"k": {"x": 5}}, "opt": {"x": 5}, "tuple": [{"x": 5}, 3], "listopt": [None, {"x": 5}]}
    for gk, g in gens.items():
        for la in (True, False):
            for le in (True, False):
                for late in (R("C"), {"t": "whole", "a": {"t": "list", "a": R("C", False)}}):
                    for kind in ("schema", "dataclass"):
                        classes = {"A": {"fields": [["f0", g()], ["f1", late]], "kind": kind, "local": la},
                                   "E": {"fields": [["f2", g()]], "kind": kind, "local": le},
                                   "B": {"fields": [["x", {"t": "int"}]], "kind": kind, "local": False},
                                   "C": {"fields": [["x", {"t": "int"}]], "kind": kind, "local": False}}
                        uA = {"use": "A", "input": {"f0": inp[gk]}}
                        uE = {"use": "E", "input": {"f2": inp[gk]}}
                        for prog in ([uA, uE, {"def": "C"}, uA, uA], [uE, uA, {"def": "C"}, uA], [uA, {"def": "C"}, uE, uA],
                                     [uA, uA, uE, {"def": "C"}, uE, uA]):
                            out.append({"classes": classes, "funcs": {}, "future": False, "scope": "module",
                                        "prog": [{"def": "A"}, {"def": "E"}, {"def": "B"}] + prog})
    return out


def rebind_shapes():
    """a class name bound twice (oracle only, the model follows names): A is declared while B is the first
    class, E after B has been bound to a second class; both write the same generic over 'B', so typing
    hands E the ForwardRef object that was evaluated for A"""
    out = []
    SHALLOW_UNIONS[0] = False
    B1 = lambda q=True: {"t": "ref", "n": "B", "q": q}  # noqa: E731
    B2 = lambda q=True: {"t": "ref", "n": "B2", "src": "B", "q": q}  # noqa: E731
    gens = {"ref": lambda r: r(), "list": lambda r: {"t": "list", "a": r()}, "dict": lambda r: {"t": "dict", "a": r()},
            "opt": lambda r: {"t": "opt", "a": r()}, "whole": lambda r: {"t": "whole", "a": {"t": "list", "a": r(False)}},
            "dlist": lambda r: {"t": "list", "a": r(False)}}
    val = {"x": 1, "y": 2}
    inp = {"ref": val, "list": [val], "dict": {"k": val}, "opt": val, "whole": [val], "dlist": [val]}
    for ga in gens:
        for ge in gens:
            for kind in ("schema", "dataclass"):
                for la in (False, True):
                    classes = {"B": {"fields": [["x", {"t": "int"}]], "kind": kind, "local": False},
                               "B2": {"fields": [["y", {"t": "int"}]], "kind": kind, "local": False, "as": "B"},
                               "A": {"fields": [["f0", gens[ga](B1)]], "kind": kind, "local": la},
                               "E": {"fields": [["f1", gens[ge](B2)]], "kind": kind, "local": False}}
                    uA = {"use": "A", "input": {"f0": inp[ga]}}
                    uE = {"use": "E", "input": {"f1": inp[ge]}}
                    for uses_ in ([uA, uE], [uE, uA]):
                        out.append({"classes": classes, "funcs": {}, "future": False, "scope": "module",
                                    "prog": [{"def": "B"}, {"def": "A"}, {"def": "B2"}, {"def": "E"}] + uses_})
    return out


def deferred_special(case) -> bool:
    """postponed evaluation + a Final/ClassVar/Annotated annotation that names something declared later"""
    if not case.get("future"):
        return False
    pos = {}
    for i, op, _ in walk(case):
        n = op.get("def") or op.get("fn") or op.get("rule")
        if n:
            pos[n] = i
    for n, c in case["classes"].items():
        for _, t in c["fields"]:
            if strip(t)["t"] in ("final", "classvar", "annot") and any(pos.get(r["n"], -1) > pos.get(n, -1) for r in refs_of(t)):
                return True
    return False


def special_shapes():
    """typing special forms around a (forward) reference, written under postponed evaluation and with a
    quoted inner name; constrained scalar type Q declared before / after; oracle = the direct twin"""
    out = []
    Q = lambda q=True: {"t": "ref", "n": "Q", "q": q}  # noqa: E731
    I = {"t": "int"}
    forms = {
        "final_int": {"t": "final", "a": I}, "final_q": {"t": "final", "a": Q()},
        "classvar_int": {"t": "classvar", "a": I}, "classvar_q": {"t": "classvar", "a": Q()},
        "annot_int": {"t": "annot", "a": I, "c": ["ge", 1]}, "annot_q": {"t": "annot", "a": Q(), "c": ["le", 10]},
        "annot_list": {"t": "annot", "a": {"t": "list", "a": Q()}, "c": ["max_length", 1]},
        "final_list": {"t": "final", "a": {"t": "list", "a": Q()}},
    }
    for fk, t in forms.items():
        for future in (True, False):
            for order in (["Q", "A"], ["A", "Q"]):
                for kind in ("schema", "dataclass"):
                    case = {"classes": {"A": {"fields": [["f0", t], ["f1", I]], "kind": kind, "local": False}},
                            "funcs": {}, "future": future, "scope": "module", "rules": {"Q": ["gt", 0]}, "cons": {}, "twin": True}
                    case["prog"] = [({"rule": "Q"} if n == "Q" else {"def": "A"}) for n in order]
                    lst = strip(t)["a"]["t"] == "list"
                    for v in ([[5], [5, 6], [0]] if lst else [1, 11, 0, "7"]):
                        case["prog"].append({"use": "A", "input": {"f0": v, "f1": 3}})
                    case["prog"].append({"use": "A", "input": {"f1": 3}})
                    case["prog"].append({"use": "A", "input": {"f0": [5] if lst else 5}, "set": ["f0", [7] if lst else 7]})
                    out.append(case)
    return out


def comb_shapes():
    """utype's combinators with a generic member that holds a forward reference (`NegativeInt ^ List['B']`):
    the member is built without a registry; B declared before / after; oracle = the direct twin"""
    out = []
    B = lambda q=True: {"t": "ref", "n": "B", "q": q}  # noqa: E731
    N = {"t": "negint"}
    gens = {"list": {"t": "list", "a": B()}, "dict": {"t": "dict", "a": B()}, "tuple": {"t": "tuple", "as": [B(), {"t": "int"}]},
            "listopt": {"t": "list", "a": {"t": "opt", "a": B()}}}
    vals = {"list": [[{"x": "1"}], []], "dict": [{"k": {"x": "1"}}], "tuple": [[{"x": 1}, "3"]], "listopt": [[None, {"x": 2}]]}
    for gk, g in gens.items():
        for op_ in ("xor", "or", "and"):
            for members in ([N, g], [g, N]):
                for order in (["A", "B"], ["B", "A"]):
                    for kind, local in (("schema", False), ("schema", True), ("dataclass", False)):
                        t = {"t": op_, "as": members}
                        case = {"classes": {"A": {"fields": [["f0", t], ["f1", g]], "kind": kind, "local": local},
                                            "B": {"fields": [["x", {"t": "int"}]], "kind": kind, "local": False}},
                                "funcs": {}, "future": False, "scope": "module", "rules": {}, "cons": {}, "twin": True}
                        case["prog"] = [{"def": n} for n in order]
                        for v in vals[gk] + [-1, 5, "zz"]:
                            case["prog"].append({"use": "A", "input": {"f0": v}})
                        case["prog"].append({"use": "A", "input": {"f1": vals[gk][0]}})
                        out.append(case)
    return out


def con_shapes():
    """systematic constraint part: one annotation of A naming the constrained scalar type Q in 7 spellings x a
    Field/Param constraint that fits x Q declared before / after A x 5 modes (+ as a function parameter), used
    with inputs just inside and just outside the bound (and the bound of Q itself)"""
    out = []
    SHALLOW_UNIONS[0] = False
    Q = lambda q=True: {"t": "ref", "n": "Q", "q": q}  # noqa: E731
    spell = {
        "ref": lambda q: Q(q), "whole": lambda q: {"t": "whole", "a": Q(False)},
        "opt": lambda q: {"t": "opt", "a": Q(q)},
        "list": lambda q: {"t": "list", "a": Q(q)}, "wlist": lambda q: {"t": "whole", "a": {"t": "list", "a": Q(False)}},
        "dict": lambda q: {"t": "dict", "a": Q(q)}, "listopt": lambda q: {"t": "list", "a": {"t": "opt", "a": Q(q)}},
    }
    ranges = [("le", 3), ("ge", 2), ("lt", 8), ("gt", 1), ("multiple_of", 3)]
    lengths = [("max_length", 1), ("min_length", 1), ("max_length", 2)]

    def inputs(t, con):
        st = strip(t)
        kind, b = con
        if kind in ("le", "gt", "multiple_of"):
            vals = [b, b + 1, 0]
        elif kind in ("ge", "lt"):
            vals = [b - 1, b, 0]
        else:
            ns = [b, b + 1] if kind == "max_length" else [b - 1, b]
            if st["t"] == "dict":
                return [{key: 5 for key in ["k", "k2", "zz"][:n]} for n in ns]
            return [[5] * n for n in ns] + [[0] * ns[0]]
        return vals + ([None] if st["t"] == "opt" else [])

    for mode in ({}, {"future": True}, {"kind": "dataclass"}, {"local": True}, {"scope": "function"}, {"func": True}):
        for order in (["A", "Q"], ["Q", "A"]):
            for sk, mk in spell.items():
                direct_ok = order[0] == "Q" or mode.get("future")
                for q in ([True, False] if direct_ok and sk not in ("whole", "wlist") else [True]):
                    t = mk(q)
                    cons = ranges if strip(t)["t"] in ("ref", "opt") else lengths
                    if strip(t)["t"] == "dict":
                        cons = lengths[:2]
                    for con in cons:
                        case = {"classes": {}, "funcs": {}, "future": bool(mode.get("future")),
                                "scope": mode.get("scope", "module"), "rules": {"Q": ["gt", 0]}, "cons": {}}
                        if mode.get("func"):
                            case["funcs"]["g0"] = {"arg": t, "ret": None}
                            case["cons"]["g0"] = {"a": list(con)}
                            case["prog"] = [({"rule": "Q"} if n == "Q" else {"fn": "g0"}) for n in order]
                            for v in inputs(t, con):
                                case["prog"].append({"call": "g0", "input": {"a": v, "<return>": 5}})
                        else:
                            case["classes"]["A"] = {"fields": [["f0", t]], "kind": mode.get("kind", "schema"),
                                                    "local": bool(mode.get("local"))}
                            case["cons"]["A"] = {"f0": list(con)}
                            case["prog"] = [({"rule": "Q"} if n == "Q" else {"def": "A"}) for n in order]
                            for v in inputs(t, con):
                                case["prog"].append({"use": "A", "input": {"f0": v}})
                        out.append(case)
    return out


def chain_shapes():
    """systematic inheritance part: chains of 2-4 classes (and a diamond) above a class E that is defined
    last; one class of the family declares the references to E, the others add plain fields only; every
    first-use order of the family (all permutations up to 3 classes, rotations and the reverse for 4)"""
    import itertools
    out = []
    rng = random.Random(23)
    SHALLOW_UNIONS[0] = False
    E = lambda: {"t": "ref", "n": "E", "q": True}  # noqa: E731
    carrier_fields = lambda: [{"t": "list", "a": E()}, E(), {"t": "opt", "a": E()}]  # noqa: E731

    def build(fam_bases, carrier, mode, use_order):
        classes, off = {}, 0
        for n, bases in fam_bases:
            ts = carrier_fields() if n == carrier else [{"t": "int"}]
            classes[n] = {"fields": [[f"f{off + i}", t] for i, t in enumerate(ts)], "bases": bases,
                          "kind": mode.get("kind", "schema"), "local": bool(mode.get("local"))}
            off += len(ts)
        classes["E"] = {"fields": [["x", {"t": "int"}]], "kind": mode.get("kind", "schema"), "local": False}
        case = {"classes": classes, "funcs": {}, "future": bool(mode.get("future")), "scope": "module"}
        case["prog"] = [{"def": n} for n, _ in fam_bases] + [{"def": "E"}]
        for n in use_order:
            inp = {f: gen_input(rng, case, t, 1, 0.0) for f, t in all_fields(case, n)}
            case["prog"].append({"use": n, "input": inp})
        return case

    for mode in ({}, {"kind": "dataclass"}, {"local": True}, {"future": True}):
        for depth in (2, 3, 4):
            fam = CLASS_NAMES[:depth]
            fam_bases = [(n, [fam[i - 1]] if i else []) for i, n in enumerate(fam)]
            if depth <= 3:
                orders = list(itertools.permutations(fam))
            else:
                orders = [fam[i:] + fam[:i] for i in range(depth)] + [fam[::-1], [fam[-1]]]
            for carrier in fam:
                for uo in orders:
                    out.append(build(fam_bases, carrier, mode, list(uo)))
        # diamond D(B, C), B(A), C(A) and the two-root join C(A, B)
        for carrier in ("A", "B"):
            for db in (["B", "C"], ["C", "B"]):
                for uo in (["D"], ["D", "B", "C", "A"], ["C", "D"], ["B", "D", "A"]):
                    out.append(build([("A", []), ("B", ["A"]), ("C", ["A"]), ("D", db)], carrier, mode, uo))
            for uo in (["C"], ["C", "A", "B"], ["B", "C"]):
                out.append(build([("A", []), ("B", []), ("C", ["A", "B"])], carrier, mode, uo))
    return out


# ------------------------------------------------------------------------------------------------

class C17(Check):
    prop = "C17"
    props_modules = ["Utv.Props.C17"]
    driver = "C17"
    impl = "harness.c17:impl"
    case_timeout = 20.0
    rule = ("programs of 2-4 mutually referencing data classes (+ parsed functions) x spelling of every reference "
            "(bare name, quoted leaf inside List/Dict/Optional/Union/Tuple, whole-string annotation, future annotations, "
            "function-local classes, inheritance chains of any depth with several bases) x definition order x first-use order "
            "x Field/Param constraints (le/ge/lt/gt, max/min_length) on annotations that go through a forward reference to "
            "a constrained scalar type, inputs at and beyond the bounds x type-directed inputs; plus every first-use order of 2-4 level chains / diamonds; plus every one- and "
            "two-annotation combination of 9 spellings of A->B in 5 modes and both orders.  non-trivial = a use whose "
            "class reaches a reference that was unresolved when its declaration was created (lazy path); distinct by "
            "(program, use index)")
    assumptions = [
        "ForwardRef object identity (which quoted leaves typing memoises into one object) is read off the real typing module per case; typing._eval_type is abstracted to 'every mentioned name is visible'",
        "inputs stay in the fragment where the leaf conversions are unambiguous (ints, digit strings, non-empty mappings, lists); the theorem holds for every leaf converter",
    ]
    budget = {"quick": 4000, "thorough": 80000}
    search_budget = {"quick": 3000, "thorough": 20000}

    def cases(self, tier, rng, n):
        out = []
        if tier != "search":
            out += shapes(3 if tier == "thorough" else 2)
            out += chain_shapes()
            out += con_shapes()
            out += abort_shapes()
            out += rebind_shapes()
            out += special_shapes()
            out += comb_shapes()
        out += [gen_case(rng, "thorough" if tier == "thorough" else "quick") for _ in range(n)]
        return out

    def evaluate(self, cases):
        impl_outs, model_outs = super().evaluate(cases)
        # nothing in these programs can hang: a worker that did not answer in time was starved on a loaded
        # machine - ask again, alone and with a generous limit, before believing it
        from .common import run_impl
        late = [i for i, o in enumerate(impl_outs) if isinstance(o, dict) and (o.get("hang") or o.get("crash"))]
        if late:
            again = run_impl(self.impl, [cases[i] for i in late], 300.0, jobs=1, extra_env=self.impl_env)
            for i, o in zip(late, again):
                impl_outs[i] = o
        return impl_outs, model_outs

    def model_line(self, case):
        if not modelled(case):
            return {"ops": [], "fuel": 1, "unmodelled": "a class name is bound twice / special forms and combinators"}
        import os
        if os.environ.get("C17_LEGACY"):      # development aid: the pre-fix switches, against an unpatched tree
            return model_line(case, {"uniqueKeys": False, "resolveUnion": False, "inheritRefs": False, "abortKeeps": False})
        return model_line(case)

    def compare(self, case, io, mo):
        if not modelled(case):
            return None
        if not isinstance(mo, dict) or "model" not in mo:
            return f"driver: {mo}"
        if "outs" not in io:
            return f"impl: {io}"
        if io.get("setup"):
            return f"program could not be set up: {io['setup']}"
        got = [norm_impl(o) for o in io["outs"]]
        want = [unmodel_out(o) for o in mo["model"]]
        if got != want:
            i = next((k for k, (a, b) in enumerate(zip(got, want)) if a != b), min(len(got), len(want)))
            return f"use #{i}: impl={got[i] if i < len(got) else None} model={want[i] if i < len(want) else None}"
        return None

    _last = (None, None)

    def spec(self, case, io, mo):
        self._last = (case, mo)     # `classify` is called right after `spec` for the same case
        if "outs" not in io:
            return f"adapter returned no outcomes: {io}"
        if io.get("setup"):
            # every generated program is valid when its references are written directly
            return (f"the declarations could not be created ({io['setup']}) although the same declarations "
                    f"written with direct references are valid")
        if case.get("twin"):
            if io.get("twin_setup"):
                return f"HARNESS: the directly written twin does not run: {io['twin_setup']}"
            got, want = [norm_impl(o) for o in io["outs"]], [norm_impl(o) for o in io.get("twin", [])]
            for j, (g, w) in enumerate(zip(got, want)):
                if g != w:
                    return (f"use #{j} returned {json.dumps(g, sort_keys=True)} but the same program with direct "
                            f"references (no postponed evaluation) gives {json.dumps(w, sort_keys=True)}")
            return None if len(got) == len(want) else f"HARNESS: {len(got)} outcomes, twin {len(want)}"
        us = uses(case)
        if len(us) != len(io["outs"]):
            return f"HARNESS: {len(us)} uses but {len(io['outs'])} outcomes"
        lean_spec = mo.get("spec") if isinstance(mo, dict) and modelled(case) else None
        for j, ((i, op, defined), got) in enumerate(zip(us, io["outs"])):
            if not closed(case, op, defined):
                continue     # a class it can reach does not exist yet: the property makes no demand
            want = ref_use(case, defined, op)
            if lean_spec is not None and unmodel_out(lean_spec[j]) != want:
                return f"HARNESS: python spec {want} != lean spec {unmodel_out(lean_spec[j])} at use #{j}"
            if norm_impl(got) != want:
                tgt = op.get("use") or op.get("call")
                return (f"use #{j} ({tgt}) returned {json.dumps(got, sort_keys=True)} but the same declarations written "
                        f"with direct references give {json.dumps(want, sort_keys=True)}")
        return None

    def classify(self, case, io, why):
        if why.startswith("HARNESS") or "outs" not in io or io.get("setup"):
            return None
        if case.get("twin"):
            return "postponed-special-form-deferred" if deferred_special(case) else None
        # function-local sibling named through a string: never visible to the parser's namespace
        if case.get("scope") == "function":
            # ... and only while the code still does what the model of that mechanism predicts
            if self._last[0] is case and self.compare(case, io, self._last[1]) is not None:
                return None
            us = uses(case)
            bad = [(op, got) for (i, op, d), got in zip(us, io["outs"])
                   if closed(case, op, d) and norm_impl(got) != ref_use(case, d, op)]
            # (NameError at the entry point; below it the error is wrapped, a union may then fall through
            # to its next member, so the deviation can also be another value)
            if bad and all(string_spelled_sibling(case, op.get("use") or op.get("call")) for op, got in bad):
                return "local-sibling-ref"
        return None

    def key(self, case, io):
        # non-trivial: some use goes through the lazy path (a string reference to a class defined later)
        pos = {}
        for i, op, _ in walk(case):
            n = op.get("def") or op.get("fn")
            if n:
                pos[n] = i
        lazy = set()
        for n in pos:
            for t in anns_of(case, n):
                for r in refs_of(t):
                    if pos.get(r["n"], -1) > pos[n] or case.get("scope") == "function" and r["n"] != n:
                        lazy.add(n)
        for i, op, d in uses(case):
            tgt = op.get("use") or op.get("call")
            if closed(case, op, d) and any(n in lazy for n in reach(case, tgt)):
                return json.dumps(case, sort_keys=True)
        return None

    def distribution(self, case, io):
        sp = set()
        for c in case["classes"].values():
            for _, t in c["fields"]:
                if t["t"] == "whole":
                    sp.add("whole")
                for r in refs_of(t):
                    sp.add("quoted" if r.get("q") else "direct")
        mode = ("future" if case.get("future") else "") + ("/fnscope" if case.get("scope") == "function" else "") + \
               ("/local" if any(c.get("local") for c in case["classes"].values()) else "") + \
               ("/inh%d" % max(len(reach_bases(case, n)) for n in case["classes"]) if any(bases_of(c) for c in case["classes"].values()) else "") + ("/func" if case["funcs"] else "")
        outs = io.get("outs", []) if isinstance(io, dict) else []
        kinds = sorted({("ok" if "ok" in o else o.get("err", "?")) for o in outs})
        return f"{mode or 'plain'}|{'+'.join(sorted(sp))}|{'+'.join(kinds)}"

    def neighbours(self, case, rng):
        out = []
        # the other first-use orders, each use alone, annotations postponed
        defs = [op for op in case["prog"] if "def" in op or "fn" in op]
        us = [op for op in case["prog"] if "use" in op or "call" in op]
        for _ in range(3):
            u2 = us[:]
            rng.shuffle(u2)
            out.append(dict(case, prog=defs + u2))
        for u in us:
            out.append(dict(case, prog=defs + [u]))
        out.append(dict(case, future=not case.get("future")))
        return [c for c in out if self._valid(c)]

    @staticmethod
    def _valid(case):
        # bare names must exist when the class body runs (unless annotations are postponed)
        if case.get("future"):
            return True
        for i, op, defined in walk(case):
            n = op.get("def") or op.get("fn")
            if not n:
                continue
            for t in anns_of(case, n):
                if t["t"] == "whole":
                    continue
                if any(not r.get("q") and r["n"] not in defined for r in refs_of(t)):
                    return False
        return True

    def finish_evidence(self, ev, tier):
        ev["coverage"]["exhaustive"] = False
        ev["coverage"]["exhaustive_part"] = (
            "every combination of <= %d annotations out of 9 spellings (bare/quoted leaf, List, Dict, Optional, Tuple, "
            "Union, List[Optional], Optional[List], whole string) of a reference A->B x {module, future, function scope, "
            "factory-local, dataclass} x both definition orders" % (3 if tier == "thorough" else 2))
        ev["coverage"]["exhaustive_part"] += ("; inheritance chains of 2-4 classes + diamond + two-root join x which class "
                                              "declares the references x every first-use order (rotations for 4) x 4 modes")

    def reproduce(self, case):
        return (f"cat > /tmp/c17_repro.py <<'EOF'\nimport sys; sys.path.insert(0, {str(REPO)!r}); sys.path.insert(0, '.')\n"
                f"from harness.c17 import impl, program_src\nimport json\ncase = json.loads({json.dumps(json.dumps(case, sort_keys=True))})\n"
                f"print(program_src(case)); print(impl(case))\nEOF\n/venv/bin/python /tmp/c17_repro.py")


CHECK = C17()
