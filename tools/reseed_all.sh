#!/bin/bash
# re-run every kept seeded change (seeded/<id>/patch.diff) against the check of its property on the current /repo HEAD
for d in seeded/*/; do
  id=$(basename $d); p=$(python3 -c "import json;print(json.load(open('$d/meta.json'))['property'])")
  extra=$(python3 -c "
import json;d=json.load(open('$d/meta.json'));print(' '.join('--check '+c for c in (d.get('results') or {}) if c!=d['property']))")
  tools/seedrun.py $p $d $id $extra 2>&1 | grep -E "SEED|->"
done
