import Utv.Lemmas.C05Dict
import Utv.Model.C05Spec
/-! Well-formed parsers: what `Parser.wf` gives, uniqueness of the accepting field, and the
characterisation of `get_field` (base.py:138-152) by the documented notion of accepted keys. -/
namespace Utv.C05
open Spec

variable {V : Type}

/-- laws of `str.lower` / `str.islower` the parser relies on -/
structure LowerLaws (W : World V) : Prop where
  idem : ∀ k, W.lower (W.lower k) = W.lower k
  isl : ∀ k, W.islower k = true → W.lower k = k

theorem pairwiseB_iff {α : Type} (r : α → α → Bool) (l : List α) :
    pairwiseB r l = true ↔ l.Pairwise (fun a b => r a b = true) := by
  induction l with
  | nil => simp [pairwiseB]
  | cons x xs ih => simp [pairwiseB, ih, List.all_eq_true]

theorem nodupB_iff (l : List Key) : nodupB l = true ↔ l.Nodup := by
  unfold nodupB List.Nodup
  rw [pairwiseB_iff]
  constructor <;> intro h <;> exact h.imp (by intro a b; simp)

theorem disjoint_iff (a b : List Key) : disjoint a b = true ↔ ∀ x, x ∈ a → x ∉ b := by
  simp [disjoint, List.all_eq_true]

structure WF (W : World V) (P : Parser V) : Prop where
  names_nodup : (P.fields.map (·.2.name)).Nodup
  attnames_nodup : (P.fields.map (·.2.attname)).Nodup
  keys_nodup : (P.fields.map (·.1)).Nodup
  key_eq : ∀ kf ∈ P.fields, kf.1 = fieldKey W kf.2
  disj : P.fields.Pairwise (fun a b => ∀ x, x ∈ a.2.allAliases → x ∉ b.2.allAliases)
  head : ∀ kf ∈ P.fields, kf.2.allAliases.head? = some kf.1
  all_sub : ∀ kf ∈ P.fields, ∀ a ∈ kf.2.allAliases, a = kf.1 ∨ a ∈ kf.2.aliases
  als_sub : ∀ kf ∈ P.fields, ∀ a ∈ kf.2.aliases, a ∈ kf.2.allAliases
  als_keys : ∀ kf ∈ P.fields, ∀ a ∈ kf.2.aliases, a ∉ P.fields.map (·.1)
  att_acc : ∀ kf ∈ P.fields, (if kf.2.ci then W.lower kf.2.attname else kf.2.attname) ∈ kf.2.allAliases
  ci_lower : ∀ kf ∈ P.fields, kf.2.ci = true → ∀ a ∈ kf.2.allAliases, W.lower a = a
  nonci : ∀ kf ∈ P.fields, kf.2.ci = false → ∀ a ∈ kf.2.allAliases, W.lower a ∉ P.ciNames
  deps_names : ∀ kf ∈ P.fields, ∀ d ∈ kf.2.deps, d ∈ P.fields.map (·.2.name)
  amap : P.aliasMap = aliasMapOf P.fields
  cin : P.ciNames = ciNamesOf P.fields

theorem WF.of_wf {W : World V} {P : Parser V} (h : P.wf W = true) : WF W P := by
  simp only [Parser.wf, Bool.and_eq_true, nodupB_iff, List.all_eq_true, pairwiseB_iff, disjoint_iff,
    beq_iff_eq, Bool.or_eq_true, List.contains_iff_mem, Bool.not_eq_true', decide_eq_true_eq] at h
  obtain ⟨⟨⟨⟨⟨⟨⟨⟨⟨⟨⟨⟨⟨⟨⟨h1, h2⟩, h3⟩, h4⟩, h5⟩, h6⟩, h7⟩, h8⟩, h9⟩, h10⟩, h11⟩, h12⟩, h13⟩, _⟩, h15⟩, h16⟩ := h
  refine ⟨h1, h2, h3, h4, h5, h6, h7, h8, ?_, h10, ?_, ?_, h13, h15, h16⟩
  · intro kf hk a ha
    have := h9 kf hk a ha
    simpa using this
  · intro kf hk hci a ha
    rcases h11 kf hk with h | h
    · simp [hci] at h
    · exact h a ha
  · intro kf hk hci a ha
    rcases h12 kf hk with h | h
    · simp [hci] at h
    · have := h a ha
      simpa using this

/-! ### the field that accepts a key is unique -/

theorem mem_ciNamesOf {fields : List (Key × PField V)} {a : Key} :
    a ∈ ciNamesOf fields ↔ ∃ kf ∈ fields, kf.2.ci = true ∧ a ∈ kf.2.allAliases := by
  unfold ciNamesOf
  simp only [List.mem_flatMap]
  constructor
  · rintro ⟨kf, hk, ha⟩
    by_cases hc : kf.2.ci = true
    · exact ⟨kf, hk, hc, by simpa [hc] using ha⟩
    · simp [hc] at ha
  · rintro ⟨kf, hk, hc, ha⟩
    exact ⟨kf, hk, by simpa [hc] using ha⟩

theorem accepts_iff (W : World V) (f : PField V) (k : Key) :
    accepts W f k = true ↔ normKey W f k ∈ f.allAliases := by
  simp [accepts, List.contains_iff_mem]

/-- pairwise-disjoint alias lists: two members sharing an alias are the same entry -/
theorem WF.same_of_shared {W : World V} {P : Parser V} (wf : WF W P) {kf kg : Key × PField V}
    (hf : kf ∈ P.fields) (hg : kg ∈ P.fields) {x : Key} (hxf : x ∈ kf.2.allAliases) (hxg : x ∈ kg.2.allAliases) :
    kf = kg := by
  have hd := wf.disj
  generalize P.fields = l at hf hg hd
  induction l with
  | nil => simp at hf
  | cons y ys ih =>
    rw [List.pairwise_cons] at hd
    rcases List.mem_cons.mp hf with h1 | h1 <;> rcases List.mem_cons.mp hg with h2 | h2
    · rw [h1, h2]
    · subst h1; exact absurd hxg (hd.1 kg h2 x hxf)
    · subst h2; exact absurd hxf (hd.1 kf h1 x hxg)
    · exact ih h1 h2 hd.2

theorem WF.accepts_unique {W : World V} (LL : LowerLaws W) {P : Parser V} (wf : WF W P)
    {kf kg : Key × PField V} (hf : kf ∈ P.fields) (hg : kg ∈ P.fields) {k : Key}
    (af : accepts W kf.2 k = true) (ag : accepts W kg.2 k = true) : kf = kg := by
  rw [accepts_iff] at af ag
  unfold normKey at af ag
  cases hcf : kf.2.ci <;> cases hcg : kg.2.ci <;> simp only [hcf, hcg, if_true, if_false, Bool.false_eq_true] at af ag
  · exact wf.same_of_shared hf hg af ag
  · exfalso
    have := wf.nonci kf hf hcf k af
    apply this; rw [wf.cin, mem_ciNamesOf]; exact ⟨kg, hg, hcg, ag⟩
  · exfalso
    have := wf.nonci kg hg hcg k ag
    apply this; rw [wf.cin, mem_ciNamesOf]; exact ⟨kf, hf, hcf, af⟩
  · exact wf.same_of_shared hf hg af ag

/-- an alias of a field is accepted by it as is -/
theorem WF.accepts_alias {W : World V} {P : Parser V} (wf : WF W P) {kf : Key × PField V} (hf : kf ∈ P.fields)
    {a : Key} (ha : a ∈ kf.2.allAliases) : accepts W kf.2 a = true ∧ normKey W kf.2 a = a := by
  rw [accepts_iff]; unfold normKey
  cases hc : kf.2.ci
  · simp [ha]
  · simp only [if_true]; rw [wf.ci_lower kf hf hc a ha]; exact ⟨ha, rfl⟩

theorem WF.key_mem {W : World V} {P : Parser V} (wf : WF W P) {kf : Key × PField V} (hf : kf ∈ P.fields) :
    kf.1 ∈ kf.2.allAliases := by
  have := wf.head kf hf
  cases h : kf.2.allAliases with
  | nil => simp [h] at this
  | cons a as => simp [h] at this; simp [this]

/-- the output name is an accepted key -/
theorem WF.accepts_name {W : World V} (LL : LowerLaws W) {P : Parser V} (wf : WF W P) {kf : Key × PField V}
    (hf : kf ∈ P.fields) : accepts W kf.2 kf.2.name = true := by
  rw [accepts_iff]; unfold normKey
  have hk := wf.key_mem hf
  rw [wf.key_eq kf hf] at hk
  unfold fieldKey at hk
  cases hc : kf.2.ci <;> simpa [hc] using hk

theorem WF.accepts_attname {W : World V} (LL : LowerLaws W) {P : Parser V} (wf : WF W P) {kf : Key × PField V}
    (hf : kf ∈ P.fields) : accepts W kf.2 kf.2.attname = true := by
  rw [accepts_iff]; unfold normKey
  have := wf.att_acc kf hf
  cases hc : kf.2.ci <;> simpa [hc] using this

/-! ### `get_field` -/

theorem dget_fields_of_mem {W : World V} {P : Parser V} (wf : WF W P) {kf : Key × PField V} (hf : kf ∈ P.fields) :
    dget kf.1 P.fields = some kf.2 :=
  dget_of_mem wf.keys_nodup (by simpa using hf)

theorem mem_aliasMapOf {fields : List (Key × PField V)} {a key : Key} :
    (a, key) ∈ aliasMapOf fields ↔ ∃ kf ∈ fields, kf.1 = key ∧ a ∈ kf.2.aliases ∧ a ≠ key := by
  unfold aliasMapOf
  simp only [List.mem_flatMap, List.mem_map, List.mem_filter, Prod.mk.injEq]
  constructor
  · rintro ⟨kf, hk, a', ⟨ha, hne⟩, rfl, rfl⟩
    exact ⟨kf, hk, rfl, ha, by simpa using hne⟩
  · rintro ⟨kf, hk, rfl, ha, hne⟩
    exact ⟨kf, hk, a, ⟨ha, by simpa using hne⟩, rfl, rfl⟩

/-- the direct lookup finds exactly the field that lists the key among its aliases -/
theorem getFieldDirect_of_alias {W : World V} {P : Parser V} (wf : WF W P) {kf : Key × PField V}
    (hf : kf ∈ P.fields) {a : Key} (ha : a ∈ kf.2.allAliases) : getFieldDirect P a = some kf.2 := by
  unfold getFieldDirect
  rcases wf.all_sub kf hf a ha with h | h
  · rw [h, dget_fields_of_mem wf hf]
  · have hnk : a ∉ P.fields.map (·.1) := wf.als_keys kf hf a h
    rw [(dget_eq_none_iff a P.fields).2 hnk]
    simp only
    have hne : a ≠ kf.1 := by
      intro e; apply hnk; rw [e]; exact List.mem_map_of_mem (f := (·.1)) hf
    have hm : (a, kf.1) ∈ P.aliasMap := by
      rw [wf.amap, mem_aliasMapOf]; exact ⟨kf, hf, rfl, h, hne⟩
    cases hd : dget a P.aliasMap with
    | none =>
      rw [dget_eq_none_iff] at hd
      exact absurd (List.mem_map_of_mem (f := (·.1)) hm) hd
    | some key =>
      simp only
      have hm2 := dget_mem hd
      rw [wf.amap, mem_aliasMapOf] at hm2
      obtain ⟨kg, hg, hkey, hag, _⟩ := hm2
      have : kf = kg := wf.same_of_shared hf hg ha (wf.als_sub kg hg a hag)
      subst this
      rw [← hkey, dget_fields_of_mem wf hf]

theorem getFieldDirect_some {W : World V} {P : Parser V} (wf : WF W P) {k : Key} {f : PField V}
    (h : getFieldDirect P k = some f) : ∃ kf ∈ P.fields, kf.2 = f ∧ k ∈ kf.2.allAliases := by
  unfold getFieldDirect at h
  cases h1 : dget k P.fields with
  | some g =>
    simp only [h1, Option.some.injEq] at h
    subst h
    have hm := dget_mem h1
    exact ⟨(k, g), hm, rfl, wf.key_mem hm⟩
  | none =>
    simp only [h1] at h
    cases h2 : dget k P.aliasMap with
    | none => simp [h2] at h
    | some key =>
      simp only [h2] at h
      have hm2 := dget_mem h2
      rw [wf.amap, mem_aliasMapOf] at hm2
      obtain ⟨kg, hg, hkey, hag, _⟩ := hm2
      rw [← hkey, dget_fields_of_mem wf hg] at h
      simp only [Option.some.injEq] at h
      exact ⟨kg, hg, h, wf.als_sub kg hg k hag⟩

theorem getFieldDirect_none {W : World V} {P : Parser V} (wf : WF W P) {k : Key}
    (h : getFieldDirect P k = none) : ∀ kf ∈ P.fields, k ∉ kf.2.allAliases := by
  intro kf hf hk
  rw [getFieldDirect_of_alias wf hf hk] at h
  cases h

/-- **`get_field` finds the field that accepts the key, and none when no field does.** -/
theorem getField_some_iff {W : World V} (LL : LowerLaws W) {P : Parser V} (wf : WF W P) (k : Key) (f : PField V) :
    getField W P k = some f ↔ ∃ kf ∈ P.fields, kf.2 = f ∧ accepts W kf.2 k = true := by
  unfold getField
  constructor
  · intro h
    cases h1 : getFieldDirect P k with
    | some g =>
      simp only [h1, Option.some.injEq] at h
      subst h
      obtain ⟨kf, hf, he, hk⟩ := getFieldDirect_some wf h1
      exact ⟨kf, hf, he, (wf.accepts_alias hf hk).1⟩
    | none =>
      simp only [h1] at h
      split at h
      · obtain ⟨kf, hf, he, hk⟩ := getFieldDirect_some wf h
        refine ⟨kf, hf, he, ?_⟩
        rename_i hc
        simp only [Bool.and_eq_true, List.contains_iff_mem] at hc
        have hci : W.lower k ∈ ciNamesOf P.fields := by rw [← wf.cin]; exact hc.2
        rw [mem_ciNamesOf] at hci
        obtain ⟨kg, hg, hcg, hag⟩ := hci
        have : kf = kg := wf.same_of_shared hf hg hk hag
        subst this
        rw [accepts_iff]; unfold normKey; simp [hcg, hk]
      · cases h
  · rintro ⟨kf, hf, rfl, hacc⟩
    cases h1 : getFieldDirect P k with
    | some g =>
      simp only
      obtain ⟨kg, hg, he, hk⟩ := getFieldDirect_some wf h1
      have := wf.accepts_unique LL hf hg hacc (wf.accepts_alias hg hk).1
      subst this; rw [he]
    | none =>
      simp only
      have hnot := getFieldDirect_none wf h1
      rw [accepts_iff] at hacc
      unfold normKey at hacc
      cases hc : kf.2.ci
      · simp [hc] at hacc; exact absurd hacc (hnot kf hf)
      · simp only [hc, if_true] at hacc
        have hci : W.lower k ∈ P.ciNames := by
          rw [wf.cin, mem_ciNamesOf]; exact ⟨kf, hf, hc, hacc⟩
        have hnl : W.islower k = false := by
          cases hl : W.islower k
          · rfl
          · exfalso; have := LL.isl k hl; rw [this] at hacc; exact hnot kf hf hacc
        simp only [hnl, Bool.not_false, Bool.true_and, List.contains_iff_mem, hci, if_true]
        exact getFieldDirect_of_alias wf hf hacc

theorem getField_none_iff {W : World V} (LL : LowerLaws W) {P : Parser V} (wf : WF W P) (k : Key) :
    getField W P k = none ↔ ∀ kf ∈ P.fields, accepts W kf.2 k = false := by
  constructor
  · intro h kf hf
    cases ha : accepts W kf.2 k
    · rfl
    · have := (getField_some_iff LL wf k kf.2).2 ⟨kf, hf, rfl, ha⟩
      rw [h] at this; cases this
  · intro h
    cases hg : getField W P k with
    | none => rfl
    | some f =>
      obtain ⟨kf, hf, _, ha⟩ := (getField_some_iff LL wf k f).1 hg
      rw [h kf hf] at ha; cases ha

end Utv.C05
