import Utv.Lemmas.C10Top
/-!
C10: the reports of an (uncapped) collecting run name exactly the items that fail on their own.
Pure list reasoning about the closed form `reports` of Lemmas/C10Top.
-/
namespace Utv.C10

/-! ### small list facts -/

theorem find?_filter_self (p : α → Bool) (l : List α) : (l.filter p).find? p = l.find? p := by
  induction l with
  | nil => rfl
  | cons a l ih =>
    by_cases h : p a = true
    · simp [List.filter, h]
    · simp only [Bool.not_eq_true] at h
      simp [List.filter, h, ih]

theorem any_filter_self (p : α → Bool) (l : List α) : (l.filter p).any p = l.any p := by
  induction l with
  | nil => rfl
  | cons a l ih =>
    by_cases h : p a = true
    · simp [List.filter, h]
    · simp only [Bool.not_eq_true] at h
      simp [List.filter, h, ih]

theorem lookup_dataOf (data : Data) (i : String) : (dataOf data i).lookup i = data.lookup i := by
  unfold dataOf
  induction data with
  | nil => rfl
  | cons kv rest ih =>
    obtain ⟨k, v⟩ := kv
    by_cases h : k = i
    · subst h
      simp [List.filter, List.lookup]
    · have h1 : (k == i) = false := by simpa using h
      have h2 : (i == k) = false := by simpa using fun hh : i = k => h hh.symm
      simp [List.filter, List.lookup, h1, h2, ih]

theorem hasKey_assocSet (k n : String) (v : Val) (d : Data) :
    hasKey k (assocSet n v d) = (n == k || hasKey k d) := by
  induction d with
  | nil => simp [assocSet, hasKey]
  | cons p rest ih =>
    obtain ⟨k', v'⟩ := p
    simp only [assocSet]
    by_cases h : k' = n
    · subst h
      simp [hasKey]
    · have h1 : (k' == n) = false := by simpa using h
      simp only [h1, Bool.false_eq_true, if_false]
      have : hasKey k ((k', v') :: assocSet n v rest) = (k' == k || hasKey k (assocSet n v rest)) := by
        simp [hasKey]
      rw [this, ih]
      have : hasKey k ((k', v') :: rest) = (k' == k || hasKey k rest) := by simp [hasKey]
      rw [this]
      cases (k' == k) <;> cases (n == k) <;> simp

theorem hasKey_mem (k : String) (d : Data) : hasKey k d = true ↔ ∃ v, (k, v) ∈ d := by
  unfold hasKey
  simp only [List.any_eq_true, beq_iff_eq]
  constructor
  · rintro ⟨⟨k', v⟩, hm, rfl⟩; exact ⟨v, hm⟩
  · rintro ⟨v, hm⟩; exact ⟨(k, v), hm, rfl⟩

theorem find?_of_nodup (decl : List FieldDecl) (hn : (decl.map (·.name)).Nodup) (f : FieldDecl) (hf : f ∈ decl) :
    decl.find? (fun g => g.name == f.name) = some f := by
  induction decl with
  | nil => cases hf
  | cons g gs ih =>
    simp only [List.map_cons, List.nodup_cons] at hn
    rcases List.mem_cons.mp hf with rfl | hf'
    · simp
    · have hne : g.name ≠ f.name := by
        intro hh
        apply hn.1
        rw [hh]
        exact List.mem_map_of_mem hf'
      have : (g.name == f.name) = false := by simpa using hne
      simp only [List.find?_cons, this]
      exact ih hn.2 hf'

/-! ### what each iteration reports -/

def Step.err? : Step α → Option Err
  | .keep _ => none
  | .report e _ => some e
  | .abort e _ => some e

theorem trace_filterMap {step : α → ι → Step α} (g : ι → Option Err) (hna : NoAbort step)
    (hg : ∀ a i, (step a i).err? = g i) (items : List ι) (a : α) :
    (trace step items a).1 = items.filterMap g := by
  induction items generalizing a with
  | nil => rfl
  | cons i is ih =>
    simp only [trace, List.filterMap_cons]
    have := hg a i
    cases hs : step a i with
    | keep a' => rw [hs] at this; simp only [Step.err?] at this; rw [← this]; exact ih a'
    | report e a' => rw [hs] at this; simp only [Step.err?] at this; rw [← this]; simp [ih a']
    | abort e x => exact absurd hs (hna a i e x)

def repField (rec : P) (m : Mode) (o : Opts) (f : FieldDecl) (v : Val) : Option Err :=
  (fieldValue rec m o f v).err?

/-- `parse_value` produced a value that is stored under the field's name -/
def stores (rec : P) (m : Mode) (o : Opts) (f : FieldDecl) (v : Val) : Bool :=
  match fieldValue rec m o f v with
  | .keep (some _) => true
  | .report _ (some _) => true
  | _ => false

theorem repField_item {rec : P} {m : Mode} {o : Opts} {f : FieldDecl} {v : Val} {e : Err}
    (h : repField rec m o f v = some e) : e.item = some f.name := by
  unfold repField fieldValue at h
  cases hty : f.ty with
  | none => simp [hty, Step.err?] at h
  | some T =>
    simp only [hty] at h
    cases hv : verdict rec T m o v with
    | some r => simp [hv, Step.err?] at h
    | none =>
      simp only [hv] at h
      cases hp : f.onError.getD o.invalidValues with
      | exclude =>
        simp only [hp] at h
        by_cases hr : f.required = true
        · simp only [hr, if_true, Step.err?, Option.some.injEq] at h; rw [← h]
        · simp [hr, Step.err?] at h
      | preserve => simp [hp, Step.err?] at h
      | throw => simp only [hp, Step.err?, Option.some.injEq] at h; rw [← h]

/-- a required field whose value is not stored has been reported -/
theorem repField_of_required {rec : P} {m : Mode} {o : Opts} {f : FieldDecl} {v : Val}
    (hr : f.required = true) (hs : stores rec m o f v = false) : ∃ e, repField rec m o f v = some e := by
  unfold stores at hs
  unfold repField
  unfold fieldValue at hs ⊢
  cases hty : f.ty with
  | none => simp [hty] at hs
  | some T =>
    simp only [hty] at hs ⊢
    cases hv : verdict rec T m o v with
    | some r => simp [hv] at hs
    | none =>
      simp only [hv] at hs ⊢
      cases hp : f.onError.getD o.invalidValues with
      | exclude => simp only [hr, if_true]; exact ⟨_, rfl⟩
      | preserve => simp [hp] at hs
      | throw => exact ⟨_, rfl⟩

theorem store_err? (name : String) (res : Data) (s : Step (Option Val)) : (store name res s).err? = s.err? := by
  cases s with
  | keep r => cases r <;> rfl
  | report e r => cases r <;> rfl
  | abort e x => rfl

def addRep (o : Opts) (k : String) : Option Err :=
  if o.addition = some false then some { kind := .exceed, item := some k } else none

theorem additionStep_err? (o : Opts) (acc : Data × Data) (kv : String × Val) :
    (additionStep o acc kv).err? = addRep o kv.1 := by
  unfold additionStep addRep
  cases h : o.addition with
  | none => rfl
  | some b => cases b <;> rfl

theorem addRep_item {o : Opts} {k : String} {e : Err} (h : addRep o k = some e) : e.item = some k := by
  unfold addRep at h
  split at h
  · simp only [Option.some.injEq] at h; rw [← h]
  · simp at h

/-- what the first loop of `data_first_parse` reports for one input entry -/
def g1 (rec : P) (m : Mode) (o : Opts) (decl : List FieldDecl) (kv : String × Val) : Option Err :=
  match decl.find? (fun f => f.name == kv.1) with
  | none => addRep o kv.1
  | some f => repField rec m o f kv.2

theorem dfStep1_err? (rec : P) (m : Mode) (o : Opts) (decl : List FieldDecl) (acc : Data × Data) (kv : String × Val) :
    (dfStep1 rec m o decl acc kv).err? = g1 rec m o decl kv := by
  unfold dfStep1 g1
  cases hfind : decl.find? (fun f => f.name == kv.1) with
  | none => exact additionStep_err? o acc kv
  | some f =>
    simp only
    have := store_err? f.name acc.1 (fieldValue rec m o f kv.2)
    unfold repField
    rw [← this]
    cases store f.name acc.1 (fieldValue rec m o f kv.2) <;> rfl

theorem g1_item {rec : P} {m : Mode} {o : Opts} {decl : List FieldDecl} {kv : String × Val} {e : Err}
    (h : g1 rec m o decl kv = some e) : e.item = some kv.1 := by
  unfold g1 at h
  split at h
  · exact addRep_item h
  · rename_i f hf
    have := List.find?_some hf
    simp only [beq_iff_eq] at this
    rw [← this]
    exact repField_item h

theorem g1_declOf (rec : P) (m : Mode) (o : Opts) (decl : List FieldDecl) (k : String) (v : Val) :
    g1 rec m o (declOf decl k) (k, v) = g1 rec m o decl (k, v) := by
  unfold g1 declOf
  simp only
  rw [find?_filter_self (fun f => f.name == k) decl]

/-- what the field loop of `field_first_parse` reports for one field -/
def h1 (rec : P) (m : Mode) (o : Opts) (data : Data) (f : FieldDecl) : Option Err :=
  match data.lookup f.name with
  | none => if f.required then some { kind := .absence, item := some f.name } else none
  | some v => repField rec m o f v

theorem ffStep1_err? (rec : P) (m : Mode) (o : Opts) (data : Data) (acc : Data) (f : FieldDecl) :
    (ffStep1 rec m o data acc f).err? = h1 rec m o data f := by
  unfold ffStep1 h1
  cases hl : data.lookup f.name with
  | none =>
    simp only
    by_cases hr : f.required = true
    · simp only [hr, if_true]; rfl
    · simp only [hr, Bool.false_eq_true, if_false]
      cases f.default <;> rfl
  | some v => exact store_err? _ _ _

theorem h1_item {rec : P} {m : Mode} {o : Opts} {data : Data} {f : FieldDecl} {e : Err}
    (h : h1 rec m o data f = some e) : e.item = some f.name := by
  unfold h1 at h
  split at h
  · split at h
    · simp only [Option.some.injEq] at h; rw [← h]
    · simp at h
  · exact repField_item h

/-- what the addition loop of `field_first_parse` reports for one input entry -/
def h2 (o : Opts) (decl : List FieldDecl) (kv : String × Val) : Option Err :=
  if decl.any (fun f => f.name == kv.1) then none else addRep o kv.1

theorem ffStep2_err? (o : Opts) (decl : List FieldDecl) (acc : Data × Data) (kv : String × Val) :
    (ffStep2 o decl acc kv).err? = h2 o decl kv := by
  unfold ffStep2 h2
  split
  · rfl
  · exact additionStep_err? o acc kv

theorem h2_item {o : Opts} {decl : List FieldDecl} {kv : String × Val} {e : Err}
    (h : h2 o decl kv = some e) : e.item = some kv.1 := by
  unfold h2 at h
  split at h
  · simp at h
  · exact addRep_item h

theorem reportsFF_eq (rec : P) (m : Mode) (o : Opts) (decl : List FieldDecl) (data : Data) :
    reportsFF rec m o decl data = decl.filterMap (h1 rec m o data) ++ data.filterMap (h2 o decl) := by
  unfold reportsFF
  rw [trace_filterMap (h1 rec m o data) (ffStep1_noAbort rec m o data) (ffStep1_err? rec m o data)]
  by_cases ha : o.addition.isSome = true
  · simp only [ha, if_true]
    rw [trace_filterMap (h2 o decl) (ffStep2_noAbort o decl) (ffStep2_err? o decl)]
  · simp only [ha, Bool.false_eq_true, if_false]
    have : data.filterMap (h2 o decl) = [] := by
      rw [List.filterMap_eq_nil_iff]
      intro kv _
      unfold h2 addRep
      have : o.addition = none := by
        cases hh : o.addition with
        | none => rfl
        | some b => rw [hh] at ha; simp at ha
      simp [this]
    rw [this]

/-! ### field-first: reports and items -/

theorem ff_sound (rec : P) (m : Mode) (o : Opts) (decl : List FieldDecl) (data : Data) (e : Err)
    (he : e ∈ reportsFF rec m o decl data) :
    ∃ i, e.item = some i ∧ isItem decl data i = true ∧ reportsFF rec m o (declOf decl i) (dataOf data i) ≠ [] := by
  rw [reportsFF_eq] at he
  rcases List.mem_append.mp he with he | he
  · obtain ⟨f, hf, hfe⟩ := List.mem_filterMap.mp he
    refine ⟨f.name, h1_item hfe, ?_, ?_⟩
    · simp only [isItem, Bool.or_eq_true, List.any_eq_true, beq_iff_eq]
      left; exact ⟨f, hf, rfl⟩
    · rw [reportsFF_eq]
      intro hnil
      have hmem : e ∈ (declOf decl f.name).filterMap (h1 rec m o (dataOf data f.name)) := by
        apply List.mem_filterMap.mpr
        refine ⟨f, ?_, ?_⟩
        · simp [declOf, hf]
        · unfold h1 at hfe ⊢
          rw [lookup_dataOf]
          exact hfe
      rw [List.append_eq_nil_iff] at hnil
      rw [hnil.1] at hmem
      cases hmem
  · obtain ⟨kv, hkv, hke⟩ := List.mem_filterMap.mp he
    obtain ⟨k, v⟩ := kv
    refine ⟨k, h2_item hke, ?_, ?_⟩
    · simp only [isItem, Bool.or_eq_true]
      right; exact (hasKey_mem k data).mpr ⟨v, hkv⟩
    · rw [reportsFF_eq]
      intro hnil
      have hmem : e ∈ (dataOf data k).filterMap (h2 o (declOf decl k)) := by
        apply List.mem_filterMap.mpr
        refine ⟨(k, v), ?_, ?_⟩
        · simp [dataOf, hkv]
        · unfold h2 at hke ⊢
          simp only at hke ⊢
          unfold declOf
          rw [any_filter_self (fun f => f.name == k) decl]
          exact hke
      rw [List.append_eq_nil_iff] at hnil
      rw [hnil.2] at hmem
      cases hmem

theorem ff_complete (rec : P) (m : Mode) (o : Opts) (decl : List FieldDecl) (data : Data) (i : String)
    (hne : reportsFF rec m o (declOf decl i) (dataOf data i) ≠ []) :
    ∃ e ∈ reportsFF rec m o decl data, e.item = some i := by
  rw [reportsFF_eq] at hne
  rw [reportsFF_eq]
  obtain ⟨e', he'⟩ := List.exists_mem_of_ne_nil _ hne
  rcases List.mem_append.mp he' with he' | he'
  · obtain ⟨f, hf, hfe⟩ := List.mem_filterMap.mp he'
    simp only [declOf, List.mem_filter, beq_iff_eq] at hf
    obtain ⟨hfd, hfn⟩ := hf
    refine ⟨e', List.mem_append.mpr (Or.inl (List.mem_filterMap.mpr ⟨f, hfd, ?_⟩)), ?_⟩
    · unfold h1 at hfe ⊢
      rw [hfn, lookup_dataOf] at hfe
      rw [hfn]
      exact hfe
    · rw [← hfn]; exact h1_item hfe
  · obtain ⟨kv, hkv, hke⟩ := List.mem_filterMap.mp he'
    obtain ⟨k, v⟩ := kv
    simp only [dataOf, List.mem_filter, beq_iff_eq] at hkv
    obtain ⟨hkd, hki⟩ := hkv
    subst hki
    refine ⟨e', List.mem_append.mpr (Or.inr (List.mem_filterMap.mpr ⟨(k, v), hkd, ?_⟩)), h2_item hke⟩
    unfold h2 at hke ⊢
    simp only at hke ⊢
    unfold declOf at hke
    rw [any_filter_self (fun f => f.name == k) decl] at hke
    exact hke

/-! ### data-first: the second loop depends on what the first one stored -/

theorem dfStep2_sound (decl : List FieldDecl) (acc : Data) (e : Err) (he : e ∈ (trace dfStep2 decl acc).1) :
    ∃ f ∈ decl, e = { kind := .absence, item := some f.name } ∧ f.required = true ∧ hasKey f.name acc = false := by
  induction decl generalizing acc with
  | nil => simp [trace] at he
  | cons g gs ih =>
    simp only [trace, dfStep2] at he
    by_cases hk : hasKey g.name acc = true
    · simp only [hk, if_true] at he
      obtain ⟨f, hf, h⟩ := ih acc he
      exact ⟨f, List.mem_cons_of_mem _ hf, h⟩
    · simp only [hk, Bool.false_eq_true, if_false] at he
      by_cases hr : g.required = true
      · simp only [hr, if_true, List.mem_cons] at he
        rcases he with rfl | he
        · exact ⟨g, List.mem_cons_self, rfl, hr, by simpa using hk⟩
        · obtain ⟨f, hf, h⟩ := ih acc he
          exact ⟨f, List.mem_cons_of_mem _ hf, h⟩
      · simp only [hr, Bool.false_eq_true, if_false] at he
        cases hd : g.default with
        | none =>
          simp only [hd] at he
          obtain ⟨f, hf, h⟩ := ih acc he
          exact ⟨f, List.mem_cons_of_mem _ hf, h⟩
        | some d =>
          simp only [hd] at he
          obtain ⟨f, hf, h1, h2, h3⟩ := ih _ he
          refine ⟨f, List.mem_cons_of_mem _ hf, h1, h2, ?_⟩
          rw [hasKey_assocSet] at h3
          simp only [Bool.or_eq_false_iff] at h3
          exact h3.2

theorem dfStep2_complete (decl : List FieldDecl) (hn : (decl.map (·.name)).Nodup) (acc : Data) (f : FieldDecl)
    (hf : f ∈ decl) (hr : f.required = true) (hk : hasKey f.name acc = false) :
    ({ kind := .absence, item := some f.name } : Err) ∈ (trace dfStep2 decl acc).1 := by
  induction decl generalizing acc with
  | nil => cases hf
  | cons g gs ih =>
    simp only [List.map_cons, List.nodup_cons] at hn
    rcases List.mem_cons.mp hf with rfl | hf'
    · simp [trace, dfStep2, hk, hr]
    · have hne : g.name ≠ f.name := by
        intro hh
        apply hn.1
        rw [hh]
        exact List.mem_map_of_mem hf'
      simp only [trace, dfStep2]
      by_cases hkg : hasKey g.name acc = true
      · simp only [hkg, if_true]
        exact ih hn.2 acc hf' hk
      · simp only [hkg, Bool.false_eq_true, if_false]
        by_cases hrg : g.required = true
        · simp only [hrg, if_true]
          exact List.mem_cons_of_mem _ (ih hn.2 acc hf' hk)
        · simp only [hrg, Bool.false_eq_true, if_false]
          cases hd : g.default with
          | none => simp only; exact ih hn.2 acc hf' hk
          | some d =>
            simp only
            apply ih hn.2 _ hf'
            rw [hasKey_assocSet]
            simp [hk, hne]

/-- keys of the result after the first loop of `data_first_parse` -/
theorem fin_dfStep1_keys (rec : P) (m : Mode) (o : Opts) (decl : List FieldDecl) (data : Data) (acc : Data × Data)
    (k : String) :
    hasKey k (fin (dfStep1 rec m o decl) data acc).1 =
      (hasKey k acc.1 || data.any (fun kv =>
        match decl.find? (fun f => f.name == kv.1) with
        | some f => f.name == k && stores rec m o f kv.2
        | none => false)) := by
  induction data generalizing acc with
  | nil => simp [fin]
  | cons kv rest ih =>
    simp only [fin, List.any_cons]
    generalize hgen : dfStep1 rec m o decl acc kv = s
    unfold dfStep1 at hgen
    cases hfind : decl.find? (fun f => f.name == kv.1) with
    | none =>
      simp only [hfind] at hgen
      simp only [Bool.false_or]
      unfold additionStep at hgen
      cases ha : o.addition with
      | none => simp only [ha] at hgen; subst hgen; exact ih acc
      | some b =>
        cases b with
        | false => simp only [ha] at hgen; subst hgen; exact ih acc
        | true => simp only [ha] at hgen; subst hgen; exact ih _
    | some f =>
      simp only [hfind] at hgen
      simp only
      cases hfv : fieldValue rec m o f kv.2 with
      | keep r =>
        cases r with
        | none =>
          have hst : stores rec m o f kv.2 = false := by unfold stores; rw [hfv]
          simp only [hfv, store] at hgen; subst hgen
          simp only [hst, Bool.and_false, Bool.false_or]; exact ih acc
        | some r =>
          have hst : stores rec m o f kv.2 = true := by unfold stores; rw [hfv]
          simp only [hfv, store] at hgen; subst hgen
          simp only [hst, Bool.and_true]
          rw [ih, hasKey_assocSet]
          cases (f.name == k) <;> simp
      | report e r =>
        cases r with
        | none =>
          have hst : stores rec m o f kv.2 = false := by unfold stores; rw [hfv]
          simp only [hfv, store] at hgen; subst hgen
          simp only [hst, Bool.and_false, Bool.false_or]; exact ih acc
        | some r =>
          have hst : stores rec m o f kv.2 = true := by unfold stores; rw [hfv]
          simp only [hfv, store] at hgen; subst hgen
          simp only [hst, Bool.and_true]
          rw [ih, hasKey_assocSet]
          cases (f.name == k) <;> simp
      | abort e x => exact absurd hfv (fieldValue_noAbort rec m o f kv.2 e x)

theorem reportsDF_eq (rec : P) (m : Mode) (o : Opts) (decl : List FieldDecl) (data : Data) :
    reportsDF rec m o decl data =
      data.filterMap (g1 rec m o decl) ++ (trace dfStep2 decl (fin (dfStep1 rec m o decl) data ([], [])).1).1 := by
  unfold reportsDF
  rw [trace_filterMap (g1 rec m o decl) (dfStep1_noAbort rec m o decl) (dfStep1_err? rec m o decl)]

theorem mem_dataOf {data : Data} {i k : String} {v : Val} : (k, v) ∈ dataOf data i ↔ (k, v) ∈ data ∧ k = i := by
  simp [dataOf]

theorem mem_declOf {decl : List FieldDecl} {i : String} {f : FieldDecl} : f ∈ declOf decl i ↔ f ∈ decl ∧ f.name = i := by
  simp [declOf]

theorem declOf_nodup (decl : List FieldDecl) (hn : (decl.map (·.name)).Nodup) (i : String) :
    ((declOf decl i).map (·.name)).Nodup := by
  unfold declOf
  exact (List.Sublist.map _ List.filter_sublist).nodup hn

theorem df_sound (rec : P) (m : Mode) (o : Opts) (decl : List FieldDecl) (hn : (decl.map (·.name)).Nodup)
    (data : Data) (e : Err) (he : e ∈ reportsDF rec m o decl data) :
    ∃ i, e.item = some i ∧ isItem decl data i = true ∧ reportsDF rec m o (declOf decl i) (dataOf data i) ≠ [] := by
  rw [reportsDF_eq] at he
  rcases List.mem_append.mp he with he | he
  · obtain ⟨kv, hkv, hke⟩ := List.mem_filterMap.mp he
    obtain ⟨k, v⟩ := kv
    refine ⟨k, g1_item hke, ?_, ?_⟩
    · simp only [isItem, Bool.or_eq_true]
      right; exact (hasKey_mem k data).mpr ⟨v, hkv⟩
    · rw [reportsDF_eq]
      intro hnil
      have hmem : e ∈ (dataOf data k).filterMap (g1 rec m o (declOf decl k)) := by
        apply List.mem_filterMap.mpr
        exact ⟨(k, v), mem_dataOf.mpr ⟨hkv, rfl⟩, by rw [g1_declOf]; exact hke⟩
      rw [List.append_eq_nil_iff] at hnil
      rw [hnil.1] at hmem
      cases hmem
  · obtain ⟨f, hf, rfl, hr, hk⟩ := dfStep2_sound decl _ e he
    refine ⟨f.name, rfl, ?_, ?_⟩
    · simp only [isItem, Bool.or_eq_true, List.any_eq_true, beq_iff_eq]
      left; exact ⟨f, hf, rfl⟩
    · rw [reportsDF_eq]
      intro hnil
      rw [List.append_eq_nil_iff] at hnil
      by_cases hprov : hasKey f.name data = true
      · -- provided: its value is not stored, so it was reported
        obtain ⟨v, hv⟩ := (hasKey_mem _ _).mp hprov
        have hfind := find?_of_nodup decl hn f hf
        have hst : stores rec m o f v = false := by
          cases hs : stores rec m o f v with
          | false => rfl
          | true =>
            exfalso
            rw [fin_dfStep1_keys] at hk
            simp only [hasKey, List.any_nil, Bool.false_or] at hk
            have : (data.any fun kv =>
                match decl.find? (fun g => g.name == kv.1) with
                | some g => g.name == f.name && stores rec m o g kv.2
                | none => false) = true := by
              apply List.any_eq_true.mpr
              refine ⟨(f.name, v), hv, ?_⟩
              simp only [hfind, hs, Bool.and_true, beq_self_eq_true]
            rw [this] at hk
            cases hk
        obtain ⟨e', he'⟩ := repField_of_required hr hst
        have hmem : e' ∈ (dataOf data f.name).filterMap (g1 rec m o (declOf decl f.name)) := by
          apply List.mem_filterMap.mpr
          refine ⟨(f.name, v), mem_dataOf.mpr ⟨hv, rfl⟩, ?_⟩
          rw [g1_declOf]
          unfold g1
          simp only [hfind]
          exact he'
        rw [hnil.1] at hmem
        cases hmem
      · -- not provided: the restricted run has nothing stored either
        have hempty : dataOf data f.name = [] := by
          apply List.eq_nil_iff_forall_not_mem.mpr
          rintro ⟨k, v⟩ hm
          obtain ⟨hm1, rfl⟩ := mem_dataOf.mp hm
          exact hprov ((hasKey_mem _ _).mpr ⟨v, hm1⟩)
        have := dfStep2_complete (declOf decl f.name) (declOf_nodup decl hn _)
          (fin (dfStep1 rec m o (declOf decl f.name)) (dataOf data f.name) ([], [])).1 f
          (mem_declOf.mpr ⟨hf, rfl⟩) hr (by rw [hempty]; simp [fin, hasKey])
        rw [hnil.2] at this
        cases this

theorem df_complete (rec : P) (m : Mode) (o : Opts) (decl : List FieldDecl) (hn : (decl.map (·.name)).Nodup)
    (data : Data) (i : String) (hne : reportsDF rec m o (declOf decl i) (dataOf data i) ≠ []) :
    ∃ e ∈ reportsDF rec m o decl data, e.item = some i := by
  rw [reportsDF_eq] at hne
  rw [reportsDF_eq]
  obtain ⟨e', he'⟩ := List.exists_mem_of_ne_nil _ hne
  rcases List.mem_append.mp he' with he' | he'
  · obtain ⟨kv, hkv, hke⟩ := List.mem_filterMap.mp he'
    obtain ⟨k, v⟩ := kv
    obtain ⟨hkd, rfl⟩ := mem_dataOf.mp hkv
    rw [g1_declOf] at hke
    exact ⟨e', List.mem_append.mpr (Or.inl (List.mem_filterMap.mpr ⟨(k, v), hkd, hke⟩)), g1_item hke⟩
  · obtain ⟨f, hf, rfl, hr, hk⟩ := dfStep2_sound _ _ e' he'
    obtain ⟨hfd, hfn⟩ := mem_declOf.mp hf
    subst hfn
    refine ⟨_, List.mem_append.mpr (Or.inr (dfStep2_complete decl hn _ f hfd hr ?_)), rfl⟩
    -- nothing is stored under f.name in the full run, because nothing is in the restricted one
    cases hfull : hasKey f.name (fin (dfStep1 rec m o decl) data ([], [])).1 with
    | false => rfl
    | true =>
      exfalso
      rw [fin_dfStep1_keys] at hfull hk
      simp only [hasKey, List.any_nil, Bool.false_or] at hfull hk
      obtain ⟨⟨k, v⟩, hkv, hcond⟩ := List.any_eq_true.mp hfull
      simp only at hcond
      cases hfind : decl.find? (fun g => g.name == k) with
      | none => rw [hfind] at hcond; simp at hcond
      | some g =>
        rw [hfind] at hcond
        simp only [Bool.and_eq_true, beq_iff_eq] at hcond
        have hgk : g.name = k := by simpa using List.find?_some hfind
        have hkf : k = f.name := by rw [← hgk]; exact hcond.1
        subst hkf
        have : ((dataOf data f.name).any fun kv =>
            match (declOf decl f.name).find? (fun g => g.name == kv.1) with
            | some g => g.name == f.name && stores rec m o g kv.2
            | none => false) = true := by
          apply List.any_eq_true.mpr
          refine ⟨(f.name, v), mem_dataOf.mpr ⟨hkv, rfl⟩, ?_⟩
          simp only
          unfold declOf
          rw [find?_filter_self (fun g => g.name == f.name) decl, hfind]
          simp [hcond.1, hcond.2]
        rw [this] at hk
        cases hk

/-! ### both strategies -/

theorem reports_sound (rec : P) (m : Mode) (o : Opts) (decl : List FieldDecl) (hn : (decl.map (·.name)).Nodup)
    (data : Data) (e : Err) (he : e ∈ reports rec m o decl data) :
    ∃ i, e.item = some i ∧ isItem decl data i = true ∧ reports rec m o (declOf decl i) (dataOf data i) ≠ [] := by
  unfold reports at he ⊢
  by_cases hd : o.dfs = true
  · simp only [hd, if_true] at he ⊢; exact df_sound rec m o decl hn data e he
  · simp only [hd, Bool.false_eq_true, if_false] at he ⊢; exact ff_sound rec m o decl data e he

theorem reports_complete (rec : P) (m : Mode) (o : Opts) (decl : List FieldDecl) (hn : (decl.map (·.name)).Nodup)
    (data : Data) (i : String) (hne : reports rec m o (declOf decl i) (dataOf data i) ≠ []) :
    ∃ e ∈ reports rec m o decl data, e.item = some i := by
  unfold reports at hne ⊢
  by_cases hd : o.dfs = true
  · simp only [hd, if_true] at hne ⊢; exact df_complete rec m o decl hn data i hne
  · simp only [hd, Bool.false_eq_true, if_false] at hne ⊢; exact ff_complete rec m o decl data i hne

end Utv.C10
