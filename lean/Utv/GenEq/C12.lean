import Utv.GenEq.Support
import Utv.Gen.Tables
import Utv.Gen.CodecTables
import Utv.Gen.Options
import Utv.Model.C12
/-!
C12 — T1 obligations: the format lists of `TypeTransformer` the converter model (`Model/Conv.lean`) holds copies of
are the ones regenerated from `utype/utils/transform.py` on every run (the other tables — `NULL_VALUES`,
`TRUE_VALUES`, `FALSE_VALUES`, `ARRAY_SEPARATORS`, `STRUCTURE_BRACKET`, `MS_WATERSHED` — are read by the model
directly from `Utv.Gen.Tables`), and `normAddition` is what `Options.__init__` does to `addition`.
-/
namespace Utv.GenEq.C12
open Utv.Obj Utv.Gen

theorem C12_gen_tables :
    Utv.Conv.DATE_FORMATS = CodecTables.DATE_FORMATS ∧
    Utv.Conv.DATETIME_FORMATS = CodecTables.DATETIME_FORMATS := by
  gen_obligation "C12_gen_tables: the regenerated code (Utv.Gen) is no longer equal to the hand model here" by
    refine ⟨?_, ?_⟩ <;> decide

/-! ### `Options.__init__`: no_data_loss ⇒ addition=False unless the caller chose one (`normAddition`) -/

abbrev U := OVal Unit
open Utv.C12M

/-- how `addition=` is passed: not at all, `None`, `False`, `True` -/
def kwAddition : Addition → List (String × U)
  | .unset => []
  | .none => [("addition", .none)]
  | .no => [("addition", .bool false)]
  | .yes => [("addition", .bool true)]

def encAddition : Addition → U
  | .unset => .unprovided
  | .none => .none
  | .no => .bool false
  | .yes => .bool true

/-- the attribute an instance shows: what `__init__` stored, or — for an argument left `unprovided`, which is not
stored — the class-level default (`Utv.Gen.Tables.optionsDefaults`, regenerated from the class body) -/
def effective (v : U) : U :=
  if v.isUnprovided then
    (if Tables.optionsDefaults.lookup "addition" = some "None" then .none else .unprovided)
  else v

theorem C12_gen_options_init (W : World Unit) (self : U) (ndl : Bool) (a : Addition) :
    (Options.Options_init W self (("no_data_loss", .bool ndl) :: kwAddition a) >>= fun r => getattr r "addition").map effective
      = .ok (encAddition (normAddition ndl a)) := by
  gen_obligation "C12_gen_options_init: the regenerated code (Utv.Gen) is no longer equal to the hand model here" by
    have hd : Tables.optionsDefaults.lookup "addition" = some "None" := by decide
    cases ndl <;> cases a <;>
      obj_simp [Options.Options_init, Options.multi, kwAddition, lookupAttr, isinstance, callable, OVal.isUnprovided,
        OVal.isNone, getattr, effective, hd, Except.map] <;> rfl

end Utv.GenEq.C12
