/-
Parse-level places that read the two preferences (C12):
  * `Options.__init__` (options.py:151-155): no_data_loss ⇒ addition=False unless the caller chose one
    (with fix C12-ndl-addition-default: also when `addition` is left at its default),
  * the tuple prefix parser `_parse_tuple_args` (rule.py:1891-1899): excess items,
  * unknown keys of a data class / function (`parse_addition`, base.py:390-399),
  * list / tuple input of a data class (`transform_dataclass`, cls.py:596-606).
-/
import Utv.Model.Conv
namespace Utv.C12M
open Utv.Conv

/-- the `addition` option: left at its default, `None`, `False`, or `True` / a type -/
inductive Addition where
  | unset | none | no | yes
  deriving DecidableEq, Repr

/-- options.py:151-155 (after the fix): the value of `Options(...).addition` (the class default is `None`) -/
def normAddition (ndl : Bool) (a : Addition) : Addition :=
  if ndl then
    (match a with
     | .unset => .no
     | .none => .no
     | a => a)
  else
    (match a with
     | .unset => .none
     | a => a)

/-- base.py:390-399 `parse_addition` for an unknown key: rejected (ExceedError), dropped, or kept -/
inductive KeyFate where
  | rejected | dropped | kept
  deriving DecidableEq, Repr

def unknownKey (a : Addition) : KeyFate :=
  match a with
  | .no => .rejected
  | .yes => .kept
  | _ => .dropped

/-- rule.py:1896-1899: the indices handed to `context.handle_error(TupleExceedError)`; with the default
(fail-fast) context the first one raises -/
def tupleExcess (a : Addition) (ndl : Bool) (nargs nvals : Nat) : List Nat :=
  if nvals > nargs && (a == .no || ndl) then List.range' nargs (nvals - nargs) else []

/-- cls.py:596-606: what `transform_dataclass` hands on for a list / tuple input (the data-class instance
shortcuts are outside `V`) -/
def dataclassUnwrap (f : Flags) (v : V) : Outcome V :=
  match v with
  | .seq k _ xs =>
    if (k == .list || k == .tuple) && !f.nec then
      match xs with
      | [] => .ok v
      | x :: rest => if f.ndl && !rest.isEmpty then .perr .typeError else .ok x
    else .ok v
  | _ => .ok v

/-- `transform_dataclass` followed by the input stage of `init_dataclass` (cls.py:563-574): the mapping that
reaches `cls.__init__(**data)`.  `fr` are the preferences of the running transformer (they decide the
unwrapping), `fc` those of the data class's own options (they decide how a non-mapping becomes a dict). -/
def dataclassInput (P : Prims) (E : Env) (fr fc : Flags) (v : V) : Outcome V :=
  dataclassUnwrap fr v >>= fun d =>
    if isInst d .dict then .ok d
    else if fc.nec then .perr .typeError
    else toDict P E fc 0 d

end Utv.C12M
