"""C01 — parsed results always conform to the declared type and constraints.

Tie (T2): every case = (declaration descriptor, input value, options, entry point) is instantiated with the real public
API (Rule subclasses, typing annotations, `&|^~`, Schema classes, `@utype.parse` functions), run under
collect_errors False and True, and the type objects utype built are introspected (`__origin__`, `__args__`,
`__args_parser__`, `__validators__`, parser fields) into the tree the Lean model `Utv.C01.parse` runs on
(lean/Utv/Model/C01.lean, whose leaves are C12's converter model and whose validators are the T1-generated ones).
Outcomes (returned value / failure / hang) are compared.

Oracle (`spec`): `conforms` below — the property in its own words, driven by the *declared* descriptor (not by the
introspected tree) and evaluated inside the worker on the live object the implementation returned: isinstance of the
declared source type, every strict constraint in its documented sense (harness.c02.sat), elements / keys / values /
fields recursively, union / xor: some argument, `&`: the last argument (and the negations after it).
"""
from __future__ import annotations

import json
import math
import os
import random
import re
import signal
import sys
import threading
import types as pytypes
from collections import deque
from datetime import date, datetime, time, timedelta, timezone
from decimal import Decimal, InvalidOperation
from enum import Enum
from uuid import UUID

from . import c12
from . import pyval
from .c02 import Undefined, sat
from .common import NCPU, REPO, Check

import warnings

warnings.filterwarnings("ignore", category=SyntaxWarning)      # ast.literal_eval of pool texts such as '{"a": "\\/"}'

DATA_TAG = 1000
FUEL = 40

# ------------------------------------------------------------------------------------------------
# codec: c12's protocol + data-class instances ({"m": fields, "c": 1000 + k})
# ------------------------------------------------------------------------------------------------


def enc(v, ctx):
    """Python value -> JSON (values outside the universe become {"x": type name})"""
    if v is None:
        return None
    t = type(v)
    if t is bool:
        return v
    for k, cls in enumerate(ctx.datas):
        if t is cls:
            items = dict.items(v) if isinstance(v, dict) else [(a, b) for a, b in vars(v).items() if not a.startswith("__")]
            return {"m": [[enc(a, ctx), enc(b, ctx)] for a, b in items], "c": DATA_TAG + k}
    if isinstance(v, Enum):
        return c12.enc(v, ctx.enums)
    tag = c12.CLASS_TAG.get(t)
    if tag is None:
        return c12.enc(v, ctx.enums)
    b, c = tag
    if b in c12.SEQ_KINDS:
        items = [enc(x, ctx) for x in v]
        if b in ("set", "frozenset"):
            items.sort(key=vkey)
        return c12._c({"q": items, "k": b}, c)
    if b == "dict":
        return c12._c({"m": [[enc(k, ctx), enc(x, ctx)] for k, x in v.items()]}, c)
    return c12.enc(v, ctx.enums)


def vkey(j) -> str:
    return c12.vkey(j)


def dec(j, ctx):
    return c12.dec(j, ctx.enums)


def has_x(j) -> bool:
    return c12._has_unencodable(j)


_ADDR = re.compile(r" at 0x[0-9a-f]+>")


def _hashy_text(t: str) -> bool:
    """`str()` of an object with an address, or of a set / dict-free brace literal (element order = hash order)"""
    return " at 0x" in t or "set(" in t or (t.startswith("{") and t.endswith("}") and ":" not in t)


def _text_canon(t: str) -> str:
    """texts produced by `str()` of an object with an address or of a set (hash order): addresses masked, and for set texts
    the characters sorted (the same elements in another order give the same form)"""
    t = _ADDR.sub(" at 0x>", t)
    if "set(" in t or t.startswith("{"):
        return "".join(sorted(t))
    return t


def canon(j):
    """order-insensitive form: set elements sorted, data-class instance fields sorted by key; object addresses masked"""
    if isinstance(j, dict):
        if "s" in j and _hashy_text(j["s"]):
            return dict(j, s=_text_canon(j["s"]))
        if "b" in j and len(j["b"]) < 4000:
            try:
                t = bytes.fromhex(j["b"]).decode("latin-1")
                if _hashy_text(t):
                    return dict(j, b=_text_canon(t).encode("latin-1").hex())
            except Exception:
                return j
        if "q" in j:
            items = [canon(x) for x in j["q"]]
            if j.get("k") in ("set", "frozenset"):
                items.sort(key=vkey)
            return dict(j, q=items)
        if "m" in j:
            pairs = [[canon(k), canon(v)] for k, v in j["m"]]
            if j.get("c", 0) >= DATA_TAG:
                pairs.sort(key=lambda p: vkey(p[0]))
            return dict(j, m=pairs)
        if "d" in j and isinstance(j["d"], list) and j["d"][1] == "0":
            return dict(j, d=["0", "0", j["d"][2]])
        return {k: canon(v) for k, v in j.items()}
    if isinstance(j, list):
        return [canon(x) for x in j]
    return j


# ------------------------------------------------------------------------------------------------
# declarations: descriptor -> real utype objects (worker side)
# ------------------------------------------------------------------------------------------------

TYPING_GEN = {"list": "List", "set": "Set", "frozenset": "FrozenSet", "deque": "Deque", "tuple": "Tuple", "vtuple": "Tuple",
              "dict": "Dict"}
GEN_BASE = {"list": "list", "set": "set", "frozenset": "frozenset", "deque": "deque", "tuple": "tuple", "vtuple": "tuple",
            "dict": "dict"}
_SEQ = [0]


def cls_name(leaf) -> str:
    """global name of a leaf class"""
    if "enum" in leaf:
        return f"E{leaf['enum']}"
    if "obj" in leaf:
        return f"Obj{leaf['obj']}"
    b, s = leaf["t"], leaf.get("sub", 0)
    if s:
        return c12.SUBS[b][s - 1].__name__
    return {"NoneType": "NoneType", "Decimal": "Decimal", "UUID": "UUID"}.get(b, b)


def leaf_class(leaf, ctx):
    if "enum" in leaf:
        return ctx.enums[leaf["enum"]]
    if "obj" in leaf:
        return c12.OBJ_CLASSES[leaf["obj"]]
    return c12._cls(leaf["t"], leaf.get("sub", 0))


def cons_attrs(cons, ctx):
    from utype.parser.rule import Lax
    attrs = {}
    for c in cons or []:
        name, b = c[0], pyval.decode(c[1])
        attrs[name] = Lax(b) if (len(c) > 2 and c[2]) else b
    return attrs


class Marker:
    """a foreign metadata object inside Annotated[...] (tools ignore the metadata they do not know)"""

    def __init__(self, name):
        self.name = name


class Ctx:
    """the real objects one case talks about (built inside the worker)"""

    def __init__(self, case):
        import utype
        from utype import Field, Options, Rule, Schema
        from utype.parser.rule import LogicalType
        import typing
        self.case = case
        self.typing_top = case.get("via") in ("field", "param", "return")
        self.enums = c12.enum_classes(case.get("enums", []))
        self.datas = []
        _SEQ[0] += 1
        self.sfx = f"x{_SEQ[0]}"              # class names are unique per case: utype resolves forward references by name
        self.mod = pytypes.ModuleType(f"c01_case_{os.getpid()}_{_SEQ[0]}")
        sys.modules[self.mod.__name__] = self.mod
        g = self.mod.__dict__
        g.update({n: getattr(typing, n) for n in ("Any", "List", "Set", "FrozenSet", "Deque", "Tuple", "Dict", "Optional", "Union",
                                                  "Generator", "AsyncGenerator", "Annotated")})
        g.update(Schema=Schema, Field=Field, Options=Options, Rule=Rule, utype=utype, combine=LogicalType.combine,
                 NoneType=type(None), Decimal=Decimal, UUID=UUID, date=date, datetime=datetime, time=time,
                 timedelta=timedelta, deque=deque)
        for b, l in c12.SUBS.items():
            for c in l:
                g[c.__name__] = c
        for k, e in enumerate(self.enums):
            g[f"E{k}"] = e
        for k, o in enumerate(c12.OBJ_CLASSES):
            g[f"Obj{k}"] = o
        self.g = g
        self.nrule = 0
        self.quote_late = True
        src = ""
        for k, d in enumerate(case.get("datas", [])):
            base = f"D{d['base']}{self.sfx}" if d.get("base") is not None else "Schema"
            if d.get("kind") == "dataclass":
                # attribute-style data classes: instances are not dicts; `==` compares the fields, the hash is object's
                base = "utype.DataClass"
            if d.get("kind") == "deco":
                src += "@utype.dataclass(eq=True)\n"
                src += f"class D{k}{self.sfx}:\n"
            else:
                src += f"class D{k}{self.sfx}({base}):\n"
            body = ""
            if d.get("opts"):
                g[f"O{k}"] = make_options(d["opts"])
                body += f"    __options__ = O{k}\n"
            for i, f in enumerate(d["fields"]):
                kw = {}
                if "default" in f:
                    kw["default"] = c12.dec(f["default"], self.enums)
                elif f.get("required") is False:
                    kw["required"] = False
                if f.get("on_error"):
                    kw["on_error"] = f["on_error"]
                if f.get("discriminator"):
                    kw["discriminator"] = f["discriminator"]
                kw.update(cons_attrs(f.get("fcons"), self))
                body += "    " + self.decl(f, k, f"F{k}_{i}", Field, kw) + "\n"
            for i, ov in enumerate(d.get("overrides") or []):
                # an inherited typed field re-declared WITHOUT annotation: a bare default, or a bare Field(...)
                if ov["kind"] == "default":
                    g[f"OV{k}_{i}"] = c12.dec(ov["default"], self.enums)
                else:
                    kw = dict(cons_attrs(ov.get("fcons"), self))
                    if "default" in ov:
                        kw["default"] = c12.dec(ov["default"], self.enums)
                    g[f"OV{k}_{i}"] = Field(**kw)
                body += f"    {ov['name']} = OV{k}_{i}\n"
            src += body or "    pass\n"
        # the top declaration (both collect_errors settings) comes BEFORE the late classes: a string annotation naming one
        # of them can only be evaluated at first use
        via = case.get("via")
        if via == "gen":
            # a generator function: Generator[Yield, Send, Return]; the body yields the given raw values, records what it is
            # sent and returns the given raw value
            gd = case["gen"]
            slots = [self.ann({"ty": gd[x]}, -1) if gd.get(x) is not None else "None" for x in ("yield", "send", "ret")]
            for c in (0, 1):
                g[f"TOPO{c}"] = make_options(case.get("opts") or {}, bool(c))
                g[f"SEEN{c}"] = []
                if gd.get("async"):
                    # an async generator has no return slot
                    src += (f"@utype.parse(options=TOPO{c}, eager={bool(gd.get('eager'))})\n"
                            f"async def topg{c}(yv, rv) -> AsyncGenerator[{', '.join(slots[:2])}]:\n"
                            f"    for y in yv:\n        s = yield y\n        SEEN{c}.append(s)\n")
                else:
                    src += (f"@utype.parse(options=TOPO{c}, eager={bool(gd.get('eager'))})\n"
                            f"def topg{c}(yv, rv) -> Generator[{', '.join(slots)}]:\n"
                            f"    for y in yv:\n        s = yield y\n        SEEN{c}.append(s)\n    return rv\n")
        if via in ("field", "param", "return", "fn"):
            from utype import Param
            for c in (0, 1):
                g[f"TOPO{c}"] = make_options(case.get("opts") or {}, bool(c))
                fc = cons_attrs(case.get("fcons"), self)
                top = {"name": "f", "ty": case["ty"], "strann": case.get("strann"), "annotated": case.get("annotated")}
                if via == "field":
                    src += f"class TopS{c}(Schema):\n    __options__ = TOPO{c}\n    " + self.decl(top, -1, "TOPF", Field, dict(fc)) + "\n"
                elif via == "param":
                    src += f"@utype.parse(options=TOPO{c})\ndef topf{c}(" + self.decl(top, -1, "TOPF", Param, dict(fc)) + "):\n    return f\n"
                elif via == "return":
                    src += f"@utype.parse(options=TOPO{c})\n{'async ' if case.get('async') else ''}def topr{c}(f) -> {self.ann(case, -1)}:\n    return f\n"
                else:
                    fn = case["fn"]
                    parts, names = [], []
                    for i, f in enumerate(fn["params"]):
                        kw = dict(cons_attrs(f.get("fcons"), self))
                        if "default" in f:
                            kw["default"] = c12.dec(f["default"], self.enums)
                        names.append(f["name"])
                        parts.append(self.decl(f, -1, f"P{i}", Param, kw))
                    if fn.get("varargs") is not None:
                        parts.append(f"*rest: {self.ann({'ty': fn['varargs']}, -1)}")
                    if fn.get("varkw") is not None:
                        parts.append(f"**extra: {self.ann({'ty': fn['varkw']}, -1)}")
                    body = "{'params': {" + ", ".join(f"'{n}': {n}" for n in names) + "}, 'varargs': " + \
                        ("list(rest)" if fn.get("varargs") is not None else "[]") + ", 'varkw': " + \
                        ("dict(extra)" if fn.get("varkw") is not None else "{}") + "}"
                    src += f"@utype.parse(options=TOPO{c})\ndef topfn{c}({', '.join(parts)}):\n    return {body}\n"
        for k, l in enumerate(case.get("lates") or []):
            r = l["rule"]
            base = cls_name(r["base"]) if r.get("base") else None
            src += f"class L{k}{self.sfx}(" + (f"{base}, " if base else "") + "Rule):\n"
            attrs = cons_attrs(r.get("cons"), self)
            if not attrs:
                src += "    pass\n"
            for n, (name, val) in enumerate(attrs.items()):
                g[f"LC{k}_{n}"] = val
                src += f"    {name} = LC{k}_{n}\n"
        self.src = src
        if src:
            # (compile() would inherit this file's own `from __future__ import annotations`: every annotation of every generated
            # module would silently be a string.  The flag is a property of the case: cases written before it existed have it on)
            import __future__
            fut = __future__.annotations.compiler_flag if case.get("future", True) else 0
            exec(compile(src, self.mod.__name__, "exec", flags=fut, dont_inherit=True), g)
        self.datas = [g[f"D{k}{self.sfx}"] for k in range(len(case.get("datas", [])))]

    def decl(self, f, cur, var, make, kw, sep=" = ") -> str:
        """`name: T = Field(...)`, or — with `annotated` — `name: Annotated[T, m0, m1, …]` where the Field / Param sits at any
        position among doc strings and foreign marker objects (and a default, if any, is written after `=`)"""
        ann = self.ann(f, cur)
        a = f.get("annotated")
        if a and kw:
            default = kw.pop("default", None) if "default" in kw else None
            has_default = "default" in f
            metas = []
            for i in range(a["n"]):
                if i == a["pos"]:
                    self.g[var] = make(**kw)
                    metas.append(var)
                else:
                    self.g[f"{var}_m{i}"] = (f"doc {i}: {f.get('name', 'f')}" if (i + a.get("salt", 0)) % 2 == 0 else Marker(f"m{i}"))
                    metas.append(f"{var}_m{i}")
            out = f"{f.get('name', 'f')}: Annotated[{ann}, {', '.join(metas)}]"
            if has_default:
                self.g[f"{var}_d"] = default
                out += f"{sep}{var}_d"
            return out
        if kw:
            self.g[var] = make(**kw)
            return f"{f.get('name', 'f')}: {ann}{sep}{var}"
        return f"{f.get('name', 'f')}: {ann}"

    def ann(self, f, cur) -> str:
        """annotation source of a field / parameter descriptor; `strann`: the whole annotation written as a string"""
        if f.get("strann"):
            self.quote_late = False
            try:
                return repr(self.expr(f["ty"], None))
            finally:
                self.quote_late = True
        return self.expr(f["ty"], cur)

    def close(self):
        sys.modules.pop(self.mod.__name__, None)

    def new_rule(self, bases, attrs):
        from utype import Rule
        self.nrule += 1
        name = f"R{self.nrule}"
        self.g[name] = type(name, tuple(bases) + (Rule,), attrs)
        return name

    def expr(self, d, cur=None) -> str:
        """python source of the annotation for descriptor `d` (evaluated in the case's module)"""
        if d == "any":
            return "Any" if (cur is not None or self.typing_top) else "Rule"
        if "t" in d or "enum" in d or "obj" in d:
            return cls_name(d)
        if "data" in d:
            k = d["data"]
            return f'"D{k}{self.sfx}"' if (cur is not None and cur >= 0 and k >= cur) else f"D{k}{self.sfx}"
        if "apply" in d:
            import utype
            a = d["apply"]
            self.nrule += 1
            name = f"A{self.nrule}"
            self.g[name] = utype.apply(**cons_attrs(a.get("cons"), self))(leaf_class(a["base"], self))
            return name
        if "late" in d:
            name = f"L{d['late']}{self.sfx}"
            return f'"{name}"' if self.quote_late else name
        if "rule" in d:
            r = d["rule"]
            bases = [leaf_class(r["base"], self)] if r.get("base") else []
            attrs = cons_attrs(r.get("cons"), self)
            if r.get("ropts"):
                attrs["__options__"] = make_options(r["ropts"])      # options carried by the Rule subclass itself: used by `T(v)`
            return self.new_rule(bases, attrs)
        if "gen" in d:
            kind = d["gen"]
            args = [self.expr(a, cur) for a in d["args"]]
            if kind == "vtuple":
                args.append("...")
            if d.get("style", "typing") == "typing":
                return f"{TYPING_GEN[kind]}[{', '.join(args)}]"
            base = c12._cls(GEN_BASE[kind], d.get("sub", 0))
            return f"{self.new_rule([base], cons_attrs(d.get('cons'), self))}[{', '.join(args)}]"
        if "opt" in d:
            inner = self.expr(d["opt"], cur)
            return f"Optional[{inner}]" if d.get("style", "typing") == "typing" else f"combine('|', {inner}, None)"
        if "comb" in d:
            args = [self.expr(a, cur) for a in d["args"]]
            if d["comb"] == "|" and d.get("style") == "typing":
                return f"Union[{', '.join(args)}]"
            return f"combine({d['comb']!r}, {', '.join(args)})"
        raise ValueError(f"bad descriptor {d}")


def make_options(o, collect=False):
    from utype import Options
    kw = {}
    if o.get("nec"):
        kw["no_explicit_cast"] = True
    if o.get("ndl"):
        kw["no_data_loss"] = True
    if o.get("addition", "unset") != "unset":
        kw["addition"] = {"no": False, "yes": True}[o["addition"]]
    for k, n in (("items", "invalid_items"), ("keys", "invalid_keys"), ("values", "invalid_values")):
        if o.get(k, "throw") != "throw":
            kw[n] = o[k]
    if o.get("unresolved", "throw") != "throw":
        kw["unresolved_types"] = o["unresolved"]
    if o.get("ignore_constraints"):
        kw["ignore_constraints"] = True
    if collect:
        kw["collect_errors"] = True
    return Options(**kw)


def opts_safe(o) -> bool:
    return (o.get("items", "throw") != "preserve" and o.get("keys", "throw") != "preserve"
            and o.get("values", "throw") != "preserve" and not o.get("ignore_constraints")
            and o.get("unresolved", "throw") != "ignore")


# ------------------------------------------------------------------------------------------------
# introspection: the type object utype built -> the tree the model runs on
# ------------------------------------------------------------------------------------------------

class Unsupported(Exception):
    pass


def pv_enc(v):
    j = pyval.encode(v)
    if has_opaque(j):
        raise Unsupported("constraint value outside PyVal")
    return j


def has_opaque(j) -> bool:
    if isinstance(j, dict):
        return "o" in j or any(has_opaque(x) for x in j.values())
    if isinstance(j, list):
        return any(has_opaque(x) for x in j)
    return False


def tree(T, ctx):
    from typing import ForwardRef
    from utype import Rule
    from utype.parser.rule import LogicalType
    if T is None or T is Rule:
        return "any"
    if isinstance(T, ForwardRef):
        if not T.__forward_evaluated__:
            raise Unsupported("unresolved forward ref")
        return tree(T.__forward_value__, ctx)
    for k, cls in enumerate(ctx.datas):
        if T is cls:
            return {"data": k}
    if isinstance(T, LogicalType) and T.combinator:
        return {"comb": T.combinator, "args": [tree(a, ctx) for a in T.args]}
    if isinstance(T, type) and issubclass(T, Rule):
        if getattr(T, "contains", None) or getattr(T, "__abstract__", False):
            raise Unsupported("contains / abstract rule")
        if T.__dict__.get("__options__") is not None and not T.__dict__["__options__"].vacuum:
            raise Unsupported("Rule-level __options__ (oracle only)")
        if T.pre_validate.__func__ is not Rule.pre_validate.__func__ or T.post_validate.__func__ is not Rule.post_validate.__func__:
            raise Unsupported("custom hooks")
        origin = T.__origin__
        pname = getattr(getattr(T, "__args_parser__", None), "__name__", None)
        k = {"_parse_seq_args": "seq", "_parse_tuple_args": "tuple", "_parse_map_args": "map", None: "none"}.get(pname)
        if k is None:
            raise Unsupported(f"args parser {pname}")
        args = [] if k == "none" else [tree(a, ctx) for a in (T.__args__ or ())]
        vs = [[f.__name__, pv_enc(val)] for _key, val, f in T.__validators__]
        node = {"rule": {"origin": None if origin is None else tree(origin, ctx), "k": k, "args": args, "vs": vs}}
        if getattr(T, "__applied__", False):
            # @utype.apply: an instance of the decorated class is final (rule.py:1713-1718)
            ot = node["rule"]["origin"]
            if not (isinstance(ot, dict) and ("cls" in ot or "obj" in ot or "enum" in ot)) or k != "none":
                raise Unsupported("applied rule on a non-class origin")
            return {"applied": ot, "inner": node}
        return node
    if isinstance(T, type):
        for k, e in enumerate(ctx.enums):
            if T is e:
                return {"enum": k}
        for k, o in enumerate(c12.OBJ_CLASSES):
            if T is o:
                return {"obj": k}
        tag = c12.CLASS_TAG.get(T)
        if tag:
            return {"cls": tag[0], "sub": tag[1]}
    raise Unsupported(f"type {T!r}")


def opts_of(options) -> dict:
    """an Options object -> the model's option record"""
    o = {}
    o["nec"] = bool(options.no_explicit_cast)
    o["ndl"] = bool(options.no_data_loss)
    a = options.addition
    if a is None:
        o["addition"] = "unset"
    elif a is False:
        o["addition"] = "no"
    elif a is True:
        o["addition"] = "yes"
    else:
        raise Unsupported("typed addition")
    o["items"], o["keys"], o["values"] = options.invalid_items, options.invalid_keys, options.invalid_values
    o["unresolved"] = options.unresolved_types
    o["ignore_constraints"] = bool(options.ignore_constraints)
    for n in ("data_first_search", "case_insensitive", "cast_keyword_str", "max_params", "min_params", "max_depth",
              "ignore_required", "no_default", "defer_default", "mode"):
        if getattr(options, n, None):
            raise Unsupported("option " + n)
    return o


def fields_of(parser, ctx) -> list:
    from utype.utils.datastructures import unprovided
    out = []
    for name, f in parser.fields.items():
        fld = f.field
        if set(f.aliases or ()) - {name} or fld.no_input or fld.no_output or fld.mode or getattr(f, "dependencies", None) \
                or getattr(f, "discriminator_map", None) or fld.immutable or fld.default_factory or (not unprovided(fld.default) and callable(fld.default)):
            raise Unsupported("field feature")
        d = {"name": name, "ty": tree(f.type, ctx), "required": bool(f.required)}
        if not unprovided(fld.default):
            d["default"] = enc(fld.default, ctx)
            if has_x(d["default"]):
                raise Unsupported("default outside the universe")
        oe = getattr(fld, "on_error", None)
        if oe:
            d["on_error"] = oe
        out.append(d)
    return out


def env_of(ctx) -> dict:
    datas = []
    for k, cls in enumerate(ctx.datas):
        if ctx.case["datas"][k].get("kind"):
            raise Unsupported("utype.DataClass / @utype.dataclass classes (oracle only)")
        p = cls.__parser__
        p.resolve_forward_refs()
        if p.addition_type or getattr(p, "property_fields", None) and any(True for _ in p.property_fields):
            raise Unsupported("data class feature")
        datas.append({"fields": fields_of(p, ctx), "opts": opts_of(p.options)})
    return {"enums": ctx.case.get("enums", []), "datas": datas}


# ------------------------------------------------------------------------------------------------
# the oracle: Conforms, in the property's own words, on the live result (declared descriptor driven)
# ------------------------------------------------------------------------------------------------

_CUR_CTX = [None]


class Viol(Exception):
    def __init__(self, kind, node, got, extra=None, val=None):
        self.info = {"kind": kind, "node": node, "got": got, "extra": extra}
        if val is not None:
            try:
                j = enc(val, _CUR_CTX[0]) if _CUR_CTX[0] is not None else c12.enc(val, None)
                if len(json.dumps(j)) < 400:
                    self.info["val"] = j
            except Exception:
                pass


def _tn(v):
    return type(v).__name__


def strict_cons(cons):
    cs = [(c[0], pyval.decode(c[1])) for c in (cons or []) if not (len(c) > 2 and c[2])]
    names = [n for n, _ in cs]
    if "const" in [c[0] for c in (cons or [])]:
        return [c for c in cs if c[0] == "const"]          # const stands alone (other constraints are ignored by design)
    if "enum" in [c[0] for c in (cons or [])]:
        return [c for c in cs if c[0] == "enum"]
    return [c for c in cs if c[1] is not None and not (c[0] == "unique_items" and not c[1])]


def check_cons(cons, r, node):
    for name, b in strict_cons(cons):
        try:
            if name == "const":
                try:
                    same = bool(r == b)
                except Exception:
                    continue
                if not same:
                    raise Viol("constraint", node, _tn(r), name, val=r)
                continue
            ok = sat(name, r, b)
        except Undefined:
            continue
        except Viol:
            raise
        except Exception:
            continue
        if not ok:
            raise Viol("constraint", node, _tn(r), name, val=r)


def eff_fields(datas, k) -> list:
    """the declared fields of data class k: inherited ones, with the overrides of the classes on the way down.  A bare
    default keeps the inherited annotation (and nothing else of the old Field); a bare Field(...) keeps the annotation and
    brings its own constraints."""
    d = datas[k]
    fields = {}
    if d.get("base") is not None:
        for f in eff_fields(datas, d["base"]):
            fields[f["name"]] = f
    for ov in d.get("overrides") or []:
        old = fields[ov["name"]]
        f = {"name": ov["name"], "ty": old["ty"]}
        if ov["kind"] == "field" and ov.get("fcons"):
            f["fcons"] = ov["fcons"]
        if "default" in ov:
            f["default"] = ov["default"]
        fields[ov["name"]] = f
    for f in d["fields"]:
        fields[f["name"]] = f
    return list(fields.values())


def conforms_fn(fn, res, ctx, opts):
    """a decorated function: every parameter the body saw conforms to its annotation and its Param constraints (or is the
    declared default), every extra positional argument to the annotation of *args, every extra keyword to that of **kwargs"""
    if not (isinstance(res, dict) and set(res) == {"params", "varargs", "varkw"}):
        raise Viol("type", "any", _tn(res))
    for f in fn["params"]:
        x = res["params"].get(f["name"])
        if "default" in f and canon(enc(x, ctx)) == canon(f["default"]):
            continue
        conforms(f["ty"], x, ctx, opts, 1)
        if x is not None:
            check_cons(f.get("fcons"), x, f["ty"])
    for x in res["varargs"]:
        conforms(fn["varargs"], x, ctx, opts, 1)
    for x in res["varkw"].values():
        conforms(fn["varkw"], x, ctx, opts, 1)


def conforms_gen(gd, res, ctx, opts):
    """a decorated generator function, `Generator[Yield, Send, Return]`: what it yields comes out converted to `Yield`, what
    it is sent arrives converted to `Send`, what it returns comes out (as StopIteration.value) converted to `Return` — falsy
    values included.  `None` is exempt in the send and return slots: it is how "nothing sent" / "no return statement" look."""
    if not (isinstance(res, dict) and set(res) == {"yields", "sent", "ret"}):
        raise Viol("type", "any", _tn(res))
    if gd.get("yield") is not None:
        for x in res["yields"]:
            conforms(gd["yield"], x, ctx, opts, 1)
    if gd.get("send") is not None:
        for x in res["sent"]:
            if x is not None:
                conforms(gd["send"], x, ctx, opts, 1)
    if gd.get("ret") is not None and res["ret"] is not None:
        conforms(gd["ret"], res["ret"], ctx, opts, 1)


def conforms(d, r, ctx, opts, depth=0):
    """raises Viol when `r` does not conform to the declared descriptor `d`"""
    if depth > 60:
        return
    if d == "any":
        return
    if "t" in d or "enum" in d or "obj" in d:
        cls = leaf_class(d, ctx)
        if not isinstance(r, cls):
            raise Viol("type", d, _tn(r))
        return
    if "late" in d:
        conforms(ctx.case["lates"][d["late"]], r, ctx, opts, depth + 1)
        return
    if "apply" in d:
        if not isinstance(r, leaf_class(d["apply"]["base"], ctx)):
            raise Viol("type", d, _tn(r))
        check_cons(d["apply"].get("cons"), r, d)
        return
    if "data" in d:
        cls = ctx.datas[d["data"]]
        if not isinstance(r, cls):
            raise Viol("type", d, _tn(r))
        decl = ctx.case["datas"][d["data"]]
        have = r if isinstance(r, dict) else vars(r)
        for f in eff_fields(ctx.case["datas"], d["data"]):
            if f["name"] in have:
                x = dict.__getitem__(have, f["name"])
                if "default" in f:                    # declared defaults are trusted (utype hands out a copy)
                    if canon(enc(x, ctx)) == canon(f["default"]):
                        continue
                    try:
                        if bool(x == c12.dec(f["default"], ctx.enums)):
                            continue
                    except Exception:
                        pass
                conforms(f["ty"], x, ctx, decl.get("opts") or {}, depth + 1)
                if x is not None:
                    check_cons(f.get("fcons"), x, f["ty"] if isinstance(f["ty"], dict) else d)
            elif f.get("required", "default" not in f):
                raise Viol("absent", d, f["name"])
        return
    if "rule" in d:
        base = d["rule"].get("base")
        if base:
            if not isinstance(r, leaf_class(base, ctx)):
                raise Viol("type", d, _tn(r))
            if r is None:
                return
        check_cons(d["rule"].get("cons"), r, d)
        return
    if "gen" in d:
        kind = d["gen"]
        cls = c12._cls(GEN_BASE[kind], d.get("sub", 0) if d.get("style") == "rule" else 0)
        if not isinstance(r, cls):
            raise Viol("type", d, _tn(r))
        if kind == "dict":
            for k, v in r.items():
                conforms(d["args"][0], k, ctx, opts, depth + 1)
                if len(d["args"]) > 1:
                    conforms(d["args"][1], v, ctx, opts, depth + 1)
        elif kind == "tuple":
            items = list(r)
            if len(items) < len(d["args"]) or (len(items) > len(d["args"]) and opts.get("addition") != "yes"):
                raise Viol("length", d, len(items))
            for a, x in zip(d["args"], items):
                conforms(a, x, ctx, opts, depth + 1)
        else:
            for x in r:
                conforms(d["args"][0], x, ctx, opts, depth + 1)
        check_cons(d.get("cons"), r, d)
        return
    if "opt" in d:
        if r is None:
            return
        conforms(d["opt"], r, ctx, opts, depth + 1)
        return
    if "comb" in d:
        op, args = d["comb"], d["args"]
        if op in ("|", "^"):
            branches = []
            for a in args:
                try:
                    conforms(a, r, ctx, opts, depth + 1)
                    return
                except Viol as e:
                    branches.append(e.info)
            raise Viol("union", d, _tn(r), branches)
        if op == "&":
            # the last condition, and every negation that follows the last non-negated one
            tail = []
            for a in reversed(args):
                tail.append(a)
                if not (isinstance(a, dict) and a.get("comb") == "~"):
                    break
            for a in tail:
                conforms(a, r, ctx, opts, depth + 1)
            return
        return        # `~`: nothing to say about the value itself
    raise ValueError(f"bad descriptor {d}")


# ------------------------------------------------------------------------------------------------
# adapter
# ------------------------------------------------------------------------------------------------

class _Hang(BaseException):
    pass


def _alarm(sig, frm):
    raise _Hang()


HANG_S = 2.0


def _run(fn, ctx, limit=None):
    """(outcome json, live result)"""
    from utype.utils.exceptions import ParseError
    signal.signal(signal.SIGALRM, _alarm)
    signal.setitimer(signal.ITIMER_REAL, limit or HANG_S)
    try:
        try:
            r = fn()
        finally:
            signal.setitimer(signal.ITIMER_REAL, 0)
    except _Hang:
        if limit is None:
            return _run(fn, ctx, limit=5 * HANG_S)      # a loaded machine is not a hang: once more, with a longer timer
        return {"hang": True}, None
    except ParseError as e:
        return {"fail": type(e).__name__}, None
    except RecursionError:
        return {"fail": "RecursionError", "escape": True}, None
    except Exception as e:
        return {"fail": type(e).__name__, "escape": True}, None
    j = enc(r, ctx)
    return {"ok": j}, r


def build_call(case, ctx, collect):
    """thunk calling the real public API for the case's entry point; also the introspected (tree, options)"""
    import utype
    from utype import Options, type_transform
    via = case["via"]
    o = case.get("opts") or {}
    options = make_options(o, collect)
    g = ctx.g
    d = case["ty"]
    c = 1 if collect else 0
    if via in ("transform", "call"):
        ctx.quote_late = False
        try:
            T = eval(ctx.expr(d), g)
        finally:
            ctx.quote_late = True
        from utype.parser.rule import LogicalType
        if via == "call" and isinstance(T, LogicalType) and T not in ctx.datas:
            return (lambda v: T(v)), T, Options()
        return (lambda v: type_transform(v, T, options=options)), T, options
    if via == "init":
        cls = ctx.datas[d["data"]]
        return (lambda v: cls(**v)), cls, None
    if via == "field":
        S = g[f"TopS{c}"]
        return (lambda v: dict.__getitem__(S(f=v), "f")), ("field", S), g[f"TOPO{c}"]
    if via == "param":
        fn = g[f"topf{c}"]
        return (lambda v: fn(f=v)), ("param", fn), g[f"TOPO{c}"]
    if via == "return":
        fn = g[f"topr{c}"]
        if case.get("async"):
            import asyncio
            return (lambda v: asyncio.run(fn(f=v))), ("return", fn), g[f"TOPO{c}"]
        return (lambda v: fn(f=v)), ("return", fn), g[f"TOPO{c}"]
    if via == "fn":
        fn = g[f"topfn{c}"]
        return (lambda v: fn(*v["args"], **v["kwargs"])), ("fn", fn), g[f"TOPO{c}"]
    if via == "gen":
        fn = g[f"topg{c}"]
        seen = g[f"SEEN{c}"]

        async def arun(v):
            gen = fn(list(v["yields"]), v["ret"])
            outs, i = [], 0
            try:
                item = await gen.__anext__()
                while True:
                    outs.append(item)
                    snd = v["sends"][i] if i < len(v["sends"]) else None
                    i += 1
                    item = await (gen.asend(snd) if snd is not None else gen.__anext__())
            except StopAsyncIteration:
                pass
            return {"yields": outs, "sent": list(seen), "ret": None}

        def run(v):
            del seen[:]
            if case["gen"].get("async"):
                import asyncio
                return asyncio.run(arun(v))
            gen = fn(list(v["yields"]), v["ret"])
            outs, i = [], 0
            try:
                item = next(gen)
                while True:
                    outs.append(item)
                    snd = v["sends"][i] if i < len(v["sends"]) else None
                    i += 1
                    item = gen.send(snd) if snd is not None else next(gen)
            except StopIteration as stop:
                ret = stop.value
            return {"yields": outs, "sent": list(seen), "ret": ret}
        return run, ("gen", fn), g[f"TOPO{c}"]
    raise ValueError(via)


def introspect(handle, ctx, options):
    """(ty tree, opts record, op) for the model"""
    from utype import Options
    if isinstance(handle, tuple):
        kind, obj = handle
        if kind == "fn":
            raise Unsupported("function with typed *args / **kwargs (oracle only)")
        if kind == "gen":
            raise Unsupported("generator yield / send / return slots (oracle only)")
        p = obj.__parser__
        p.resolve_forward_refs()
        if kind == "return":
            T = p.return_type
        else:
            T = p.fields["f"].type
        return tree(T, ctx), opts_of(p.options)
    if handle in ctx.datas and options is None:
        return {"data": ctx.datas.index(handle)}, None
    return tree(handle, ctx), opts_of(options)


def dec_case_value(case, ctx):
    if case["via"] == "gen":
        v = case["value"]
        return {"yields": [dec(x, ctx) for x in v["yields"]], "sends": [dec(x, ctx) for x in v["sends"]], "ret": dec(v["ret"], ctx)}
    if case["via"] == "fn":
        v = case["value"]
        return {"args": [dec(x, ctx) for x in v["args"]], "kwargs": {k: dec(x, ctx) for k, x in v["kwargs"].items()}}
    return dec(case["value"], ctx)


def impl(case):
    out = {}
    try:
        ctx = Ctx(case)
    except Exception as e:
        return {"decl": f"{type(e).__name__}: {e}"[:200]}
    _CUR_CTX[0] = ctx
    try:
        try:
            thunk, handle, options = build_call(case, ctx, False)
            thunk_c, _h, _o = build_call(case, ctx, True) if case["via"] != "call" else (None, None, None)
        except Exception as e:
            return {"decl": f"{type(e).__name__}: {e}"[:200]}
        try:
            value = dec_case_value(case, ctx)
        except Exception as e:
            return {"decl": f"value: {type(e).__name__}: {e}"[:200]}
        if case["via"] == "init" and not (isinstance(value, dict) and all(isinstance(k, str) for k in value)):
            return {"decl": "init needs a str-keyed dict"}
        if case["via"] == "fn":
            if not (isinstance(value, dict) and isinstance(value.get("args"), list) and isinstance(value.get("kwargs"), dict)
                    and all(isinstance(k, str) for k in value["kwargs"])):
                return {"decl": "fn needs {'args': [...], 'kwargs': {str: ...}}"}
        out["out"], live = _run(lambda: thunk(value), ctx)
        if thunk_c is not None and case["via"] != "init":
            value2 = dec_case_value(case, ctx)
            out["out_collect"], live_c = _run(lambda: thunk_c(value2), ctx)
        # the tree utype built (after the first parse: forward references are resolved by then)
        try:
            t, o = introspect(handle, ctx, options)
            out["tree"] = t
            out["topts"] = o
            out["env"] = env_of(ctx)
        except Unsupported as e:
            out["unsupported"] = str(e)
        except Exception as e:
            out["unsupported"] = f"introspection: {type(e).__name__}: {e}"[:200]
        # the oracle, on the live objects
        o = case.get("opts") or {}
        safe = opts_safe(o) and all(opts_safe(d.get("opts") or {}) and
                                    all(f.get("on_error") != "preserve" for f in d["fields"])
                                    for d in case.get("datas", []))
        out["safe"] = safe
        if safe:
            for key, res in (("out", live), ("out_collect", locals().get("live_c"))):
                if key in out and "ok" in out[key]:
                    try:
                        if case["via"] == "gen":
                            conforms_gen(case["gen"], res, ctx, o)
                        elif case["via"] == "fn":
                            conforms_fn(case["fn"], res, ctx, o)
                        else:
                            conforms(case["ty"], res, ctx, o)
                            if res is not None:
                                check_cons(case.get("fcons"), res, case["ty"])      # constraints given at the use site
                    except Viol as v:
                        out.setdefault("viol", {})[key] = v.info
        return out
    finally:
        ctx.close()


# ------------------------------------------------------------------------------------------------
# the model side: line for drivers/C01.lean, Py prims, prim-miss loop
# ------------------------------------------------------------------------------------------------

def _walk_json_values(j, acc):
    """all Python scalars inside an encoded value"""
    if j is None or isinstance(j, bool):
        acc.append(j)
        return
    if isinstance(j, dict):
        if "i" in j:
            acc.append(int(j["i"]))
        elif "f" in j:
            acc.append(c12.dec_float(j["f"]))
        elif "d" in j:
            acc.append(c12.dec_dec(j["d"]))
        elif "s" in j:
            acc.append(j["s"])
        elif "b" in j:
            raw = bytes.fromhex(j["b"])
            for errors in ("strict", "ignore"):
                try:
                    acc.append(raw.decode(errors=errors))
                except Exception:
                    pass
        elif "q" in j:
            for x in j["q"]:
                _walk_json_values(x, acc)
        elif "m" in j:
            for k, v in j["m"]:
                _walk_json_values(k, acc)
                _walk_json_values(v, acc)
        elif "l" in j or "t" in j or "S" in j or "F" in j:
            for x in (j.get("l") or j.get("t") or j.get("S") or j.get("F") or []):
                _walk_json_values(x, acc)


def _tree_cons(t, acc):
    if isinstance(t, dict):
        if "applied" in t:
            _tree_cons(t["inner"], acc)
            return
        if "rule" in t:
            for n, b in t["rule"]["vs"]:
                acc.append((n, pyval.decode(b)))
            if t["rule"]["origin"] is not None:
                _tree_cons(t["rule"]["origin"], acc)
            for a in t["rule"]["args"]:
                _tree_cons(a, acc)
        elif "comb" in t:
            for a in t["args"]:
                _tree_cons(a, acc)


def _subvalues(j, acc):
    acc.append(j)
    if isinstance(j, dict):
        if "q" in j:
            for x in j["q"]:
                _subvalues(x, acc)
        elif "m" in j:
            for k, v in j["m"]:
                _subvalues(k, acc)
                _subvalues(v, acc)


PRIM_VALIDATORS = {"regex", "decimal_places", "max_digits", "lax_decimal_places", "lax_max_digits", "length", "max_length",
                   "min_length", "lax_length", "lax_max_length"}


def _prim_classes(t, acc):
    """classes whose converted values reach a validator that consults a CPython builtin (`str(float)`, `Decimal(str(x))`,
    `round`, `re.fullmatch`)"""
    if isinstance(t, dict):
        if "applied" in t:
            _prim_classes(t["inner"], acc)
            return
        if "rule" in t:
            r = t["rule"]
            names = {n for n, _ in r["vs"]}
            o = r["origin"]
            if names & PRIM_VALIDATORS:
                if isinstance(o, dict) and "cls" in o:
                    if o["cls"] in ("float", "Decimal", "int", "str", "bool") and ("regex" in names or o["cls"] in ("float", "Decimal")):
                        acc.add({"float": float, "Decimal": Decimal, "int": int, "str": str, "bool": int}[o["cls"]])
                else:
                    acc.update((float, Decimal, str))
            if o is not None:
                _prim_classes(o, acc)
            for a in r["args"]:
                _prim_classes(a, acc)
        elif "comb" in t:
            for a in t["args"]:
                _prim_classes(a, acc)


def _real_conversions(case, io) -> list:
    """what the real converters make of every sub-value of the input for the scalar classes validators see (so that the
    Py-prim tables hold the floats / Decimals / texts that reach a validator after a conversion)"""
    classes = set()
    _prim_classes(io.get("tree"), classes)
    for d in (io.get("env") or {}).get("datas", []):
        for f in d["fields"]:
            _prim_classes(f["ty"], classes)
    if not classes:
        return []
    if str(REPO) not in sys.path:
        sys.path.insert(0, str(REPO))
    try:
        from utype import Options, type_transform
    except Exception:
        return []
    subs = []
    _subvalues(case["value"], subs)
    envc = c12.enum_classes(case.get("enums", []))
    out = []
    o = case.get("opts") or {}
    flagsets = {(False, False), (bool(o.get("nec")), bool(o.get("ndl"))), (True, True), (False, True)}
    for j in subs[:16]:
        try:
            x = c12.dec(j, envc)
        except Exception:
            continue
        for cls in classes:
            for nec, ndl in flagsets:
                try:
                    y = type_transform(x, cls, options=Options(no_explicit_cast=nec, no_data_loss=ndl))
                except BaseException:
                    continue
                if isinstance(y, int) and not isinstance(y, bool) and abs(y) > 10 ** 40:
                    continue
                if isinstance(y, str) and len(y) > 200:
                    continue
                out.append(y)
    return out


def pyprims_for(case, io) -> dict:
    """CPython builtins the generated validators take as parameters, for every scalar that can reach a validator:
    the scalars of the input, of the results, of the constraint values, their float / Decimal / str conversions and
    the roundings a lax constraint can apply (same closure as harness/c02.prims_for)."""
    cons = []
    _tree_cons(io.get("tree"), cons)
    for d in (io.get("env") or {}).get("datas", []):
        for f in d["fields"]:
            _tree_cons(f["ty"], cons)
    if not cons:
        return {"floatRepr": [], "decStr": [], "floatToDec": [], "floatRound": [], "re": []}
    vals = [0.0, 1.0, Decimal(0), Decimal(1), 0, 1, "", True, False]
    _walk_json_values(case["value"], vals)
    for k in ("out", "out_collect"):
        if k in io and "ok" in io[k]:
            _walk_json_values(io[k]["ok"], vals)
    for _, b in cons:
        vals += list(pyval.walk(b))
    vals += _real_conversions(case, io)
    more = []
    for x in list(vals):
        if isinstance(x, str):
            s = x.strip()
            for conv in (float, Decimal, int):
                try:
                    y = conv(s)
                    if not (isinstance(y, int) and abs(y) > 10 ** 40):
                        more.append(y)
                except Exception:
                    pass
        elif isinstance(x, (int, bool)) and not isinstance(x, bool) and abs(x) < 10 ** 40:
            try:
                more.append(float(x))
            except Exception:
                pass
            more.append(Decimal(x))
        elif isinstance(x, float):
            try:
                more.append(Decimal(str(x)))
            except Exception:
                pass
            if math.isfinite(x) and abs(x) < 1e40:
                more.append(int(x))
        elif isinstance(x, Decimal):
            try:
                more.append(float(x))
                if x.is_finite() and abs(x) < 10 ** 40:
                    more.append(int(x))
            except Exception:
                pass
    vals += more
    ints = {x for x in vals if type(x) is int and abs(x) < 40}
    ks = ints | set(range(0, 24))
    floats = [x for x in vals if type(x) is float]
    seen = set(map(repr, floats))
    frontier = list(floats)
    for _ in range(2):
        nxt = []
        for x in frontier:
            for k in ks:
                try:
                    y = round(x, k)
                except Exception:
                    continue
                if type(y) is float and repr(y) not in seen:
                    seen.add(repr(y))
                    nxt.append(y)
        vals += nxt
        frontier = nxt
    fr, ds, fd, rd, rex = [], [], [], [], []
    done_f, done_d = set(), set()
    strs = set()
    for x in vals:
        if type(x) is float:
            if repr(x) in done_f:
                continue
            done_f.add(repr(x))
            e = pyval.encode(x)["f"]
            fr.append([e, repr(x)])
            strs.add(repr(x))
            try:
                fd.append([e, pyval.encode(Decimal(str(x)))["d"]])
            except InvalidOperation:
                fd.append([e, None])
            for k in ks:
                try:
                    rd.append([e, str(k), pyval.encode(round(x, k))["f"]])
                except Exception:
                    pass
        elif type(x) is Decimal:
            if str(x) in done_d:
                continue
            done_d.add(str(x))
            ds.append([pyval.encode(x)["d"], str(x)])
            strs.add(str(x))
        elif isinstance(x, str):
            strs.add(x)
        elif x is None or isinstance(x, (bool, int)):
            strs.add(str(x))
    pats = [b for n, b in cons if n == "regex" and isinstance(b, str)]
    for p in pats:
        for s in strs:
            try:
                rex.append([p, s, re.fullmatch(p, s) is not None])
            except Exception:
                pass
    return {"floatRepr": fr, "decStr": ds, "floatToDec": fd, "floatRound": rd, "re": rex}


def model_line(case, io):
    if "tree" not in io or case["via"] in ("fn", "gen"):
        return None
    line = {"env": io["env"], "fuel": FUEL, "prims": {}, "pyprims": pyprims_for(case, io)}
    if case["via"] == "init":
        line.update(op="schema", data=case["ty"]["data"], value=case["value"])
    else:
        op = {"field": "field", "param": "field", "return": "return"}.get(case["via"], "parse")
        line.update(op=op, ty=io["tree"], value=case["value"], opts=io["topts"])
    return line


class ModelProc(c12.ModelProc):
    def run1(self, line: dict, max_rounds: int = 300):
        envc = c12.enum_classes(line["env"]["enums"])
        prims = line["prims"]
        for _ in range(max_rounds):
            ans = self.ask(line)
            miss = c12._find_miss(ans)
            if miss is None:
                return ans
            try:
                m = json.loads(miss[len("prim-miss:"):])
                for table, key, outcome in c12.resolve_prim(m["prim"], m["arg"], envc):
                    if c12._has_unencodable(outcome):
                        outcome = {"unmodelled": "builtin result outside the value universe"}
                    prims.setdefault(table, {})[key] = outcome
            except Exception as e:
                return {"driver-error": f"prim resolution failed: {type(e).__name__}: {e}", "answer": ans}
        return {"driver-error": "too many prim rounds"}


def run_model(lines: list, jobs: int | None = None) -> list:
    idx = [i for i, l in enumerate(lines) if l is not None]
    out = [None] * len(lines)
    if not idx:
        return out
    jobs = max(1, min(jobs or NCPU, (len(idx) + 99) // 100))

    def work(w):
        mp = None
        try:
            mp = ModelProc("C01")
            for k in range(w, len(idx), jobs):
                i = idx[k]
                try:
                    out[i] = mp.run1(lines[i])
                except Exception as e:
                    out[i] = {"driver-error": f"{type(e).__name__}: {e}"}
                    mp.close()
                    mp = ModelProc("C01")
        finally:
            if mp:
                mp.close()

    ths = [threading.Thread(target=work, args=(w,)) for w in range(jobs)]
    [t.start() for t in ths]
    [t.join() for t in ths]
    return out


# ------------------------------------------------------------------------------------------------
# generator: type trees (20 origins x constraint sets x generics x combinators x data classes) and
# type-directed values
# ------------------------------------------------------------------------------------------------

ENUMS = c12.ENV
SCALARS = ["NoneType", "bool", "int", "float", "complex", "Decimal", "str", "bytes", "bytearray", "memoryview",
           "date", "datetime", "time", "timedelta", "UUID"]
CONTAINERS = ["list", "tuple", "set", "frozenset", "deque", "dict"]
ORIGINS = SCALARS + CONTAINERS          # + Enum classes = the origins with a registered converter
HASHABLE_LEAVES = ["int", "str", "float", "bool", "Decimal", "bytes", "date", "UUID", "NoneType"]
POOLS = None
# which source kinds are worth trying for a target base
SOURCES = {
    "NoneType": ["none", "str_word", "str_misc", "int", "list"],
    "bool": ["bool", "int", "float", "decimal", "str_word", "str_num", "bytes", "list", "none"],
    "int": ["int", "bool", "float", "decimal", "str_num", "str_word", "bytes", "list", "tuple", "complex", "timedelta", "datetime", "none", "str_misc", "enum_mixin"],
    "float": ["float", "int", "bool", "decimal", "str_num", "bytes", "list", "complex", "timedelta", "datetime", "none", "str_misc", "str_inf"],
    "complex": ["complex", "float", "int", "str_num", "tuple", "list", "bytes"],
    "Decimal": ["decimal", "int", "float", "str_num", "bool", "bytes", "list", "complex", "none", "str_misc"],
    "str": ["str_misc", "str_num", "int", "float", "bool", "bytes", "bytearray", "memoryview", "list", "decimal", "none", "date", "uuid", "dict", "enum_plain", "object"],
    "bytes": ["bytes", "bytearray", "memoryview", "str_misc", "int", "list", "float"],
    "bytearray": ["bytes", "bytearray", "str_misc", "int", "list"],
    "memoryview": ["bytes", "memoryview", "str_misc", "int"],
    "date": ["date", "datetime", "str_date", "int", "float", "bytes", "list", "str_misc", "decimal"],
    "datetime": ["datetime", "date", "str_date", "int", "float", "bytes", "list", "str_misc", "decimal", "str_num"],
    "time": ["time", "datetime", "date", "str_time", "str_date", "bytes", "list", "int", "str_misc"],
    "timedelta": ["timedelta", "int", "float", "str_dur", "str_time", "str_num", "bytes", "list", "decimal", "str_misc"],
    "UUID": ["uuid", "str_uuid", "bytes", "bytearray", "int", "float", "list", "str_misc"],
    "list": ["list", "tuple", "set", "frozenset", "deque", "str_struct", "dict", "int", "bytes", "none", "str_misc"],
    "tuple": ["tuple", "list", "set", "str_struct", "dict", "int", "str_misc", "deque"],
    "set": ["set", "list", "tuple", "frozenset", "str_struct", "dict", "int", "str_misc"],
    "frozenset": ["frozenset", "set", "list", "tuple", "str_struct", "str_misc", "dict"],
    "deque": ["deque", "list", "tuple", "str_struct", "int", "str_misc"],
    "dict": ["dict", "list", "tuple", "str_struct", "bytes", "set", "int", "none", "str_misc"],
}


def pools():
    global POOLS
    if POOLS is None:
        POOLS = c12.pool_json()
    return POOLS


def E(v):
    return c12.enc(v, None)


_NO_MIXIN = [0]          # > 0 while generating the conditions of a conjunction
PLAIN_ENUMS = [k for k, e in enumerate(ENUMS) if e.get("mt") is None]


def leaf(rng, hashable=False, subs=True):
    names = HASHABLE_LEAVES if hashable else (SCALARS if rng.random() < 0.85 else CONTAINERS)
    b = rng.choice(names)
    r = rng.random()
    if not hashable and r < 0.08:
        # `&` feeds the value one condition produced into the next one: a member of a mixed-in enum would then be the
        # *input* of another converter, which Conv.lean only models at top level (`modelledInput`)
        return {"enum": rng.choice(PLAIN_ENUMS) if _NO_MIXIN[0] else rng.randrange(len(ENUMS))}
    if not hashable and r < 0.10:
        return {"obj": rng.randrange(2)}
    d = {"t": b}
    if subs and b in c12.SUBS and rng.random() < 0.12:
        d["sub"] = rng.randrange(len(c12.SUBS[b])) + 1
    return d


INT_B = [-3, -1, 0, 1, 2, 3, 5, 10, 100]
PATTERNS = ["[a-z]+", r"\d{3}", ".*", "ab", "a.c", r"[0-9a-f]*", "a|ab", r"\w+-\w+", r"-?\d+(\.\d+)?", r"[01]"]


def PV(v):
    return pyval.encode(v)


def gen_cons(rng, base, allow_lax=True):
    """a constraint set for origin `base` that `validate_constraints` accepts (mostly)"""
    cons = []

    def add(name, val, laxable=True):
        lax = allow_lax and laxable and rng.random() < 0.12
        cons.append([name, PV(val), lax] if lax else [name, PV(val)])

    def num(b):
        if b == "int":
            return rng.choice(INT_B)
        if b == "float":
            return rng.choice([rng.choice(INT_B), rng.randint(-40, 40) / 4])
        return rng.choice([Decimal(rng.choice(["0", "1.5", "-2", "10", "0.25", "99.9"])), rng.choice(INT_B)])

    if base in ("int", "float", "Decimal"):
        r = rng.random()
        if r < 0.12:
            c = num(base)
            if rng.random() < 0.3:
                c = rng.choice([float(c) if isinstance(c, int) else c, int(c) if float(c).is_integer() else c])
            add("const", c)
            return cons
        if r < 0.22:
            add("enum", [num(base) for _ in range(rng.randint(1, 3))])
            return cons
        if r < 0.34:
            # digit counting on its own (or with a lower bound only): numbers of any magnitude reach the validator
            m = rng.choice([1, 2, 3, 4, 6])
            if rng.random() < 0.3:
                add("ge", {"int": 0, "float": 0.0, "Decimal": Decimal(0)}[base])
            if base != "int" and rng.random() < 0.3:
                dp = rng.choice([0, 1, 2])
                add("decimal_places", dp)
                m += dp
            add("max_digits", m)
            return cons
        # bounds: one lower, one upper, of one type (int is tolerated for float / Decimal origins and float for int)
        bt = rng.choice({"int": [int, int, int, float], "float": [float, float, int], "Decimal": [Decimal, int]}[base])
        lo = num(base)
        lo = bt(lo) if bt is not Decimal else Decimal(str(lo))
        if bt is int and isinstance(lo, int):
            pass
        if rng.random() < 0.65:
            n = rng.choice(["gt", "ge"])
            add(n, lo, laxable=(n == "ge"))
        if rng.random() < 0.5:
            hi = lo + bt(rng.choice([2, 5, 10, 100]))
            n = rng.choice(["lt", "le"])
            add(n, hi, laxable=(n == "le"))
        if rng.random() < 0.25 and base != "float":
            add("multiple_of", rng.choice([1, 2, 3, 5, 10]))
        dp = None
        if base in ("float", "Decimal") and rng.random() < 0.3:
            dp = rng.choice([0, 1, 2, 3])
            add("decimal_places", dp)
        if rng.random() < 0.25 and base != "float":
            add("max_digits", rng.choice([1, 2, 3, 5, 8]) + (dp or 0))
        if rng.random() < 0.08:
            add("regex", rng.choice([r"-?\d+(\.\d+)?", r"\d\.\d", r"-?\d+\.\d\d", r"\d+"]), laxable=False)
    elif base in ("str", "bytes", "bytearray", "list", "tuple", "set", "frozenset", "deque", "dict"):
        r = rng.random()
        if base == "str" and r < 0.1:
            add("const", rng.choice(["a", "ab", "1", ""]))
            return cons
        if base == "str" and r < 0.2:
            add("enum", rng.sample(["a", "b", "ab", "1", "true", ""], rng.randint(1, 3)))
            return cons
        if rng.random() < 0.3:
            add("length", rng.choice([0, 1, 2, 3]))
        else:
            lo = rng.choice([0, 1, 2])
            if rng.random() < 0.5:
                add("min_length", lo, laxable=False)
            if rng.random() < 0.6:
                add("max_length", max(1, lo + rng.choice([0, 1, 2, 5])))
        if base == "str" and rng.random() < 0.35:
            add("regex", rng.choice(PATTERNS), laxable=False)
        if base in ("list", "tuple", "set", "frozenset", "deque") and rng.random() < 0.3:
            add("unique_items", True)
    elif base in ("date", "datetime", "time", "timedelta"):
        b = {"date": date(2020, 2, 20), "datetime": datetime(2022, 1, 2, 21, 22, 23), "time": time(11, 12, 13),
             "timedelta": timedelta(hours=1)}[base]
        # bounds of these classes have no PyVal form: such declarations are outside the model (oracle only)
        return []
    if not cons and base in ("int", "str"):
        add("ge", 0) if base == "int" else add("max_length", 3)
    return cons


def gen_type(rng, depth=0, hashable=False, ndatas=0, typing_ok=True, allow_data=True):
    """a declaration descriptor"""
    r = rng.random()
    if depth >= 3 or r < 0.30:
        if not hashable and rng.random() < 0.03:
            return "any"
        return leaf(rng, hashable)
    if r < 0.50:
        b = rng.choice(["int", "int", "float", "Decimal", "str", "str", "bytes"] if not hashable else ["int", "str", "Decimal"])
        if not hashable and rng.random() < 0.07:
            # @utype.apply(...) on a class (a builtin, or a user class)
            base = {"t": b}
            if b in c12.SUBS and rng.random() < 0.5:
                base["sub"] = 1
            return {"apply": {"base": base, "cons": _strict(gen_cons(rng, b, allow_lax=False))}}
        d = {"rule": {"base": {"t": b}, "cons": gen_cons(rng, b)}}
        if depth == 0 and rng.random() < 0.08:
            d["rule"]["ropts"] = gen_opts(rng, unsafe_ok=False)
        if rng.random() < 0.04 and b in c12.SUBS:
            d["rule"]["base"]["sub"] = 1
        if rng.random() < 0.03:
            d["rule"]["base"] = None
            d["rule"]["cons"] = [c for c in d["rule"]["cons"] if c[0] in ("max_length", "min_length", "length", "ge", "gt", "lt", "le", "regex")]
        return d
    if hashable:
        # containers that can be keys / set elements hold scalars only (Conv.pyeq compares set elements as scalars)
        if r < 0.7:
            return {"gen": "frozenset", "args": [leaf(rng, True)], "style": "typing" if typing_ok else "rule"}
        if r < 0.85:
            n = rng.randint(1, 2)
            return {"gen": "tuple", "args": [leaf(rng, True) for _ in range(n)], "style": "typing" if typing_ok else "rule"}
        return leaf(rng, True)
    style = "typing" if (typing_ok and rng.random() < 0.6) else "rule"
    if r < 0.72:
        kind = rng.choice(["list", "list", "set", "frozenset", "deque", "tuple", "vtuple", "dict"])
        d = {"gen": kind, "style": style}
        cons = None
        if style == "rule" and rng.random() < 0.4:
            cons = gen_cons(rng, GEN_BASE[kind])
            # observed: `Rule.annotate` builds the types of typing generics nested in the arguments of a constrained Rule
            # subclass as subclasses of it, so they inherit its constraints (`R[Tuple[int, ...]]` with R.max_length = Lax(2)
            # truncates the inner tuples too).  Declaration processing is not this property's business: spell nested
            # generics as Rule subclasses of their own under a constrained one.
            typing_ok = False
        if kind == "dict":
            d["args"] = [gen_type(rng, depth + 1, True, ndatas, typing_ok, False)]
            if style == "typing" or rng.random() < 0.85:
                d["args"].append(gen_type(rng, depth + 1, False, ndatas, typing_ok, allow_data))
        elif kind == "tuple":
            d["args"] = [gen_type(rng, depth + 1, False, ndatas, typing_ok, allow_data) for _ in range(rng.randint(1, 3))]
        elif kind in ("set", "frozenset"):
            # scalar elements only: `==` between sets of tuples / frozensets is outside Py.eq / Conv.pyeq
            d["args"] = [leaf(rng, True) if rng.random() < 0.7 else
                         {"rule": {"base": {"t": (b := rng.choice(["int", "str", "Decimal"]))}, "cons": gen_cons(rng, b)}}]
        else:
            d["args"] = [gen_type(rng, depth + 1, False, ndatas, typing_ok, allow_data)]
        if style == "rule":
            if cons:
                d["cons"] = cons
            if rng.random() < 0.1 and kind in ("list", "set", "dict", "tuple"):
                d["sub"] = 1
        return d
    if r < 0.80:
        return {"opt": gen_type(rng, depth + 1, False, ndatas, typing_ok, allow_data), "style": style if style == "typing" else "op"}
    if r < 0.95:
        op = rng.choice(["|", "|", "^", "&", "&"])
        n = rng.randint(2, 3)
        if op == "&":
            _NO_MIXIN[0] += 1
            try:
                first = gen_type(rng, depth + 1, False, 0, typing_ok, False)
                args = [first]
                for _ in range(n - 1):
                    k = rng.random()
                    if k < 0.5:
                        args.append({"comb": "~", "args": [gen_type(rng, depth + 2, False, 0, typing_ok, False)], "style": "op"})
                    else:
                        args.append(gen_type(rng, depth + 1, False, 0, typing_ok, False))
            finally:
                _NO_MIXIN[0] -= 1
            args = _dedup_args(args)
            if len(args) < 2:
                return args[0]
            return {"comb": "&", "args": args, "style": "op"}
        args = [gen_type(rng, depth + 1, False, ndatas, typing_ok, allow_data) for _ in range(n)]
        args = _dedup_args(args)
        if len(args) < 2:
            return args[0]
        return {"comb": op, "args": args, "style": "typing" if (op == "|" and style == "typing") else "op"}
    if allow_data and ndatas:
        return {"data": rng.randrange(ndatas)}
    return leaf(rng, hashable)


def _dedup_args(args):
    """`LogicalType.combine` drops repeated conditions and lets `Any` absorb: keep declarations free of both"""
    out = []
    for a in args:
        if a == "any":
            continue
        if a in out:
            continue
        out.append(a)
    return out or ["any"]


FIELD_NAMES = ["a", "b", "c", "d"]


def gen_opts(rng, unsafe_ok=True):
    o = {}
    if rng.random() < 0.2:
        o["nec"] = True
    if rng.random() < 0.2:
        o["ndl"] = True
    r = rng.random()
    if r < 0.12:
        o["addition"] = "yes"
    elif r < 0.24:
        o["addition"] = "no"
    for k in ("items", "keys", "values"):
        r = rng.random()
        if r < 0.15:
            o[k] = "exclude"
        elif r < 0.19 and unsafe_ok:
            o[k] = "preserve"
    r = rng.random()
    if r < 0.08:
        o["unresolved"] = "init"
    elif r < 0.10 and unsafe_ok:
        o["unresolved"] = "ignore"
    if rng.random() < 0.02 and unsafe_ok:
        o["ignore_constraints"] = True
    return o


def gen_datas(rng):
    n = rng.choice([1, 1, 2])
    datas = []
    for k in range(n):
        fields = []
        for name in FIELD_NAMES[: rng.randint(2, 4)]:
            ty = gen_type(rng, depth=1, ndatas=k, typing_ok=True)          # earlier classes only, except:
            if rng.random() < 0.12:
                ty = {"opt": {"data": rng.randrange(k, n)}, "style": "typing"}      # self / forward reference
            elif rng.random() < 0.06:
                ty = {"gen": "list", "args": [{"data": rng.randrange(k, n)}], "style": "typing"}
            f = {"name": name, "ty": ty}
            r = rng.random()
            if "opt" in ty and isinstance(ty, dict) and ty.get("style") == "typing" and "data" in (ty["opt"] if isinstance(ty["opt"], dict) else {}):
                f["default"] = None
            elif r < 0.25:
                f["default"] = gen_value(rng, ty, None, good=0.8, datas=datas)
                if has_x(f["default"]) or _has_data_inst(f["default"]) or _has_sub_container(f["default"]):
                    del f["default"]              # (copy_value rebuilds containers with the builtin class: C19's business)
            elif r < 0.35:
                f["required"] = False
            r = rng.random()
            if r < 0.12:
                if "default" in f or f.get("required") is False:
                    f["on_error"] = "exclude"
            elif r < 0.15:
                f["on_error"] = "preserve"
            elif r < 0.2:
                f["on_error"] = "throw"
            fields.append(f)
        d = {"fields": fields}
        if rng.random() < 0.5:
            d["opts"] = gen_opts(rng, unsafe_ok=rng.random() < 0.3)
        datas.append(d)
    return datas


def _has_data_inst(j) -> bool:
    if isinstance(j, dict):
        if "m" in j and j.get("c", 0) >= DATA_TAG:
            return True
        return any(_has_data_inst(v) for v in j.values())
    if isinstance(j, list):
        return any(_has_data_inst(v) for v in j)
    return False


def _has_sub_container(j) -> bool:
    if isinstance(j, dict):
        if ("q" in j or "m" in j) and j.get("c"):
            return True
        return any(_has_sub_container(v) for v in j.values())
    if isinstance(j, list):
        return any(_has_sub_container(v) for v in j)
    return False


def _pool_value(rng, base, good=0.8):
    kinds = SOURCES.get(base, ["str_misc"])
    r = rng.random()
    if r < good * 0.6:
        kinds = kinds[:2]                  # instances of the class and its closest source kind
    elif r > good + (1 - good) * 0.5:
        kinds = [k for k in pools() if k not in ("float_inf", "decimal_inf", "str_inf")]
    return rng.choice(pools()[rng.choice(kinds)])


def _near(rng, b):
    """python values at and next to a constraint value"""
    out = [b]
    if isinstance(b, bool):
        out += [int(b), str(b), not b]
    elif isinstance(b, int):
        out += [b - 1, b + 1, float(b), str(b), Decimal(b), f"{b}.0", b + rng.randint(2, 9), b - rng.randint(2, 9), [b], str(b).encode()]
    elif isinstance(b, float):
        out += [b + 1, b - 1, str(b), b + 0.25, b - 0.25, int(b) if math.isfinite(b) else 0, Decimal(str(b)) if math.isfinite(b) else 0]
    elif isinstance(b, Decimal):
        out += [b + 1, b - 1, str(b), float(b), b + Decimal("0.1"), b - Decimal("0.01"), int(b)]
    elif isinstance(b, str):
        out += [b + "a", b[:-1], b.upper(), b.encode(), [b]]
    elif isinstance(b, (list, tuple)):
        for x in b:
            out += _near(rng, x)[:4]
    return out


# numbers in every spelling: exponent forms (positive and negative exponents), huge / tiny magnitudes, negative zero
SPELLINGS = [1e16, "1e16", b"2.5e+20", 1e22, "12e15", 1234567.5, "99999999", Decimal("1E+5"), "1E+10", Decimal("123E+2"),
             "12E+3", "1e9", Decimal("5E+30"), 1e300, "7e21", 1e-7, "1e-7", Decimal("1E-7"), Decimal("0E+3"), -0.0, "-0",
             "-0.0", Decimal("-0"), 10 ** 20, -(10 ** 18), "1_000", 5e-324, "0.1e1", "+1.50E+1", Decimal("15E-1"), 2.5e15]


def _cons_values(rng, base, cons):
    """python values steered at the constraints of a rule"""
    vals = []
    for c in cons or []:
        name, b = c[0], pyval.decode(c[1])
        if name in ("gt", "ge", "lt", "le", "const", "enum"):
            vals += _near(rng, b)
            if rng.random() < 0.3:
                vals += SPELLINGS
        elif name == "multiple_of":
            k = rng.randint(-3, 6)
            vals += [k * b, k * b + 1, str(k * b), float(k * b), Decimal(k * b)]
        elif name in ("max_digits", "decimal_places"):
            vals += [Decimal(s) for s in ("1.5", "12.34", "0.001", "123.456", "99.99", "9.995", "100", "1E+2", "0.10")]
            vals += ["12.340", 1.25, 12.5, 123, "1.50", 0.125, 100.5]
            vals += SPELLINGS
        elif name in ("length", "max_length", "min_length"):
            for n in {max(0, b - 1), b, b + 1}:
                if base == "str" or base is None:
                    vals += ["x" * n, "7" * n if n else "", ("ab" * n)[:n].encode()]
                    vals.append(int("1" * n) if n else 0)
                elif base in ("bytes", "bytearray"):
                    vals += [b"y" * n, "z" * n]
                elif base == "dict":
                    vals.append({f"k{i}": i for i in range(n)})
                else:
                    items = list(range(n))
                    vals += [items, tuple(items), ",".join(map(str, items)) if n else "", json.dumps(items)]
                    if n:
                        vals.append([0] * n)
        elif name == "regex":
            vals += ["abc", "123", "ab", "a-b", "abd", "12", "", "a", 123, "0", "1", "-1.5", 0, 1, True, b"abc"]
        elif name == "unique_items":
            vals += [[1, 1], [1, 2, 1], [1, 1.0], ["a", "a"], [1, 2], "1,1", "[1,true]", (2, 2)]
    return vals


def gen_value(rng, d, ctx_unused, good=0.75, datas=None, depth=0):
    """an encoded input value aimed at descriptor `d`"""
    datas = datas or []
    if rng.random() > good or depth > 4:
        if rng.random() < 0.5:
            return rng.choice(pools()[rng.choice([k for k in pools() if k not in ("float_inf", "decimal_inf", "str_inf")])])
        try:
            v = E(c12.random_value(rng))
            if not has_x(v):
                return v
        except Exception:
            pass
        return rng.choice(pools()["str_misc"])
    if d == "any":
        return rng.choice(pools()[rng.choice(["int", "str_misc", "list", "dict", "none", "object"])])
    if "enum" in d:
        k = d["enum"]
        members = ENUMS[k]["members"]
        r = rng.random()
        if r < 0.3:
            i = rng.randrange(len(members))
            first = [n for n, m in enumerate(members) if m[1] == members[i][1]][0]       # an alias IS its canonical member
            return {"e": [k, first]}
        if r < 0.6:
            return rng.choice(members)[1]
        if r < 0.8:
            return E(rng.choice(members)[0])
        return _pool_value(rng, "str")
    if "obj" in d:
        return rng.choice([{"o": d["obj"]}, {"o": 1 - d["obj"]}, E("x"), E(1), None])
    if "t" in d:
        return _pool_value(rng, d["t"], good)
    if "apply" in d:
        base = d["apply"]["base"].get("t")
        vals = _cons_values(rng, base, d["apply"].get("cons"))
        if vals and rng.random() < 0.7:
            bcls = c12._cls(base, 0)
            cls = c12._cls(base, d["apply"]["base"].get("sub", 0))
            inst = [x for x in vals if type(x) is bcls]
            for _ in range(4):
                try:
                    if inst and rng.random() < 0.6:
                        x = cls(rng.choice(inst))          # an instance of the decorated class: handed back as it is
                    else:
                        x = rng.choice(vals)
                    j = E(x)
                    if not has_x(j):
                        return j
                except Exception:
                    continue
        return _pool_value(rng, base or "str", good)
    if "rule" in d:
        base = (d["rule"].get("base") or {}).get("t")
        vals = _cons_values(rng, base, d["rule"].get("cons"))
        if vals and rng.random() < 0.8:
            for _ in range(5):
                try:
                    j = E(rng.choice(vals))
                except Exception:
                    continue
                if not has_x(j):
                    return j
        return _pool_value(rng, base or "str")
    if "gen" in d:
        kind = d["gen"]
        if d.get("cons") and rng.random() < 0.4:
            vals = _cons_values(rng, GEN_BASE[kind], d["cons"])
            if vals:
                try:
                    j = E(rng.choice(vals))
                    if not has_x(j):
                        return j
                except Exception:
                    pass
        if kind == "dict":
            n = rng.choice([0, 1, 1, 2, 3])
            pairs = []
            for _ in range(n):
                k = gen_value(rng, d["args"][0], None, 0.85, datas, depth + 1)
                v = gen_value(rng, d["args"][1], None, 0.85, datas, depth + 1) if len(d["args"]) > 1 else rng.choice(pools()["int"])
                if not _hashable_json(k):
                    k = E("k%d" % len(pairs))
                if any(vkey(k) == vkey(p[0]) or _py_eq(k, p[0]) for p in pairs):
                    continue
                pairs.append([k, v])
            r = rng.random()
            if r < 0.75:
                return {"m": pairs}
            if r < 0.85:
                return {"q": [{"q": [k, v], "k": rng.choice(["tuple", "list"])} for k, v in pairs], "k": "list"}
            return _jsonish(rng, {"m": pairs}) or {"m": pairs}
        if kind == "tuple":
            items = [gen_value(rng, a, None, 0.85, datas, depth + 1) for a in d["args"]]
            r = rng.random()
            if r < 0.12 and items:
                items = items[:-1]
            elif r < 0.3:
                items.append(rng.choice(pools()["int"]))
        else:
            n = rng.choice([0, 1, 1, 2, 2, 3])
            items = [gen_value(rng, d["args"][0], None, 0.85, datas, depth + 1) for _ in range(n)]
        r = rng.random()
        ck = rng.choice(["list", "list", "tuple", GEN_BASE[kind], "deque"])
        if ck in ("set", "frozenset"):
            items = [x for x in items if _hashable_json(x)][:1]          # multi-element sets iterate in hash order
        if r < 0.8:
            return {"q": items, "k": ck}
        j = _jsonish(rng, {"q": items, "k": "list"})
        return j or {"q": items, "k": ck}
    if "opt" in d:
        r = rng.random()
        if r < 0.25:
            return None
        if r < 0.32:
            return E(rng.choice(["null", "None", "nil", ""]))
        return gen_value(rng, d["opt"], None, good, datas, depth + 1)
    if "comb" in d:
        if d["comb"] == "~":
            return gen_value(rng, d["args"][0], None, 0.5, datas, depth + 1)
        return gen_value(rng, rng.choice(d["args"]), None, good, datas, depth + 1)
    if "data" in d:
        return gen_data_value(rng, d["data"], datas, depth)
    if "late" in d and d["late"] < len(_LATES[0]):
        return gen_value(rng, _LATES[0][d["late"]], None, good, datas, depth)
    return rng.choice(pools()["str_misc"])


_LATES = [[]]          # the late classes of the case being generated (gen_value resolves {"late": k} through it)


def _base_of(ty, lates):
    if isinstance(ty, dict):
        if "late" in ty and ty["late"] < len(lates):
            return _base_of(lates[ty["late"]], lates)
        if "rule" in ty:
            return (ty["rule"].get("base") or {}).get("t")
        if "apply" in ty:
            return ty["apply"]["base"].get("t")
        if "t" in ty:
            return ty["t"]
        if "gen" in ty:
            return GEN_BASE[ty["gen"]]
    return None


def _as_text(j):
    try:
        v = c12.dec(j, None)
        if isinstance(v, (int, float, Decimal)) and not isinstance(v, bool):
            return E(str(v))
    except Exception:
        pass
    return j


def gen_data_value(rng, k, datas, depth=0):
    if k >= len(datas):
        return {"m": []}
    decl = datas[k]
    pairs = []
    for f in eff_fields(datas, k):
        r = rng.random()
        if r < (0.25 if ("default" in f or f.get("required") is False) else 0.04):
            continue
        if f.get("fcons") and rng.random() < 0.5:
            base = _base_of(f["ty"], _LATES[0])
            vals = _cons_values(rng, base, f["fcons"])
            try:
                pairs.append([E(f["name"]), E(rng.choice(vals))])
                continue
            except Exception:
                pass
        if (_LATES[0] or decl.get("base") is not None or any("base" in x for x in datas)) and rng.random() < 0.6:
            pv = pick_valid(rng, f["ty"], _LATES[0])
            if pv is not None:
                # (a valid instance, or its text: converted on the way in)
                pairs.append([E(f["name"]), pv if rng.random() < 0.6 else _as_text(pv)])
                continue
        if depth > 2 and isinstance(f["ty"], dict) and ("opt" in f["ty"] or "gen" in f["ty"]):
            v = None if "opt" in f["ty"] else {"q": [], "k": "list"}
        else:
            v = gen_value(rng, f["ty"], None, 0.96, datas, depth + 1)
        pairs.append([E(f["name"]), v])
    if rng.random() < 0.25:
        pairs.append([E(rng.choice(["z", "extra", "A"])), rng.choice(pools()["int"])])
    rng.shuffle(pairs)
    r = rng.random()
    if r < 0.75:
        return {"m": pairs}
    if r < 0.85:
        return {"q": [{"m": pairs}], "k": rng.choice(["list", "tuple"])}
    if r < 0.92:
        return {"q": [{"q": [a, b], "k": "tuple"} for a, b in pairs], "k": "list"}
    return _jsonish(rng, {"m": pairs}) or {"m": pairs}


def _hashable_json(j) -> bool:
    if isinstance(j, dict):
        if "m" in j or j.get("k") in ("list", "set", "deque", "bytearray"):
            return False
        if "q" in j:
            return j.get("k") == "frozenset" or all(_hashable_json(x) for x in j["q"])
        if "d" in j and j["d"] == "snan":
            return False
    return True


def _py_eq(a, b) -> bool:
    try:
        return bool(c12.dec(a, None) == c12.dec(b, None))
    except Exception:
        return False


def _jsonish(rng, j):
    """the JSON / comma text of a simple container value, or None"""
    try:
        v = c12.dec(j, None)
        if isinstance(v, dict):
            if not all(isinstance(k, str) for k in v):
                return None
            return E(json.dumps(v))
        items = list(v)
        if rng.random() < 0.5:
            return E(json.dumps(items))
        if all(isinstance(x, (int, str)) and not isinstance(x, bool) for x in items) and items:
            return E(rng.choice([",", ", ", ";"]).join(str(x) for x in items))
    except Exception:
        return None
    return None


VIAS = ["transform", "transform", "call", "field", "field", "param", "return"]


LATE_BASES = ["int", "int", "float", "Decimal", "str"]


def _strict(cons):
    return [c[:2] for c in cons]


def gen_fcons(rng, base, cons):
    """constraints given at the use site (`Field(...)` / `Param(...)`) that are compatible with those of the class"""
    names = {c[0] for c in cons}
    out = []
    if base in ("int", "float", "Decimal"):
        if "const" in names or "enum" in names:
            return []
        # a bound given in Field(...) for a Rule-subclass annotation must be of the class's own number type
        num = {"int": lambda x: int(x), "float": float, "Decimal": lambda x: Decimal(str(x))}[base]
        lows = [pyval.decode(c[1]) for c in cons if c[0] in ("gt", "ge")]
        highs = [pyval.decode(c[1]) for c in cons if c[0] in ("lt", "le")]
        if any(type(x) is not type(num(0)) for x in lows + highs):
            return []                       # (min and max bounds must be of one type)
        if not highs:
            lo = lows[0] if lows else 0
            out.append([rng.choice(["le", "lt"]), PV(num(lo) + num(rng.choice([3, 10, 100])))])
        elif not lows:
            hi = highs[0]
            out.append(["ge", PV(num(hi) - num(rng.choice([3, 10, 100])))])
        elif "max_digits" not in names and base != "float":
            out.append(["max_digits", PV(rng.choice([2, 3, 5]))])
    elif base == "str":
        if not names & {"length", "max_length", "min_length", "const", "enum"}:
            out.append(["max_length", PV(rng.choice([1, 2, 4]))])
    elif base in ("list", "tuple", "set"):
        out.append(["max_length", PV(rng.choice([1, 2, 3]))])
    return out


def pick_valid(rng, ty, lates=()):
    """an encoded value that is an instance of the (scalar) declared type and satisfies its strict constraints, or None"""
    base = _base_of(ty, list(lates))
    cons = []
    t = ty
    if isinstance(t, dict) and "late" in t:
        t = lates[t["late"]]
    if isinstance(t, dict) and "rule" in t:
        cons = t["rule"].get("cons") or []
    if base not in ("int", "float", "Decimal", "str", "bool"):
        return None
    cls = {"int": int, "float": float, "Decimal": Decimal, "str": str, "bool": bool}[base]
    cands = [x for x in _cons_values(rng, base, cons) if type(x) is cls]
    cands += {"int": [1, 2, 5, 10, 20, 50], "float": [0.5, 1.0, 2.5, 10.0], "Decimal": [Decimal("1"), Decimal("2.5"), Decimal("10")],
              "str": ["a", "ab", "AB", "123"], "bool": [True, False]}[base]
    rng.shuffle(cands)
    for x in cands:
        try:
            if all(sat(n, x, b) for n, b in strict_cons(cons)):
                return E(x)
        except Exception:
            continue
    return None


def gen_late_case(rng):
    """types reached through string annotations naming classes defined LATER in the module, with Field / Param constraints
    at the use site: data-class fields, function parameters and return annotations"""
    lates = []
    for _ in range(rng.choice([1, 1, 2])):
        b = rng.choice(LATE_BASES)
        lates.append({"rule": {"base": {"t": b}, "cons": _strict(gen_cons(rng, b, allow_lax=False))}})
    _LATES[0] = lates
    try:
        def use(allow_gen=True):
            k = rng.randrange(len(lates))
            ty = {"late": k}
            base = lates[k]["rule"]["base"]["t"]
            cons0 = lates[k]["rule"]["cons"]
            if rng.random() < 0.35:
                # the same use-site constraints on a type that is known at declaration time
                ty = dict(lates[k]) if rng.random() < 0.5 else {"t": base}
                cons0 = cons0 if "rule" in ty else []
            fc = gen_fcons(rng, base, cons0) if rng.random() < 0.75 else []
            f = {"ty": ty}
            if allow_gen and rng.random() < 0.3:
                kind = rng.choice(["list", "list", "opt", "tuple"])
                if kind == "opt":
                    f["ty"] = {"opt": ty, "style": "typing"}
                    fc = []
                else:
                    f["ty"] = {"gen": {"list": "list", "tuple": "vtuple"}[kind], "args": [ty], "style": "typing"}
                    fc = gen_fcons(rng, "list", []) if rng.random() < 0.6 else []
                if rng.random() < 0.5:
                    f["strann"] = True
            if fc:
                f["fcons"] = fc
                if rng.random() < 0.5 and not f.get("strann"):
                    # the Field / Param inside Annotated[...], at any position among doc strings and foreign markers
                    n = rng.choice([1, 2, 2, 3])
                    f["annotated"] = {"n": n, "pos": rng.randrange(n), "salt": rng.randrange(2)}
            return f
        r = rng.random()
        if r < 0.45:
            fields = []
            for name in FIELD_NAMES[: rng.randint(1, 3)]:
                f = use()
                f["name"] = name
                if rng.random() < 0.25:
                    dv = pick_valid(rng, f["ty"], lates)
                    if dv is not None and not f.get("fcons"):
                        f["default"] = dv
                fields.append(f)
            d = {"fields": fields}
            if rng.random() < 0.3:
                d["opts"] = gen_opts(rng, unsafe_ok=False)
            datas = [d]
            case = {"ty": {"data": 0}, "via": rng.choice(["init", "init", "transform"]), "datas": datas,
                    "value": gen_data_value(rng, 0, datas), "enums": ENUMS, "lates": lates}
            if case["via"] == "init" and not (isinstance(case["value"], dict) and "m" in case["value"] and
                                               all(isinstance(p[0], dict) and "s" in p[0] and not p[0].get("c") for p in case["value"]["m"])):
                case["via"] = "transform"
            return case
        f = use(allow_gen=r < 0.8)
        via = rng.choice(["field", "param", "param", "return"])
        case = {"ty": f["ty"], "via": via, "enums": ENUMS, "lates": lates}
        if f.get("strann"):
            case["strann"] = True
        if f.get("fcons") and via != "return":
            case["fcons"] = f["fcons"]
            if f.get("annotated"):
                case["annotated"] = f["annotated"]
        base = _base_of(f["ty"], lates)
        vals = _cons_values(rng, base, case.get("fcons")) if case.get("fcons") and rng.random() < 0.6 else None
        if vals:
            try:
                case["value"] = E(rng.choice(vals))
            except Exception:
                vals = None
        if not vals:
            pv = pick_valid(rng, f["ty"], lates) if rng.random() < 0.6 else None
            case["value"] = (pv if rng.random() < 0.6 else _as_text(pv)) if pv is not None else gen_value(rng, f["ty"], None, 0.85)
        o = gen_opts(rng, unsafe_ok=False)
        if via in ("param", "return"):
            o.pop("addition", None)
        if o:
            case["opts"] = o
        return case
    finally:
        _LATES[0] = []


def gen_inherit_case(rng):
    """a chain of three or four data classes: typed fields declared at the top, re-declared further down WITHOUT annotation
    by a bare default or a bare Field(...)"""
    depth = rng.choice([3, 3, 4])
    top = []
    for name in FIELD_NAMES[: rng.randint(2, 3)]:
        b = rng.choice(["int", "int", "float", "str", "Decimal"])
        ty = {"rule": {"base": {"t": b}, "cons": _strict(gen_cons(rng, b, allow_lax=False))}} if rng.random() < 0.7 else {"t": b}
        f = {"name": name, "ty": ty}
        dv = pick_valid(rng, ty)
        if dv is not None and rng.random() < 0.7:
            f["default"] = dv
        top.append(f)
    datas = [{"fields": top}]
    for lvl in range(1, depth):
        d = {"base": lvl - 1, "fields": []}
        if rng.random() < 0.5:
            d["fields"].append({"name": f"n{lvl}", "ty": leaf(rng, False, subs=False), "required": False})
        if lvl == depth - 1 or rng.random() < 0.3:
            ovs = []
            for f in rng.sample(top, rng.randint(1, len(top))):
                dv = pick_valid(rng, f["ty"])
                if dv is None:
                    continue
                if rng.random() < 0.5:
                    ovs.append({"name": f["name"], "kind": "default", "default": dv})
                else:
                    base = _base_of(f["ty"], [])
                    cons = (f["ty"].get("rule") or {}).get("cons") or [] if isinstance(f["ty"], dict) else []
                    ov = {"name": f["name"], "kind": "field", "fcons": gen_fcons(rng, base, cons)}
                    if rng.random() < 0.6:
                        ov["default"] = dv
                    ovs.append(ov)
            if ovs:
                d["overrides"] = ovs
        if rng.random() < 0.3:
            d["opts"] = gen_opts(rng, unsafe_ok=False)
        datas.append(d)
    k = depth - 1 if rng.random() < 0.8 else rng.randrange(depth)
    case = {"ty": {"data": k}, "via": rng.choice(["init", "init", "transform", "field"]), "datas": datas,
            "value": gen_data_value(rng, k, datas), "enums": ENUMS}
    if case["via"] == "init" and not (isinstance(case["value"], dict) and "m" in case["value"] and
                                       all(isinstance(p[0], dict) and "s" in p[0] and not p[0].get("c") for p in case["value"]["m"])):
        case["via"] = "transform"
    return case


def gen_fn_case(rng):
    """a decorated function with `*args: T` / `**kwargs: T` under decorator Options"""
    def pty():
        r = rng.random()
        if r < 0.5:
            return {"t": rng.choice(["int", "int", "str", "float", "bool", "Decimal"])}
        if r < 0.85:
            b = rng.choice(["int", "str", "float"])
            return {"rule": {"base": {"t": b}, "cons": _strict(gen_cons(rng, b, allow_lax=False))}}
        return {"gen": "list", "args": [{"t": "int"}], "style": "typing"}
    params = []
    for name in ["p", "q"][: rng.randint(0, 2)]:
        f = {"name": name, "ty": pty()}
        base = _base_of(f["ty"], [])
        if base in ("int", "float", "str", "Decimal", "list") and rng.random() < 0.4:
            cons0 = (f["ty"].get("rule") or {}).get("cons") or [] if isinstance(f["ty"], dict) else []
            fc = gen_fcons(rng, base, cons0)
            if fc:
                f["fcons"] = fc
                if rng.random() < 0.5:
                    n = rng.choice([1, 2, 3])
                    f["annotated"] = {"n": n, "pos": rng.randrange(n), "salt": rng.randrange(2)}
        params.append(f)
    for f in params[1:]:
        dv = pick_valid(rng, f["ty"])
        if dv is not None and rng.random() < 0.5:
            f["default"] = dv
    fn = {"params": params, "varargs": pty() if rng.random() < 0.5 else None, "varkw": pty() if rng.random() < 0.8 else None}
    if fn["varargs"] is None and fn["varkw"] is None:
        fn["varkw"] = pty()
    def pval(f):
        if f.get("fcons") and rng.random() < 0.5:
            try:
                return E(rng.choice(_cons_values(rng, _base_of(f["ty"], []), f["fcons"])))
            except Exception:
                pass
        pv = pick_valid(rng, f["ty"]) if rng.random() < 0.85 else None
        return pv if pv is not None else gen_value(rng, f["ty"], None, 0.95)
    args = [pval(f) for f in params if "default" not in f or rng.random() < 0.7]
    if len(args) < len([f for f in params if "default" not in f]):
        args = [pval(f) for f in params]
    if fn["varargs"] is not None and len(args) == len(params):
        args += [gen_value(rng, fn["varargs"], None, 0.7) for _ in range(rng.choice([0, 1, 2]))]
    kwargs = {}
    if fn["varkw"] is not None:
        for name in rng.sample(["x", "y", "zz"], rng.choice([0, 1, 1, 2])):
            kwargs[name] = gen_value(rng, fn["varkw"], None, 0.6)
    o = gen_opts(rng, unsafe_ok=rng.random() < 0.15)
    if fn["varkw"] is None:
        o.pop("addition", None)
    elif rng.random() < 0.5:
        o["addition"] = "yes"
    case = {"ty": "any", "via": "fn", "fn": fn, "value": {"args": args, "kwargs": kwargs}, "enums": ENUMS}
    if o:
        case["opts"] = o
    return case


def gen_disc_case(rng):
    """a field whose type is a union of data classes selected by a discriminator (`Field(discriminator='kind')`,
    field.py:1057-1092: the type is chosen from `discriminator_map`, the value made a dict first).  Outside the model."""
    tags = ["a", "b", "cc"][: rng.choice([2, 2, 3])]
    datas = []
    for i, tag in enumerate(tags):
        kf = {"name": "kind", "ty": {"rule": {"base": {"t": "str"}, "cons": [["const", PV(tag)]]}}}
        if rng.random() < 0.3:
            kf["default"] = E(tag)
        b = rng.choice(["int", "str", "float"])
        ty = {"t": b} if rng.random() < 0.5 else {"rule": {"base": {"t": b}, "cons": _strict(gen_cons(rng, b, allow_lax=False))}}
        datas.append({"fields": [kf, {"name": "xyz"[i], "ty": ty}]})
    n = len(datas)
    union = {"comb": "|", "args": [{"data": i} for i in range(n)], "style": "typing"}
    top = {"fields": [{"name": "item", "ty": union, "discriminator": "kind"}]}
    if rng.random() < 0.3:
        top["fields"][0]["ty"] = {"opt": union, "style": "typing"}
        top["fields"][0]["default"] = None
    if rng.random() < 0.3:
        top["opts"] = gen_opts(rng, unsafe_ok=False)
    datas.append(top)
    i = rng.randrange(n)
    tag = rng.choice([tags[i], tags[i], tags[i], "zz", tags[(i + 1) % n]])
    inner = [[E("kind"), E(tag)]]
    f = datas[i]["fields"][1]
    pv = pick_valid(rng, f["ty"]) if rng.random() < 0.7 else None
    inner.append([E(f["name"]), (pv if rng.random() < 0.6 else _as_text(pv)) if pv is not None else gen_value(rng, f["ty"], None, 0.8)])
    if rng.random() < 0.2:
        inner = inner[1:]
    item = {"m": inner}
    r = rng.random()
    if r < 0.15:
        item = _jsonish(rng, item) or item
    elif r < 0.25:
        item = {"q": [{"q": [a, b], "k": "tuple"} for a, b in inner], "k": "list"}
    elif r < 0.3:
        item = None
    return {"ty": {"data": n}, "via": "init", "datas": datas, "value": {"m": [[E("item"), item]]}, "enums": ENUMS}


FALSY = [E(""), E(0), E(0.0), E(b""), E(()), E([]), {"m": []}, False, E(Decimal("0")), {"q": [], "k": "set"}]


def gen_gen_case(rng):
    """a decorated generator function `-> Generator[Yield, Send, Return]`: the three slots, with falsy values of other types
    (`''`, `0`, `0.0`, `b''`, `()`, `[]`, `{}`, `False`) among what is yielded, sent and returned"""
    def sty():
        r = rng.random()
        if r < 0.45:
            return {"t": rng.choice(["int", "int", "str", "float", "bool", "Decimal", "bytes"])}
        if r < 0.7:
            b = rng.choice(["int", "str", "float"])
            return {"rule": {"base": {"t": b}, "cons": _strict(gen_cons(rng, b, allow_lax=False))}}
        if r < 0.85:
            return {"gen": "list", "args": [{"t": "int"}], "style": "typing"}
        return {"gen": "dict", "args": [{"t": "str"}, {"t": "int"}], "style": "typing"}
    gd = {"yield": sty() if rng.random() < 0.7 else None, "send": sty() if rng.random() < 0.4 else None,
          "ret": sty() if rng.random() < 0.85 else None, "eager": rng.random() < 0.5}
    if rng.random() < 0.25:
        gd["async"] = True
        gd["ret"] = None
        gd["yield"] = gd["yield"] or sty()
    if gd["yield"] is None and gd["ret"] is None:
        gd["ret"] = sty()

    def val(ty, falsy=0.3):
        if rng.random() < falsy:
            return rng.choice(FALSY)
        if ty is None:
            return rng.choice(pools()["int"])
        pv = pick_valid(rng, ty) if rng.random() < 0.6 else None
        return (pv if rng.random() < 0.5 else _as_text(pv)) if pv is not None else gen_value(rng, ty, None, 0.9)
    n = rng.choice([0, 1, 1, 2]) if not gd.get("async") else rng.choice([1, 1, 2, 3])
    value = {"yields": [val(gd["yield"], 0.15) for _ in range(n)],
             "sends": [val(gd["send"], 0.15) if rng.random() < 0.7 else None for _ in range(n)] if gd["send"] is not None else [],
             "ret": val(gd["ret"], 0.45) if rng.random() < 0.9 else None}
    case = {"ty": "any", "via": "gen", "gen": gd, "value": value, "enums": ENUMS}
    o = gen_opts(rng, unsafe_ok=False)
    o.pop("addition", None)
    if o:
        case["opts"] = o
    return case


def gen_unique_case(rng):
    """`unique_items` over arrays whose parsed items are EQUAL BY `==` BUT HASHED BY IDENTITY: instances of utype.DataClass
    subclasses and of `@utype.dataclass(eq=True)` classes (and, for contrast, Schema instances: unhashable) that only
    become equal through the conversion of their fields (`{'x': 1}` and `{'x': '1'}`)"""
    kind = rng.choice(["dataclass", "dataclass", "deco", "deco", None])
    yb = rng.choice(["int", "str", "float", "bool"])
    fields = [{"name": "x", "ty": {"t": "int"}}, {"name": "y", "ty": {"t": yb}}]
    if rng.random() < 0.5:
        fields[1]["default"] = E({"int": 3, "str": "3", "float": 3.0, "bool": True}[yb])
    dd = {"fields": fields}
    if kind:
        dd["kind"] = kind
    arr = rng.choice(["list", "list", "vtuple"])
    uq = [["unique_items", PV(True)]]
    case = {"datas": [dd], "enums": ENUMS}
    if rng.random() < 0.6:
        case["ty"] = {"gen": arr, "args": [{"data": 0}], "style": "typing"}
        case["via"] = rng.choice(["field", "param"])
        case["fcons"] = uq
        if rng.random() < 0.3:
            case["annotated"] = {"n": 2, "pos": rng.randrange(2), "salt": rng.randrange(2)}
    else:
        case["ty"] = {"gen": arr, "args": [{"data": 0}], "style": "rule", "cons": uq}
        case["via"] = rng.choice(["transform", "field", "param", "return"])
    spell = {1: [1, "1", 1.0, True, b"1", Decimal("1")], 2: [2, "2", 2.0, "2.0"], 0: [0, "0", False, 0.0]}
    ysp = {"int": spell, "float": spell, "bool": {1: [True, 1, "true", "1"], 0: [False, 0, "false"]},
           "str": {1: ["a", b"a"], 2: [3, "3"], 0: ["", b""]}}[yb]

    def item(xk, yk):
        pairs = [[E("x"), E(rng.choice(spell[xk]))]]
        if "default" not in fields[1] or rng.random() < 0.7:
            pairs.append([E("y"), E(rng.choice(ysp[yk]))])
        return {"m": pairs}
    n = rng.choice([2, 2, 3])
    keys = [(rng.choice([0, 1, 2]), rng.choice(list(ysp))) for _ in range(n)]
    if rng.random() < 0.65:
        keys[rng.randrange(1, n)] = keys[0]          # two items that are equal once their fields are converted
    if "default" in fields[1] and rng.random() < 0.3:
        keys = [(k[0], k[1]) for k in keys]
    items = [item(*k) for k in keys]
    case["value"] = {"q": items, "k": rng.choice(["list", "list", "tuple"])}
    return case


def gen_case(rng):
    r0 = rng.random()
    if 0.30 <= r0 < 0.325:
        return gen_unique_case(rng)
    if r0 < 0.03:
        return gen_disc_case(rng)
    if r0 < 0.035:
        return gen_disc_case(rng)
    if 0.24 <= r0 < 0.30:
        return gen_gen_case(rng)
    if r0 < 0.10:
        return gen_late_case(rng)
    if r0 < 0.17:
        return gen_inherit_case(rng)
    if r0 < 0.24:
        return gen_fn_case(rng)
    r = rng.random()
    datas = gen_datas(rng) if r < 0.35 else []
    if datas and rng.random() < 0.6:
        k = rng.randrange(len(datas))
        ty = {"data": k}
        via = rng.choice(["init", "init", "transform", "field"])
        value = gen_data_value(rng, k, datas)
        if via == "init":
            if not (isinstance(value, dict) and "m" in value and all(isinstance(p[0], dict) and "s" in p[0] and not p[0].get("c") for p in value["m"])):
                via = "transform"
    else:
        via = rng.choice(VIAS)
        ty = gen_type(rng, 0, False, len(datas), typing_ok=via in ("field", "param", "return"))
        value = gen_value(rng, ty, None, 0.8, datas)
    case = {"ty": ty, "via": via, "value": value, "enums": ENUMS}
    if datas:
        case["datas"] = datas
    if via not in ("call", "init"):
        o = gen_opts(rng, unsafe_ok=rng.random() < 0.25)
        if via in ("param", "return"):
            o.pop("addition", None)              # a function without **kwargs cannot declare `addition`
        if o:
            case["opts"] = o
    return case


def _walk_ty(d):
    """every descriptor inside a declared type"""
    yield d
    if isinstance(d, dict):
        for k in ("args",):
            for a in d.get(k) or []:
                yield from _walk_ty(a)
        if isinstance(d.get("opt"), (dict, str)):
            yield from _walk_ty(d["opt"])


def _declared_types(case):
    out = [case.get("ty")]
    for dd in case.get("datas", []):
        out += [f.get("ty") for f in dd.get("fields", [])]
    fn = case.get("fn") or {}
    out += [f.get("ty") for f in fn.get("params", [])] + [fn.get(k) for k in ("varargs", "varkw", "ret")]
    out += [(case.get("gen") or {}).get(k) for k in ("yield", "send", "ret")]
    return [x for x in out if x is not None]


def _any_annotated(case):
    return bool(case.get("annotated") or any(f.get("annotated") for d in case.get("datas", []) for f in d["fields"]) or
                any(f.get("annotated") for f in (case.get("fn") or {}).get("params", [])))


def gen_cases(tier, rng, n):
    cases = []
    # every origin as a bare leaf with its own source kinds, under the safe flag combinations
    if tier != "search":
        for b in ORIGINS:
            for kind in SOURCES[b]:
                for _ in range(2 if tier == "quick" else 6):
                    o = rng.choice([{}, {"nec": True}, {"ndl": True}, {"nec": True, "ndl": True}])
                    c = {"ty": {"t": b}, "via": rng.choice(["transform", "field", "param", "return"]),
                         "value": rng.choice(pools()[kind]), "enums": ENUMS}
                    if o:
                        c["opts"] = o
                    cases.append(c)
        # every user subclass of an origin as the declared type
        for b in ORIGINS:
            for i in range(len(c12.SUBS.get(b, []))):
                for kind in SOURCES[b]:
                    o = rng.choice([{}, {}, {"nec": True}, {"ndl": True}])
                    c = {"ty": {"t": b, "sub": i + 1}, "via": rng.choice(["transform", "field", "param", "return"]),
                         "value": rng.choice(pools()[kind]), "enums": ENUMS}
                    if o:
                        c["opts"] = o
                    cases.append(c)
        for k in range(len(ENUMS)):
            for kind in ("enum_plain", "enum_mixin", "str_misc", "int", "str_word", "float"):
                cases.append({"ty": {"enum": k}, "via": "transform", "value": rng.choice(pools()[kind]), "enums": ENUMS})
    for c in cases:
        c["future"] = rng.random() < 0.3
    while len(cases) < n:
        try:
            c = gen_case(rng)
        except RecursionError:
            continue
        # `from __future__ import annotations` in the declaring module (all annotations are strings) or real objects
        c["future"] = rng.random() < 0.3
        if c["via"] == "return" and rng.random() < 0.25:
            c["async"] = True            # `async def`: the awaited result goes through the return annotation
        if c["future"] and c.get("lates") and _any_annotated(c):
            # a whole-string `Annotated['Later', ...]` that cannot be resolved at declaration never parses at all
            # (TypeError on every call / "unrecognized type"): no result to judge
            c["future"] = rng.random() < 0.1
        cases.append(c)
    return cases


# ------------------------------------------------------------------------------------------------
# the check
# ------------------------------------------------------------------------------------------------

def _enum_members(j, acc=None):
    acc = [] if acc is None else acc
    if isinstance(j, dict):
        if "e" in j:
            acc.append(tuple(j["e"]))
        for v in j.values():
            _enum_members(v, acc)
    elif isinstance(j, list):
        for v in j:
            _enum_members(v, acc)
    return acc


def _has_empty(j) -> bool:
    if isinstance(j, dict):
        if ("q" in j and not j["q"]) or ("m" in j and not j["m"]):
            return True
        return any(_has_empty(v) for v in j.values())
    if isinstance(j, list):
        return any(_has_empty(v) for v in j)
    return False


def _has_key(j, key) -> bool:
    if isinstance(j, dict):
        return key in j or any(_has_key(v, key) for v in j.values())
    if isinstance(j, list):
        return any(_has_key(v, key) for v in j)
    return False


_NEG_ZERO = re.compile(r"^\s*-0*(\.0*)?([eE][+-]?\d+)?\s*$")


def _cv(case):
    """all input values of a case as one encoded list"""
    return {"q": case_values(case), "k": "list"}


def case_values(case) -> list:
    """the encoded input values of a case"""
    v = case["value"]
    if case["via"] == "fn":
        return list(v["args"]) + list(v["kwargs"].values())
    if case["via"] == "gen":
        return list(v["yields"]) + list(v["sends"]) + [v["ret"]]
    return [v]


def negative_zero(case) -> bool:
    """`-0.0` has no form in Conv.lean's float codec (`FloatV.fin 0 0` is the only zero), so texts such as `str(-0.0)` differ:
    inputs holding a negative zero in any spelling get no verdict from the comparison (the oracle still sees them)"""
    vals = []
    v = case["value"]
    for j in case_values(case):
        _walk_json_values(j, vals)
    for x in vals:
        if isinstance(x, float) and x == 0 and math.copysign(1, x) < 0:
            return True
        if isinstance(x, Decimal) and x.is_zero() and x.is_signed():
            return True
        if isinstance(x, str) and "-" in x and any(_NEG_ZERO.match(t) for t in re.split(r"[\s,;:=&\[\](){}\"']+", x) + [x]):
            return True
    return False


def nested_mixin_member(case) -> bool:
    """a member of a mixed-in enum (`class E(int, Enum)`) inside a container: `_attempt_from` unwraps the container and
    the member then acts as an instance of its member type, which Conv.lean's `modelledInput` only excludes at top level"""
    enums = case.get("enums") or []

    def walk(j, inside):
        if isinstance(j, dict):
            if "e" in j:
                k = j["e"][0]
                return inside and k < len(enums) and enums[k].get("mt") is not None
            if "q" in j:
                return any(walk(x, True) for x in j["q"])
            if "m" in j:
                return any(walk(k, True) or walk(v, True) for k, v in j["m"])
        return False
    return any(walk(j, False) for j in case_values(case))


def _has_set(j) -> bool:
    if isinstance(j, dict):
        if j.get("k") in ("set", "frozenset"):
            return True
        return any(_has_set(v) for v in j.values())
    if isinstance(j, list):
        return any(_has_set(v) for v in j)
    return False


def _loose(j):
    """value form for comparing results that went through a set: which of several `==` elements a set keeps depends on the
    hash order the real code iterated in (SubDate(2020,2,20) vs date(2020,2,20), 6 vs Decimal('6')), so elements are compared
    by Python equality, everything else exactly"""
    if isinstance(j, dict):
        if "q" in j:
            items = [_loose(x) for x in j["q"]]
            if j.get("k") in ("set", "frozenset"):
                return ("set", j.get("k"), j.get("c", 0), frozenset(_hashable_loose(x) for x in j["q"]))
            return ("seq", j.get("k"), j.get("c", 0), tuple(items))
        if "m" in j:
            pairs = [(_loose(k), _loose(v)) for k, v in j["m"]]
            if j.get("c", 0) >= DATA_TAG:
                pairs.sort(key=repr)
            return ("map", j.get("c", 0), tuple(pairs))
    return ("atom", json.dumps(canon(j), sort_keys=True))


def _hashable_loose(j):
    try:
        v = c12.dec(j, None)
        hash(v)
        return v
    except Exception:
        return _loose(j)


def set_equal(a, b, case) -> bool:
    if not (_has_set(a) and _has_set(b)):
        return False
    try:
        return _loose(a) == _loose(b)
    except Exception:
        return False


def _shape(d, depth=0) -> str:
    if d == "any":
        return "any"
    if "t" in d:
        return d["t"] + ("#" if d.get("sub") else "")
    if "enum" in d:
        return "enum"
    if "obj" in d:
        return "obj"
    if "data" in d:
        return "data"
    if "late" in d:
        return "late"
    if "apply" in d:
        names = sorted(c[0] for c in d["apply"].get("cons") or [])
        return f"apply({_shape(d['apply']['base'])};{','.join(names)})"
    if "rule" in d:
        b = d["rule"].get("base")
        names = sorted(("lax_" if len(c) > 2 and c[2] else "") + c[0] for c in d["rule"].get("cons") or [])
        return f"rule({b['t'] if b else '-'};{','.join(names)})"
    if depth >= 2:
        return "…"
    if "gen" in d:
        return f"{d['gen']}[{','.join(_shape(a, depth + 1) for a in d['args'])}]"
    if "opt" in d:
        return f"opt[{_shape(d['opt'], depth + 1)}]"
    if "comb" in d:
        return f"{d['comb']}({','.join(_shape(a, depth + 1) for a in d['args'])})"
    return "?"


def _vclass(j) -> str:
    if j is None:
        return "none"
    if isinstance(j, bool):
        return "bool"
    for k, n in (("i", "int"), ("f", "float"), ("d", "decimal"), ("s", "str"), ("b", "bytes"), ("z", "complex"), ("m", "dict"),
                 ("date", "date"), ("dt", "datetime"), ("tm", "time"), ("td", "timedelta"), ("u", "uuid"), ("e", "enum"), ("o", "obj")):
        if k in j:
            return n + ("#" if j.get("c") else "")
    if "q" in j:
        return j.get("k", "seq") + ("#" if j.get("c") else "")
    return "?"


def _out_class(o) -> str:
    if o is None:
        return "-"
    if "ok" in o:
        return "ok"
    if "hang" in o:
        return "hang"
    return "fail"


class C01(Check):
    prop = "C01"
    props_modules = ["Utv.Props.C01"]
    driver = "C01"
    impl = "harness.c01:impl"
    case_timeout = 12.0
    uses_extract = True
    rule = ("distinct (declaration shape to depth 2, entry point, input class, option combination, outcome class) tuples whose "
            "outcome is not the exact-type pass-through of an unconstrained leaf")
    assumptions = [
        "Conv.Prims / Py.Prims: CPython builtins (float(), Decimal(), strptime, json.loads, re.fullmatch, round, ...) are "
        "parameters of the model; C01_parse_conforms assumes only that they return values of their documented class (PrimsTyped)",
        "error collection (collect_errors) is modelled fail-fast; the correspondence run drives the real code under both settings",
        "data-class instances as inputs, abstract origins, `contains`, @utype.apply, custom hooks, typed `addition`, aliases are "
        "outside the model (oracle only)",
    ]
    budget = {"quick": 4500, "thorough": 150000}
    search_budget = {"quick": 3000, "thorough": 20000}

    def cases(self, tier, rng, n):
        return gen_cases(tier, rng, n)

    def evaluate(self, cases):
        from .common import run_impl
        impl_outs = run_impl(self.impl, cases, self.case_timeout, extra_env=self.impl_env)
        lines = []
        for c, io in zip(cases, impl_outs):
            try:
                lines.append(model_line(c, io) if isinstance(io, dict) else None)
            except Exception as e:
                lines.append(None)
        model_outs = run_model(lines)
        st = getattr(self, "_stats", None) or {"compared": 0, "unmodelled": {}, "declaration_rejected": 0, "unsupported": 0}
        for io, mo in zip(impl_outs, model_outs):
            if isinstance(io, dict) and "decl" in io:
                st["declaration_rejected"] += 1
            elif mo is None:
                st["unsupported"] += 1
            elif "unmodelled" in mo:
                w = str(mo.get("unmodelled", "diverge"))[:60]
                st["unmodelled"][w] = st["unmodelled"].get(w, 0) + 1
            else:
                st["compared"] += 1
        self._stats = st
        return impl_outs, model_outs

    # ---- correspondence ------------------------------------------------------------------------
    def compare(self, case, io, mo):
        if "decl" in io or "unsupported" in io or mo is None:
            return None
        if nested_mixin_member(case) or negative_zero(case):
            return None
        if io.get("hang") or io.get("crash"):
            return "worker hang / crash"
        if "driver-error" in mo:
            return "driver error: " + str(mo["driver-error"])[:200]
        if "unmodelled" in mo:
            return None
        a, b = io.get("out"), io.get("out_collect")
        for key, o in (("out", a), ("out_collect", b)):
            if o is None:
                continue
            if "ok" in mo:
                if "ok" not in o:
                    return f"model returns a value, implementation ({key}) {_out_class(o)}"
                if has_x(o["ok"]):
                    return f"implementation ({key}) returned a value outside the universe"
                if canon(o["ok"]) != canon(mo["ok"]) and not set_equal(o["ok"], mo["ok"], case):
                    return f"different values ({key})"
            elif "diverge" in mo:
                if "hang" not in o:
                    return f"model diverges, implementation ({key}) {_out_class(o)}"
            else:
                if "ok" in o:
                    return f"model fails, implementation ({key}) returns a value"
                if "hang" in o:
                    return f"model fails, implementation ({key}) hangs"
        return None

    # ---- the property's predicate on what the implementation returned -----------------------------
    def spec(self, case, io, mo):
        self._mo = mo                # (classify is called right after spec for the same case)
        if not isinstance(io, dict) or "decl" in io:
            return None
        v = io.get("viol")
        if v:
            key = "out" if "out" in v else "out_collect"
            info = v[key]
            return f"non-conforming result ({key}): {info['kind']} at {_shape(info['node']) if isinstance(info['node'], (dict, str)) else info['node']} got {info['got']}" + (f" [{info['extra']}]" if isinstance(info.get("extra"), str) else "")
        a, b = io.get("out"), io.get("out_collect")
        if io.get("safe") and a and b and ("ok" in a) != ("ok" in b):
            return f"collect_errors changes whether a value is returned: {_out_class(a)} vs {_out_class(b)}"
        return None

    def classify(self, case, io, why):
        self._io_out = io.get("out") if isinstance(io, dict) else None
        v = (io.get("viol") or {})
        info = v.get("out") or v.get("out_collect")
        if not info:
            return None
        return self.classify_info(info, case)

    def classify_info(self, info, case):
        if info.get("kind") == "union" and isinstance(info.get("extra"), list):
            # the value came out of one of the conditions: the finding class of the condition that explains it
            ids = [self.classify_info(b, case) for b in info["extra"]]
            ids = [i for i in ids if i]
            return ids[0] if ids else None
        node = info["node"]
        if not isinstance(node, dict):
            return None
        if "apply" in node and info["kind"] == "constraint" and "val" in info:
            # the offending value is an instance of the decorated class that was handed in (possibly inside a container):
            # final for @utype.apply, the constraints are skipped
            subs = []
            for j in case_values(case):
                _subvalues(j, subs)
            for x in list(subs):
                # (texts that are read as JSON / a Python literal on the way hand their items in as well)
                t = x.get("s") if isinstance(x, dict) else None
                if isinstance(t, str):
                    for load in (json.loads, __import__("ast").literal_eval):
                        try:
                            _subvalues(c12.enc(load(t), None), subs)
                            break
                        except Exception:
                            continue
            if any(canon(x) == canon(info["val"]) for x in subs):
                return "applied-instance-skips-constraints"
            if isinstance(info["val"], dict) and set(info["val"]) == {"s"}:
                # a str instance cut out of / decoded from a text or bytes of the input by the enclosing conversion
                texts = []
                for x in subs:
                    _walk_json_values(x, texts)
                texts = [t for t in texts if isinstance(t, str)]
                pieces = {p.strip() for t in texts for p in re.split(r"[,;]", t)} | set(texts) | {t.strip() for t in texts}
                if info["val"]["s"] in pieces:
                    return "applied-instance-skips-constraints"
            # an instance produced by an EARLIER condition of the same `&` (each condition converts what the previous one
            # produced): `Rule[float](lt=5) & apply(float, const=3)` on 2 -> 2.0 is an instance when the applied type sees it.
            # Structural, so it also holds where the model declines the case for an unrelated reason
            base_t = node["apply"]["base"].get("t")
            if info.get("got") == base_t and not node["apply"]["base"].get("sub"):
                for d in _declared_types(case):
                    for amp in _walk_ty(d):
                        if isinstance(amp, dict) and amp.get("comb") == "&":
                            args = amp.get("args") or []
                            for i, a in enumerate(args):
                                if i >= 1 and isinstance(a, dict) and "apply" in a and canon(a) == canon(node) and \
                                        any(_base_of(b, case.get("lates") or []) == base_t for b in args[:i]):
                                    return "applied-instance-skips-constraints"
            # an instance produced on the way (by an earlier `&` condition, by the enclosing container's conversion): the
            # model — which mirrors the shortcut and nothing else that could skip a validator — predicts this very result
            mo, out = getattr(self, "_mo", None), (getattr(self, "_io", None) or {})
            if isinstance(mo, dict) and "ok" in mo and isinstance(self._io_out, dict) and "ok" in self._io_out \
                    and canon(mo["ok"]) == canon(self._io_out["ok"]):
                return "applied-instance-skips-constraints"
            return None
        cons = (node.get("rule") or {}).get("cons") if "rule" in node else (node["apply"].get("cons") if "apply" in node else node.get("cons"))
        base = (node.get("rule") or {}).get("base") if "rule" in node else (node["apply"]["base"] if "apply" in node else ({"t": GEN_BASE[node["gen"]], "sub": node.get("sub", 0)} if "gen" in node else node if "t" in node else None))
        lax = [c for c in (cons or []) if len(c) > 2 and c[2]]
        if lax:
            if info["kind"] == "type" and any(c[0] == "const" for c in lax):
                return "lax-const-not-origin"
            return "lax-result-not-revalidated"
        if info["kind"] == "type" and cons and any(c[0] == "const" for c in cons):
            return "const-returns-declared-value"
        if info["kind"] == "constraint" and info.get("extra") == "regex" and base and base.get("t") == "Decimal" \
                and any(c[0] == "decimal_places" for c in (cons or [])):
            return "decimal-places-pads-after-regex"
        if info["kind"] == "type" and base and base.get("sub"):
            # subclass-result-plain: only the three converter branches (and the Decimal rounding validator) of the finding
            plain = {"Decimal": "Decimal", "UUID": "UUID"}.get(base["t"], base["t"])
            if info["got"] != plain:
                return None
            vals = []
            _walk_json_values(_cv(case), vals)
            for k, i in _enum_members(_cv(case)):
                try:
                    _walk_json_values(case["enums"][k]["members"][i][1], vals)      # `_attempt_from` unwraps a member to its value
                except Exception:
                    pass
            texts = [x for x in vals if isinstance(x, str)] + [str(int(x)) for x in vals if isinstance(x, (bool, int))]
            if any(x is None or (isinstance(x, str) and x == "") or (isinstance(x, (int, float)) and x == 0) for x in vals) \
                    or _has_empty(_cv(case)):
                texts.append("0")           # `_attempt_from_number` turns a falsy value into 0, which may be rendered as text on the way
            tokens = [t for x in texts for t in re.split(r"[\s,;:=&\[\](){}\"']+", x)] + texts     # texts are split / parsed into items
            if base["t"] == "int" and any(x.strip().lower() in c12.TRUE_WORDS + c12.FALSE_WORDS for x in tokens):
                return "subclass-result-plain"            # to_integer: the literals 0 / 1 for the boolean words
            if base["t"] == "time" and (texts or _has_key(_cv(case), "dt") or _has_key(_cv(case), "date")):
                return "subclass-result-plain"            # to_time: data.time() / to_datetime(text).time()
            if base["t"] == "timedelta" and texts:
                return "subclass-result-plain"            # to_timedelta: sign * t(**kw) for a duration text
            if base["t"] == "Decimal" and any(c[0] == "decimal_places" for c in (cons or [])):
                return "subclass-result-plain"            # round() in the decimal_places validator
            if base["t"] in ("int", "time", "timedelta"):
                # the text / datetime arose on the way (an earlier `&` condition, the enclosing container's conversion):
                # Conv.lean mirrors exactly these three branches, and the model predicts this very result
                mo = getattr(self, "_mo", None)
                if isinstance(mo, dict) and "ok" in mo and isinstance(self._io_out, dict) and "ok" in self._io_out \
                        and canon(mo["ok"]) == canon(self._io_out["ok"]):
                    return "subclass-result-plain"
        return None

    def neighbours(self, case, rng):
        out = []
        for _ in range(6):
            c = json.loads(json.dumps(case))
            r = rng.random()
            if r < 0.5:
                c["value"] = gen_value(rng, c["ty"], None, 0.85, c.get("datas"))
            elif r < 0.8 and c["via"] not in ("call", "init"):
                c["opts"] = gen_opts(rng, unsafe_ok=False)
                if c["via"] in ("param", "return"):
                    c["opts"].pop("addition", None)
            elif c["via"] not in ("init",) and "data" not in (c["ty"] if isinstance(c["ty"], dict) else {}):
                c["via"] = rng.choice(["field", "param", "return"])
            out.append(c)
        return out

    def key(self, case, io):
        if not isinstance(io, dict) or "decl" in io:
            return None
        d = case["ty"]
        o = io.get("out") or {}
        if isinstance(d, dict) and "t" in d and "ok" in o and canon(o["ok"]) == canon(case["value"]):
            return None                                   # exact-type pass-through of an unconstrained leaf
        opts = case.get("opts") or {}
        shape = _shape(d)
        if case["via"] == "gen":
            gd = case["gen"]
            shape = "gen(" + ";".join(_shape(gd[x]) if gd.get(x) is not None else "-" for x in ("yield", "send", "ret")) + (";eager" if gd.get("eager") else "") + (";async" if gd.get("async") else "") + ")"
            vc = f"{len(case['value']['yields'])}y{len(case['value']['sends'])}s:{_vclass(case['value']['ret'])}"
        elif case["via"] == "fn":
            fn = case["fn"]
            shape = "fn(" + ",".join(_shape(f["ty"]) for f in fn["params"]) + ";*" + (_shape(fn["varargs"]) if fn.get("varargs") is not None else "-") + \
                ";**" + (_shape(fn["varkw"]) if fn.get("varkw") is not None else "-") + ")"
            vc = f"{len(case['value']['args'])}+{len(case['value']['kwargs'])}"
        else:
            vc = _vclass(case["value"])
        if _any_annotated(case):
            shape += "|Annotated"
        if case.get("future") is False:
            shape += "|objann"
        if case.get("async"):
            shape += "|async"
        if case.get("lates"):
            shape += "|late:" + ",".join(_shape(l) for l in case["lates"]) + ("|fcons" if case.get("fcons") else "")
        if any(x.get("base") is not None for x in case.get("datas", [])):
            shape += "|inherit:" + str(len(case["datas"])) + ":" + ",".join(ov["kind"] for x in case["datas"] for ov in x.get("overrides") or [])
        return json.dumps([shape, case["via"], vc, sorted(opts.items()), _out_class(o)])

    def distribution(self, case, io):
        if not isinstance(io, dict):
            return "worker-failure"
        if "decl" in io:
            return "declaration rejected"
        d = case["ty"]
        if case["via"] == "gen":
            top = ("async " if case["gen"].get("async") else "") + "generator(" + "".join(x[0] if case["gen"].get(x) is not None else "-" for x in ("yield", "send", "ret")) + ")"
        elif case["via"] == "fn":
            top = "fn(" + ("*" if case["fn"].get("varargs") is not None else "") + ("**" if case["fn"].get("varkw") is not None else "") + ")"
        elif d == "any" or "t" in d or "enum" in d or "obj" in d:
            top = "leaf"
        else:
            top = next((k for k in ("late", "rule", "gen", "opt", "comb", "data") if k in d), "?")
        if top == "data" and any(x.get("base") is not None for x in case.get("datas", [])):
            top = "data-inherit"
        if case.get("lates") and top != "late":
            top += "+late"
        if top == "gen":
            top = d["gen"]
        if top == "comb":
            top = d["comb"]
        m = "unsupported" if "unsupported" in io else "modelled"
        return f"{top}/{case['via']}/{_out_class(io.get('out'))}/{m}"

    def reproduce(self, case):
        return (f"cd {self_verif()} && UTYPE_REPO={REPO} /venv/bin/python -c 'import json,sys; sys.path.insert(0, \"{REPO}\"); "
                f"from harness.c01 import impl; print(json.dumps(impl(json.loads(sys.argv[1])), indent=1))' '{json.dumps(case, sort_keys=True)}'")

    def finish_evidence(self, ev, tier):
        st = getattr(self, "_stats", None) or {}
        ev["coverage"]["model_vs_implementation_compared"] = st.get("compared")
        ev["coverage"]["outside_model_fragment"] = st.get("unmodelled")
        ev["coverage"]["declarations_rejected_by_utype"] = st.get("declaration_rejected")
        ev["coverage"]["type_objects_not_introspectable"] = st.get("unsupported")


def self_verif():
    from .common import VERIF
    return VERIF


CHECK = C01()
