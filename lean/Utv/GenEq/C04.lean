import Utv.GenEq.Support
import Utv.Gen.Field
import Utv.Model.C04Data
/-!
C04 — T1 obligations: the two field predicates the data-class part of the no-escape model reads
(`FieldDecl.isRequired`, `FieldDecl.policy`, `Model/C04Data.lean`) are `ParserField.is_required` /
`get_on_error` as regenerated from the source.  C04's fragment: `required` is a bool, no parse mode, no `final`;
`no_input` is `False` or a callable (`DataWorld.noInput`), which `always_no_input` does not call.
-/
namespace Utv.GenEq.C04
open Utv.Obj Utv.C04 Utv.Gen

variable {V : Type}

def encPolicy : Policy → OVal V
  | .throw => .str "throw"
  | .exclude => .str "exclude"
  | .preserve => .str "preserve"

/-- the `ParserField` a `FieldDecl` stands for; `ni` is its `no_input=` (False or a callable) -/
def encField (f : FieldDecl V) (ni : OVal V) : OVal V :=
  .obj "ParserField" [("required", .bool f.required), ("default", match f.default with | none => .unprovided | some d => .val d),
    ("default_factory", .none), ("no_input", ni), ("mode", .none), ("final", .bool false),
    ("on_error", match f.onError with | none => .none | some p => encPolicy p)]

def encOpts (o : Opts) : OVal V :=
  .obj "Options" [("mode", .none), ("ignore_required", .bool o.ignoreRequired), ("invalid_values", encPolicy o.invalidValues)]

theorem C04_gen_is_required (W : Obj.World V) (f : FieldDecl V) (o : Opts) (ni : OVal V)
    (hni : ni = .bool false ∨ ∃ k, ni = .fn k) :
    Field.is_required W (encField f ni) (encOpts o) = .ok (.bool (f.isRequired o)) := by
  gen_obligation "C04_gen_is_required: the regenerated code (Utv.Gen) is no longer equal to the hand model here" by
    obtain ⟨_, _, _, _, required, _, _, _, _⟩ := f
    rcases hni with h | ⟨k, h⟩ <;> subst h <;> cases required <;> cases hi : o.ignoreRequired <;>
      obj_simp [Field.is_required, Field.always_no_input, Field.no_default, encField, encOpts, getattr, lookupAttr,
        OVal.isTrue, OVal.isUnprovided, FieldDecl.isRequired, hi]

theorem C04_gen_get_on_error (W : Obj.World V) (f : FieldDecl V) (o : Opts) (ni : OVal V) :
    Field.get_on_error W (encField f ni) (encOpts o) = .ok (encPolicy (f.policy o)) := by
  gen_obligation "C04_gen_get_on_error: the regenerated code (Utv.Gen) is no longer equal to the hand model here" by
    obtain ⟨_, _, _, onError, _, _, _, _, _⟩ := f
    cases onError with
    | none => obj_simp [Field.get_on_error, encField, encOpts, getattr, lookupAttr, FieldDecl.policy]
    | some p => cases p <;> obj_simp [Field.get_on_error, encField, encOpts, getattr, lookupAttr, FieldDecl.policy, encPolicy]

end Utv.GenEq.C04
