import Utv.Lemmas.C15Frag
/-! The pieces of the soundness proof that do not recurse: combinators, scalars, arrays, objects. -/
set_option linter.unusedSimpArgs false
set_option linter.unusedVariables false
namespace Utv.C15
open Utv.JsonSchema

/-- the induction hypothesis for one sub-schema -/
def SubSound (N : Names) (R : Rx) (C : Ctx) (s : Json) : Prop :=
  ∀ T j, inFragment s = true → parse N s = some T → conforms R T j = true →
    KnownDefect.oneOfAtMost C s j = true → validate C s j = true

theorem map_parse_mem_left {N : Names} {ss : List Json} {ts : List Ty} (h : ss.map (parse N) = ts.map some) :
    ∀ s ∈ ss, ∃ t ∈ ts, parse N s = some t := by
  intro s hs
  have : parse N s ∈ ts.map some := by rw [← h]; exact List.mem_map.mpr ⟨s, hs, rfl⟩
  obtain ⟨t, ht, hte⟩ := List.mem_map.mp this
  exact ⟨t, ht, hte.symm⟩

theorem map_parse_mem_right {N : Names} {ss : List Json} {ts : List Ty} (h : ss.map (parse N) = ts.map some) :
    ∀ t ∈ ts, ∃ s ∈ ss, parse N s = some t := by
  intro t ht
  have : some t ∈ ss.map (parse N) := by rw [h]; exact List.mem_map.mpr ⟨t, ht, rfl⟩
  obtain ⟨s, hs, hse⟩ := List.mem_map.mp this
  exact ⟨s, hs, hse⟩

/-- what `conditions` contributes for one combinator keyword that is there -/
theorem conditions_group (N : Names) (kvs : Obj) (cs : List Ty) (h : conditions kvs (parseKws N kvs) = some cs)
    (k : String) (op : Op) (hk : (k, op) ∈ [("anyOf", Op.any), ("oneOf", Op.one), ("allOf", Op.all)])
    (ss : List Json) (hss : ss ≠ []) (hl : lookup k kvs = some (.arr ss)) :
    ∃ ts, ss.map (parse N) = ts.map some ∧ combine op ts ∈ cs := by
  have hmany : manyKeywords.contains k = true := by
    simp at hk; rcases hk with ⟨rfl, _⟩ | ⟨rfl, _⟩ | ⟨rfl, _⟩ <;> simp [manyKeywords]
  have hsub := subMany_of N kvs k hmany ss hl
  have htr : truthy (.arr ss) = true := by cases ss <;> simp_all [truthy]
  unfold conditions condGroup at h
  simp at hk
  rcases hk with ⟨rfl, rfl⟩ | ⟨rfl, rfl⟩ | ⟨rfl, rfl⟩
  all_goals
    simp only [hl, htr, if_true, hsub] at h
    cases ha : allSome (ss.map (parse N)) with
    | none => simp [ha] at h
    | some ts =>
      simp only [ha, Option.map_some] at h
      refine ⟨ts, allSome_eq_some _ _ ha, ?_⟩
      split at h
      · rename_i a b c h1 h2 h3
        cases h
        first
          | (have := Option.some.inj h1; subst this; simp)
          | (have := Option.some.inj h2; subst this; simp)
          | (have := Option.some.inj h3; subst this; simp)
      · simp at h

/-- anyOf / oneOf / allOf of one schema object hold when the conditions the parser built for them do -/
theorem cond_ok (N : Names) (R : Rx) (C : Ctx) (kvs : Obj) (cs : List Ty) (j : Json)
    (hd : strDistinct (keys kvs) = true) (hf : fragKws kvs kvs = true)
    (h : conditions kvs (parseKws N kvs) = some cs) (hc : ∀ c ∈ cs, conforms R c j = true)
    (hone : KnownDefect.oneOfKws C kvs kvs j = true)
    (ih : ∀ k ss, (k, Json.arr ss) ∈ kvs → ∀ s ∈ ss, SubSound N R C s)
    (k : String) (v : Json) (hm : (k, v) ∈ kvs) (hk : k = "anyOf" ∨ k = "oneOf" ∨ k = "allOf") :
    validateEntry C kvs k v j = true := by
  have hfe := fragKws_mem kvs kvs hf k v hm
  have hoe := oneOfKws_mem C kvs j kvs hone k v hm
  have hl := lookup_of_mem_distinct kvs hd k v hm
  have hmany : manyKeywords.contains k = true := by rcases hk with rfl | rfl | rfl <;> simp [manyKeywords]
  have hnot : (k == "items" || k == "additionalProperties") = false := by rcases hk with rfl | rfl | rfl <;> simp
  simp only [fragEntry, hnot, hmany, Bool.false_eq_true, if_false, if_true, Bool.and_eq_true] at hfe
  obtain ⟨_, hfe⟩ := hfe
  cases v with
  | arr ss =>
    cases ss with
    | nil => simp at hfe
    | cons s0 rest =>
      simp only [Bool.and_eq_true] at hfe
      have hfrag : ∀ s ∈ s0 :: rest, inFragment s = true := by
        intro s hs
        rcases List.mem_cons.mp hs with h1 | h1
        · subst h1; exact hfe.1
        · exact fragList_mem rest hfe.2 s h1
      have ihs := ih k (s0 :: rest) hm
      rcases hk with rfl | rfl | rfl
      · -- anyOf
        obtain ⟨ts, hts, hmem⟩ := conditions_group N kvs cs h "anyOf" .any (by simp) (s0 :: rest) (by simp) hl
        have hne : ts ≠ [] := by
          intro h0; subst h0; simp at hts
        obtain ⟨t, ht, hct⟩ := conforms_combine_any R .any (Or.inl rfl) ts hne j (hc _ hmem)
        obtain ⟨s, hs, hps⟩ := map_parse_mem_right hts t ht
        simp only [oneOfEntry] at hoe
        simp at hoe
        have := ihs s hs t j (hfrag s hs) hps hct (oneOfList_mem C j _ hoe s hs)
        simp only [validateEntry]
        simp
        exact (validateAny_iff C j _).mpr ⟨s, hs, this⟩
      · -- oneOf
        obtain ⟨ts, hts, hmem⟩ := conditions_group N kvs cs h "oneOf" .one (by simp) (s0 :: rest) (by simp) hl
        have hne : ts ≠ [] := by
          intro h0; subst h0; simp at hts
        obtain ⟨t, ht, hct⟩ := conforms_combine_any R .one (Or.inr rfl) ts hne j (hc _ hmem)
        obtain ⟨s, hs, hps⟩ := map_parse_mem_right hts t ht
        simp only [oneOfEntry] at hoe
        simp at hoe
        have := ihs s hs t j (hfrag s hs) hps hct (oneOfList_mem C j _ hoe.2 s hs)
        have hpos := validateCount_pos C j _ ⟨s, hs, this⟩
        simp only [validateEntry]
        simp
        omega
      · -- allOf
        obtain ⟨ts, hts, hmem⟩ := conditions_group N kvs cs h "allOf" .all (by simp) (s0 :: rest) (by simp) hl
        have hall := conforms_combine_all R ts j (hc _ hmem)
        simp only [oneOfEntry] at hoe
        simp at hoe
        simp only [validateEntry]
        simp
        apply (validateAll_iff C j _).mpr
        intro s hs
        obtain ⟨t, ht, hps⟩ := map_parse_mem_left hts s hs
        exact ihs s hs t j (hfrag s hs) hps (hall t ht) (oneOfList_mem C j _ hoe s hs)
  | _ => simp at hfe

end Utv.C15
