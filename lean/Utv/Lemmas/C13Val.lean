import Utv.Model.C13
import Utv.Lemmas.C13Json
import Utv.Lemmas.C13Wf
/-! Leaf lemmas for `C13_outputs_validate`: what `conforms` promises about a published value is what the
corresponding keyword of the generated document asks of its JSON encoding. -/
set_option linter.unusedSimpArgs false
namespace Utv.C13
open Utv.JsonSchema

/-! ### siblings: the `all` argument of `validateKws` matters only through five lookups -/

def sibKeys : List String := ["prefixItems", "properties", "patternProperties", "minContains", "maxContains"]

def SibAgree (all g : Obj) : Prop := ∀ k, sibKeys.contains k = true → lookup k all = lookup k g

theorem SibAgree.refl (g : Obj) : SibAgree g g := fun _ _ => rfl

theorem SibAgree.append_right (g ex : Obj) (h : ∀ k, sibKeys.contains k = true → lookup k ex = none) :
    SibAgree (g ++ ex) g := by
  intro k hk
  rw [lookup_append, h k hk]
  cases lookup k g <;> rfl

/-! ### annotations never invalidate -/

theorem validateKws_annotations (C : Ctx) (all : Obj) (l : List (String × Json)) (i : Json)
    (h : ∀ e ∈ l, assertionKeywords.contains e.1 = false) : validateKws C all l i = true := by
  rw [validateKws_eq_all, List.all_eq_true]
  intro e he
  exact validateEntry_annotation C all e.1 e.2 i (h e he)

theorem val_optStr (C : Ctx) (all : Obj) (k : String) (o : Option String) (i : Json)
    (hk : assertionKeywords.contains k = false) : validateKws C all (optStr k o) i = true := by
  apply validateKws_annotations
  intro e he
  cases o with
  | none => simp [optStr] at he
  | some s => simp [optStr] at he; subst he; exact hk

theorem fieldExtras_keys (f : FieldMeta) : ∀ e ∈ fieldExtras f, extrasKeys.contains e.1 = true := by
  intro e he
  unfold fieldExtras at he
  simp only [List.mem_append] at he
  rcases he with ((((he | he) | he) | he) | he) | he
  · generalize f.title = t at he
    cases t <;> simp [optStr] at he; subst he; rfl
  · generalize f.description = t at he
    cases t <;> simp [optStr] at he; subst he; rfl
  · unfold deprecatedSeg at he
    split at he <;> simp at he; subst he; decide
  · unfold modeSeg at he
    split at he <;> simp at he <;> (subst he; decide)
  · unfold exampleSeg at he
    split at he <;> simp at he; subst he; rfl
  · unfold aliasSeg at he
    split at he <;> simp at he
    rcases he with rfl | rfl | rfl <;> rfl

theorem extrasKeys_annotation (k : String) (h : extrasKeys.contains k = true) : assertionKeywords.contains k = false := by
  simp [extrasKeys] at h
  rcases h with rfl | rfl | rfl | rfl | rfl | rfl | rfl | rfl | rfl <;> decide

theorem extrasKeys_not_sib (k : String) (h : sibKeys.contains k = true) : extrasKeys.contains k = false := by
  simp [sibKeys] at h
  rcases h with rfl | rfl | rfl | rfl | rfl <;> decide

theorem lookup_none_of_keys (k : String) (l : Obj) (h : ∀ e ∈ l, (e.1 == k) = false) : lookup k l = none := by
  induction l with
  | nil => rfl
  | cons e rest ih =>
    obtain ⟨k', v⟩ := e
    simp only [lookup]
    have := h (k', v) (List.mem_cons_self ..)
    simp only at this
    rw [this]
    simp only [Bool.false_eq_true, if_false]
    exact ih fun e he => h e (List.mem_cons_of_mem _ he)

theorem val_fieldExtras (C : Ctx) (all : Obj) (f : FieldMeta) (i : Json) : validateKws C all (fieldExtras f) i = true := by
  apply validateKws_annotations
  intro e he
  exact extrasKeys_annotation e.1 (fieldExtras_keys f e he)

theorem lookup_fieldExtras_sib (f : FieldMeta) (k : String) (hk : sibKeys.contains k = true) :
    lookup k (fieldExtras f) = none := by
  apply lookup_none_of_keys
  intro e he
  have h1 := fieldExtras_keys f e he
  have h2 := extrasKeys_not_sib k hk
  by_cases hek : (e.1 == k) = true
  · have : e.1 = k := by simpa using hek
    rw [this] at h1; rw [h1] at h2; cases h2
  · simpa using hek

/-! ### `type` -/

theorem isInt_ofInt (i : Int) : (Num.ofInt i).isInt = true := by
  simp [Num.isInt, Num.ofInt]

theorem typeIs_plain (p : Prim) (r : PV) (hp : plainOk p r = true) (hs : safeDecimals r = true) :
    typeIs (getPrimitive p) (encode r) = true := by
  cases p <;> cases r <;> simp [plainOk] at hp <;>
    simp [encode, typeIs, isInt_ofInt, safeDecimals] at hs ⊢ <;>
    first
      | decide
      | (left; decide)
      | (simp [hs, typeIs]; first | decide | (left; decide))

theorem typeIs_number_of_integer (j : Json) (h : typeIs "integer" j = true) : typeIs "number" j = true := by
  cases j <;> simp [typeIs] at h ⊢

theorem checkType_str (t : String) (i : Json) : checkType (.str t) i = typeIs t i := rfl

theorem val_type (C : Ctx) (all : Obj) (t : String) (i : Json) (h : typeIs t i = true) :
    validateEntry C all "type" (.str t) i = true := by
  simp [validateEntry, checkSimple, checkType_str, h]

/-! ### encodings -/

theorem encode_numOf (r : PV) (n : Num) (h : numOf r = some n) (hs : safeDecimals r = true) : encode r = .num n := by
  cases r <;> simp [numOf] at h <;> simp [encode, safeDecimals] at hs ⊢
  · exact h
  · exact h
  · subst h; simp [hs]

theorem encodeList_length (xs : List PV) : (encodeList xs).length = xs.length := by
  induction xs with
  | nil => simp [encodeList]
  | cons x rest ih => rw [encodeList.eq_def]; simp [ih]

theorem encodeDict_length (kvs : List (Key × PV)) : (encodeDict kvs).length = kvs.length := by
  induction kvs with
  | nil => simp [encodeDict]
  | cons x rest ih => obtain ⟨k, v⟩ := x; rw [encodeDict.eq_def]; simp [ih]

theorem encode_elems (r : PV) (xs : List PV) (h : elemsOf r = some xs) : encode r = .arr (encodeList xs) := by
  cases r <;> simp [elemsOf] at h <;> subst h <;> simp [encode]

theorem mem_encodeList {xs : List PV} {j : Json} (h : j ∈ encodeList xs) : ∃ x ∈ xs, j = encode x := by
  induction xs with
  | nil => simp [encodeList] at h
  | cons x rest ih =>
    rw [encodeList.eq_def] at h
    simp only [List.mem_cons] at h
    rcases h with rfl | h
    · exact ⟨x, List.mem_cons_self .., rfl⟩
    · obtain ⟨y, hy, rfl⟩ := ih h; exact ⟨y, List.mem_cons_of_mem _ hy, rfl⟩

theorem mem_encodeDict {kvs : List (Key × PV)} {m : String × Json} (h : m ∈ encodeDict kvs) :
    ∃ kv ∈ kvs, m = (kv.1.str, encode kv.2) := by
  induction kvs with
  | nil => simp [encodeDict] at h
  | cons x rest ih =>
    obtain ⟨k, v⟩ := x
    rw [encodeDict.eq_def] at h
    simp only [List.mem_cons] at h
    rcases h with rfl | h
    · exact ⟨(k, v), List.mem_cons_self .., rfl⟩
    · obtain ⟨y, hy, rfl⟩ := ih h; exact ⟨y, List.mem_cons_of_mem _ hy, rfl⟩

theorem mem_encodeInst {kvs : List (String × PV)} {m : String × Json} (h : m ∈ encodeInst kvs) :
    ∃ kv ∈ kvs, m = (kv.1, encode kv.2) := by
  induction kvs with
  | nil => simp [encodeInst] at h
  | cons x rest ih =>
    obtain ⟨k, v⟩ := x
    rw [encodeInst.eq_def] at h
    simp only [List.mem_cons] at h
    rcases h with rfl | h
    · exact ⟨(k, v), List.mem_cons_self .., rfl⟩
    · obtain ⟨y, hy, rfl⟩ := ih h; exact ⟨y, List.mem_cons_of_mem _ hy, rfl⟩

theorem lookup_encodeInst (name : String) (kvs : List (String × PV)) :
    lookup name (encodeInst kvs) = (kvs.lookup name).map encode := by
  induction kvs with
  | nil => simp [encodeInst, lookup]
  | cons x rest ih =>
    obtain ⟨k, v⟩ := x
    rw [encodeInst.eq_def]
    simp only [lookup, List.lookup_cons]
    by_cases h : (k == name) = true
    · have h' : (name == k) = true := by rw [BEq.comm]; exact h
      simp [h, h']
    · have h' : (name == k) = false := by rw [BEq.comm]; simpa using h
      simp [h, h', ih]

theorem hasKey_encodeInst (name : String) (kvs : List (String × PV)) :
    hasKey name (encodeInst kvs) = (kvs.lookup name).isSome := by
  unfold hasKey; rw [lookup_encodeInst]; cases kvs.lookup name <;> rfl

/-! ### safety of parts -/

theorem safeList_mem {xs : List PV} (h : safeList xs = true) : ∀ x ∈ xs, safeDecimals x = true := by
  induction xs with
  | nil => simp
  | cons y rest ih =>
    rw [safeList.eq_def] at h
    simp only [Bool.and_eq_true] at h
    intro x hx
    rcases List.mem_cons.mp hx with rfl | hx
    · exact h.1
    · exact ih h.2 x hx

theorem safeDict_mem {kvs : List (Key × PV)} (h : safeDict kvs = true) : ∀ kv ∈ kvs, safeDecimals kv.2 = true := by
  induction kvs with
  | nil => simp
  | cons y rest ih =>
    obtain ⟨k, v⟩ := y
    rw [safeDict.eq_def] at h
    simp only [Bool.and_eq_true] at h
    intro x hx
    rcases List.mem_cons.mp hx with rfl | hx
    · exact h.1
    · exact ih h.2 x hx

theorem safeInst_mem {kvs : List (String × PV)} (h : safeInst kvs = true) : ∀ kv ∈ kvs, safeDecimals kv.2 = true := by
  induction kvs with
  | nil => simp
  | cons y rest ih =>
    obtain ⟨k, v⟩ := y
    rw [safeInst.eq_def] at h
    simp only [Bool.and_eq_true] at h
    intro x hx
    rcases List.mem_cons.mp hx with rfl | hx
    · exact h.1
    · exact ih h.2 x hx

theorem safe_elems (r : PV) (xs : List PV) (h : elemsOf r = some xs) (hs : safeDecimals r = true) :
    ∀ x ∈ xs, safeDecimals x = true := by
  cases r <;> simp [elemsOf] at h <;> subst h <;> rw [safeDecimals.eq_def] at hs <;> exact safeList_mem hs

theorem lookup_mem {α : Type} (name : String) (kvs : List (String × α)) (v : α) (h : kvs.lookup name = some v) :
    (name, v) ∈ kvs := by
  induction kvs with
  | nil => simp at h
  | cons x rest ih =>
    obtain ⟨k, w⟩ := x
    simp only [List.lookup_cons] at h
    by_cases hk : (name == k) = true
    · simp [hk] at h; subst h
      have : name = k := by simpa using hk
      subst this; exact List.mem_cons_self ..
    · simp [hk] at h; exact List.mem_cons_of_mem _ (ih h)

/-! ### constraints: `sat` on the value is the keyword's assertion on the encoding -/

theorem val_consSchema (C : Ctx) (R : Rx) (all : Obj) (prim : String) (allowed : List String) (cs : Cons) (r : PV)
    (hc : consOk allowed cs = true) (hsat : satAll R cs r = true)
    (hk : ∀ c : String × Json, allowed.contains c.1 = true → sat R c r = true →
      validateEntry C all (keywordOf prim c.1) (kwValue (keywordOf prim c.1) c.2) (encode r) = true) :
    validateKws C all (consSchema prim cs) (encode r) = true := by
  rw [validateKws_eq_all, List.all_eq_true]
  intro e he
  unfold consSchema at he
  rw [List.mem_map] at he
  obtain ⟨c, hcm, rfl⟩ := he
  have hc' := mem_orderedCons hcm
  unfold consOk at hc
  rw [Bool.and_eq_true, List.all_eq_true] at hc
  have h1 := hc.2 c hc'
  rw [Bool.and_eq_true] at h1
  unfold satAll at hsat
  rw [List.all_eq_true] at hsat
  exact hk c h1.1 (hsat c hc')

theorem val_numeric (C : Ctx) (R : Rx) (all : Obj) (prim : String) (hp : prim = "integer" ∨ prim = "number")
    (c : String × Json) (hn : numericCons.contains c.1 = true) (r : PV) (n : Num) (hnum : numOf r = some n)
    (hs : safeDecimals r = true) (hsat : sat R c r = true) :
    validateEntry C all (keywordOf prim c.1) (kwValue (keywordOf prim c.1) c.2) (encode r) = true := by
  obtain ⟨name, v⟩ := c
  have he := encode_numOf r n hnum hs
  simp only [numericCons, List.contains_cons, List.contains_nil, Bool.or_false, Bool.or_eq_true, beq_iff_eq] at hn
  rcases hp with rfl | rfl <;> rcases hn with rfl | rfl | rfl | rfl | rfl | rfl | rfl | rfl | rfl <;>
    simp [keywordOf, constraintsMapFor, TYPE_CONSTRAINTS_MAP, assoc, validateEntry, checkSimple, kwValue, sat, numSat, numKw,
      kEnum, hnum, he] at hsat ⊢ <;>
    (cases v <;> simp_all [numKw, kEnum])

theorem val_string (C : Ctx) (R : Rx) (L : RxLaws R) (hC : C.search = R.search) (all : Obj)
    (c : String × Json) (hn : stringCons.contains c.1 = true) (s : String) (hsat : sat R c (.str s) = true) :
    validateEntry C all (keywordOf "string" c.1) (kwValue (keywordOf "string" c.1) c.2) (encode (.str s)) = true := by
  obtain ⟨name, v⟩ := c
  have he : encode (.str s) = .str s := by simp [encode]
  simp only [stringCons, List.contains_cons, List.contains_nil, Bool.or_false, Bool.or_eq_true, beq_iff_eq] at hn
  rcases hn with rfl | rfl | rfl | rfl | rfl | rfl <;>
    simp [keywordOf, constraintsMapFor, TYPE_CONSTRAINTS_MAP, assoc, validateEntry, checkSimple, kwValue, sat, lenSat, lenOf, sizeKw,
      strSize, kEnum, kPattern, he] at hsat ⊢ <;>
    (cases v <;> (try simp_all [sizeKw, strSize, kEnum, kPattern]))
  exact L.full_anchored _ _ hsat

theorem lenOf_elems (r : PV) (xs : List PV) (h : elemsOf r = some xs) : lenOf r = some xs.length := by
  cases r <;> simp [elemsOf] at h <;> subst h <;> rfl

theorem val_array (C : Ctx) (R : Rx) (all : Obj) (c : String × Json) (hn : arrayCons.contains c.1 = true)
    (r : PV) (xs : List PV) (hx : elemsOf r = some xs) (hsat : sat R c r = true) :
    validateEntry C all (keywordOf "array" c.1) (kwValue (keywordOf "array" c.1) c.2) (encode r) = true := by
  obtain ⟨name, v⟩ := c
  have he := encode_elems r xs hx
  have hl := lenOf_elems r xs hx
  simp only [arrayCons, List.contains_cons, List.contains_nil, Bool.or_false, Bool.or_eq_true, beq_iff_eq] at hn
  rcases hn with rfl | rfl | rfl | rfl <;>
    simp [keywordOf, constraintsMapFor, TYPE_CONSTRAINTS_MAP, assoc, validateEntry, checkSimple, kwValue, sat, lenSat, hl, hx, sizeKw,
      arrSize, kUnique, he, encodeList_length] at hsat ⊢ <;>
    (cases v <;> (try simp_all [sizeKw, arrSize, kUnique, encodeList_length]))
  exact hsat

theorem val_object (C : Ctx) (R : Rx) (all : Obj) (c : String × Json) (hn : objectCons.contains c.1 = true)
    (kvs : List (Key × PV)) (hsat : sat R c (.dict kvs) = true) :
    validateEntry C all (keywordOf "object" c.1) (kwValue (keywordOf "object" c.1) c.2) (encode (.dict kvs)) = true := by
  obtain ⟨name, v⟩ := c
  have he : encode (.dict kvs) = .obj (encodeDict kvs) := by simp [encode]
  simp only [objectCons, List.contains_cons, List.contains_nil, Bool.or_false, Bool.or_eq_true, beq_iff_eq] at hn
  rcases hn with rfl | rfl | rfl <;>
    simp [keywordOf, constraintsMapFor, TYPE_CONSTRAINTS_MAP, assoc, validateEntry, checkSimple, kwValue, sat, lenSat, lenOf, sizeKw,
      objSize, he, encodeDict_length] at hsat ⊢ <;>
    (cases v <;> (try simp_all [sizeKw, objSize, encodeDict_length]))

/-! ### heads -/

theorem val_ruleHead (C : Ctx) (all : Obj) (p : Prim) (m : RuleMeta) (i : Json)
    (hm : metaOk m (getPrimitive p) = true) (ht : typeIs (getPrimitive p) i = true) :
    validateKws C all (ruleHead (some p) m) i = true := by
  unfold ruleHead
  rw [validateKws_append, val_optStr C all "format" _ i (by decide), Bool.and_true]
  by_cases h : overridesPrimitive m = true
  · simp only [h, if_true]
    rw [validateKws_cons, validateKws_nil, Bool.and_true]
    apply val_type
    rcases rulePrimitive_scalar p m hm with h1 | ⟨h1, h2⟩
    · rw [h1]; exact ht
    · rw [h1]; rw [h2] at ht; exact typeIs_number_of_integer i ht
  · simp only [h, Bool.false_eq_true, if_false]
    rw [validateKws_cons, validateKws_nil, Bool.and_true]
    exact val_type C all _ i ht

theorem val_scalar_cons (C : Ctx) (R : Rx) (L : RxLaws R) (hC : C.search = R.search) (all : Obj) (p : Prim)
    (m : RuleMeta) (cs : Cons) (r : PV) (hc : consOk (scalarCons p) cs = true)
    (hm : metaOk m (getPrimitive p) = true) (hp : plainOk p r = true) (hs : safeDecimals r = true)
    (hsat : satAll R cs r = true) :
    validateKws C all (consSchema (rulePrimitive (some p) m) cs) (encode r) = true := by
  cases p with
  | int =>
    cases r <;> simp [plainOk] at hp
    rename_i i
    apply val_consSchema C R all _ numericCons cs _ hc hsat
    intro c hn hsc
    rcases rulePrimitive_scalar .int m hm with h | ⟨h, _⟩ <;> rw [h]
    · exact val_numeric C R all "integer" (Or.inl rfl) c hn _ _ rfl hs hsc
    · exact val_numeric C R all "number" (Or.inr rfl) c hn _ _ rfl hs hsc
  | float =>
    cases r <;> simp [plainOk] at hp
    apply val_consSchema C R all _ numericCons cs _ hc hsat
    intro c hn hsc
    rw [rulePrimitive_fixed .float m "number" rfl rfl hm]
    exact val_numeric C R all "number" (Or.inr rfl) c hn _ _ rfl hs hsc
  | decimal =>
    have hc' : consOk numericCons cs = true := by
      unfold consOk at hc ⊢
      rw [Bool.and_eq_true, List.all_eq_true] at hc ⊢
      refine ⟨hc.1, fun c hcm => ?_⟩
      have := hc.2 c hcm
      simp only [scalarCons, Bool.and_eq_true] at this ⊢
      refine ⟨?_, this.2⟩
      have h1 := this.1
      simp [numericCons] at h1 ⊢
      rcases h1 with h1 | h1 <;> simp [h1]
    cases r <;> simp [plainOk] at hp
    · apply val_consSchema C R all _ numericCons cs _ hc' hsat
      intro c hn hsc
      rw [rulePrimitive_fixed .decimal m "number" rfl rfl hm]
      exact val_numeric C R all "number" (Or.inr rfl) c hn _ _ rfl hs hsc
    · simp [safeDecimals] at hs
  | str =>
    cases r <;> simp [plainOk] at hp
    apply val_consSchema C R all _ stringCons cs _ hc hsat
    intro c hn hsc
    rw [rulePrimitive_fixed .str m "string" rfl rfl hm]
    exact val_string C R L hC all c hn _ hsc
  | null | bool | bytes | date | datetime | time | timedelta | uuid | list | tuple | set | dict =>
    rw [consOk_nil_allowed cs hc, consSchema_nil]; exact validateKws_nil ..

theorem checkType_names (ss : List String) (t : String) (j : Json) (hm : t ∈ ss) (ht : typeIs t j = true) :
    checkType (namesType ss) j = true := by
  unfold namesType
  match ss with
  | [] => cases hm
  | [u] =>
    simp only [List.mem_singleton] at hm
    simp only [checkType]
    rw [← hm]; exact ht
  | u :: w :: rest =>
    simp only [checkType, List.any_eq_true, List.mem_map]
    exact ⟨.str t, ⟨t, hm, rfl⟩, ht⟩

theorem checkType_enumType (e : EnumDecl) (k : Prim) (j : Json) (hk : k ∈ enumPyTypes e)
    (ht : typeIs (getPrimitive k) j = true) : checkType (enumType e) j = true := by
  unfold enumType
  generalize enumPyTypes e = ps at hk
  match ps with
  | [] => cases hk
  | [p] =>
    simp only [List.mem_singleton] at hk
    subst hk
    exact ht
  | p :: q :: rest =>
    exact checkType_names _ (getPrimitive k) j (mem_dedupStrs.mpr (List.mem_map_of_mem hk)) ht

theorem val_enum (C : Ctx) (R : Rx) (all : Obj) (e : EnumDecl) (r : PV)
    (hw : (e.kinds.length == e.members.length && (match e.base with
      | some b => e.kinds.all (· == b)
      | none => true)) = true)
    (hc : conforms R (.enum e) r = true) (hs : safeDecimals r = true) :
    validateKws C all (enumSchema e) (encode r) = true := by
  rw [conforms.eq_def] at hc
  cases r <;> simp only [Bool.false_eq_true] at hc
  rename_i v
  rw [List.any_eq_true] at hc
  obtain ⟨mk, hmk, hcond⟩ := hc
  rw [Bool.and_eq_true] at hcond
  have hsv : safeDecimals v = true := by rw [safeDecimals.eq_def] at hs; exact hs
  have he : encode (.enumv v) = encode v := by rw [encode.eq_def]
  have hmem : mk.1 ∈ e.members := (List.of_mem_zip hmk).1
  have hkin : mk.2 ∈ e.kinds := (List.of_mem_zip hmk).2
  have hpy : mk.2 ∈ enumPyTypes e := by
    unfold enumPyTypes
    rw [Bool.and_eq_true] at hw
    cases hb : e.base with
    | none => exact mem_dedupPrims.mpr hkin
    | some b =>
      have := hw.2
      simp only [hb, List.all_eq_true] at this
      have := this mk.2 hkin
      simp only [List.mem_singleton]
      simpa using this
  unfold enumSchema
  rw [validateKws_append, val_optStr C all "format" _ _ (by decide), Bool.and_true, validateKws_cons, validateKws_cons,
    validateKws_cons, validateKws_nil, he, validateEntry_annotation C all "x-annotation" _ _ (by decide)]
  have h1 : validateEntry C all "type" (enumType e) (encode v) = true := by
    simp only [validateEntry, checkSimple, (by decide : ("type" == "items") = false),
      (by decide : ("type" == "prefixItems") = false), (by decide : ("type" == "contains") = false),
      (by decide : ("type" == "properties") = false), (by decide : ("type" == "patternProperties") = false),
      (by decide : ("type" == "additionalProperties") = false), (by decide : ("type" == "allOf") = false),
      (by decide : ("type" == "anyOf") = false), (by decide : ("type" == "oneOf") = false),
      (by decide : ("type" == "not") = false), (by decide : ("type" == "$ref") = false), beq_self_eq_true,
      Bool.false_eq_true, if_false, if_true]
    exact checkType_enumType e mk.2 _ hpy (typeIs_plain mk.2 v hcond.2 hsv)
  have h2 : validateEntry C all "enum" (.arr (e.members.map (·.2))) (encode v) = true := by
    simp only [validateEntry, checkSimple, kEnum, memEqv, List.any_eq_true, List.mem_map,
      (by decide : ("enum" == "items") = false),
      (by decide : ("enum" == "prefixItems") = false), (by decide : ("enum" == "contains") = false),
      (by decide : ("enum" == "properties") = false), (by decide : ("enum" == "patternProperties") = false),
      (by decide : ("enum" == "additionalProperties") = false), (by decide : ("enum" == "allOf") = false),
      (by decide : ("enum" == "anyOf") = false), (by decide : ("enum" == "oneOf") = false),
      (by decide : ("enum" == "not") = false), (by decide : ("enum" == "$ref") = false),
      (by decide : ("enum" == "type") = false), beq_self_eq_true, Bool.false_eq_true, if_false, if_true]
    exact ⟨mk.1.2, ⟨mk.1, hmem, rfl⟩, hcond.1⟩
  rw [h1, h2]
  rfl

/-! ### combinators -/

theorem count_pos_of_any (C : Ctx) (ss : List Json) (i : Json) (h : validateAny C ss i = true) :
    1 ≤ validateCount C ss i := by
  induction ss with
  | nil => rw [validateAny.eq_def] at h; cases h
  | cons s rest ih =>
    rw [validateAny.eq_def] at h
    rw [validateCount.eq_def]
    simp only [Bool.or_eq_true] at h
    by_cases hv : validate C s i = true
    · simp [hv]
    · have h' : validateAny C rest i = true := by
        rcases h with h | h
        · exact absurd h hv
        · exact h
      have := ih h'
      simp only [hv]
      omega

/-! ### data classes -/

theorem lookup_isSome_of_mem {α : Type} (k : String) (v : α) (kvs : List (String × α)) (h : (k, v) ∈ kvs) :
    (kvs.lookup k).isSome = true := by
  induction kvs with
  | nil => cases h
  | cons x rest ih =>
    obtain ⟨k', w⟩ := x
    simp only [List.lookup_cons]
    by_cases hk : (k == k') = true
    · simp [hk]
    · simp only [hk]
      rcases List.mem_cons.mp h with h | h
      · cases h; simp at hk
      · exact ih h

theorem hasKey_genFields (cfg : Cfg) (o : Opts) (fs : List Fld) (name : String)
    (h : ∃ f ∈ fs, f.meta.name = name ∧ fieldVisible cfg o f.meta = true) : hasKey name (genFields cfg o fs) = true := by
  induction fs with
  | nil => obtain ⟨f, hf, _⟩ := h; cases hf
  | cons g rest ih =>
    obtain ⟨m, ty⟩ := g
    rw [genFields.eq_def]
    obtain ⟨f, hf, hn, hv⟩ := h
    by_cases hvm : fieldVisible cfg o m = true
    · simp only [hvm, if_true, hasKey, lookup]
      by_cases hk : (m.name == name) = true
      · simp [hk]
      · simp only [hk, Bool.false_eq_true, if_false]
        rcases List.mem_cons.mp hf with rfl | hf
        · simp [Fld.meta] at hn; simp [hn] at hk
        · exact ih ⟨f, hf, hn, hv⟩
    · simp only [hvm]
      rcases List.mem_cons.mp hf with rfl | hf
      · simp [Fld.meta] at hv; rw [hv] at hvm; simp at hvm
      · exact ih ⟨f, hf, hn, hv⟩

theorem present_of_listed (gm : Option Char) (o : Opts) (f : FieldMeta)
    (h : (fieldVisible ⟨true, gm⟩ o f && listedRequired ⟨true, gm⟩ o f) = true) : Spec.present f o = true := by
  unfold fieldVisible listedRequired at h
  unfold Spec.present
  have hno : isNoOutput f o = alwaysNoOutput f o := by
    unfold isNoOutput alwaysNoOutput
    cases f.noOutput <;> cases o.mode <;> cases f.mode <;> simp
  rw [hno]
  simpa using h

theorem requiredOk_strs (names : List String) (o : Obj) (h : ∀ n ∈ names, hasKey n o = true) :
    requiredOk (names.map Json.str) o = true := by
  unfold requiredOk
  rw [List.all_eq_true]
  intro j hj
  rw [List.mem_map] at hj
  obtain ⟨n, hn, rfl⟩ := hj
  exact h n hn

theorem mem_sortStrings {x : String} {l : List String} (h : x ∈ sortStrings l) : x ∈ l :=
  (List.mergeSort_perm l _).mem_iff.mp h

theorem isNoOutput_eq_always (f : FieldMeta) (o : Opts) : isNoOutput f o = alwaysNoOutput f o := by
  unfold isNoOutput alwaysNoOutput
  cases f.noOutput <;> cases o.mode <;> cases f.mode <;> simp

theorem lookup_patternProperties_data (cfg : Cfg) (c : ClassMeta) (fs : List Fld) (a : Ty) :
    lookup "patternProperties" (gen cfg (.data c fs a)) = none := by
  rw [gen.eq_def]
  simp only [lookup_append]
  have h0 : ∀ x : Json, lookup "patternProperties" [("type", Json.str "object"), ("properties", x)] = none := by
    intro x; simp [lookup]
  rw [h0]
  have h1 : lookup "patternProperties" (reqSeg cfg (effOpts cfg c) (fs.map Fld.meta)) = none := by
    unfold reqSeg; split <;> simp [lookup]
  have h2 : lookup "patternProperties" (depSeg cfg (effOpts cfg c) (fs.map Fld.meta)) = none := by
    unfold depSeg; split <;> simp [lookup]
  have h3 : lookup "patternProperties" (addSeg (effOpts cfg c) (gen cfg a)) = none := by
    unfold addSeg; cases (effOpts cfg c).addition <;> simp [lookup]
  have h4 : lookup "patternProperties" (classAnnotations (effOpts cfg c)) = none := by
    unfold classAnnotations; cases (effOpts cfg c).mode <;> simp [lookup]
  rw [h1, h2, h3, h4]

theorem lookup_properties_data' (cfg : Cfg) (c : ClassMeta) (fs : List Fld) (a : Ty) :
    lookup "properties" (gen cfg (.data c fs a)) = some (.obj (genFields cfg (effOpts cfg c) fs)) := by
  rw [gen.eq_def]; simp [lookup]

/-- under a schema that agrees with a data-class document on the sibling lookups, a published field name is declared -/
theorem isDeclared_field (C : Ctx) (cfg : Cfg) (c : ClassMeta) (fs : List Fld) (a : Ty) (all : Obj)
    (hall : SibAgree all (gen cfg (.data c fs a))) (name : String)
    (h : ∃ f ∈ fs, f.meta.name = name ∧ fieldVisible cfg (effOpts cfg c) f.meta = true) :
    isDeclared C all name = true := by
  unfold isDeclared
  rw [hall "properties" (by decide), lookup_properties_data']
  simp [hasKey_genFields cfg (effOpts cfg c) fs name h]

end Utv.C13
