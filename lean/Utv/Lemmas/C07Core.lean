import Utv.Model.C07Spec
import Utv.Lemmas.C07Trace
/-! C07 — `Valid`, immutability and provenance are kept by every primitive update. -/
namespace Utv.C07
open Map
variable {V : Type} {C : Cls} {W : World V} {conf : String → V → Prop} {addOk : V → Prop}

/-! ### what `coerce` does -/

/-- the state `__coerce_property__` leaves (repaired code) -/
abbrev co (C : Cls) (W : World V) (s : State V) (p : Field) : State V := (coerce false C W s p).1

theorem coerce_cases (s : State V) (p : Field) :
    co C W s p = s ∨ co C W s p = { s with data := s.data.del p.name } ∨
      ∃ v, compute C W s p = some v ∧ co C W s p = { s with data := s.data.set p.name v } := by
  unfold co coerce compute
  split
  · exact Or.inl rfl
  · split
    · exact Or.inl rfl
    · split
      · exact Or.inr (Or.inl rfl)
      · exact Or.inl rfl
      · rename_i v hv
        exact Or.inr (Or.inr ⟨v, by simp [hv], rfl⟩)

theorem compute3_value {s : State V} {p : Field} {v : V} (h : compute3 C W s p = .value v) :
    ∃ raw, W.convert p.name raw = some v := by
  unfold compute3 at h
  cases h1 : p.deps.mapM (fun d => (getField C d).bind (fieldGet W s)) with
  | none => simp [h1] at h
  | some xs =>
    cases h2 : W.getter p.name xs with
    | none => simp [h1, h2] at h
    | some raw =>
      cases h3 : W.convert p.name raw with
      | none => simp [h1, h2, h3] at h
      | some w =>
        simp [h1, h2, h3] at h
        exact ⟨raw, by rw [h3, h]⟩

theorem compute_convert {s : State V} {p : Field} {v : V} (h : compute C W s p = some v) :
    ∃ raw, W.convert p.name raw = some v := by
  unfold compute at h
  cases hc : compute3 C W s p with
  | raised => simp [hc] at h
  | unconvertible => simp [hc] at h
  | value w =>
    simp [hc] at h
    subst h
    exact compute3_value hc

/-! ### Valid -/

theorem valid_setData (hwf : WF C) {s : State V} (h : Valid C conf addOk s) {f : Field} (hf : f ∈ C.fields)
    (hno : f.noOutput = false) {pv : V} (hc : conf f.name pv) :
    Valid C conf addOk { s with data := s.data.set f.name pv } := by
  refine ⟨?_, ?_, h.confAttr, ?_, ?_, ?_, ?_, h.propAttr⟩
  · intro k v g hk hg
    simp only [get_set] at hk
    by_cases e : k = f.name
    · subst e
      rw [getField_name hwf hf] at hg
      cases hg
      rfl
    · simp only [e, if_false] at hk
      exact h.keyName k v g hk hg
  · intro g hg v hv
    simp only [get_set] at hv
    by_cases e : g.name = f.name
    · have := name_inj hwf hg hf e
      subst this
      simp only [if_true] at hv
      cases hv
      exact hc
    · simp only [e, if_false] at hv
      exact h.confData g hg v hv
  · intro k v hk hg
    simp only [get_set] at hk
    by_cases e : k = f.name
    · subst e
      rw [getField_name hwf hf] at hg
      cases hg
    · simp only [e, if_false] at hk
      exact h.addition k v hk hg
  · intro g hg hr hi
    have := h.required g hg hr hi
    unfold present at this ⊢
    split
    · rename_i hn; simpa [hn] using this
    · rename_i hn
      simp only [hn] at this
      simp only [has_set]
      simp [show s.data.has g.name = true by simpa using this]
  · intro g hg hn
    simp only [get_set]
    by_cases e : g.name = f.name
    · have := name_inj hwf hg hf e
      subst this
      rw [hno] at hn
      cases hn
    · simp only [e, if_false]
      exact h.viewsNo g hg hn
  · intro g hg hn hnone
    simp only [get_set] at hnone
    by_cases e : g.name = f.name
    · simp [e] at hnone
    · simp only [e, if_false] at hnone
      exact h.viewsOut g hg hn hnone

theorem valid_setAttr (hwf : WF C) {s : State V} (h : Valid C conf addOk s) {f : Field} (hf : f ∈ C.fields)
    (hfp : f.isProp = false) (hno : f.noOutput = true) {pv : V} (hc : conf f.name pv) :
    Valid C conf addOk { data := s.data.del f.name, attrs := s.attrs.set f.attname pv } := by
  have hnone : s.data.get f.name = none := h.viewsNo f hf hno
  have hdata : ∀ k, (s.data.del f.name).get k = s.data.get k := by
    intro k
    rw [get_del]
    split
    · rename_i e; rw [e, hnone]
    · rfl
  refine ⟨?_, ?_, ?_, ?_, ?_, ?_, ?_, ?_⟩
  · intro k v g hk hg
    rw [hdata] at hk
    exact h.keyName k v g hk hg
  · intro g hg v hv
    rw [hdata] at hv
    exact h.confData g hg v hv
  · intro g hg v hv
    simp only [get_set] at hv
    by_cases e : g.attname = f.attname
    · have := att_inj hwf hg hf e
      subst this
      simp only [if_true] at hv
      cases hv
      exact hc
    · simp only [e, if_false] at hv
      exact h.confAttr g hg v hv
  · intro k v hk hg
    rw [hdata] at hk
    exact h.addition k v hk hg
  · intro g hg hr hi
    have := h.required g hg hr hi
    unfold present at this ⊢
    split
    · rename_i hn
      simp only [hn, if_true] at this
      simp only [has_set]
      simp [this]
    · rename_i hn
      simp only [hn] at this
      have h2 : s.data.has g.name = true := by simpa using this
      obtain ⟨v, hv⟩ := (has_iff _ _).mp h2
      exact (has_iff _ _).mpr ⟨v, by rw [hdata]; exact hv⟩
  · intro g hg hn
    rw [hdata]
    exact h.viewsNo g hg hn
  · intro g hg hn hnone'
    rw [hdata] at hnone'
    simp only [get_set]
    by_cases e : g.attname = f.attname
    · have := att_inj hwf hg hf e
      subst this
      rw [hno] at hn
      cases hn
    · simp only [e, if_false]
      exact h.viewsOut g hg hn hnone'
  · intro g hg hgp
    have hne : g.attname ≠ f.attname := by
      intro e
      have := att_inj hwf hg hf e
      subst this
      rw [hfp] at hgp
      cases hgp
    simp only [get_set, hne, if_false]
    exact h.propAttr g hg hgp

theorem valid_storeField (hwf : WF C) {s : State V} (h : Valid C conf addOk s) {f : Field} (hf : f ∈ C.fields)
    (hfp : f.isProp = false) {pv : V} (hc : conf f.name pv) : Valid C conf addOk (storeField s f pv) := by
  unfold storeField
  split
  · rename_i hn; exact valid_setAttr hwf h hf hfp hn hc
  · rename_i hn; exact valid_setData hwf h hf (by simpa using hn) hc

/-- a stored property is dropped -/
theorem valid_delProp (hwf : WF C) {s : State V} (h : Valid C conf addOk s) {p : Field} (hp : p ∈ C.fields)
    (hpp : p.isProp = true) : Valid C conf addOk { s with data := s.data.del p.name } := by
  obtain ⟨hreq, _, hno, _⟩ := hwf.propPlain p hp hpp
  refine ⟨?_, ?_, h.confAttr, ?_, ?_, ?_, ?_, h.propAttr⟩
  · intro k v g hk hg
    simp only [get_del] at hk
    split at hk
    · cases hk
    · exact h.keyName k v g hk hg
  · intro g hg v hv
    simp only [get_del] at hv
    split at hv
    · cases hv
    · exact h.confData g hg v hv
  · intro k v hk hg
    simp only [get_del] at hk
    split at hk
    · cases hk
    · exact h.addition k v hk hg
  · intro g hg hr hi
    have hgp : g ≠ p := by intro e; subst e; rw [hreq] at hr; cases hr
    have hne : g.name ≠ p.name := fun e => hgp (name_inj hwf hg hp e)
    have := h.required g hg hr hi
    unfold present at this ⊢
    simp only [has_del, hne, decide_false, Bool.not_false, Bool.true_and]
    exact this
  · intro g hg hn
    simp only [get_del]
    split
    · rfl
    · exact h.viewsNo g hg hn
  · intro g hg hn hnone
    simp only [get_del] at hnone
    by_cases e : g.name = p.name
    · have := name_inj hwf hg hp e
      subst this
      exact h.propAttr g hg hpp
    · simp only [e, if_false] at hnone
      exact h.viewsOut g hg hn hnone

theorem valid_coerce (hwf : WF C) (hl : Laws W conf addOk) {s : State V} (h : Valid C conf addOk s) {p : Field}
    (hp : p ∈ C.fields) (hpp : p.isProp = true) : Valid C conf addOk (co C W s p) := by
  rcases coerce_cases (C := C) (W := W) s p with e | e | ⟨v, hv, e⟩
  · rw [e]; exact h
  · rw [e]; exact valid_delProp hwf h hp hpp
  · rw [e]
    obtain ⟨raw, hx⟩ := compute_convert hv
    exact valid_setData hwf h hp (hwf.propPlain p hp hpp).2.2.1 (hl.convertSound _ _ _ hx)

/-- an invariant kept by recomputing any property is kept by the dependants loop -/
theorem coerceList_preserves (P : State V → Prop)
    (hP : ∀ s p, P s → p ∈ C.fields → p.isProp = true → P (co C W s p)) (l : List String) :
    ∀ s : State V, P s → P (coerceList false C W s l).1 := by
  induction l with
  | nil => intro s h; exact h
  | cons q qs ih =>
    intro s h
    simp only [coerceList]
    split
    · rename_i p hq
      split
      · rename_i hpp
        have h1 := hP s p h (getField_some hq).1 hpp
        cases hc : coerce false C W s p with
        | mk s' b =>
          have e : co C W s p = s' := by simp [co, hc]
          rw [e] at h1
          cases b with
          | true => exact h1
          | false => exact ih s' h1
      · exact ih s h
    · exact ih s h

theorem coerceDependants_preserves (P : State V → Prop)
    (hP : ∀ s p, P s → p ∈ C.fields → p.isProp = true → P (co C W s p)) (f : Field) :
    ∀ s : State V, P s → P (coerceDependants false C W s f).1 :=
  coerceList_preserves P hP f.dependants

theorem clearAttrs_get (s : State V) (a : String) :
    (clearAttrs C s).get a = if C.fields.any (fun f => s.data.has f.name && decide (f.attname = a)) then none
      else s.attrs.get a := by
  unfold clearAttrs
  suffices ∀ (l : List Field) (m : Map V),
      (l.foldl (fun a f => if s.data.has f.name then a.del f.attname else a) m).get a =
        if l.any (fun f => s.data.has f.name && decide (f.attname = a)) then none else m.get a from this _ _
  intro l
  induction l with
  | nil => intro m; simp
  | cons g l ih =>
    intro m
    simp only [List.foldl_cons, List.any_cons]
    rw [ih]
    by_cases hg : s.data.has g.name = true
    · by_cases ha : g.attname = a
      · simp [hg, ha, get_del]
      · have ha' : ¬ a = g.attname := fun e => ha e.symm
        simp [hg, ha, ha', get_del]
    · simp [hg]

theorem valid_prim (hwf : WF C) (hl : Laws W conf addOk) {strict : Bool} {xs : List V} (s : State V) (p : Prim V)
    (h : Valid C conf addOk s) (hok : Prim.ok strict xs C W s p) : Valid C conf addOk (p.apply C W s) := by
  cases p with
  | store f pv =>
    obtain ⟨hf, hfp, _, _, ⟨x, _, hx⟩, _⟩ := hok
    exact coerceDependants_preserves (Valid C conf addOk) (fun s p h hp hpp => valid_coerce hwf hl h hp hpp) f _
      (valid_storeField hwf h hf hfp (hl.parseSound _ _ _ hx))
  | recompute q =>
    exact valid_coerce hwf hl h hok.1 hok.2.1
  | setAdd k v =>
    obtain ⟨hk, _, hadd⟩ := hok
    have hne : ∀ g ∈ C.fields, g.name ≠ k := fun g hg => getField_none_ne hwf hk hg
    refine ⟨?_, ?_, h.confAttr, ?_, ?_, ?_, ?_, h.propAttr⟩
    · intro k' v' g hk' hg
      simp only [Prim.apply, get_set] at hk'
      by_cases e : k' = k
      · subst e; rw [hk] at hg; cases hg
      · simp only [e, if_false] at hk'
        exact h.keyName k' v' g hk' hg
    · intro g hg v' hv
      simp only [Prim.apply, get_set, hne g hg, if_false] at hv
      exact h.confData g hg v' hv
    · intro k' v' hk' hg
      simp only [Prim.apply, get_set] at hk'
      by_cases e : k' = k
      · simp only [e, if_true] at hk'
        cases hk'
        rcases hadd with ⟨ha, _⟩ | ⟨ha, x, _, hx⟩
        · exact Or.inl ha
        · exact Or.inr ⟨ha, hl.addSound _ _ hx⟩
      · simp only [e, if_false] at hk'
        exact h.addition k' v' hk' hg
    · intro g hg hr hi
      have := h.required g hg hr hi
      unfold present at this ⊢
      split
      · rename_i hn; simpa [hn, Prim.apply] using this
      · rename_i hn
        simp only [hn] at this
        simp only [Prim.apply, has_set]
        simp [show s.data.has g.name = true by simpa using this]
    · intro g hg hn
      simp only [Prim.apply, get_set, hne g hg, if_false]
      exact h.viewsNo g hg hn
    · intro g hg hn hnone
      simp only [Prim.apply, get_set, hne g hg, if_false] at hnone
      exact h.viewsOut g hg hn hnone
  | remove f =>
    obtain ⟨hf, _, _, hreq, hhas, _⟩ := hok
    have hfno : f.noOutput = false := by
      cases hn : f.noOutput with
      | false => rfl
      | true =>
        have := h.viewsNo f hf hn
        rw [(has_false_iff _ _).mpr this] at hhas
        cases hhas
    refine ⟨?_, ?_, ?_, ?_, ?_, ?_, ?_, ?_⟩
    · intro k v g hk hg
      simp only [Prim.apply, get_del] at hk
      split at hk
      · cases hk
      · exact h.keyName k v g hk hg
    · intro g hg v hv
      simp only [Prim.apply, get_del] at hv
      split at hv
      · cases hv
      · exact h.confData g hg v hv
    · intro g hg v hv
      simp only [Prim.apply, get_del] at hv
      split at hv
      · cases hv
      · exact h.confAttr g hg v hv
    · intro k v hk hg
      simp only [Prim.apply, get_del] at hk
      split at hk
      · cases hk
      · exact h.addition k v hk hg
    · intro g hg hr hi
      have hgf : g ≠ f := by
        intro e
        subst e
        rcases hreq with h1 | h1
        · rw [h1] at hr; cases hr
        · rw [h1] at hi; cases hi
      have hne : g.name ≠ f.name := fun e => hgf (name_inj hwf hg hf e)
      have hna : g.attname ≠ f.attname := fun e => hgf (att_inj hwf hg hf e)
      have := h.required g hg hr hi
      unfold present at this ⊢
      simp only [Prim.apply, has_del, hne, hna, decide_false, Bool.not_false, Bool.true_and]
      exact this
    · intro g hg hn
      simp only [Prim.apply, get_del]
      split
      · rfl
      · exact h.viewsNo g hg hn
    · intro g hg hn hnone
      simp only [Prim.apply, get_del] at hnone ⊢
      by_cases e : g.name = f.name
      · have := name_inj hwf hg hf e
        subst this
        simp
      · simp only [e, if_false] at hnone
        have := h.viewsOut g hg hn hnone
        split
        · rfl
        · exact this
    · intro g hg hgp
      simp only [Prim.apply, get_del]
      split
      · rfl
      · exact h.propAttr g hg hgp
  | delKey k =>
    have hk : getField C k = none := hok
    have hne : ∀ g ∈ C.fields, g.name ≠ k := fun g hg => getField_none_ne hwf hk hg
    refine ⟨?_, ?_, h.confAttr, ?_, ?_, ?_, ?_, h.propAttr⟩
    · intro k' v' g hk' hg
      simp only [Prim.apply, get_del] at hk'
      split at hk'
      · cases hk'
      · exact h.keyName k' v' g hk' hg
    · intro g hg v' hv
      simp only [Prim.apply, get_del, hne g hg, if_false] at hv
      exact h.confData g hg v' hv
    · intro k' v' hk' hg
      simp only [Prim.apply, get_del] at hk'
      split at hk'
      · cases hk'
      · exact h.addition k' v' hk' hg
    · intro g hg hr hi
      have := h.required g hg hr hi
      unfold present at this ⊢
      simp only [Prim.apply, has_del, hne g hg, decide_false, Bool.not_false, Bool.true_and]
      exact this
    · intro g hg hn
      simp only [Prim.apply, get_del, hne g hg, if_false]
      exact h.viewsNo g hg hn
    · intro g hg hn hnone
      simp only [Prim.apply, get_del, hne g hg, if_false] at hnone
      exact h.viewsOut g hg hn hnone
  | clear =>
    have hall : ∀ f ∈ C.fields, f.immutable = false ∧ (f.required = false ∨ C.opts.ignoreRequired = true) := hok
    refine ⟨?_, ?_, ?_, ?_, ?_, ?_, ?_, ?_⟩
    · intro k v g hk; simp [Prim.apply] at hk
    · intro g hg v hv; simp [Prim.apply] at hv
    · intro g hg v hv
      simp only [Prim.apply, clearAttrs_get] at hv
      split at hv
      · cases hv
      · exact h.confAttr g hg v hv
    · intro k v hk; simp [Prim.apply] at hk
    · intro g hg hr hi
      rcases (hall g hg).2 with h1 | h1
      · rw [h1] at hr; cases hr
      · rw [h1] at hi; cases hi
    · intro g hg hn; simp [Prim.apply]
    · intro g hg hn _
      simp only [Prim.apply, clearAttrs_get]
      split
      · rfl
      · rename_i hany
        cases hd : s.data.get g.name with
        | none => exact h.viewsOut g hg hn hd
        | some v =>
          exfalso
          apply hany
          rw [List.any_eq_true]
          exact ⟨g, hg, by simp [(has_iff _ _).mpr ⟨v, hd⟩]⟩
    · intro g hg hgp
      simp only [Prim.apply, clearAttrs_get]
      split
      · rfl
      · exact h.propAttr g hg hgp
  | setAttrOther a v =>
    have ha : fieldByAtt C a = none := hok.1
    have hne : ∀ g ∈ C.fields, g.attname ≠ a := fun g hg => fieldByAtt_none ha hg
    refine ⟨h.keyName, h.confData, ?_, h.addition, ?_, h.viewsNo, ?_, ?_⟩
    · intro g hg v' hv
      simp only [Prim.apply, get_set, hne g hg, if_false] at hv
      exact h.confAttr g hg v' hv
    · intro g hg hr hi
      have := h.required g hg hr hi
      unfold present at this ⊢
      simp only [Prim.apply, has_set, hne g hg, decide_false, Bool.false_or]
      exact this
    · intro g hg hn hnone
      simp only [Prim.apply, get_set, hne g hg, if_false]
      exact h.viewsOut g hg hn hnone
    · intro g hg hgp
      simp only [Prim.apply, get_set, hne g hg, if_false]
      exact h.propAttr g hg hgp
  | delAttrOther a =>
    have ha : fieldByAtt C a = none := hok
    have hne : ∀ g ∈ C.fields, g.attname ≠ a := fun g hg => fieldByAtt_none ha hg
    refine ⟨h.keyName, h.confData, ?_, h.addition, ?_, h.viewsNo, ?_, ?_⟩
    · intro g hg v' hv
      simp only [Prim.apply, get_del, hne g hg, if_false] at hv
      exact h.confAttr g hg v' hv
    · intro g hg hr hi
      have := h.required g hg hr hi
      unfold present at this ⊢
      simp only [Prim.apply, has_del, hne g hg, decide_false, Bool.not_false, Bool.true_and]
      exact this
    · intro g hg hn hnone
      simp only [Prim.apply, get_del, hne g hg, if_false]
      exact h.viewsOut g hg hn hnone
    · intro g hg hgp
      simp only [Prim.apply, get_del, hne g hg, if_false]
      exact h.propAttr g hg hgp

/-! ### immutable fields -/

theorem stored_coerce (hwf : WF C) {f : Field} (hf : f ∈ C.fields) (hi : f.immutable = true) (s : State V)
    {p : Field} (hp : p ∈ C.fields) (hpp : p.isProp = true) : stored (co C W s p) f = stored s f := by
  have hne : f.name ≠ p.name := by
    intro e'
    have := name_inj hwf hf hp e'
    subst this
    rw [(hwf.propPlain f hp hpp).2.1] at hi
    cases hi
  rcases coerce_cases (C := C) (W := W) s p with e | e | ⟨v, _, e⟩
  · rw [e]
  · rw [e]; simp [stored, get_del, hne]
  · rw [e]; simp [stored, get_set, hne]

theorem stored_prim (hwf : WF C) {strict : Bool} {xs : List V} {f : Field} (hf : f ∈ C.fields) (hi : f.immutable = true)
    (s : State V) (p : Prim V) (hok : Prim.ok strict xs C W s p) : stored (p.apply C W s) f = stored s f := by
  cases p with
  | store g pv =>
    obtain ⟨hg, _, hgi, _, _⟩ := hok
    have hgf : f ≠ g := by intro e; subst e; rw [hgi] at hi; cases hi
    have hne : f.name ≠ g.name := fun e => hgf (name_inj hwf hf hg e)
    have hna : f.attname ≠ g.attname := fun e => hgf (att_inj hwf hf hg e)
    have h1 : stored (storeField s g pv) f = stored s f := by
      unfold storeField
      split <;> simp [stored, get_set, get_del, hne, hna]
    have := coerceDependants_preserves (C := C) (W := W) (fun t => stored t f = stored s f)
      (fun t p ht hp hpp => by rw [stored_coerce hwf hf hi t hp hpp]; exact ht) g _ h1
    exact this
  | recompute q => exact stored_coerce hwf hf hi s hok.1 hok.2.1
  | setAdd k v =>
    have hne : f.name ≠ k := getField_none_ne hwf hok.1 hf
    simp [Prim.apply, stored, get_set, hne]
  | remove g =>
    obtain ⟨hg, hgi, _⟩ := hok
    have hgf : f ≠ g := by intro e; subst e; rw [hgi] at hi; cases hi
    have hne : f.name ≠ g.name := fun e => hgf (name_inj hwf hf hg e)
    have hna : f.attname ≠ g.attname := fun e => hgf (att_inj hwf hf hg e)
    simp [Prim.apply, stored, get_del, hne, hna]
  | delKey k =>
    have hk : getField C k = none := hok
    have hne : f.name ≠ k := getField_none_ne hwf hk hf
    simp [Prim.apply, stored, get_del, hne]
  | clear =>
    have hall : ∀ f ∈ C.fields, f.immutable = false ∧ (f.required = false ∨ C.opts.ignoreRequired = true) := hok
    rw [(hall f hf).1] at hi
    cases hi
  | setAttrOther a v =>
    have ha : fieldByAtt C a = none := hok.1
    have hne : f.attname ≠ a := fieldByAtt_none ha hf
    simp [Prim.apply, stored, get_set, hne]
  | delAttrOther a =>
    have ha : fieldByAtt C a = none := hok
    have hne : f.attname ≠ a := fieldByAtt_none ha hf
    simp [Prim.apply, stored, get_del, hne]

/-! ### provenance -/

/-- every entry of `t` is an entry of `s` or has a legitimate origin (keys and `__dict__`) -/
def Prov (C : Cls) (W : World V) (xs : List V) (s t : State V) : Prop :=
  (∀ k v, t.data.get k = some v → Origin C W xs s k v) ∧ (∀ a v, t.attrs.get a = some v → OriginAttr C W xs s a v)

theorem Prov.refl (xs : List V) (s : State V) : Prov C W xs s s := ⟨fun _ _ h => Or.inl h, fun _ _ h => Or.inl h⟩

theorem Prov.trans {xs : List V} {a b c : State V} (h1 : Prov C W xs a b) (h2 : Prov C W xs b c) : Prov C W xs a c := by
  refine ⟨?_, ?_⟩
  · intro k v hk
    rcases h2.1 k v hk with h | h | h | h
    · exact h1.1 k v h
    · exact Or.inr (Or.inl h)
    · exact Or.inr (Or.inr (Or.inl h))
    · exact Or.inr (Or.inr (Or.inr h))
  · intro k v hk
    rcases h2.2 k v hk with h | h | h
    · exact h1.2 k v h
    · exact Or.inr (Or.inl h)
    · exact Or.inr (Or.inr h)

theorem prov_coerce (hwf : WF C) (xs : List V) (s : State V) {p : Field} (hp : p ∈ C.fields) :
    Prov C W xs s (co C W s p) := by
  rcases coerce_cases (C := C) (W := W) s p with e | e | ⟨v, hv, e⟩
  · rw [e]; exact Prov.refl xs s
  · rw [e]
    refine ⟨?_, fun _ _ h => Or.inl h⟩
    intro k v' hk
    simp only [get_del] at hk
    split at hk
    · cases hk
    · exact Or.inl hk
  · rw [e]
    refine ⟨?_, fun _ _ h => Or.inl h⟩
    intro k v' hk
    simp only [get_set] at hk
    by_cases e' : k = p.name
    · simp only [e', if_true] at hk
      cases hk
      obtain ⟨raw, hx⟩ := compute_convert hv
      exact Or.inr (Or.inr (Or.inl ⟨p, raw, by rw [e']; exact getField_name hwf hp, hx⟩))
    · simp only [e', if_false] at hk
      exact Or.inl hk

theorem fieldByAtt_att (hwf : WF C) {f : Field} (hf : f ∈ C.fields) : fieldByAtt C f.attname = some f := by
  cases h : fieldByAtt C f.attname with
  | none => exact absurd rfl (fieldByAtt_none h hf)
  | some g =>
    obtain ⟨hg, hga⟩ := fieldByAtt_some h
    rw [att_inj hwf hg hf hga]

theorem prov_prim (hwf : WF C) {strict : Bool} {xs : List V} (s : State V) (p : Prim V)
    (hok : Prim.ok strict xs C W s p) : Prov C W xs s (p.apply C W s) := by
  cases p with
  | store f pv =>
    obtain ⟨hf, _, _, _, ⟨x, hxm, hx⟩, _⟩ := hok
    have h1 : Prov C W xs s (storeField s f pv) := by
      refine ⟨?_, ?_⟩
      · intro k v hk
        unfold storeField at hk
        split at hk
        · simp only [get_del] at hk
          split at hk
          · cases hk
          · exact Or.inl hk
        · simp only [get_set] at hk
          by_cases e : k = f.name
          · simp only [e, if_true] at hk
            cases hk
            exact Or.inr (Or.inl ⟨f, by rw [e]; exact getField_name hwf hf, x, hxm, hx⟩)
          · simp only [e, if_false] at hk
            exact Or.inl hk
      · intro a v hk
        unfold storeField at hk
        split at hk
        · simp only [get_set] at hk
          by_cases e : a = f.attname
          · simp only [e, if_true] at hk
            cases hk
            exact Or.inr (Or.inl ⟨f, by rw [e]; exact fieldByAtt_att hwf hf, x, hxm, hx⟩)
          · simp only [e, if_false] at hk
            exact Or.inl hk
        · exact Or.inl hk
    exact coerceDependants_preserves (C := C) (W := W) (fun t => Prov C W xs s t)
      (fun t p ht hp _ => ht.trans (prov_coerce hwf xs t hp)) f _ h1
  | recompute q => exact prov_coerce hwf xs s hok.1
  | setAdd k v =>
    obtain ⟨hk, _, hadd⟩ := hok
    refine ⟨?_, fun _ _ h => Or.inl h⟩
    intro k' v' hk'
    simp only [Prim.apply, get_set] at hk'
    by_cases e : k' = k
    · simp only [e, if_true] at hk'
      cases hk'
      refine Or.inr (Or.inr (Or.inr ⟨by rw [e]; exact hk, ?_⟩))
      rcases hadd with ⟨ha, hm⟩ | ⟨_, x, hm, hx⟩
      · exact Or.inl ⟨ha, hm⟩
      · exact Or.inr ⟨x, hm, hx⟩
    · simp only [e, if_false] at hk'
      exact Or.inl hk'
  | remove f =>
    refine ⟨?_, ?_⟩
    · intro k v hk
      simp only [Prim.apply, get_del] at hk
      split at hk
      · cases hk
      · exact Or.inl hk
    · intro k v hk
      simp only [Prim.apply, get_del] at hk
      split at hk
      · cases hk
      · exact Or.inl hk
  | delKey k =>
    refine ⟨?_, fun _ _ h => Or.inl h⟩
    intro k' v hk
    simp only [Prim.apply, get_del] at hk
    split at hk
    · cases hk
    · exact Or.inl hk
  | clear =>
    refine ⟨?_, ?_⟩
    · intro k v hk; simp [Prim.apply] at hk
    · intro a v hk
      simp only [Prim.apply, clearAttrs_get] at hk
      split at hk
      · cases hk
      · exact Or.inl hk
  | setAttrOther a v =>
    obtain ⟨ha, hm⟩ := hok
    refine ⟨fun _ _ h => Or.inl h, ?_⟩
    intro a' v' hk
    simp only [Prim.apply, get_set] at hk
    by_cases e : a' = a
    · simp only [e, if_true] at hk
      cases hk
      exact Or.inr (Or.inr ⟨by rw [e]; exact ha, hm⟩)
    · simp only [e, if_false] at hk
      exact Or.inl hk
  | delAttrOther a =>
    refine ⟨fun _ _ h => Or.inl h, ?_⟩
    intro a' v hk
    simp only [Prim.apply, get_del] at hk
    split at hk
    · cases hk
    · exact Or.inl hk

end Utv.C07
