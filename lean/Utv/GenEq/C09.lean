import Utv.GenEq.Support
import Utv.Gen.Parse
import Utv.Model.C09
/-!
C09 — T1 obligations: `LogicalType.logical_parse` (utype/parser/rule.py), regenerated on every run as
`Utv.Gen.Parse.logical_parse`, is the hand model's `logicalNeg / logicalXor / logicalUnion / logicalAll`
(`Model/C09.lean`), and the context bookkeeping it uses is the model's `handleError / raiseError`.

Encoding.  The abstract values of the object layer are the model's values and its abstract errors (`V ⊕ Err`).  An `Err`
the code itself builds is the object it builds (`NegateViolatedError`, `OneOfViolatedError`, `CollectedParseError(errors=…)`);
every other `Err` is abstract.  The combinator class carries its `combinator` and `args` (argument `i` is the class
`OVal.cls i`); the context is the `RuntimeContext` with its two lists and the options `logical_parse` / `handle_error`
read.  Entering a sub-context and converting there are the world's: `context.enter(comb, options)` hands back a context
whose `transformer`, called on `(value, argument i)`, answers `Arg.out s` of argument `i` for the stage options `s`.
-/
namespace Utv.GenEq.C09
open Utv.Obj Utv.C09 Utv.Gen

variable {V : Type}

abbrev E (V : Type) := OVal (V ⊕ Err)

mutual
/-- an error as the Python object: the three the code builds itself, every other one abstract -/
def encE : Err → E V
  | .mk 0 es => .obj "CollectedParseError" [("errors", .seq .list (encEs es))]
  | .mk 1 [] => .obj "OneOfViolatedError" []
  | .mk 2 [] => .obj "NegateViolatedError" []
  | .mk 3 [] => .obj "ParseError" []
  | e => .obj (if e.isParseError then "ParseError" else "Exception") [("err", .val (.inr e))]
def encEs : List Err → List (E V)
  | [] => []
  | e :: es => encE e :: encEs es
end

theorem encEs_eq_map (es : List Err) : encEs (V := V) es = es.map encE := by
  induction es with
  | nil => rfl
  | cons e es ih => simp [encEs, ih]

theorem encEs_append (a b : List Err) : encEs (V := V) (a ++ b) = encEs a ++ encEs b := by
  simp [encEs_eq_map]

theorem encE_collected (es : List Err) :
    encE (V := V) (Err.collected es) = .obj "CollectedParseError" [("errors", .seq .list (encEs es))] := rfl

def encOptNat : Option Nat → E V
  | none => .none
  | some n => .int n

/-- the `Options` of a context, as `logical_parse` and `handle_error` read them -/
def encO (o : Opts) : E V :=
  .obj "Options" [("no_data_loss", .bool o.noDataLoss), ("no_explicit_cast", .bool o.noExplicitCast),
    ("collect_errors", .bool o.collectErrors), ("max_errors", encOptNat o.maxErrors)]

/-- the combinator's own context -/
def encCtx (o : Opts) (c : Ctx) : E V :=
  .obj "RuntimeContext" [("errors", .seq .list (encEs c.errors)), ("tmp_errors", .seq .list (encEs c.tmp)),
    ("options", encO o)]

def encRaised : Option Err → Outcome (V ⊕ Err)
  | none => .ret .none
  | some e => .raise (encE e)

/-- `handle_error(e)` is the model's `handleError` -/
theorem C09_gen_handle_error (W : World (V ⊕ Err)) (o : Opts) (c : Ctx) (e : Err) :
    Options.handle_error W (encCtx o c) (encE e) (.bool false)
      = .ok (encCtx o (handleError o c e).1, encRaised (handleError o c e).2) := by
  gen_obligation "C09_gen_handle_error: the regenerated code (Utv.Gen) is no longer equal to the hand model here" by
    obtain ⟨ndl, nec, collect, me, ov⟩ := o
    obtain ⟨errors, tmp⟩ := c
    cases collect <;> cases me <;>
      obj_simp [Options.handle_error, encCtx, encO, encOptNat, getattr, setattr, lookupAttr, setAttrL, append, OVal.isNone,
        handleError, Ctx.push, encRaised, encEs_append, encEs, toList, iter, extend, len, ge, le, intOf?]
    rename_i m
    have hlen : (encEs (V := V) errors).length = errors.length := by simp [encEs_eq_map]
    have hce : encE (V := V) (Err.collected (errors ++ e :: tmp)) =
        .obj "CollectedParseError" [("errors", .seq .list (encEs (errors ++ e :: tmp)))] := rfl
    by_cases hm : m ≤ errors.length + 1
    · have hm' : (m : Int) ≤ ((encEs (V := V) errors).length : Int) + 1 := by rw [hlen]; omega
      cases tmp <;> simp [hm, hm', hce, encEs_append, encEs]
    · have hm' : ¬ (m : Int) ≤ ((encEs (V := V) errors).length : Int) + 1 := by rw [hlen]; omega
      simp [hm, hm', encEs_append, encEs]

def encRes (v : V) (x : Option Err) : Outcome (V ⊕ Err) :=
  match x with
  | none => .ret (.val (.inl v))
  | some e => .raise (encE e)

/-- `raise_error()` is the model's `raiseError` (what `return value` then hands back is the caller's) -/
theorem C09_gen_raise_error (W : World (V ⊕ Err)) (o : Opts) (c : Ctx) (v : V) :
    Options.raise_error W (encCtx o c)
      = .ok (encCtx o c, match (raiseError c v).2 with
        | .ok _ => .ret .none
        | .error e => .raise (encE e)) := by
  gen_obligation "C09_gen_raise_error: the regenerated code (Utv.Gen) is no longer equal to the hand model here" by
    obtain ⟨errors, tmp⟩ := c
    have hce : encE (V := V) (Err.collected (errors ++ tmp)) =
        .obj "CollectedParseError" [("errors", .seq .list (encEs (errors ++ tmp)))] := rfl
    cases errors <;> cases tmp <;>
      obj_simp [Options.raise_error, encCtx, getattr, lookupAttr, raiseError, encEs, toList, iter, extend, hce, encEs_append] <;>
      simp [encE_collected, encEs, encEs_append]

theorem collect_tmp_eq (W : World (V ⊕ Err)) (o : Opts) (c : Ctx) (e : Err) :
    Options.collect_tmp_error W (encCtx o c) (encE e) = .ok (encCtx o { c with tmp := c.tmp ++ [e] }, .ret .none) := by
  obj_simp [Options.collect_tmp_error, encCtx, getattr, setattr, lookupAttr, setAttrL, append, encEs_append, encEs]

theorem clear_tmp_eq (W : World (V ⊕ Err)) (o : Opts) (c : Ctx) :
    Options.clear_tmp_error W (encCtx o c) = .ok (encCtx o { c with tmp := [] }, .ret .none) := by
  obj_simp [Options.clear_tmp_error, encCtx, setattr, setAttrL, encEs]

/-! ### the combinator class, the entered contexts, the world -/

/-- a `LogicalType` with combinator `comb` over `n` arguments (argument `i` is the class `OVal.cls i`) -/
def encCls (comb : String) (n : Nat) : E V :=
  .obj "LogicalType" [("combinator", .str comb), ("args", .seq .tuple ((List.range n).map OVal.cls))]

/-- the converter of a context that runs under the options `s` -/
def trOf (s : Opts) : E V := .obj "transformer" [("options", encO s)]

/-- a context entered for one condition, running under `s`: `logical_parse` only asks it for its `transformer` -/
def entered (s : Opts) : E V := .obj "RuntimeContext" [("transformer", trOf s)]

def encOut : Except Err V → M (V ⊕ Err) (E V)
  | .ok r => .ok (.val (.inl r))
  | .error e => .error (.raised (encE e))

/-- entering a sub-context without options keeps the options; converting there is the argument's `Arg.out` -/
structure WorldOk (W : World (V ⊕ Err)) (as : List (Arg V)) (comb : String) (o : Opts) : Prop where
  enter0 : ∀ c : Ctx, W.ext "enter" [encCtx o c, .str comb, .none] = .ok (entered o)
  conv : ∀ (s : Opts) (i : Nat) (a : Arg V) (v : V), as[i]? = some a →
    W.call (trOf s) [.val (.inl v), .cls i] = encOut (a.out s v)

theorem ga_comb (comb : String) (n : Nat) : getattr (encCls (V := V) comb n) "combinator" = .ok (.str comb) := rfl
theorem ga_args (comb : String) (n : Nat) :
    getattr (encCls (V := V) comb n) "args" = .ok (.seq .tuple ((List.range n).map OVal.cls)) := rfl
theorem ga_tr (s : Opts) : getattr (entered (V := V) s) "transformer" = .ok (trOf s) := rfl

/-- what one iteration of the `~` loop does to the context, and whether the loop goes on -/
def negStep (o : Opts) (v : V) (a : Arg V) (c : Ctx) : ForInStep (E V) :=
  match a.out o v with
  | .error _ => .done (encCtx o c)
  | .ok _ =>
    match handleError o c .negate with
    | (c1, some _) => .done (encCtx o c1)
    | (c1, none) => .yield (encCtx o c1)

theorem forIn_neg (g : E V → E V → M (V ⊕ Err) (ForInStep (E V))) (o : Opts) (v : V) :
    ∀ (as : List (Arg V)) (k : Nat) (c : Ctx),
      (∀ (j : Nat) (a : Arg V) (c : Ctx), as[j]? = some a → g (.cls (k + j)) (encCtx o c) = .ok (negStep o v a c)) →
      forIn ((List.range' k as.length).map OVal.cls) (encCtx o c) g = .ok (encCtx o (negLoop o v as c)) := by
  intro as
  induction as with
  | nil => intro k c _; rfl
  | cons a rest ih =>
    intro k c hg
    have h0 := hg 0 a c rfl
    simp only [Nat.add_zero] at h0
    simp only [List.length_cons, List.range'_succ, List.map_cons, List.forIn_cons, h0, negStep, negLoop]
    cases hout : a.out o v with
    | error e => simp [bind, Except.bind, pure, Except.pure]
    | ok r =>
      cases hh : handleError o c .negate with
      | mk c1 x =>
        cases x with
        | some e' => simp [bind, Except.bind, pure, Except.pure]
        | none =>
          simp only [bind, Except.bind]
          exact ih (k + 1) c1 (fun j a' c' hj => by
            have := hg (j + 1) a' c' (by simpa using hj)
            rwa [show k + (j + 1) = k + 1 + j by omega] at this)

theorem C09_gen_not (W : World (V ⊕ Err)) (as : List (Arg V)) (o : Opts) (c : Ctx) (v : V)
    (hw : WorldOk W as "~" o) :
    Parse.logical_parse W (encCls "~" as.length) (.val (.inl v)) (encCtx o c)
      = .ok (encCtx o (logicalNeg as o c v).1, encRes v (match (logicalNeg as o c v).2 with | .ok _ => none | .error e => some e)) := by
  gen_obligation "C09_gen_not: the regenerated code (Utv.Gen) is no longer equal to the hand model here" by
    unfold Parse.logical_parse
    have e1 : Obj.eq (V := V ⊕ Err) (.str "~") (.str "&") = .ok false := rfl
    have e2 : Obj.eq (V := V ⊕ Err) (.str "~") (.str "|") = .ok false := rfl
    have e3 : Obj.eq (V := V ⊕ Err) (.str "~") (.str "^") = .ok false := rfl
    have e4 : Obj.eq (V := V ⊕ Err) (.str "~") (.str "~") = .ok true := rfl
    have ht : truthy (encCtx (V := V) o c) = .ok true := rfl
    simp only [ht, ga_comb, ga_args, e1, e2, e3, e4, iter, bind, Except.bind, pure, Except.pure, Bool.false_eq_true, if_false,
      if_true]
    rw [List.range_eq_range', forIn_neg _ o v as 0 c]
    · simp only [C09_gen_raise_error W o _ v, logicalNeg]
      cases (raiseError (negLoop o v as c) v).2 <;> rfl
    · intro j a c' hj
      have hc := hw.conv o j a v hj
      have hn : (OVal.obj "NegateViolatedError" [] : E V) = encE Err.negate := rfl
      simp only [Nat.zero_add, hw.enter0 c', ga_tr, hc, hn, C09_gen_handle_error, negStep, Option.isNone_none, if_true]
      cases hout : a.out o v with
      | error e =>
        simp [encOut, tryCatch, tryCatchThe, MonadExceptOf.tryCatch, Except.tryCatch]
        rfl
      | ok r =>
        cases hh : handleError o c' .negate with
        | mk c1 x =>
          cases x <;> simp [encOut, tryCatch, tryCatchThe, MonadExceptOf.tryCatch, Except.tryCatch, encRaised] <;> rfl

/-! ### `|` -/

/-- every error is an `Exception` object -/
theorem isA_encE (e : Err) : Exc.isA (.raised (encE (V := V) e)) ["Exception"] = true := by
  unfold encE
  split <;> simp [Exc.isA]

/-- one stage of the union: try every argument in a context entered for it; state = (early return, context, `val`) -/
theorem forIn_try (g : E V → Option (E V × Outcome (V ⊕ Err)) × E V × E V →
      M (V ⊕ Err) (ForInStep (Option (E V × Outcome (V ⊕ Err)) × E V × E V)))
    (o s : Opts) (errs : List Err) (v : V) :
    ∀ (as : List (Arg V)) (k : Nat) (tmp : List Err) (w : E V),
      (∀ (j : Nat) (a : Arg V) (tmp : List Err) (w : E V), as[j]? = some a →
        g (.cls (k + j)) (none, encCtx o ⟨errs, tmp⟩, w) = .ok (match a.out s v with
          | .ok r => .done (some (encCtx o ⟨errs, []⟩, .ret (.val (.inl r))), encCtx o ⟨errs, []⟩, .val (.inl r))
          | .error e => .yield (none, encCtx o ⟨errs, tmp ++ [e]⟩, w))) →
      forIn ((List.range' k as.length).map OVal.cls) (none, encCtx o ⟨errs, tmp⟩, w) g
        = .ok (match tryArgs s v as tmp with
          | (some r, _) => (some (encCtx o ⟨errs, []⟩, .ret (.val (.inl r))), encCtx o ⟨errs, []⟩, .val (.inl r))
          | (none, tmp') => (none, encCtx o ⟨errs, tmp'⟩, w)) := by
  intro as
  induction as with
  | nil => intro k tmp w _; rfl
  | cons a rest ih =>
    intro k tmp w hg
    have h0 := hg 0 a tmp w rfl
    simp only [Nat.add_zero] at h0
    simp only [List.length_cons, List.range'_succ, List.map_cons, List.forIn_cons, h0, tryArgs]
    cases hout : a.out s v with
    | ok r => simp [bind, Except.bind, pure, Except.pure]
    | error e =>
      simp only [bind, Except.bind]
      exact ih (k + 1) (tmp ++ [e]) w (fun j a' tmp' w' hj => by
        have := hg (j + 1) a' tmp' w' (by simpa using hj)
        rwa [show k + (j + 1) = k + 1 + j by omega] at this)

/-- the exact-type scan: `type(value) == con` for some argument -/
theorem forIn_exact (g : E V → Option (E V × Outcome (V ⊕ Err)) × PUnit →
      M (V ⊕ Err) (ForInStep (Option (E V × Outcome (V ⊕ Err)) × PUnit))) (v : V) (ret : E V × Outcome (V ⊕ Err)) :
    ∀ (as : List (Arg V)) (k : Nat),
      (∀ (j : Nat) (a : Arg V), as[j]? = some a →
        g (.cls (k + j)) (none, ⟨⟩) = .ok (if a.exact v then .done (some ret, ⟨⟩) else .yield (none, ⟨⟩))) →
      forIn ((List.range' k as.length).map OVal.cls) (none, PUnit.unit) g
        = .ok (if as.any (fun a => a.exact v) then (some ret, ⟨⟩) else (none, ⟨⟩)) := by
  intro as
  induction as with
  | nil => intro k _; rfl
  | cons a rest ih =>
    intro k hg
    have h0 := hg 0 a rfl
    simp only [Nat.add_zero] at h0
    simp only [List.length_cons, List.range'_succ, List.map_cons, List.forIn_cons, h0, List.any_cons]
    by_cases hx : a.exact v = true
    · simp [hx, bind, Except.bind, pure, Except.pure]
    · have hx' : a.exact v = false := by simpa using hx
      simp only [hx', bind, Except.bind, Bool.false_eq_true, if_false, Bool.false_or]
      exact ih (k + 1) (fun j a' hj => by
        have := hg (j + 1) a' (by simpa using hj)
        rwa [show k + (j + 1) = k + 1 + j by omega] at this)

/-- `trial = dict(invalid_items=Options.THROW, invalid_keys=Options.THROW, invalid_values=Options.THROW)` -/
abbrev trialOpts : E V :=
  .dict [(.str "invalid_items", .str "throw"), (.str "invalid_keys", .str "throw"), (.str "invalid_values", .str "throw")]

/-- the world of a union: `type(value)` compares equal to argument `i` exactly when the model's `exact` says so; the two
option sets the code builds (`Options(no_data_loss=True, no_explicit_cast=True, **trial)` and `Options(no_data_loss=True,
invalid_items/keys/values=THROW)`: the trial stages throw on what does not convert) are `so` and `sn`, and a context entered with them runs under the model's `strictOpts o` /
`noLossOpts o` (the merge `self.options & options` is the world's here) -/
structure UnionWorld (W : World (V ⊕ Err)) (as : List (Arg V)) (o : Opts) (v : V) (tv so sn : E V) : Prop
    extends WorldOk W as "|" o where
  ty : W.ext "type" [.val (.inl v)] = .ok tv
  exact : ∀ (i : Nat) (a : Arg V), as[i]? = some a → Obj.eq tv (.cls i) = .ok (a.exact v)
  strict : W.ext "Options" [.seq .tuple [.str "no_data_loss", .bool true], .seq .tuple [.str "no_explicit_cast", .bool true],
      .seq .tuple [.str "**", trialOpts]] = .ok so
  noLoss : W.ext "Options" [.seq .tuple [.str "no_data_loss", .bool true], .seq .tuple [.str "invalid_items", .str "throw"],
      .seq .tuple [.str "invalid_keys", .str "throw"], .seq .tuple [.str "invalid_values", .str "throw"]] = .ok sn
  enterS : ∀ c : Ctx, W.ext "enter" [encCtx o c, .str "|", so] = .ok (entered (strictOpts o))
  enterN : ∀ c : Ctx, W.ext "enter" [encCtx o c, .str "|", sn] = .ok (entered (noLossOpts o))

/-- the body of a stage loop, for one argument: enter, convert, `collect_tmp_error` / `clear_tmp_error(); return val` -/
local macro "stage_side " hw:term ", " hent:term ", " s:term ", " v:term : tactic => `(tactic| (
  intro j a tmp' w hj
  simp only [Nat.zero_add, $hent:term, ga_tr, WorldOk.conv (UnionWorld.toWorldOk $hw) $s j a $v hj]
  cases a.out $s $v with
  | ok r =>
    simp [encOut, tryCatch, tryCatchThe, MonadExceptOf.tryCatch, Except.tryCatch, clear_tmp_eq]
    rfl
  | error e =>
    simp [encOut, tryCatch, tryCatchThe, MonadExceptOf.tryCatch, Except.tryCatch, isA_encE, Exc.toVal, collect_tmp_eq]
    rfl))

/-- `any_of` (`|`): the exact-type scan, then the strict / no-data-loss / common stages the options call for, the first
success returning from a cleared context, and `raise_error()` when every stage failed -/
theorem C09_gen_any_of (W : World (V ⊕ Err)) (as : List (Arg V)) (o : Opts) (c : Ctx) (v : V) (tv so sn : E V)
    (hw : UnionWorld W as o v tv so sn) :
    Parse.logical_parse W (encCls "|" as.length) (.val (.inl v)) (encCtx o c)
      = .ok (encCtx o (logicalUnion as o c v).1,
          match (logicalUnion as o c v).2 with
          | .ok r => .ret (.val (.inl r))
          | .error e => .raise (encE e)) := by
  gen_obligation "C09_gen_any_of: the regenerated code (Utv.Gen) is no longer equal to the hand model here" by
    unfold Parse.logical_parse
    have e1 : Obj.eq (V := V ⊕ Err) (.str "|") (.str "&") = .ok false := rfl
    have e2 : Obj.eq (V := V ⊕ Err) (.str "|") (.str "|") = .ok true := rfl
    have ht : truthy (encCtx (V := V) o c) = .ok true := rfl
    have go : ∀ c' : Ctx, getattr (encCtx (V := V) o c') "options" = .ok (encO o) := fun _ => rfl
    have gn : getattr (encO (V := V) o) "no_data_loss" = .ok (.bool o.noDataLoss) := rfl
    have gx : getattr (encO (V := V) o) "no_explicit_cast" = .ok (.bool o.noExplicitCast) := rfl
    simp only [ht, ga_comb, ga_args, e1, e2, go, gn, gx, truthy_bool, hw.strict, hw.noLoss, iter, bind, Except.bind, pure,
      Except.pure, Bool.false_eq_true, if_false, if_true]
    rw [List.range_eq_range', forIn_exact _ v (encCtx o c, .ret (.val (.inl v))) as 0]
    · obtain ⟨errors, tmp⟩ := c
      by_cases hx : (as.any fun a => a.exact v) = true
      · simp [hx, logicalUnion]
      · simp only [hx, logicalUnion]
        cases hn : o.noDataLoss <;> cases he : o.noExplicitCast <;>
          simp only [hn, he, Bool.not_true, Bool.not_false, Bool.false_eq_true, if_true, if_false, stages, Bool.or_true,
            Bool.or_false, Bool.and_true, Bool.and_false, Bool.true_or, Bool.false_or, Bool.and_self, Bool.or_self,
            List.nil_append, List.cons_append, unionStages]
        · rw [forIn_try _ o (strictOpts o) errors v as 0 tmp]
          · cases h1 : tryArgs (strictOpts o) v as tmp with
            | mk r1 t1 =>
              cases r1 with
              | some r => rfl
              | none =>
                simp only [go, gn, gx, hn, he, truthy_bool, Bool.not_false, if_true]
                rw [forIn_try _ o (noLossOpts o) errors v as 0 t1]
                · cases h2 : tryArgs (noLossOpts o) v as t1 with
                  | mk r2 t2 =>
                    cases r2 with
                    | some r => rfl
                    | none =>
                      simp only []
                      rw [forIn_try _ o o errors v as 0 t2]
                      · cases h3 : tryArgs o v as t2 with
                        | mk r3 t3 =>
                          cases r3 with
                          | some r => rfl
                          | none =>
                            simp only []
                            rw [C09_gen_raise_error W o _ v]
                            simp only [raiseError]
                            by_cases hb : (errors.isEmpty && t3.isEmpty) = true <;> simp [hb]
                      · stage_side hw, hw.enter0, o, v
                · stage_side hw, hw.enterN, (noLossOpts o), v
          · stage_side hw, hw.enterS, (strictOpts o), v
        · rw [forIn_try _ o (strictOpts o) errors v as 0 tmp]
          · cases h1 : tryArgs (strictOpts o) v as tmp with
            | mk r1 t1 =>
              cases r1 with
              | some r => rfl
              | none =>
                simp only [go, gn, gx, hn, he, truthy_bool, Bool.not_false, Bool.not_true, Bool.false_eq_true, if_true, if_false]
                rw [forIn_try _ o o errors v as 0 t1]
                · cases h3 : tryArgs o v as t1 with
                  | mk r3 t3 =>
                    cases r3 with
                    | some r => rfl
                    | none =>
                      simp only []
                      rw [C09_gen_raise_error W o _ v]
                      simp only [raiseError]
                      by_cases hb : (errors.isEmpty && t3.isEmpty) = true <;> simp [hb]
                · stage_side hw, hw.enter0, o, v
          · stage_side hw, hw.enterS, (strictOpts o), v
        · rw [forIn_try _ o (strictOpts o) errors v as 0 tmp]
          · cases h1 : tryArgs (strictOpts o) v as tmp with
            | mk r1 t1 =>
              cases r1 with
              | some r => rfl
              | none =>
                simp only [go, gn, gx, hn, he, truthy_bool, Bool.not_false, Bool.not_true, Bool.false_eq_true, if_true, if_false]
                rw [forIn_try _ o o errors v as 0 t1]
                · cases h3 : tryArgs o v as t1 with
                  | mk r3 t3 =>
                    cases r3 with
                    | some r => rfl
                    | none =>
                      simp only []
                      rw [C09_gen_raise_error W o _ v]
                      simp only [raiseError]
                      by_cases hb : (errors.isEmpty && t3.isEmpty) = true <;> simp [hb]
                · stage_side hw, hw.enter0, o, v
          · stage_side hw, hw.enterS, (strictOpts o), v
        · rw [forIn_try _ o o errors v as 0 tmp]
          · cases h3 : tryArgs o v as tmp with
            | mk r3 t3 =>
              cases r3 with
              | some r => rfl
              | none =>
                simp only []
                rw [C09_gen_raise_error W o _ v]
                simp only [raiseError]
                by_cases hb : (errors.isEmpty && t3.isEmpty) = true <;> simp [hb]
          · stage_side hw, hw.enter0, o, v
    · intro j a hj
      simp only [Nat.zero_add, hw.ty, hw.exact j a hj]
      cases a.exact v <;> rfl

/-! ### `^` -/

/-- the loop state of `^`: (early return, context, `error`, `result`, `val`, `xor`) -/
abbrev XSt (V : Type) := Option (E V × Outcome (V ⊕ Err)) × E V × E V × E V × E V × E V

/-- what the code's `xor` / `result` hold when the model's accumulator is `acc` -/
def XorInv (acc : Option V) (res xo : E V) : Prop :=
  xo.isNone = acc.isNone ∧ ∀ r, acc = some r → res = .val (.inl r)

/-- the state the loop ends in, as far as the rest of the function reads it -/
def XorFinal (o : Opts) (errs : List Err) (v : V) (as : List (Arg V)) (acc : Option V) (tmp : List Err) (s : XSt V) : Prop :=
  match xorLoop o v as acc tmp with
  | (_, tmp', true) =>
    match handleError o ⟨errs, tmp'⟩ .oneOf with
    | (c1, some e) => s.1 = some (encCtx o c1, .raise (encE e))
    | (c1, none) => s.1 = none ∧ s.2.1 = encCtx o c1 ∧ s.2.2.2.2.2 = .none
  | (acc', tmp', false) => s.1 = none ∧ s.2.1 = encCtx o ⟨errs, tmp'⟩ ∧ XorInv acc' s.2.2.2.1 s.2.2.2.2.2

/-- one iteration of `^` -/
def xorStep (o : Opts) (errs tmp : List Err) (v : V) (a : Arg V) (i : Nat) (ej res vj xo : E V) : ForInStep (XSt V) :=
  match a.out o v with
  | .error e => .yield (none, encCtx o ⟨errs, tmp ++ [e]⟩, ej, res, vj, xo)
  | .ok r =>
    if xo.isNone then .yield (none, encCtx o ⟨errs, tmp⟩, ej, .val (.inl r), .val (.inl r), .cls i)
    else match handleError o ⟨errs, tmp⟩ .oneOf with
      | (c1, some e) =>
        .done (some (encCtx o c1, .raise (encE e)), encCtx o c1, .obj "OneOfViolatedError" [], res, .val (.inl r), .none)
      | (c1, none) => .done (none, encCtx o c1, .obj "OneOfViolatedError" [], res, .val (.inl r), .none)

/-- the loop of `^` on the code's own state -/
def xorRun (o : Opts) (errs : List Err) (v : V) : List (Arg V) → Nat → List Err → E V → E V → E V → E V → XSt V
  | [], _, tmp, ej, res, vj, xo => (none, encCtx o ⟨errs, tmp⟩, ej, res, vj, xo)
  | a :: as, k, tmp, ej, res, vj, xo =>
    match a.out o v with
    | .error e => xorRun o errs v as (k + 1) (tmp ++ [e]) ej res vj xo
    | .ok r =>
      if xo.isNone then xorRun o errs v as (k + 1) tmp ej (.val (.inl r)) (.val (.inl r)) (.cls k)
      else match handleError o ⟨errs, tmp⟩ .oneOf with
        | (c1, some e) =>
          (some (encCtx o c1, .raise (encE e)), encCtx o c1, .obj "OneOfViolatedError" [], res, .val (.inl r), .none)
        | (c1, none) => (none, encCtx o c1, .obj "OneOfViolatedError" [], res, .val (.inl r), .none)

theorem forIn_xor (g : E V → XSt V → M (V ⊕ Err) (ForInStep (XSt V))) (o : Opts) (errs : List Err) (v : V) :
    ∀ (as : List (Arg V)) (k : Nat) (tmp : List Err) (ej res vj xo : E V),
      (∀ (j : Nat) (a : Arg V) (tmp : List Err) (ej res vj xo : E V), as[j]? = some a →
        g (.cls (k + j)) (none, encCtx o ⟨errs, tmp⟩, ej, res, vj, xo) = .ok (xorStep o errs tmp v a (k + j) ej res vj xo)) →
      forIn ((List.range' k as.length).map OVal.cls) (none, encCtx o ⟨errs, tmp⟩, ej, res, vj, xo) g
        = .ok (xorRun o errs v as k tmp ej res vj xo) := by
  intro as
  induction as with
  | nil => intro k tmp ej res vj xo _; rfl
  | cons a rest ih =>
    intro k tmp ej res vj xo hg
    have h0 := hg 0 a tmp ej res vj xo rfl
    simp only [Nat.add_zero] at h0
    have hg' : ∀ (j : Nat) (a' : Arg V) (tmp : List Err) (ej res vj xo : E V), rest[j]? = some a' →
        g (.cls (k + 1 + j)) (none, encCtx o ⟨errs, tmp⟩, ej, res, vj, xo)
          = .ok (xorStep o errs tmp v a' (k + 1 + j) ej res vj xo) := by
      intro j a' tmp ej res vj xo hj
      have := hg (j + 1) a' tmp ej res vj xo (by simpa using hj)
      rwa [show k + (j + 1) = k + 1 + j by omega] at this
    simp only [List.length_cons, List.range'_succ, List.map_cons, List.forIn_cons, h0, xorStep, xorRun]
    cases hout : a.out o v with
    | error e =>
      simp only [bind, Except.bind]
      exact ih (k + 1) (tmp ++ [e]) ej res vj xo hg'
    | ok r =>
      cases hx : xo.isNone
      · simp only [Bool.false_eq_true, if_false]
        cases hh : handleError o ⟨errs, tmp⟩ .oneOf with
        | mk c1 x => cases x <;> rfl
      · simp only [if_true, bind, Except.bind]
        exact ih (k + 1) tmp ej _ _ _ hg'

theorem xorRun_final (o : Opts) (errs : List Err) (v : V) :
    ∀ (as : List (Arg V)) (k : Nat) (acc : Option V) (tmp : List Err) (ej res vj xo : E V),
      XorInv acc res xo → XorFinal o errs v as acc tmp (xorRun o errs v as k tmp ej res vj xo) := by
  intro as
  induction as with
  | nil =>
    intro k acc tmp ej res vj xo hinv
    simp [XorFinal, xorLoop, xorRun, hinv]
  | cons a rest ih =>
    intro k acc tmp ej res vj xo hinv
    simp only [xorRun, XorFinal, xorLoop]
    cases hout : a.out o v with
    | error e => exact ih (k + 1) acc (tmp ++ [e]) ej res vj xo hinv
    | ok r =>
      cases acc with
      | none =>
        have hx : xo.isNone = true := by simpa using hinv.1
        simp only [hx, if_true]
        exact ih (k + 1) (some r) tmp ej _ _ _ ⟨rfl, fun r' h => by cases h; rfl⟩
      | some r0 =>
        have hx : xo.isNone = false := by simpa using hinv.1
        simp only [hx, Bool.false_eq_true, if_false]
        cases hh : handleError o ⟨errs, tmp⟩ .oneOf with
        | mk c1 x => cases x <;> simp

theorem C09_gen_one_of (W : World (V ⊕ Err)) (as : List (Arg V)) (o : Opts) (c : Ctx) (v : V)
    (hw : WorldOk W as "^" o) :
    Parse.logical_parse W (encCls "^" as.length) (.val (.inl v)) (encCtx o c)
      = .ok (encCtx o (logicalXor as o c v).1,
          match (logicalXor as o c v).2 with
          | .ok r => .ret (.val (.inl r))
          | .error e => .raise (encE e)) := by
  gen_obligation "C09_gen_one_of: the regenerated code (Utv.Gen) is no longer equal to the hand model here" by
    unfold Parse.logical_parse
    have e1 : Obj.eq (V := V ⊕ Err) (.str "^") (.str "&") = .ok false := rfl
    have e2 : Obj.eq (V := V ⊕ Err) (.str "^") (.str "|") = .ok false := rfl
    have e3 : Obj.eq (V := V ⊕ Err) (.str "^") (.str "^") = .ok true := rfl
    have ht : truthy (encCtx (V := V) o c) = .ok true := rfl
    simp only [ht, ga_comb, ga_args, e1, e2, e3, iter, bind, Except.bind, pure, Except.pure, Bool.false_eq_true, if_false,
      if_true]
    obtain ⟨errors, tmp⟩ := c
    have hf := xorRun_final o errors v as 0 none tmp .none (.val (.inl v)) .none .none ⟨rfl, fun r h => by cases h⟩
    rw [List.range_eq_range', forIn_xor _ o errors v as 0 tmp]
    rotate_left
    · intro j a tmp' ej res vj xo hj
      have hc := hw.conv o j a v hj
      simp only [Nat.zero_add, hw.enter0, ga_tr, hc, xorStep]
      cases hout : a.out o v with
      | error e =>
        simp [encOut, tryCatch, tryCatchThe, MonadExceptOf.tryCatch, Except.tryCatch, isA_encE, Exc.toVal, collect_tmp_eq]
        rfl
      | ok r =>
        have hn : (OVal.obj "OneOfViolatedError" [] : E V) = encE Err.oneOf := rfl
        simp only [encOut, tryCatch, tryCatchThe, MonadExceptOf.tryCatch, Except.tryCatch, ExceptT.run, OptionT.pure,
          OptionT.run, OptionT.mk, StateT.pure, ExceptT.pure, ExceptT.mk, pure, Except.pure]
        simp only [EarlyReturn.runK, Continue.runK, hn, C09_gen_handle_error]
        cases xo.isNone
        · cases hh : handleError o ⟨errors, tmp'⟩ .oneOf with
          | mk c1 x => cases x <;> rfl
        · rfl
    generalize xorRun o errors v as 0 tmp .none (.val (.inl v)) .none .none = s' at hf ⊢
    obtain ⟨ret, cx, ej, rs, vj, xo⟩ := s'
    simp only [XorFinal] at hf
    simp only [logicalXor]
    generalize xorLoop o v as none tmp = R at hf ⊢
    obtain ⟨acc', tmp', viol⟩ := R
    cases viol with
    | false =>
      simp only at hf
      obtain ⟨rfl, rfl, hinv⟩ := hf
      cases acc' with
      | none =>
        have hx : xo.isNone = true := by simpa using hinv.1
        simp only [hx, Bool.not_true, Bool.false_eq_true, if_false]
        rw [C09_gen_raise_error W o _ v]
        simp only [raiseError]
        by_cases hb : (errors.isEmpty && tmp'.isEmpty) = true <;> simp [hb]
      | some r =>
        have hx : xo.isNone = false := by simpa using hinv.1
        have hr : rs = .val (.inl r) := hinv.2 r rfl
        simp only [hx, hr, Bool.not_false, if_true, clear_tmp_eq]
        rw [C09_gen_raise_error W o _ r]
        simp only [raiseError]
        cases errors <;> simp
    | true =>
      simp only at hf
      cases hh : handleError o ⟨errors, tmp'⟩ .oneOf with
      | mk c1 x =>
        rw [hh] at hf
        cases x with
        | some e =>
          simp only at hf
          subst hf
          simp [afterHandle, hh]
        | none =>
          simp only at hf
          obtain ⟨rfl, rfl, rfl⟩ := hf
          have hx : (OVal.none : E V).isNone = true := rfl
          simp only [hx, Bool.not_true, Bool.false_eq_true, if_false, afterHandle, hh]
          rw [C09_gen_raise_error W o _ v]
          obtain ⟨e1', t1'⟩ := c1
          simp only [raiseError]
          by_cases hb : (e1'.isEmpty && t1'.isEmpty) = true <;> simp [hb]

/-! ### `&`

The code wraps an exception that is not a `ParseError` into `ParseError(type=con, value=value, origin_exc=e)`; the model's
`Err.wrapParse` yields the bare `.mk parseErrorId []`.  The theorem is therefore stated after `forget`, which drops exactly
those three attributes of a `ParseError` object (everywhere: the wrapped error also ends up in `context.errors` and inside a
`CollectedParseError`) and leaves everything else as it is. -/

mutual
def forget : E V → E V
  | .seq k xs => .seq k (forgetL xs)
  | .dict kvs => .dict (forgetD kvs)
  | .obj c attrs => .obj c (forgetA (c == "ParseError") attrs)
  | x => x
def forgetL : List (E V) → List (E V)
  | [] => []
  | x :: xs => forget x :: forgetL xs
def forgetD : List (E V × E V) → List (E V × E V)
  | [] => []
  | (k, x) :: r => (forget k, forget x) :: forgetD r
def forgetA (wrap : Bool) : List (String × E V) → List (String × E V)
  | [] => []
  | (n, x) :: r =>
    if wrap && n == "type" then forgetA wrap r              -- `type=con`
    else if wrap && n == "value" then forgetA wrap r        -- `value=value`
    else if wrap && n == "origin_exc" then forgetA wrap r   -- `origin_exc=e`
    else (n, forget x) :: forgetA wrap r
end

def forgetOut : E V × Outcome (V ⊕ Err) → E V × Outcome (V ⊕ Err)
  | (c, .ret x) => (forget c, .ret (forget x))
  | (c, .raise x) => (forget c, .raise (forget x))

mutual
theorem forget_encE : ∀ e : Err, forget (encE (V := V) e) = encE e
  | .mk c es => by
    unfold encE
    split
    · rename_i heq
      injection heq with _ h2
      subst h2
      simp [forget, forgetA, forget_encEs es]
    · simp [forget, forgetA]
    · simp [forget, forgetA]
    · simp [forget, forgetA]
    · split <;> simp [forget, forgetA]
theorem forget_encEs : ∀ es : List Err, forgetL (encEs (V := V) es) = encEs es
  | [] => rfl
  | e :: es => by simp [encEs, forgetL, forget_encE e, forget_encEs es]
end

theorem forgetL_append (a b : List (E V)) : forgetL (a ++ b) = forgetL a ++ forgetL b := by
  induction a with
  | nil => rfl
  | cons x a ih => simp [forgetL, ih]

/-- a context whose lists hold arbitrary objects (the wrapped error is one) -/
def encCtxL (o : Opts) (es ts : List (E V)) : E V :=
  .obj "RuntimeContext" [("errors", .seq .list es), ("tmp_errors", .seq .list ts), ("options", encO o)]

theorem encCtx_eq (o : Opts) (c : Ctx) : encCtx (V := V) o c = encCtxL o (encEs c.errors) (encEs c.tmp) := rfl

/-- which way `handle_error` goes depends on the options and the lengths only -/
inductive HDec | raiseSelf | raiseAll | go

def hdec (o : Opts) (nErrors : Nat) : HDec :=
  if !o.collectErrors then .raiseSelf
  else match o.maxErrors with
    | some m => if nErrors + 1 ≥ m then .raiseAll else .go
    | none => .go

theorem handle_error_obj (W : World (V ⊕ Err)) (o : Opts) (es ts : List (E V)) (x : E V) :
    Options.handle_error W (encCtxL o es ts) x (.bool false)
      = .ok (encCtxL o (es ++ [x]) ts, match hdec o es.length with
        | .raiseSelf => .raise x
        | .raiseAll => .raise (.obj "CollectedParseError" [("errors", .seq .list (es ++ x :: ts))])
        | .go => .ret .none) := by
  obtain ⟨ndl, nec, collect, me, ov⟩ := o
  cases collect <;> cases me <;>
    obj_simp [Options.handle_error, encCtxL, encO, encOptNat, getattr, setattr, lookupAttr, setAttrL, append, OVal.isNone,
      hdec, toList, iter, extend, len, ge, le, intOf?]
  rename_i m
  by_cases hm : m ≤ es.length + 1
  · have hm' : (m : Int) ≤ (es.length : Int) + 1 := by omega
    cases ts <;> simp [hm, hm']
  · have hm' : ¬ (m : Int) ≤ (es.length : Int) + 1 := by omega
    simp [hm, hm']

theorem raise_error_obj (W : World (V ⊕ Err)) (o : Opts) (es ts : List (E V)) :
    Options.raise_error W (encCtxL o es ts)
      = .ok (encCtxL o es ts, if es.isEmpty && ts.isEmpty then .ret .none
        else .raise (.obj "CollectedParseError" [("errors", .seq .list (es ++ ts))])) := by
  cases es <;> cases ts <;>
    obj_simp [Options.raise_error, encCtxL, getattr, lookupAttr, toList, iter, extend]

/-- the conditions of `&` run on the combinator's own context: `context.transformer(value, con_i)` is the model's `Arg.run` -/
structure AllWorld (W : World (V ⊕ Err)) (as : List (Arg V)) (o : Opts) : Prop where
  run : ∀ (c : Ctx) (i : Nat) (a : Arg V) (v : V), as[i]? = some a →
    W.method "transformer" (encCtx o c) [.val (.inl v), .cls i]
      = .ok (encCtx o (a.run o c v).1, match (a.run o c v).2 with
        | .ok r => .ret (.val (.inl r))
        | .error e => .raise (encE e))

/-- the loop state of `&`: (early return, context, `value`, `e`) -/
abbrev ASt (V : Type) := Option (E V × Outcome (V ⊕ Err)) × E V × E V × E V

/-- the exception `handle_error` is given: a `ParseError` as it is, anything else wrapped with its payload -/
def wrapObj (k : Nat) (v : V) (e : Err) : E V :=
  if e.isParseError then encE e
  else .obj "ParseError" [("type", .cls k), ("value", .val (.inl v)), ("origin_exc", encE e)]

/-- the state the loop ends in when condition `k` raised `e` in context `c'` -/
def allErr (o : Opts) (k : Nat) (c' : Ctx) (v : V) (e : Err) : ASt V :=
  let cx : E V := encCtxL o (encEs c'.errors ++ [wrapObj k v e]) (encEs c'.tmp)
  match hdec o (encEs (V := V) c'.errors).length with
  | .raiseSelf => (some (cx, .raise (wrapObj k v e)), cx, .val (.inl v), wrapObj k v e)
  | .raiseAll =>
    (some (cx, .raise (.obj "CollectedParseError"
      [("errors", .seq .list (encEs c'.errors ++ wrapObj k v e :: encEs c'.tmp))])), cx, .val (.inl v), wrapObj k v e)
  | .go => (none, cx, .val (.inl v), wrapObj k v e)

def allStep (o : Opts) (k : Nat) (c : Ctx) (v : V) (a : Arg V) (ej : E V) : ForInStep (ASt V) :=
  match a.run o c v with
  | (c', .ok v') => .yield (none, encCtx o c', .val (.inl v'), ej)
  | (c', .error e) => .done (allErr o k c' v e)

def allRun (o : Opts) : List (Arg V) → Nat → Ctx → V → E V → ASt V
  | [], _, c, v, ej => (none, encCtx o c, .val (.inl v), ej)
  | a :: as, k, c, v, ej =>
    match a.run o c v with
    | (c', .ok v') => allRun o as (k + 1) c' v' ej
    | (c', .error e) => allErr o k c' v e

theorem forIn_all (g : E V → ASt V → M (V ⊕ Err) (ForInStep (ASt V))) (o : Opts) :
    ∀ (as : List (Arg V)) (k : Nat) (c : Ctx) (v : V) (ej : E V),
      (∀ (j : Nat) (a : Arg V) (c : Ctx) (v : V) (ej : E V), as[j]? = some a →
        g (.cls (k + j)) (none, encCtx o c, .val (.inl v), ej) = .ok (allStep o (k + j) c v a ej)) →
      forIn ((List.range' k as.length).map OVal.cls) (none, encCtx o c, .val (.inl v), ej) g
        = .ok (allRun o as k c v ej) := by
  intro as
  induction as with
  | nil => intro k c v ej _; rfl
  | cons a rest ih =>
    intro k c v ej hg
    have h0 := hg 0 a c v ej rfl
    simp only [Nat.add_zero] at h0
    simp only [List.length_cons, List.range'_succ, List.map_cons, List.forIn_cons, h0, allStep, allRun]
    cases hr : a.run o c v with
    | mk c' res =>
      cases res with
      | error e => rfl
      | ok v' =>
        simp only [bind, Except.bind]
        exact ih (k + 1) c' v' ej (fun j a' c v ej hj => by
          have := hg (j + 1) a' c v ej (by simpa using hj)
          rwa [show k + (j + 1) = k + 1 + j by omega] at this)

/-- the end of the loop in the model's terms -/
def AllFinal (o : Opts) (as : List (Arg V)) (c : Ctx) (v : V) (ej : E V) (s : ASt V) : Prop :=
  match allLoop o as c v with
  | (c', v', none) => s = (none, encCtx o c', .val (.inl v'), ej)
  | (c', v', some e) => ∃ k, s = allErr o k c' v' e

theorem allRun_final (o : Opts) :
    ∀ (as : List (Arg V)) (k : Nat) (c : Ctx) (v : V) (ej : E V), AllFinal o as c v ej (allRun o as k c v ej) := by
  intro as
  induction as with
  | nil => intro k c v ej; rfl
  | cons a rest ih =>
    intro k c v ej
    simp only [AllFinal, allLoop, allRun]
    cases hr : a.run o c v with
    | mk c' res =>
      cases res with
      | error e => exact ⟨k, rfl⟩
      | ok v' => exact ih (k + 1) c' v' ej

/-- `exc.ParseError` and the classes utype/utils/exceptions.py derives from it -/
abbrev peClasses : List String :=
  ["ParseError", "TypeMismatchError", "InvalidInstance", "InvalidSubclass", "DiscriminatorMismatchError", "ConstraintError",
    "ExceedError", "TupleExceedError", "AliasConflictError", "DepthExceedError", "ParamsExceedError", "ParamsLackError",
    "AbsenceError", "DependenciesAbsenceError", "RecursionExceeded", "TransformError", "CollectedParseError",
    "NegateViolatedError", "OneOfViolatedError"]

theorem isinst_encE (e : Err) : isinstance (encE (V := V) e) peClasses = .ok e.isParseError := by
  unfold encE
  split
  · simp [isinstance, Err.isParseError, Err.cls, Err.nonParseBase, pure, Except.pure]
  · simp [isinstance, Err.isParseError, Err.cls, Err.nonParseBase, pure, Except.pure]
  · simp [isinstance, Err.isParseError, Err.cls, Err.nonParseBase, pure, Except.pure]
  · simp [isinstance, Err.isParseError, Err.cls, Err.nonParseBase, pure, Except.pure]
  · split <;> simp_all [isinstance, pure, Except.pure]

theorem forget_encO (o : Opts) : forget (encO (V := V) o) = encO o := by
  cases hm : o.maxErrors <;> simp [encO, encOptNat, forget, forgetA, hm]

theorem forget_ctxL (o : Opts) (es ts : List (E V)) : forget (encCtxL o es ts) = encCtxL o (forgetL es) (forgetL ts) := by
  simp [encCtxL, forget, forgetA, forget_encO]

theorem forget_encCtx (o : Opts) (c : Ctx) : forget (encCtx (V := V) o c) = encCtx o c := by
  rw [encCtx_eq, forget_ctxL, forget_encEs, forget_encEs]

theorem forget_wrap (k : Nat) (v : V) (e : Err) : forget (wrapObj k v e) = encE e.wrapParse := by
  unfold wrapObj Err.wrapParse
  cases e.isParseError
  · simp [forget, forgetA]
    rfl
  · simp [forget_encE]

theorem handleError_hdec (o : Opts) (c : Ctx) (x : Err) :
    handleError o c x = match hdec o c.errors.length with
      | .raiseSelf => (c.push x, some x)
      | .raiseAll => (c.push x, some (.collected ((c.errors ++ [x]) ++ c.tmp)))
      | .go => (c.push x, none) := by
  unfold handleError hdec
  cases o.collectErrors
  · rfl
  · cases o.maxErrors with
    | none => rfl
    | some m =>
      simp only [Bool.not_true, Bool.false_eq_true, if_false, Ctx.push, List.length_append, List.length_cons, List.length_nil]
      by_cases h : c.errors.length + 1 ≥ m <;> simp [h]

theorem C09_gen_all_of (W : World (V ⊕ Err)) (as : List (Arg V)) (o : Opts) (c : Ctx) (v : V)
    (hw : AllWorld W as o) :
    (Parse.logical_parse W (encCls "&" as.length) (.val (.inl v)) (encCtx o c)).map forgetOut
      = .ok (encCtx o (logicalAll as o c v).1,
          match (logicalAll as o c v).2 with
          | .ok r => .ret (.val (.inl r))
          | .error e => .raise (encE e)) := by
  gen_obligation "C09_gen_all_of: the regenerated code (Utv.Gen) is no longer equal to the hand model here" by
    unfold Parse.logical_parse
    have e1 : Obj.eq (V := V ⊕ Err) (.str "&") (.str "&") = .ok true := rfl
    have ht : truthy (encCtx (V := V) o c) = .ok true := rfl
    simp only [ht, ga_comb, ga_args, e1, iter, bind, Except.bind, pure, Except.pure, if_true]
    have hf := allRun_final o as 0 c v .none
    rw [List.range_eq_range', forIn_all _ o as 0 c v .none]
    rotate_left
    · intro j a c' v' ej hj
      have hr := hw.run c' j a v' hj
      simp only [Nat.zero_add, Option.isNone_none, if_true, hr, allStep]
      cases hrun : a.run o c' v' with
      | mk c1 res =>
        cases res with
        | ok v1 => rfl
        | error e =>
          simp only [isinst_encE, allErr, wrapObj, encCtx_eq, handle_error_obj]
          cases e.isParseError <;> cases hdec o (encEs (V := V) c1.errors).length <;> rfl
    generalize allRun o as 0 c v .none = s' at hf ⊢
    simp only [AllFinal] at hf
    simp only [logicalAll]
    generalize allLoop o as c v = R at hf ⊢
    obtain ⟨c', v', oe⟩ := R
    cases oe with
    | none =>
      simp only at hf
      subst hf
      simp only [C09_gen_raise_error W o c' v', raiseError]
      by_cases hb : (c'.errors.isEmpty && c'.tmp.isEmpty) = true <;>
        simp [hb, Except.map, forgetOut, forget_encCtx, forget_encE, forget]
    | some e =>
      simp only at hf
      obtain ⟨k, rfl⟩ := hf
      have hlen : (encEs (V := V) c'.errors).length = c'.errors.length := by simp [encEs_eq_map]
      simp only [allErr, hlen, handleError_hdec, afterHandle]
      cases hdec o c'.errors.length
      · simp [Except.map, forgetOut, forget_ctxL, forgetL_append, forget_encEs, forgetL, forget_wrap, encCtx_eq, Ctx.push,
          encEs_append, encEs]
      · simp [Except.map, forgetOut, forget_ctxL, forgetL_append, forget_encEs, forgetL, forget_wrap, encCtx_eq, Ctx.push,
          encEs_append, encEs, forget, forgetA, encE_collected]
      · simp [Except.map, forgetOut, forget_ctxL, forgetL_append, forget_encEs, forgetL, forget_wrap, encCtx_eq, Ctx.push,
          encEs_append, encEs, forget, forgetA, encE_collected, raise_error_obj, raiseError]

end Utv.GenEq.C09
