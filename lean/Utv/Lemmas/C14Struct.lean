import Utv.Lemmas.C14Round
/-! C14 — container lemmas: lists, sets (dedup), dict keys, field lookup. -/
namespace Utv.C14

theorem canonList_eq_map (xs : List Val) : canonList xs = xs.map Val.canon := by
  induction xs with
  | nil => rfl
  | cons x xs ih => simp [canonList, ih]

theorem dedup_of_distinct : ∀ (ys xs : List Val), canonList ys = canonList xs → distinctCanon xs = true →
    dedupVals ys = ys
  | [], _, _, _ => rfl
  | y :: ys, [], h, _ => by simp [canonList] at h
  | y :: ys, x :: xs, h, hd => by
    simp only [canonList, List.cons.injEq] at h
    simp only [distinctCanon, Bool.and_eq_true, List.all_eq_true] at hd
    have ih := dedup_of_distinct ys xs h.2 hd.2
    simp only [dedupVals, ih, List.cons.injEq, true_and]
    apply List.filter_eq_self.mpr
    intro z hz
    have : z.canon ∈ canonList xs := by
      rw [← h.2, canonList_eq_map]; exact List.mem_map.mpr ⟨z, hz, rfl⟩
    rw [canonList_eq_map] at this
    obtain ⟨w, hw, hwz⟩ := List.mem_map.mp this
    have := hd.1 w hw
    rw [hwz, ← h.1] at this
    exact this

theorem lookup_of_mem_distinct {β : Type} : ∀ (kvs : List (Str × β)) (n : Str) (j : β),
    distinct (kvs.map (·.1)) = true → (n, j) ∈ kvs → lookup n kvs = some j
  | [], _, _, _, h => by simp at h
  | (k, v) :: r, n, j, hd, h => by
    simp only [List.map_cons, distinct, Bool.and_eq_true] at hd
    rcases List.mem_cons.mp h with h | h
    · injection h with h1 h2; subst h1; subst h2; simp [lookup]
    · have hne : (k == n) = false := by
        cases hk : k == n with
        | false => rfl
        | true =>
          have e : k = n := by simpa using hk
          subst e
          have : (r.map (·.1)).contains k = true := by
            simp only [List.contains_iff_mem]
            exact List.mem_map.mpr ⟨(k, j), h, rfl⟩
          rw [this] at hd; simp at hd
      simp [lookup, hne, lookup_of_mem_distinct r n j hd.2 h]

theorem Key.toStr_inj {k : KeyTy} {a b : Key} (ha : a.hasTy k = true) (hb : b.hasTy k = true)
    (h : a.toStr = b.toStr) : a = b := by
  cases k <;> cases a <;> cases b <;> simp [Key.hasTy] at ha hb
  · simpa [Key.toStr] using h
  · rename_i i j
    simp only [Key.toStr] at h
    have : i = j := by
      unfold intStr at h
      split at h <;> split at h
      · injection h with _ h2; have := natStr_inj h2; omega
      · rename_i h1 h2
        cases hn : natStr j.toNat with
        | nil => exact absurd hn (natStr_ne_nil _)
        | cons c r =>
          rw [hn] at h
          have hc : c.isDigit = true := natStr_isDigit (by rw [hn]; simp)
          injection h with h3 _; subst h3; simp at hc
      · cases hn : natStr i.toNat with
        | nil => exact absurd hn (natStr_ne_nil _)
        | cons c r =>
          rw [hn] at h
          have hc : c.isDigit = true := natStr_isDigit (by rw [hn]; simp)
          injection h with h3 _; subst h3; simp at hc
      · have := natStr_inj h; omega
    subst this; rfl

theorem distinct_map_of_inj {α β : Type} [BEq α] [LawfulBEq α] [BEq β] [LawfulBEq β] (f : α → β) :
    ∀ (l : List α), (∀ a ∈ l, ∀ b ∈ l, f a = f b → a = b) → distinct l = true → distinct (l.map f) = true
  | [], _, _ => rfl
  | x :: xs, hinj, hd => by
    simp only [distinct, Bool.and_eq_true] at hd
    simp only [List.map_cons, distinct, Bool.and_eq_true]
    refine ⟨?_, distinct_map_of_inj f xs (fun a ha b hb => hinj a (by simp [ha]) b (by simp [hb])) hd.2⟩
    cases hc : (xs.map f).contains (f x) with
    | false => rfl
    | true =>
      have : f x ∈ xs.map f := by simpa using hc
      obtain ⟨w, hw, hwx⟩ := List.mem_map.mp this
      have := hinj w (by simp [hw]) x (by simp) hwx
      subst this
      have : xs.contains w = true := by simpa using hw
      rw [this] at hd; simp at hd

theorem find?_none_of_not_mem {β : Type} (key : Key) : ∀ (l : List (Key × β)),
    (l.map (·.1)).contains key = false → l.find? (fun kv => kv.1 == key) = none
  | [], _ => rfl
  | (k, v) :: r, h => by
    simp only [List.map_cons, List.contains_cons, Bool.or_eq_false_iff] at h
    have hk : (k == key) = false := by
      cases hh : k == key with
      | false => rfl
      | true => have : k = key := by simpa using hh
                subst this; simp at h
    simp only [List.find?, hk]
    exact find?_none_of_not_mem key r h.2


@[simp] theorem Res.bind_ok {α β : Type} (a : α) (f : α → Res β) : (Res.ok a >>= f) = f a := rfl
@[simp] theorem Res.bind_perr {α β : Type} (f : α → Res β) : ((Res.perr : Res α) >>= f) = Res.perr := rfl
@[simp] theorem Res.pure_eq {α : Type} (a : α) : (pure a : Res α) = Res.ok a := rfl

/-- the outcome of a conversion of `j` that may also refuse: ParseError, or a value equal to `x` -/
def Weak (r : Res Val) (x : Val) : Prop := r = .perr ∨ ∃ y, r = .ok y ∧ y.canon = x.canon
/-- … that succeeds -/
def Strong (r : Res Val) (x : Val) : Prop := ∃ y, r = .ok y ∧ y.canon = x.canon

theorem Strong.weak {r : Res Val} {x : Val} (h : Strong r x) : Weak r x := Or.inr h

inductive All2 {α β : Type} (R : α → β → Prop) : List α → List β → Prop where
  | nil : All2 R [] []
  | cons {a : α} {b : β} {as : List α} {bs : List β} : R a b → All2 R as bs → All2 R (a :: as) (b :: bs)

theorem All2.imp {α β : Type} {R S : α → β → Prop} (h : ∀ a b, R a b → S a b) {as : List α} {bs : List β}
    (h2 : All2 R as bs) : All2 S as bs := by
  induction h2 with
  | nil => exact .nil
  | cons r _ ih => exact .cons (h _ _ r) ih

theorem mapRes_strong (f : Js → Res Val) {xs : List Val} {js : List Js}
    (h : All2 (fun x j => Strong (f j) x) xs js) :
    ∃ ys, mapRes f js = .ok ys ∧ canonList ys = canonList xs := by
  induction h with
  | nil => exact ⟨[], rfl, rfl⟩
  | cons h1 _ ih =>
    obtain ⟨y, hy, hc⟩ := h1
    obtain ⟨ys, hys, hcs⟩ := ih
    exact ⟨y :: ys, by simp [mapRes, hy, hys], by simp [canonList, hc, hcs]⟩

theorem mapRes_weak (f : Js → Res Val) {xs : List Val} {js : List Js}
    (h : All2 (fun x j => Weak (f j) x) xs js) :
    mapRes f js = .perr ∨ ∃ ys, mapRes f js = .ok ys ∧ canonList ys = canonList xs := by
  induction h with
  | nil => exact Or.inr ⟨[], rfl, rfl⟩
  | cons h1 _ ih =>
    rcases h1 with hp | ⟨y, hy, hc⟩
    · left; simp [mapRes, hp]
    · rcases ih with hp | ⟨ys, hys, hcs⟩
      · left; simp [mapRes, hy, hp]
      · right; exact ⟨y :: ys, by simp [mapRes, hy, hys], by simp [canonList, hc, hcs]⟩

/-- `_parse_map_args` on the encoding of a dict with distinct keys -/
theorem parseMap_strong (fk : Str → Res Key) (fv : Js → Res Val) {kvs : List (Key × Val)} {js : List (Str × Js)}
    (h : All2 (fun kv sj => fk sj.1 = .ok kv.1 ∧ Strong (fv sj.2) kv.2) kvs js)
    (hd : distinct (kvs.map (·.1)) = true) :
    ∃ ys, parseMapWith fk fv js = .ok ys ∧ canonKVs ys = canonKVs kvs ∧ ys.map (·.1) = kvs.map (·.1) := by
  induction h with
  | nil => exact ⟨[], rfl, rfl, rfl⟩
  | @cons kv sj kvs js h1 _ ih =>
    obtain ⟨key, x⟩ := kv
    obtain ⟨s, j⟩ := sj
    simp only [List.map_cons, distinct, Bool.and_eq_true, Bool.not_eq_eq_eq_not, Bool.not_true] at hd
    obtain ⟨hk, y, hy, hc⟩ := h1
    obtain ⟨ys, hys, hcs, hks⟩ := ih hd.2
    have hfind : ys.find? (fun kv => kv.1 == key) = none :=
      find?_none_of_not_mem key ys (by rw [hks]; exact hd.1)
    simp only at hk hy hc
    exact ⟨(key, y) :: ys, by simp [parseMapWith, hk, hy, hys, hfind], by simp [canonKVs, hc, hcs], by simp [hks]⟩

theorem parseMap_weak (fk : Str → Res Key) (fv : Js → Res Val) {kvs : List (Key × Val)} {js : List (Str × Js)}
    (h : All2 (fun kv sj => (fk sj.1 = .perr ∨ fk sj.1 = .ok kv.1) ∧ Weak (fv sj.2) kv.2) kvs js)
    (hd : distinct (kvs.map (·.1)) = true) :
    parseMapWith fk fv js = .perr ∨
      ∃ ys, parseMapWith fk fv js = .ok ys ∧ canonKVs ys = canonKVs kvs ∧ ys.map (·.1) = kvs.map (·.1) := by
  induction h with
  | nil => exact Or.inr ⟨[], rfl, rfl, rfl⟩
  | @cons kv sj kvs js h1 _ ih =>
    obtain ⟨key, x⟩ := kv
    obtain ⟨s, j⟩ := sj
    simp only [List.map_cons, distinct, Bool.and_eq_true, Bool.not_eq_eq_eq_not, Bool.not_true] at hd
    obtain ⟨hk, hv⟩ := h1
    simp only at hk hv
    rcases hk with hk | hk
    · left; simp [parseMapWith, hk]
    · rcases hv with hv | ⟨y, hy, hc⟩
      · left; simp [parseMapWith, hk, hv]
      · rcases ih hd.2 with hp | ⟨ys, hys, hcs, hks⟩
        · left; simp [parseMapWith, hk, hy, hp]
        · right
          have hfind : ys.find? (fun kv => kv.1 == key) = none :=
            find?_none_of_not_mem key ys (by rw [hks]; exact hd.1)
          exact ⟨(key, y) :: ys, by simp [parseMapWith, hk, hy, hys, hfind], by simp [canonKVs, hc, hcs], by simp [hks]⟩


/-! ### which field takes which key -/

theorem distinct_iff_nodup {α : Type} [BEq α] [LawfulBEq α] : ∀ (l : List α), distinct l = true ↔ l.Nodup
  | [] => by simp [distinct]
  | x :: xs => by
    simp only [distinct, Bool.and_eq_true, Bool.not_eq_eq_eq_not, Bool.not_true, List.nodup_cons, distinct_iff_nodup xs]
    constructor
    · intro h; exact ⟨by simpa using h.1, h.2⟩
    · intro h; exact ⟨by simpa using h.1, h.2⟩

theorem distinct_of_sublist {α : Type} [BEq α] [LawfulBEq α] {l₁ l₂ : List α} (h : l₁.Sublist l₂)
    (hd : distinct l₂ = true) : distinct l₁ = true :=
  (distinct_iff_nodup l₁).mpr (((distinct_iff_nodup l₂).mp hd).sublist h)

theorem filter_key_mem {β : Type} : ∀ (l : List (Str × β)) (n : Str) (j : β), distinct (l.map (·.1)) = true →
    (n, j) ∈ l → l.filter (fun kv => kv.1 == n) = [(n, j)]
  | [], _, _, _, h => by simp at h
  | (k, v) :: r, n, j, hd, h => by
    simp only [List.map_cons, distinct, Bool.and_eq_true] at hd
    have hnot : ∀ w, (k, w) ∉ r := by
      intro w hw
      have : (r.map (·.1)).contains k = true := by
        simp only [List.contains_iff_mem]; exact List.mem_map.mpr ⟨(k, w), hw, rfl⟩
      rw [this] at hd; simp at hd
    rcases List.mem_cons.mp h with h | h
    · injection h with h1 h2; subst h1; subst h2
      have : r.filter (fun kv => kv.1 == n) = [] := by
        rw [List.filter_eq_nil_iff]
        intro kv hkv hk
        have : kv.1 = n := by simpa using hk
        exact hnot kv.2 (by rw [← this]; exact hkv)
      simp [List.filter, this]
    · have hne : (k == n) = false := by
        cases hk : k == n with
        | false => rfl
        | true => have : k = n := by simpa using hk
                  subst this; exact absurd h (hnot j)
      simp [List.filter, hne, filter_key_mem r n j hd.2 h]

theorem filter_key_not_mem {β : Type} (l : List (Str × β)) (n : Str) (h : n ∉ l.map (·.1)) :
    l.filter (fun kv => kv.1 == n) = [] := by
  rw [List.filter_eq_nil_iff]
  intro kv hkv hk
  have : kv.1 = n := by simpa using hk
  exact h (List.mem_map.mpr ⟨kv, hkv, this⟩)

/-- the declaration resolves its own output names (`keysAccepted`), the object's keys are output names of the
declaration and distinct: a field finds exactly the member written under its own name -/
theorem findValue_present (ms : List FieldMeta) (df : Bool) (hka : keysAccepted ms df = true)
    (all : List (Str × Js)) (hkeys : ∀ kv ∈ all, ∃ g ∈ ms, g.name = kv.1) (hdist : distinct (all.map (·.1)) = true)
    (f : FieldMeta) (hf : f ∈ ms) (j : Js) (hj : (f.name, j) ∈ all) :
    findValue (takes ms df f) all = .one j := by
  have hfil : all.filter (fun kv => takes ms df f kv.1) = all.filter (fun kv => kv.1 == f.name) := by
    apply List.filter_congr
    intro kv hkv
    obtain ⟨g, hg, hgn⟩ := hkeys kv hkv
    simp only [keysAccepted, List.all_eq_true] at hka
    have := hka f hf g hg
    rw [← hgn]
    have e : takes ms df f g.name = (f.name == g.name) := by simpa using this
    rw [e]
    exact Bool.eq_iff_iff.mpr ⟨fun h => by simpa using (by simpa using h : f.name = g.name).symm,
      fun h => by simpa using (by simpa using h : g.name = f.name).symm⟩
  simp [findValue, hfil, filter_key_mem all f.name j hdist hj]

theorem findValue_absent (ms : List FieldMeta) (df : Bool) (hka : keysAccepted ms df = true)
    (all : List (Str × Js)) (hkeys : ∀ kv ∈ all, ∃ g ∈ ms, g.name = kv.1)
    (f : FieldMeta) (hf : f ∈ ms) (hj : f.name ∉ all.map (·.1)) :
    findValue (takes ms df f) all = .absent := by
  have hfil : all.filter (fun kv => takes ms df f kv.1) = all.filter (fun kv => kv.1 == f.name) := by
    apply List.filter_congr
    intro kv hkv
    obtain ⟨g, hg, hgn⟩ := hkeys kv hkv
    simp only [keysAccepted, List.all_eq_true] at hka
    have := hka f hf g hg
    rw [← hgn]
    have e : takes ms df f g.name = (f.name == g.name) := by simpa using this
    rw [e]
    exact Bool.eq_iff_iff.mpr ⟨fun h => by simpa using (by simpa using h : f.name = g.name).symm,
      fun h => by simpa using (by simpa using h : g.name = f.name).symm⟩
  simp [findValue, hfil, filter_key_not_mem all f.name hj]

/-! ### output properties see only ints and strs, which have one representation -/

theorem intOf_canon {x y : Val} (h : y.canon = x.canon) : intOf y = intOf x := by
  cases x <;> cases y <;> simp_all [Val.canon, intOf]

theorem strOf_canon {x y : Val} (h : y.canon = x.canon) : strOf y = strOf x := by
  cases x <;> cases y <;> simp_all [Val.canon, strOf]

theorem lookup_canon (d : Str) : ∀ (a b : List (Str × Val)), canonFields a = canonFields b →
    (lookup d a).map Val.canon = (lookup d b).map Val.canon
  | [], [], _ => rfl
  | [], _ :: _, h => by obtain ⟨_, _⟩ := ‹Str × Val›; simp [canonFields] at h
  | _ :: _, [], h => by obtain ⟨_, _⟩ := ‹Str × Val›; simp [canonFields] at h
  | (k, x) :: a, (k', y) :: b, h => by
    simp only [canonFields, List.cons.injEq, Prod.mk.injEq] at h
    obtain ⟨⟨hk, hxy⟩, hr⟩ := h
    subst hk
    by_cases hkd : (k == d) = true
    · simp [lookup, hkd, hxy]
    · simp [lookup, hkd, lookup_canon d a b hr]

theorem evalProp_canon (e : PropExpr) (a b : List (Str × Val)) (h : canonFields a = canonFields b) :
    evalProp a e = evalProp b e := by
  have hi : ∀ d, (lookup d a).bind intOf = (lookup d b).bind intOf := by
    intro d
    have := lookup_canon d a b h
    cases ha : lookup d a <;> cases hb : lookup d b <;> simp_all
    exact intOf_canon this
  have hs : ∀ d, (lookup d a).bind strOf = (lookup d b).bind strOf := by
    intro d
    have := lookup_canon d a b h
    cases ha : lookup d a <;> cases hb : lookup d b <;> simp_all
    exact strOf_canon this
  cases e with
  | sumInt deps =>
    have : sumInts a deps = sumInts b deps := by
      induction deps with
      | nil => rfl
      | cons d ds ih => simp [sumInts, hi d, ih]
    simp [evalProp, this]
  | concat deps =>
    have : concatStrs a deps = concatStrs b deps := by
      induction deps with
      | nil => rfl
      | cons d ds ih => simp [concatStrs, hs d, ih]
    simp [evalProp, this]

theorem beq_int {x : Val} {i : Int} (h : x.beq (.int i) = true) : x = .int i := by
  cases x <;> simp_all [Val.beq]

theorem beq_str {x : Val} {s : Str} (h : x.beq (.str s) = true) : x = .str s := by
  cases x <;> simp_all [Val.beq]

theorem beq_lit {x : Val} {l : Lit} (h : x.beq l.toVal = true) : x = l.toVal := by
  cases l <;> cases x <;> simp_all [Val.beq, Lit.toVal]

theorem evalProp_scalar {items : List (Str × Val)} {e : PropExpr} {v : Val} (h : evalProp items e = some v) :
    (∃ i, v = .int i) ∨ (∃ s, v = .str s) := by
  cases e with
  | sumInt deps =>
    simp only [evalProp, Option.map_eq_some_iff] at h
    obtain ⟨i, _, rfl⟩ := h; exact Or.inl ⟨i, rfl⟩
  | concat deps =>
    simp only [evalProp, Option.map_eq_some_iff] at h
    obtain ⟨s, _, rfl⟩ := h; exact Or.inr ⟨s, rfl⟩

end Utv.C14
