import Utv.Lemmas.C15Frag
/-! The fragment the theorems are proved over is the wide one minus the schemas with an empty property name. -/
set_option linter.unusedSimpArgs false
set_option linter.unusedVariables false
namespace Utv.C15
open Utv.JsonSchema
open KnownDefect

theorem nonEmptyNames_of (v : Json) (h1 : uniqueStrs v = true) (h2 : hasEmptyStr v = false) : nonEmptyNames v = true := by
  cases v with
  | arr xs =>
    simp only [uniqueStrs, Bool.and_eq_true] at h1
    simp only [hasEmptyStr, List.any_eq_false] at h2
    simp only [nonEmptyNames, Bool.and_eq_true]
    refine ⟨h1.1, List.all_eq_true.mpr fun x hx => ?_⟩
    have := h2 x hx
    simpa using this
  | _ => simp [uniqueStrs] at h1

def Narrow (s : Json) : Prop := inFragmentW s = true → emptyName s = false → inFragment s = true

theorem emptyNameKws_cons (k : String) (v : Json) (rest : List (String × Json)) :
    emptyNameKws ((k, v) :: rest) =
      ((if k == "properties" then (match v with
          | .obj ps => (keys ps).contains "" || emptyNameProps ps
          | _ => false)
        else if k == "required" then hasEmptyStr v
        else if k == "dependentRequired" then (match v with
          | .obj deps => (keys deps).contains "" || deps.any fun d => hasEmptyStr d.2
          | _ => false)
        else if oneKeywords.contains k then emptyName v
        else if manyKeywords.contains k then (match v with
          | .arr ss => emptyNameList ss
          | _ => false)
        else false) || emptyNameKws rest) := by
  conv => lhs; rw [emptyNameKws.eq_def]
  rfl

def fragEntryW (all : Obj) (k : String) (v : Json) : Bool :=
  fragmentKeywords.contains k &&
  (if k == "items" || k == "additionalProperties" then inFragmentW v
   else if manyKeywords.contains k then (match v with
     | .arr (s :: ss) => inFragmentW s && fragListW ss
     | _ => false)
   else if k == "properties" then (match v with
     | .obj ps => strDistinct (keys ps) && fragPropsW ps
     | _ => false)
   else fragSimpleW all k v)

theorem fragKwsW_cons (all : Obj) (k : String) (v : Json) (rest : List (String × Json)) :
    fragKwsW all ((k, v) :: rest) = (fragEntryW all k v && fragKwsW all rest) := by
  conv => lhs; rw [fragKwsW.eq_def]
  rfl

theorem emptyNameList_cons (s : Json) (rest : List Json) : emptyNameList (s :: rest) = (emptyName s || emptyNameList rest) := by
  conv => lhs; rw [emptyNameList.eq_def]

theorem emptyNameProps_cons (n : String) (s : Json) (rest : List (String × Json)) :
    emptyNameProps ((n, s) :: rest) = (emptyName s || emptyNameProps rest) := by
  conv => lhs; rw [emptyNameProps.eq_def]

theorem fragListW_cons (s : Json) (rest : List Json) : fragListW (s :: rest) = (inFragmentW s && fragListW rest) := by
  conv => lhs; rw [fragListW.eq_def]

theorem fragPropsW_cons (n : String) (s : Json) (rest : List (String × Json)) :
    fragPropsW ((n, s) :: rest) = (inFragmentW s && fragPropsW rest) := by
  conv => lhs; rw [fragPropsW.eq_def]

theorem fragList_cons' (s : Json) (rest : List Json) : fragList (s :: rest) = (inFragment s && fragList rest) := by
  conv => lhs; rw [fragList.eq_def]

theorem fragProps_cons' (n : String) (s : Json) (rest : List (String × Json)) :
    fragProps ((n, s) :: rest) = (inFragment s && fragProps rest) := by
  conv => lhs; rw [fragProps.eq_def]

mutual
theorem narrow_json : (s : Json) → Narrow s
  | .obj kvs => fun hw he => by
    rw [inFragmentW] at hw
    rw [emptyName] at he
    rw [inFragment]
    simp only [Bool.and_eq_true] at hw ⊢
    exact ⟨hw.1, narrow_kws kvs kvs hw.2 he⟩
  | .bool _ => fun _ _ => by rw [inFragment]
  | .null => fun hw => by simp [inFragmentW] at hw
  | .num _ => fun hw => by simp [inFragmentW] at hw
  | .str _ => fun hw => by simp [inFragmentW] at hw
  | .arr _ => fun hw => by simp [inFragmentW] at hw
termination_by structural s => s
theorem narrow_kws (all : Obj) : (kws : List (String × Json)) → fragKwsW all kws = true → emptyNameKws kws = false →
    fragKws all kws = true
  | [], _, _ => fragKws_nil all
  | (k, v) :: rest, hw, he => by
    rw [fragKwsW_cons] at hw
    rw [emptyNameKws_cons] at he
    rw [fragKws_cons]
    simp only [Bool.and_eq_true, Bool.or_eq_false_iff] at hw he ⊢
    refine ⟨?_, narrow_kws all rest hw.2 he.2⟩
    have hw1 := hw.1
    have he1 := he.1
    unfold fragEntryW at hw1
    unfold fragEntry
    simp only [Bool.and_eq_true] at hw1 ⊢
    refine ⟨hw1.1, ?_⟩
    have hw2 := hw1.2
    by_cases h1 : (k == "items" || k == "additionalProperties") = true
    · have hone : oneKeywords.contains k = true := by
        simp at h1; rcases h1 with h | h <;> simp [h, oneKeywords]
      have hnp : (k == "properties") = false := by simp at h1; rcases h1 with h | h <;> simp [h]
      have hnr : (k == "required") = false := by simp at h1; rcases h1 with h | h <;> simp [h]
      have hnd : (k == "dependentRequired") = false := by simp at h1; rcases h1 with h | h <;> simp [h]
      simp only [h1, if_true] at hw2 ⊢
      simp only [hnp, hnr, hnd, hone, Bool.false_eq_true, if_false, if_true] at he1
      exact narrow_json v hw2 he1
    · simp only [h1, Bool.false_eq_true, if_false] at hw2 ⊢
      have hnone : oneKeywords.contains k = false := by
        simp [oneKeywords]; simp at h1; exact h1
      by_cases h2 : manyKeywords.contains k = true
      · have hnp : (k == "properties") = false := by
          simp [manyKeywords] at h2; rcases h2 with h | h | h | h <;> simp [h]
        have hnr : (k == "required") = false := by
          simp [manyKeywords] at h2; rcases h2 with h | h | h | h <;> simp [h]
        have hnd : (k == "dependentRequired") = false := by
          simp [manyKeywords] at h2; rcases h2 with h | h | h | h <;> simp [h]
        simp only [h2, if_true] at hw2 ⊢
        simp only [hnp, hnr, hnd, hnone, h2, Bool.false_eq_true, if_false, if_true] at he1
        match v, hw2, he1 with
        | .arr (s :: ss), hw2, he1 =>
          simp only at he1
          rw [emptyNameList_cons] at he1
          simp only [Bool.and_eq_true, Bool.or_eq_false_iff] at hw2 he1 ⊢
          exact ⟨narrow_json s hw2.1 he1.1, narrow_list ss hw2.2 he1.2⟩
        | .arr [], hw2, _ => simp at hw2
        | .null, hw2, _ => simp at hw2
        | .bool _, hw2, _ => simp at hw2
        | .num _, hw2, _ => simp at hw2
        | .str _, hw2, _ => simp at hw2
        | .obj _, hw2, _ => simp at hw2
      · simp only [h2, Bool.false_eq_true, if_false] at hw2 ⊢
        by_cases h3 : (k == "properties") = true
        · simp only [h3, if_true] at hw2 he1 ⊢
          match v, hw2, he1 with
          | .obj ps, hw2, he1 =>
            simp only [Bool.and_eq_true, Bool.or_eq_false_iff] at hw2 he1
            have h4 : (!(keys ps).contains "") = true := by rw [he1.1]; rfl
            simp only [Bool.and_eq_true]
            exact ⟨⟨hw2.1, h4⟩, narrow_props ps hw2.2 he1.2⟩
          | .arr _, hw2, _ => simp at hw2
          | .null, hw2, _ => simp at hw2
          | .bool _, hw2, _ => simp at hw2
          | .num _, hw2, _ => simp at hw2
          | .str _, hw2, _ => simp at hw2
        · simp only [h3, Bool.false_eq_true, if_false] at hw2 he1 ⊢
          -- a keyword whose value is not a schema
          unfold fragSimpleW at hw2
          by_cases h4 : (k == "required") = true
          · have e : k = "required" := by simpa using h4
            subst e
            simp only [beq_self_eq_true, if_true] at hw2 he1
            simp [fragSimple]
            exact nonEmptyNames_of v hw2 he1
          · simp only [h4, Bool.false_eq_true, if_false] at hw2 he1
            by_cases h5 : (k == "dependentRequired") = true
            · have e : k = "dependentRequired" := by simpa using h5
              subst e
              simp only [beq_self_eq_true, if_true] at hw2 he1
              simp [fragSimple]
              cases v with
              | obj deps =>
                simp only [Bool.and_eq_true, Bool.or_eq_false_iff, List.any_eq_false] at hw2 he1 ⊢
                refine ⟨hw2.1, List.all_eq_true.mpr fun d hd => ?_⟩
                have hk : d.1 ≠ "" := by
                  intro h0
                  have : (keys deps).contains "" = true := by
                    simp only [List.contains_iff_mem, keys]
                    exact List.mem_map.mpr ⟨d, hd, h0⟩
                  rw [this] at he1; exact absurd he1.1 (by simp)
                simp only [Bool.and_eq_true]
                refine ⟨by simpa using hk, nonEmptyNames_of d.2 (List.all_eq_true.mp hw2.2 d hd) ?_⟩
                have := he1.2 d hd
                simpa using this
              | _ => simp at hw2
            · simp only [h5, Bool.false_eq_true, if_false] at hw2
              exact hw2
termination_by structural kws => kws
theorem narrow_list : (ss : List Json) → fragListW ss = true → emptyNameList ss = false → fragList ss = true
  | [], _, _ => by rw [fragList]
  | s :: rest, hw, he => by
    rw [fragListW_cons] at hw
    rw [emptyNameList_cons] at he
    rw [fragList_cons']
    simp only [Bool.and_eq_true, Bool.or_eq_false_iff] at hw he ⊢
    exact ⟨narrow_json s hw.1 he.1, narrow_list rest hw.2 he.2⟩
termination_by structural ss => ss
theorem narrow_props : (ps : List (String × Json)) → fragPropsW ps = true → emptyNameProps ps = false → fragProps ps = true
  | [], _, _ => by rw [fragProps]
  | (n, s) :: rest, hw, he => by
    rw [fragPropsW_cons] at hw
    rw [emptyNameProps_cons] at he
    rw [fragProps_cons']
    simp only [Bool.and_eq_true, Bool.or_eq_false_iff] at hw he ⊢
    exact ⟨narrow_json s hw.1 he.1, narrow_props rest hw.2 he.2⟩
termination_by structural ps => ps
end

end Utv.C15
