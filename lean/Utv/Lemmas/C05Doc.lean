import Utv.Lemmas.C05Views
/-! The boolean functions of the contract, and the model's predicates, against the documented meaning stated as
propositions in `Model/C05Spec.lean` (`ModeOff`, `FlagOn`, `NeverInput`, `Required`, `IsDefault`, `AdditionRule`). -/
namespace Utv.C05
open Spec

variable {V : Type}

theorem modeOff_iff (o : Opts V) (f : PField V) : modeOff o f = true ↔ ModeOff o f := by
  unfold modeOff ModeOff
  cases hm : o.mode with
  | none => simp
  | some m =>
    cases hf : f.mode with
    | none => simp
    | some fm =>
      simp only [Bool.and_eq_true, Bool.not_eq_true', List.isEmpty_eq_false_iff, List.contains_eq_mem,
        decide_eq_false_iff_not, Option.some.injEq, exists_and_left, exists_eq_left']

theorem flagOn_iff (W : World V) (o : Opts V) (f : PField V) (fl : Flag) (v : V) :
    flagOn W o f fl v = true ↔ FlagOn W o f fl v := by
  unfold flagOn FlagOn
  rw [Bool.or_eq_true, modeOff_iff]
  cases fl with
  | no => simp
  | yes => simp
  | pred k => simp
  | modes ms =>
    cases hm : o.mode with
    | none => simp
    | some m => simp

theorem neverInput_iff (o : Opts V) (f : PField V) : neverInput o f = true ↔ NeverInput o f := by
  unfold neverInput NeverInput
  rw [Bool.or_eq_true, modeOff_iff]
  cases f.noInput with
  | no => simp
  | yes => simp
  | pred k => simp
  | modes ms =>
    cases hm : o.mode with
    | none => simp
    | some m => simp

theorem required_iff (o : Opts V) (f : PField V) : required o f = true ↔ Required o f := by
  unfold required Required
  rw [Bool.and_eq_true, Bool.and_eq_true, Bool.not_eq_true', Bool.not_eq_true', ← neverInput_iff]
  cases hr : f.required with
  | no => simp
  | yes => simp
  | modes ms =>
    cases hm : o.mode with
    | none => simp
    | some m => simp [and_assoc]

theorem filled_iff (W : World V) (o : Opts V) (f : PField V) (x : V) :
    filled W o f = some x ↔ IsDefault W o f false x := by
  unfold filled IsDefault
  cases o.noDefault <;> cases f.deferDefault <;> cases o.deferDefault <;> simp
  cases hfd : o.forceDefault with
  | none =>
    cases hd : f.default with
    | none => simp
    | some d => simp [eq_comm]
  | some d => simp [eq_comm]

theorem deferred_iff (W : World V) (o : Opts V) (f : PField V) (x : V) :
    deferred W o f = some x ↔ IsDefault W o f true x := by
  unfold deferred IsDefault
  cases o.noDefault <;> cases f.deferDefault <;> cases o.deferDefault <;> simp
  all_goals
    cases hfd : o.forceDefault with
    | none =>
      cases hd : f.default with
      | none => simp
      | some d => simp [eq_comm]
    | some d => simp [eq_comm]

theorem additionContract_rule (W : World V) (typed excluded : Bool) (o : Opts V) (kv : Key × V) :
    AdditionRule W typed excluded o kv.1 kv.2 (additionContract W typed excluded o kv).1
      (additionContract W typed excluded o kv).2 := by
  unfold additionContract
  cases ha : o.addition with
  | forbid => exact .rejected ha
  | ignore =>
    cases excluded
    · exact .dropped ha rfl
    · exact .ownName (by rw [ha]; simp) rfl
  | allow =>
    cases excluded
    · have hx : false = false := rfl
      simp only [Bool.false_eq_true, if_false]
      cases typed
      · exact .kept ha hx rfl
      · simp only [Bool.not_true, Bool.false_eq_true, if_false]
        cases hc : W.addConv kv.2 with
        | some r => exact .converted r ha hx rfl hc
        | none =>
          cases hi : o.invalidValues with
          | throw => exact .badThrown ha hx rfl hc hi
          | exclude => exact .badExcluded ha hx rfl hc hi
          | preserve => exact .badPreserved ha hx rfl hc hi
    · exact .ownName (by rw [ha]; simp) rfl

/-- the rule determines what happens -/
theorem additionRule_unique (W : World V) (typed excluded : Bool) (o : Opts V) (k : Key) (v : V)
    (r : Option V) (es : List Err) (h : AdditionRule W typed excluded o k v r es) :
    (r, es) = additionContract W typed excluded o (k, v) := by
  unfold additionContract
  cases h with
  | rejected ha => simp [ha]
  | ownName ha hx =>
    cases hadd : o.addition with
    | forbid => exact absurd hadd ha
    | ignore => rfl
    | allow => simp [hx]
  | dropped ha hx => simp [ha]
  | kept ha hx ht => simp [ha, hx, ht]
  | converted r ha hx ht hc => simp [ha, hx, ht, hc]
  | badExcluded ha hx ht hc hi => simp [ha, hx, ht, hc, hi]
  | badPreserved ha hx ht hc hi => simp [ha, hx, ht, hc, hi]
  | badThrown ha hx ht hc hi => simp [ha, hx, ht, hc, hi]

theorem paramsContract_iff (o : Opts V) (n : Nat) (e : Err) :
    e ∈ paramsContract o n ↔
      (e = .paramsExceed ∧ ∃ m, o.maxParams = some m ∧ m ≠ 0 ∧ n > m)
      ∨ (e = .paramsLack ∧ ∃ m, o.minParams = some m ∧ m ≠ 0 ∧ n < m) := by
  unfold paramsContract
  rw [List.mem_append]
  have h1 : e ∈ (if (match o.maxParams with | some m => decide (m ≠ 0 ∧ n > m) | none => false) = true
      then [Err.paramsExceed] else []) ↔ (e = .paramsExceed ∧ ∃ m, o.maxParams = some m ∧ m ≠ 0 ∧ n > m) := by
    cases hm : o.maxParams with
    | none => simp
    | some m =>
      by_cases hc : m ≠ 0 ∧ n > m
      · simp [hc]
      · simp only [hc, decide_false, Bool.false_eq_true, if_false, List.not_mem_nil, false_iff]
        rintro ⟨_, m', hm', h⟩; cases hm'; exact hc h
  have h2 : e ∈ (if (match o.minParams with | some m => decide (m ≠ 0 ∧ n < m) | none => false) = true
      then [Err.paramsLack] else []) ↔ (e = .paramsLack ∧ ∃ m, o.minParams = some m ∧ m ≠ 0 ∧ n < m) := by
    cases hm : o.minParams with
    | none => simp
    | some m =>
      by_cases hc : m ≠ 0 ∧ n < m
      · simp [hc]
      · simp only [hc, decide_false, Bool.false_eq_true, if_false, List.not_mem_nil, false_iff]
        rintro ⟨_, m', hm', h⟩; cases hm'; exact hc h
  exact or_congr h1 h2

end Utv.C05
