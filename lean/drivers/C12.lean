import Utv.Util.ConvJson
import Utv.Model.C12
open Lean Utv Utv.J Utv.Conv Utv.ConvJson

instance : Inhabited Utv.C12M.Ty := ⟨.plain (.obj 0)⟩

open Utv.C12M in
/-- member type of a Union: a plain target | {"seq": M, "k": kind} | {"map": [K, V]} | {"tup": [M…]} | {"cons": target, "c": [name, n]} -/
partial def decodeTy (j : Json) : Ty :=
  match obj? j "seq" with
  | some e => .seqOf (seqKOfName (str! (fld j "k"))) (decodeTy e)
  | none =>
  match obj? j "map" with
  | some kv => (match arr! kv with | [k, v] => .mapOf (decodeTy k) (decodeTy v) | _ => .plain (.obj 0))
  | none =>
  match obj? j "tup" with
  | some ts => .tupleOf ((arr! ts).map decodeTy)
  | none =>
  match obj? j "cons" with
  | some t => (match arr! (fld j "c") with
      | [n, x] => .cons (decodeTarget t) (match str! n with
          | "intGt" => .intGt (intOfJson x) | "intLe" => .intLe (intOfJson x) | _ => .strMaxLen (intOfJson x).toNat)
      | _ => .plain (decodeTarget t))
  | none => .plain (decodeTarget j)

open Utv.C12M in
def additionOf : String → Addition
  | "none" => .none | "no" => .no | "yes" => .yes | _ => .unset
open Utv.C12M in
def additionName : Addition → String
  | .unset => "unset" | .none => "none" | .no => "no" | .yes => "yes"

open Utv.C12M in
/-- parse-level places that read the preferences (Model/C12.lean) -/
def handleParse (j : Json) : Json :=
  let ndl := bool! (fld j "ndl")
  let nec := bool! (fld j "nec")
  let a := additionOf (str! (fld j "addition"))
  match str! (fld j "kind") with
  | "options" => Json.mkObj [("addition", Json.str (additionName (normAddition ndl a)))]
  | "schema" => Json.mkObj [("fate", Json.str (match unknownKey (bool! (fld j "excluded")) (normAddition ndl a) with
      | .rejected => "rejected" | .dropped => "dropped" | .kept => "kept"))]
  | "tuple" => Json.mkObj [("excess", Json.arr ((tupleExcess (normAddition ndl a) ndl (nat! (fld j "nargs")) (nat! (fld j "nvals"))).map
      (fun (n : Nat) => Json.num n)).toArray)]
  | "dataclass" =>
    -- instances of the target data class are `obj 10`, of a subclass `obj 12` (an unrelated data class is `obj 11`)
    let isExact : V → Bool := fun v => match v with | .obj k => k == 10 | _ => false
    let isInst : V → Bool := fun v => match v with | .obj k => k == 10 || k == 12 | _ => false
    (match dataclassStep isExact isInst true ⟨nec, ndl⟩ (decodeV (fld j "value")) with
     | .ok (.instance v) => Json.mkObj [("instance", encodeV v)]
     | .ok (.init v) => Json.mkObj [("init", encodeV v)]
     | .perr e => Json.mkObj [("perr", Json.str (perrName e))]
     | .escape e => Json.mkObj [("escape", Json.str (escName e))]
     | .diverge => Json.mkObj [("diverge", Json.bool true)]
     | .unmodelled w => Json.mkObj [("unmodelled", Json.str w)])
  | _ => Json.mkObj [("driver-error", Json.str "unknown parse kind")]

/-- ops:
  `conv`  one converter call (target class, flags, value) → outcome            (reused by C01 / C04)
  `c12`   the same call under the four flag combinations → {"ff","ft","tf","tt"}  (first letter nec, second ndl)
  `union` a Union of member targets under the four flag combinations (rule.py:381-431)
  `parse` the parse-level places that read the flags (options / schema / tuple / dataclass) -/
def handle (j : Json) : Json :=
  match str! (fld j "op") with
  | "conv" => encodeOutcome (runCall j (bool! (fld j "nec")) (bool! (fld j "ndl")))
  | "c12" =>
    Json.mkObj [("ff", encodeOutcome (runCall j false false)), ("ft", encodeOutcome (runCall j false true)),
                ("tf", encodeOutcome (runCall j true false)), ("tt", encodeOutcome (runCall j true true))]
  | "parse" => handleParse j
  | "union" =>
    let P := decodePrims (fld j "prims")
    let E := decodeEnv (fld j "env")
    let ts := (arr! (fld j "members")).map decodeTy
    let v := decodeV (fld j "value")
    let run (nec ndl : Bool) := encodeOutcome (Utv.C12M.unionParseTy P E ⟨nec, ndl⟩ ts v)
    Json.mkObj [("ff", run false false), ("ft", run false true), ("tf", run true false), ("tt", run true true)]
  | _ => Json.mkObj [("driver-error", Json.str "unknown op")]

def main : IO Unit := serveFlush handle
