import Utv.Lemmas.C05DF
/-! The reference run (contracts folded in declaration order) is the declarative `Spec.contract`. -/
namespace Utv.C05
open Spec

variable {V : Type}

theorem paramsCheck_eq (o : Opts V) (n : Nat) : paramsCheck o n = paramsContract o n := by
  unfold paramsCheck paramsContract
  cases o.maxParams <;> cases o.minParams <;> simp

theorem parseAddition_eq (W : World V) (P : Parser V) (o : Opts V) (kv : Key × V) :
    parseAddition W P o kv.1 kv.2 = additionContract W P.additionTyped (P.excludeVars.contains kv.1) o kv := by
  unfold parseAddition additionContract
  cases ha : o.addition <;> simp only [reduceCtorEq, if_true, if_false]
  · cases P.excludeVars.contains kv.1 <;> simp
  · cases P.excludeVars.contains kv.1 <;> simp only [Bool.false_eq_true, if_true, if_false]
    cases P.additionTyped <;> simp only [Bool.not_true, Bool.not_false, Bool.false_eq_true, if_false, if_true]
    cases W.addConv kv.2 <;> simp only
    cases o.invalidValues <;> rfl

/-- lookup in the list of the values the contracts prescribe -/
theorem dget_filterMap_values (out : PField V → FieldOut V) (l : List (PField V)) (hnd : (l.map (·.name)).Nodup)
    {g : PField V} (hg : g ∈ l) :
    dget g.name (l.filterMap fun f => (out f).value.map (f.name, ·)) = (out g).value := by
  induction l with
  | nil => simp at hg
  | cons x xs ih =>
    simp only [List.map_cons, List.nodup_cons] at hnd
    rcases List.mem_cons.mp hg with e | e
    · subst e
      cases hv : (out g).value with
      | none =>
        rw [List.filterMap_cons_none (by simp [hv]), dget_eq_none_iff]
        intro hc
        apply hnd.1
        simp only [List.map_filterMap, List.mem_filterMap] at hc
        obtain ⟨f, hf, he⟩ := hc
        cases hfv : (out f).value with
        | none => simp [hfv] at he
        | some v => simp [hfv] at he; rw [← he]; exact List.mem_map_of_mem (f := (·.name)) hf
      | some v =>
        rw [List.filterMap_cons_some (b := (g.name, v)) (by simp [hv]), dget_cons]; simp
    · have hne : x.name ≠ g.name := by
        intro e'; apply hnd.1; rw [e']; exact List.mem_map_of_mem (f := (·.name)) e
      cases hv : (out x).value with
      | none => rw [List.filterMap_cons_none (by simp [hv])]; exact ih hnd.2 e
      | some v =>
        rw [List.filterMap_cons_some (b := (x.name, v)) (by simp [hv]), dget_cons]
        simp only [hne, if_false]; exact ih hnd.2 e

theorem dget_filterMap_values_other (out : PField V → FieldOut V) (l : List (PField V)) {n : Key}
    (hn : n ∉ l.map (·.name)) : dget n (l.filterMap fun f => (out f).value.map (f.name, ·)) = none := by
  rw [dget_eq_none_iff]
  intro hc
  apply hn
  simp only [List.map_filterMap, List.mem_filterMap] at hc
  obtain ⟨f, hf, he⟩ := hc
  cases hfv : (out f).value with
  | none => simp [hfv] at he
  | some v => simp [hfv] at he; rw [← he]; exact List.mem_map_of_mem (f := (·.name)) hf

/-- the kept unknown keys, as the contract lists them -/
theorem addAll_eq (W : World V) (P : Parser V) (o : Opts V) (l : List (Key × V)) (hnd : (l.map (·.1)).Nodup) :
    addAll W P o l = (l.filterMap (fun kv => (additionContract W P.additionTyped (P.excludeVars.contains kv.1) o kv).1.map (kv.1, ·)),
                      l.flatMap (fun kv => (additionContract W P.additionTyped (P.excludeVars.contains kv.1) o kv).2)) := by
  induction l using Utv.List.rev_ind with
  | nil => rfl
  | snoc l kv ih =>
    rw [List.map_append, List.nodup_append] at hnd
    rw [addAll_snoc, ih hnd.1]
    unfold addStep
    rw [parseAddition_eq]
    simp only [List.filterMap_append, List.flatMap_append, List.filterMap_cons, List.filterMap_nil,
      List.flatMap_cons, List.flatMap_nil, List.append_nil]
    cases hv : (additionContract W P.additionTyped (P.excludeVars.contains kv.1) o kv).1 with
    | none => simp
    | some x =>
      simp only [Option.map_some]
      rw [dset_of_not_mem]
      intro hc
      simp only [List.map_filterMap, List.mem_filterMap] at hc
      obtain ⟨kv', hkv', he⟩ := hc
      have : kv'.1 = kv.1 := by
        generalize (additionContract W P.additionTyped (P.excludeVars.contains kv'.1) o kv').1 = X at he
        cases X with
        | none => simp at he
        | some y => simpa using he
      exact hnd.2.2 kv'.1 (List.mem_map_of_mem (f := (·.1)) hkv') kv.1 (by simp) this

theorem extras_eq (W : World V) (P : Parser V) (data : List (Key × V)) :
    extras W P data = data.filter fun kv => !(P.fields.map (·.2)).any (accepts W · kv.1) := by
  unfold extras anyAccepts
  congr 1
  funext kv
  rw [List.any_map]
  rfl

theorem nodup_filter_keys {l : List (Key × V)} (p : Key × V → Bool) (h : (l.map (·.1)).Nodup) :
    ((l.filter p).map (·.1)).Nodup := nodup_map_filter_of (fun kv : Key × V => kv.1) p h

/-- the `lack` set of the model is the contract's -/
theorem lackOf_contract {W : World V} {P : Parser V} (wf : WF W P) (out : PField V → FieldOut V) :
    lackOf P (foldOut out (P.fields.map (·.2)) ({} : St V)) =
      ((P.fields.map (·.2)).map (·.name)).filter fun n =>
        (((((P.fields.map (·.2)).map fun f => (f, out f)).filter (·.2.active)).flatMap (·.1.deps)).contains n
          && !(((P.fields.map (·.2)).map fun f => (f, out f)).any
                fun fo => fo.1.name = n && fo.2.provided && fo.2.value.isSome)) := by
  have hndF : ((P.fields.map (·.2)).map (·.name)).Nodup := by simp only [List.map_map]; exact wf.names_nodup
  unfold lackOf
  have : P.fields.map (·.2.name) = (P.fields.map (·.2)).map (·.name) := by simp [List.map_map]
  rw [this]
  apply List.filter_congr
  intro n hn
  rw [List.mem_map] at hn
  obtain ⟨g, hg, rfl⟩ := hn
  have huniq : ∀ g' ∈ P.fields.map (·.2), g'.name = g.name → g' = g := by
    intro g' hg' e
    simp only [List.mem_map] at hg hg'
    obtain ⟨kf, hf, rfl⟩ := hg
    obtain ⟨kf', hf', rfl⟩ := hg'
    rw [wf.name_inj hf' hf e]
  congr 1
  · rw [Bool.eq_iff_iff, List.contains_iff_mem, List.contains_iff_mem, foldOut_deps]
    simp only [List.not_mem_nil, false_or, List.mem_flatMap, List.mem_filter, List.mem_map]
    constructor
    · rintro ⟨g', hg', ha, hd⟩; exact ⟨(g', out g'), ⟨⟨g', hg', rfl⟩, ha⟩, hd⟩
    · rintro ⟨fo, ⟨⟨g', hg', rfl⟩, ha⟩, hd⟩; exact ⟨g', hg', ha, hd⟩
  · have hdh : dhas g.name (foldOut out (P.fields.map (·.2)) ({} : St V)).result = (out g).value.isSome := by
      unfold dhas; rw [foldOut_result_mem _ _ _ hndF hg]
      cases (out g).value <;> rfl
    rw [hdh, Bool.eq_iff_iff, Bool.or_eq_true, List.contains_iff_mem, foldOut_unprov, Bool.not_eq_true',
      Bool.not_eq_true', List.any_eq_false]
    constructor
    · rintro ((h | ⟨g', hg', hnp, hn⟩) | hv)
      · simp at h
      · intro fo hfo hc
        obtain ⟨g'', hg'', rfl⟩ := List.mem_map.mp hfo
        simp only [Bool.and_eq_true, decide_eq_true_eq] at hc
        have e1 := huniq g'' hg'' hc.1.1
        have e2 := huniq g' hg' hn
        subst e1; subst e2
        rw [hnp] at hc; exact absurd hc.1.2 (by simp)
      · intro fo hfo hc
        obtain ⟨g'', hg'', rfl⟩ := List.mem_map.mp hfo
        simp only [Bool.and_eq_true, decide_eq_true_eq] at hc
        have e1 := huniq g'' hg'' hc.1.1
        subst e1
        rw [hc.2] at hv; cases hv
    · intro h
      cases hp : (out g).provided
      · exact Or.inl (Or.inr ⟨g, hg, hp, rfl⟩)
      · right
        cases hv : (out g).value.isSome
        · rfl
        · exfalso
          exact h (g, out g) (List.mem_map.mpr ⟨g, hg, rfl⟩) (by simp [hp, hv])

theorem keys_filterMap_add (W : World V) (typed : Bool) (ex : Key → Bool) (o : Opts V) (l : List (Key × V)) :
    (l.filterMap fun kv => (additionContract W typed (ex kv.1) o kv).1.map (kv.1, ·)).map (·.1)
      = (l.filter fun kv => (additionContract W typed (ex kv.1) o kv).1.isSome).map (·.1) := by
  induction l with
  | nil => rfl
  | cons x xs ih =>
    cases hx : (additionContract W typed (ex x.1) o x).1 with
    | none => rw [List.filterMap_cons_none (by simp [hx]), List.filter_cons]; simp [hx, ih]
    | some y =>
      rw [List.filterMap_cons_some (b := (x.1, y)) (by simp [hx]), List.filter_cons]; simp [hx, ih]

/-- **the reference run computes the contract** -/
theorem refRun_contract [DecidableEq V] {W : World V} (LL : LowerLaws W) {P : Parser V} (wf : WF W P) (o : Opts V)
    (data : List (Key × V)) (hnd : (data.map (·.1)).Nodup) :
    (∀ k, dget k (refRun W P o data).result = dget k (contract W P o data).result)
    ∧ (∀ e, e ∈ paramsCheck o data.length ++ (refRun W P o data).errs ↔ e ∈ (contract W P o data).errs) := by
  have hndF : ((P.fields.map (·.2)).map (·.name)).Nodup := by simp only [List.map_map]; exact wf.names_nodup
  have hndE : ((extras W P data).map (·.1)).Nodup := nodup_filter_keys _ hnd
  have hadd := addAll_eq W P o (extras W P data) hndE
  have hresF : ∀ k, dget k (foldOut (outOf W o data) (P.fields.map (·.2)) ({} : St V)).result
      = dget k ((P.fields.map (·.2)).filterMap fun f => (outOf W o data f).value.map (f.name, ·)) := by
    intro k
    by_cases hk : k ∈ (P.fields.map (·.2)).map (·.name)
    · rw [List.mem_map] at hk
      obtain ⟨g, hg, rfl⟩ := hk
      rw [foldOut_result_mem _ _ _ hndF hg, dget_filterMap_values _ _ hndF hg]
      cases (outOf W o data g).value <;> rfl
    · rw [foldOut_result_other _ _ _ _ hk, dget_filterMap_values_other _ _ hk]; rfl
  have hlack := lackOf_contract wf (outOf W o data)
  obtain ⟨hdFr, hdFe⟩ := depsCheck_fields P (foldOut (outOf W o data) (P.fields.map (·.2)) ({} : St V))
  have hndA : (((extras W P data).filterMap fun kv =>
      (additionContract W P.additionTyped (P.excludeVars.contains kv.1) o kv).1.map (kv.1, ·)).map (·.1)).Nodup := by
    rw [keys_filterMap_add W P.additionTyped (fun k => P.excludeVars.contains k)]; exact nodup_filter_keys _ hndE
  constructor
  · -- values
    intro k
    have hL : dget k (refRun W P o data).result =
        (dget k ((extras W P data).filterMap fun kv => (additionContract W P.additionTyped (P.excludeVars.contains kv.1) o kv).1.map (kv.1, ·))).orElse
          (fun _ => dget k ((P.fields.map (·.2)).filterMap fun f => (outOf W o data f).value.map (f.name, ·))) := by
      unfold refRun
      simp only
      rw [dget_dupdate, hdFr, hadd]
      simp only
      rw [dget_reverse_of_nodup _ _ hndA, hresF k]
    have hR : dget k (contract W P o data).result =
        (dget k ((P.fields.map (·.2)).filterMap fun f => (outOf W o data f).value.map (f.name, ·))).orElse
          (fun _ => dget k ((extras W P data).filterMap fun kv => (additionContract W P.additionTyped (P.excludeVars.contains kv.1) o kv).1.map (kv.1, ·))) := by
      unfold contract
      simp only
      rw [dget_append, ← extras_eq]
      simp only [List.filterMap_map, outOf]
      rfl
    rw [hL, hR]
    -- a kept unknown key is never an output name
    cases hA : dget k ((P.fields.map (·.2)).filterMap fun f => (outOf W o data f).value.map (f.name, ·)) with
    | none => simp
    | some v =>
      have hk : k ∈ (P.fields.map (·.2)).map (·.name) := by
        by_cases hk : k ∈ (P.fields.map (·.2)).map (·.name)
        · exact hk
        · rw [dget_filterMap_values_other _ _ hk] at hA; cases hA
      have hB : dget k ((extras W P data).filterMap fun kv =>
          (additionContract W P.additionTyped (P.excludeVars.contains kv.1) o kv).1.map (kv.1, ·)) = none := by
        rw [dget_eq_none_iff]
        intro hc
        simp only [List.map_filterMap, List.mem_filterMap] at hc
        obtain ⟨kv, hkv, he⟩ := hc
        have hkk : kv.1 = k := by
          generalize (additionContract W P.additionTyped (P.excludeVars.contains kv.1) o kv).1 = X at he
          cases X with
          | none => simp at he
          | some y => simpa using he
        unfold extras at hkv
        rw [List.mem_filter] at hkv
        simp only [List.map_map, List.mem_map] at hk
        obtain ⟨kf, hf, hn⟩ := hk
        have hacc := wf.accepts_name LL hf
        simp only [Function.comp] at hn
        rw [hn, ← hkk] at hacc
        have : anyAccepts W P kv.1 = true := by
          unfold anyAccepts; rw [List.any_eq_true]; exact ⟨kf, hf, hacc⟩
        rw [this] at hkv; exact absurd hkv.2 (by simp)
      rw [hB]; simp
  · -- violations
    intro e
    have hL : e ∈ paramsCheck o data.length ++ (refRun W P o data).errs ↔
        e ∈ paramsContract o data.length
        ∨ (∃ g ∈ P.fields.map (·.2), e ∈ (outOf W o data g).errs)
        ∨ ((lackOf P (foldOut (outOf W o data) (P.fields.map (·.2)) ({} : St V))).isEmpty = false
            ∧ e = .depsAbsence (lackOf P (foldOut (outOf W o data) (P.fields.map (·.2)) ({} : St V))))
        ∨ (∃ kv ∈ extras W P data, e ∈ (additionContract W P.additionTyped (P.excludeVars.contains kv.1) o kv).2) := by
      unfold refRun
      simp only
      rw [paramsCheck_eq, hadd]
      simp only [List.mem_append, hdFe, foldOut_errs, List.not_mem_nil, false_or, List.mem_flatMap]
      constructor
      · rintro (h | (h | h) | h)
        · exact Or.inl h
        · exact Or.inr (Or.inl h)
        · exact Or.inr (Or.inr (Or.inl h))
        · exact Or.inr (Or.inr (Or.inr h))
      · rintro (h | h | h | h)
        · exact Or.inl h
        · exact Or.inr (Or.inl (Or.inl h))
        · exact Or.inr (Or.inl (Or.inr h))
        · exact Or.inr (Or.inr h)
    rw [hL, hlack]
    unfold contract
    simp only
    rw [← extras_eq]
    simp only [List.mem_append, List.mem_flatMap, List.mem_map, outOf]
    constructor
    · rintro (h | ⟨g, hg, h⟩ | h | ⟨kv, hkv, h⟩)
      · exact Or.inl (Or.inl (Or.inl h))
      · exact Or.inl (Or.inl (Or.inr ⟨_, ⟨g, hg, rfl⟩, h⟩))
      · refine Or.inl (Or.inr ?_)
        rw [h.1]; simp [h.2]
      · exact Or.inr ⟨_, ⟨kv, hkv, rfl⟩, h⟩
    · rintro (((h | ⟨fo, ⟨g, hg, rfl⟩, h⟩) | h) | ⟨a, ⟨kv, hkv, rfl⟩, h⟩)
      · exact Or.inl h
      · exact Or.inr (Or.inl ⟨g, hg, h⟩)
      · refine Or.inr (Or.inr (Or.inl ?_))
        split at h
        · simp at h
        · rename_i hne
          simp only [List.mem_singleton] at h
          exact ⟨by simpa using hne, h⟩
      · exact Or.inr (Or.inr (Or.inr ⟨kv, hkv, h⟩))

end Utv.C05
