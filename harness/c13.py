"""C13 — the generated JSON Schema is valid and describes what the parser does.

One case = one declaration (a JSON descriptor of a type / data class), a generator mode, and raw
JSON inputs.  On the real code (worker, utype from $UTYPE_REPO) the adapter builds the declaration
through the public API, runs `JsonSchemaGenerator` (input and output view), parses the inputs,
publishes the results with `JSONEncoder`, and probes the parser's treatment of every field name
(accepted / absence is an error / unknown keys).  An independent JSON-Schema implementation
(`jsonschema`, in a `python3-vt` subprocess with PYTHONPATH unset) checks every real document against
the 2020-12 metaschema and validates every published value.  The Lean driver runs the generator
model, the Lean validator/metaschema, the encoder model, `conforms` and the field predicates.

compare  = model vs implementation (schemas, encodings, field predicates) and Lean validator vs jsonschema;
spec     = the property's predicate on what the implementation returned (oracle: jsonschema + probes).
"""
from __future__ import annotations

import ast
import copy
import json
import os
import random
import re
import subprocess
from decimal import Decimal

from . import common
from .common import Check, REPO, run_driver, run_impl

MODES = [None, "r", "w", "a"]
MAX_SAFE = 9007199254740991
MIN_NORMAL = Decimal(2.2250738585072014e-308)      # the smallest normal double 2**-1022, converted exactly

# ==============================================================================================
# worker side: descriptor -> real declaration, canonical values, the adapter
# ==============================================================================================

_UNIQ = [0]


def _uniq(prefix):
    _UNIQ[0] += 1
    return f"{prefix}_{_UNIQ[0]}"


def _prims():
    import datetime as dt
    import uuid
    return {"null": type(None), "bool": bool, "int": int, "float": float, "decimal": Decimal, "str": str,
            "bytes": bytes, "date": dt.date, "datetime": dt.datetime, "time": dt.time, "timedelta": dt.timedelta,
            "uuid": uuid.UUID, "list": list, "tuple": tuple, "set": set, "dict": dict}


def _cons_attrs(desc):
    from utype import Lax
    attrs = {}
    lax = set(desc.get("lax") or [])
    for k, v in (desc.get("cons") or {}).items():
        attrs[k] = Lax(v) if k in lax else v
    return attrs


def build(desc, ctx=None):
    """instantiate a type descriptor through utype's public API.  `ctx` keeps the identity of named rule classes
    (by name) and data classes (by uid) so that the same class object is used wherever a descriptor repeats them"""
    if ctx is None:
        ctx = {"rules": {}, "classes": {}}
    return _build(desc, ctx)


def _build(desc, ctx):
    import enum
    import typing as t
    from utype import Field, Options, Rule, Schema
    from utype.parser.rule import LogicalType
    from utype.utils.compat import Final

    P = _prims()
    k = desc["k"]
    if k == "any":
        return Rule.parse_annotation(annotation=t.Any)
    if k == "plain":
        return P[desc["p"]]
    if k == "scalar":
        name = desc.get("name")
        if name and name in ctx["rules"]:
            return ctx["rules"][name]
        attrs = _cons_attrs(desc)
        for a in ("primitive", "format"):
            if desc.get(a) is not None:
                attrs[a] = desc[a]
        cls = type(name or _uniq("R"), (P[desc["p"]], Rule), attrs)
        if name:
            ctx["rules"][name] = cls
        return cls
    if k == "derived":
        # a named rule narrowed at one use site, as `x: Named = Field(le=…)` does
        return Rule.parse_annotation(annotation=_build(desc["base"], ctx), constraints=_cons_attrs(desc))
    if k == "seq":
        it = _build(desc["item"], ctx)
        ann = {"list": t.List[it], "set": t.Set[it], "tuple": t.Tuple[it, ...]}[desc["p"]]
        return Rule.parse_annotation(annotation=ann, constraints=_cons_attrs(desc) or None)
    if k == "tup":
        ann = t.Tuple[tuple(_build(x, ctx) for x in desc["items"])]
        return Rule.parse_annotation(annotation=ann, constraints=_cons_attrs(desc) or None)
    if k == "map":
        ann = t.Dict[_build(desc["key"], ctx), _build(desc["val"], ctx)]
        return Rule.parse_annotation(annotation=ann, constraints=_cons_attrs(desc) or None)
    if k == "enum":
        base = P[desc["base"]] if desc.get("base") else None
        kinds = desc.get("kinds") or [None] * len(desc["members"])
        members = [(n, _member_value(v, kd)) for (n, v), kd in zip(desc["members"], kinds)]
        return enum.Enum(desc["name"], members, type=base) if base else enum.Enum(desc["name"], members)
    if k == "logic":
        sym = {"allOf": "&", "anyOf": "|", "oneOf": "^"}[desc["op"]]
        return LogicalType.combine(sym, *[_build(x, ctx) for x in desc["ts"]])
    if k == "data":
        if desc.get("uid") is not None and desc["uid"] in ctx["classes"]:
            return ctx["classes"][desc["uid"]]
        o = desc["opts"]
        kw = {}
        if o.get("mode"):
            kw["mode"] = o["mode"]
        add = o.get("addition", "drop")
        if add == "reject":
            kw["addition"] = False
        elif add == "keep":
            kw["addition"] = True
        elif add == "convert":
            kw["addition"] = _build(desc["addTy"], ctx)
        for a in ("ignore_required", "no_default", "defer_default"):
            if o.get(a):
                kw[a] = True
        if o.get("invalid_values"):
            kw["invalid_values"] = o["invalid_values"]
        ns = {"__module__": __name__, "__qualname__": desc["name"], "__annotations__": {}}
        if kw:
            ns["__options__"] = Options(**kw)
        for f in desc["fields"]:
            ft = _build(f["ty"], ctx)
            if f.get("prop"):
                def getter(self, _v=f["prop_value"], _t=ft):
                    from utype import type_transform
                    return type_transform(_v, _t)
                getter.__annotations__ = {"return": ft}
                getter.__name__ = f["attname"]
                ns[f["attname"]] = property(getter)
                continue
            fk = {}
            for a in ("alias", "title", "description", "mode"):
                if f.get(a) is not None:
                    fk[a] = f[a]
            if f.get("alias_from"):
                fk["alias_from"] = list(f["alias_from"])
            if f.get("required") is not None:
                fk["required"] = f["required"]
            for a in ("defer_default", "readonly", "writeonly"):
                if f.get(a):
                    fk[a] = True
            if f.get("deprecated"):
                fk["deprecated"] = f["deprecated"]      # True, or the name of the replacing field
            for a in ("no_input", "no_output"):
                if f.get(a) == "@never":
                    # a callable flag, decided per value; this one never fires on a generated value, so what remains
                    # of the field's behaviour is its own `mode`
                    fk[a] = (lambda v: isinstance(v, str) and v == "\x00never\x00")
                elif f.get(a):
                    fk[a] = f[a]
            if f.get("deps"):
                fk["dependencies"] = list(f["deps"])
            if f.get("example") is not None:
                fk["example"] = f["example"]
            if f.get("default") is not None:
                from utype import type_transform
                dv = type_transform(f["samples"][f["default"]["sample"]], ft)
                if f["default"].get("factory"):
                    fk["default_factory"] = (lambda _d=dv: copy.deepcopy(_d))
                else:
                    fk["default"] = dv
            ns["__annotations__"][f["attname"]] = Final[ft] if f.get("final") else ft
            ns[f["attname"]] = Field(**fk)
        cls = type(desc["name"], (Schema,), ns)
        if desc.get("uid") is not None:
            ctx["classes"][desc["uid"]] = cls
        return cls
    raise ValueError(f"unknown descriptor kind {k}")


def _member_value(v, kind):
    """the Python value of an Enum member whose published (JSON) form is `v`"""
    import datetime as dt
    import uuid
    if kind == "date":
        return dt.date.fromisoformat(v)
    if kind == "uuid":
        return uuid.UUID(v)
    if kind == "bytes":
        return v.encode()
    if kind == "decimal":
        return Decimal(str(v))
    return v


def _publish_members(doc):
    """Enum member values are put into the document as they are (generator.py: `enum_values.append(val.value)`); a
    member that is a date / UUID / bytes / Decimal is published by the library's own encoder, like the value itself
    (interpretive decision, design.d/C13.md).  Everything else must be JSON as it stands."""
    from utype.utils.encode import JSONEncoder

    def enc(v):
        try:
            json.dumps(v)
            return v
        except Exception:
            try:
                return json.loads(json.dumps(v, cls=JSONEncoder))
            except Exception:
                return v

    if isinstance(doc, dict):
        out = {}
        for k, v in doc.items():
            if k == "enum" and isinstance(v, list):
                out[k] = [enc(x) for x in v]
            elif k == "x-annotation" and isinstance(v, dict) and isinstance(v.get("enums"), dict):
                out[k] = dict(v, enums={n: enc(x) for n, x in v["enums"].items()})
            else:
                out[k] = _publish_members(v)
        return out
    if isinstance(doc, list):
        return [_publish_members(x) for x in doc]
    return doc


def _num_exact(d: Decimal):
    """exact value of a finite Decimal as (mant, exp) with value = mant / 10^exp, exp >= 0"""
    sign, digits, e = d.as_tuple()
    mant = int("".join(map(str, digits)) or "0") * (-1 if sign else 1)
    return (mant * 10 ** e, 0) if e >= 0 else (mant, -e)


def float_exact(f: float) -> bool:
    """the shortest repr of `f` is its exact value (true for the dyadic values the generators use)"""
    try:
        return Decimal(repr(f)) == Decimal(f)
    except Exception:
        return False


class _Flags:
    def __init__(self):
        self.inexact = False
        self.nonfinite = False
        self.foreign = False
        self.unsafe_dec = False


def to_pv(v, fl: _Flags):
    """canonical tagged form of a value the parser returned (by Python type; independent of the encoder
    except for the text of date-like values)"""
    import datetime as dt
    import enum
    import math
    import uuid
    from utype import Schema
    from utype.utils.encode import JSONEncoder
    if v is None:
        return {"none": 1}
    if isinstance(v, enum.Enum):
        return {"enum": to_pv(v.value, fl)}
    if isinstance(v, bool):
        return {"bool": v}
    if isinstance(v, int):
        return {"int": int(v)}
    if isinstance(v, float):
        if not math.isfinite(v):
            fl.nonfinite = True
            return {"str": repr(v)}
        if not float_exact(v):
            fl.inexact = True
        return {"float": v}
    if isinstance(v, Decimal):
        if not v.is_finite():
            fl.unsafe_dec = True
            return {"decSpecial": str(v)}
        if abs(v) > MAX_SAFE or (v and abs(v) < MIN_NORMAL):
            fl.unsafe_dec = True
        elif v.as_tuple().exponent and Decimal(float(v)) != v:
            fl.inexact = True
        mant, e = _num_exact(v)
        return {"dec": [mant, e, str(v)]}
    if isinstance(v, str):
        return {"str": v}
    if isinstance(v, (bytes, bytearray)):
        return {"bytes": bytes(v).decode("utf-8", errors="replace")}
    for cls, name in ((dt.datetime, "datetime"), (dt.date, "date"), (dt.time, "time"), (dt.timedelta, "timedelta"),
                      (uuid.UUID, "uuid")):
        if isinstance(v, cls):
            return {"iso": [name, json.loads(json.dumps(v, cls=JSONEncoder))]}
    if isinstance(v, Schema):
        return {"inst": [[str(k), to_pv(x, fl)] for k, x in dict.items(v)]}
    if isinstance(v, dict):
        items = []
        for k, x in v.items():
            if isinstance(k, bool) or not isinstance(k, (str, int)):
                fl.foreign = True
                k = str(k)
            items.append([k, to_pv(x, fl)])
        return {"dict": items}
    if isinstance(v, list):
        return {"list": [to_pv(x, fl) for x in v]}
    if isinstance(v, tuple):
        return {"tuple": [to_pv(x, fl) for x in v]}
    if isinstance(v, set):
        return {"set": [to_pv(x, fl) for x in v]}
    fl.foreign = True
    return {"str": f"<{type(v).__name__}>"}


def _jsonable(doc):
    """a generated document as JSON text material; anything JSON cannot hold becomes a marker"""
    def default(o):
        return {"__nonjson__": type(o).__name__}
    return json.loads(json.dumps(doc, default=default))


def _err_name(e):
    from utype import exc
    if isinstance(e, exc.ParseError):
        return type(e).__name__
    return "escape:" + type(e).__name__


def _parse(T, x, options):
    import typing as t
    from utype import Rule, Schema, type_transform
    if isinstance(T, type) and issubclass(T, Schema):
        return T.__from__(x, options=options)
    if isinstance(T, type) and issubclass(T, Rule):
        return T(x)
    if T is t.Any:
        return x
    return type_transform(x, T)


def _runtime_options(T, gm):
    """how a data class is parsed 'in mode gm': its own options with the mode overridden"""
    from utype import Options, Schema
    if gm is None or not (isinstance(T, type) and issubclass(T, Schema)):
        return None
    return T.__options__ & Options(mode=gm)


def _observed(inst, name, attname):
    fl = _Flags()
    if dict.__contains__(inst, name):
        return ["pub", json.dumps(to_pv(dict.__getitem__(inst, name), fl), sort_keys=True, default=str)]
    if attname in inst.__dict__:
        return ["attr", json.dumps(to_pv(inst.__dict__[attname], fl), sort_keys=True, default=str)]
    return ["missing"]


def _probe(T, desc, options):
    """the parser's treatment of every field name, of absence, and of unknown keys"""
    from utype import exc, Options
    fields = desc["fields"]
    if desc["opts"].get("invalid_values") == "exclude":
        # which names take input / whose absence is an error does not depend on what happens to an INVALID value;
        # probe under `throw` so that a probe value the type refuses shows as an error instead of silently vanishing
        options = (options or T.__options__) & Options(invalid_values="throw")

    def names_of(f):
        name = f.get("alias") or f["attname"]
        acc = [name]
        for a in [f["attname"]] + list(f.get("alias_from") or []):
            if a not in acc:
                acc.append(a)
        return name, acc

    def run(data):
        try:
            return None, T.__from__(dict(data), options=options)
        except exc.AbsenceError as e:
            return ["AbsenceError", getattr(e, "item", None)], None
        except Exception as e:
            return [_err_name(e), None], None

    rows = []
    for f in fields:
        name, acc = names_of(f)
        base = {}
        for g in fields:
            if g is f or g.get("prop") or name in (g.get("deps") or []):
                continue
            base[(g.get("alias") or g["attname"])] = g["samples"]["ok"]
        e0, r0 = run(base)
        row = {"name": name, "attname": f["attname"], "prop": bool(f.get("prop")), "absent": e0[0] if e0 else "ok",
               "absent_item": e0[1] if e0 else None,
               "absent_published": (dict.__contains__(r0, name) if r0 is not None else None), "keys": {}}
        if f.get("prop"):
            rows.append(row)
            continue
        o0 = _observed(r0, name, f["attname"]) if r0 is not None else None
        for k in acc:
            e1, r1 = run({**base, k: f["samples"]["ok"]})
            e2, r2 = run({**base, k: f["samples"]["ok2"]})
            if e1 and e1[0] == "AbsenceError" and e1[1] == name:
                verdict = "not-accepted"
            elif e1 or e2:
                verdict = "probe-error:" + (e1 or e2)[0]
            else:
                o1 = _observed(r1, name, f["attname"])
                o2 = _observed(r2, name, f["attname"])
                if e0 is not None and e0[0] == "AbsenceError" and e0[1] == name:
                    verdict = "accepted"
                elif e0 is not None:
                    verdict = "probe-error:" + e0[0]
                else:
                    verdict = "accepted" if (o1 != o2 or o1 != o0) else "not-accepted"
            row["keys"][k] = verdict
        rows.append(row)
    # unknown keys
    base = {(g.get("alias") or g["attname"]): g["samples"]["ok"] for g in fields if not g.get("prop")}
    unk = "zz_unknown_key"
    res = []
    for val in ("12", "xx"):
        e, r = run({**base, unk: val})
        if e:
            res.append("rejected" if e[0] == "ExceedError" else "error:" + e[0])
        elif not dict.__contains__(r, unk):
            res.append("dropped")
        else:
            got = dict.__getitem__(r, unk)
            res.append("kept" if (type(got) is str and got == val) else "converted")
    if res[0] == res[1] == "dropped" and desc["opts"].get("invalid_values") == "exclude" \
            and desc["opts"].get("addition") == "convert":
        unknown = "unclear:both probe values excluded as unconvertible"
    elif res[0] == res[1] and res[0] in ("rejected", "dropped", "kept"):
        unknown = res[0]
    elif res[0] in ("converted", "kept") and (res[1].startswith("error:") or res[1] == "converted"):
        unknown = "converted"
    elif res[0] == "converted" and res[1] == "dropped" and desc["opts"].get("invalid_values") == "exclude":
        unknown = "converted"       # the unconvertible addition is excluded instead of raising
    else:
        unknown = "unclear:" + "/".join(res)
    e, _ = run(base)
    return {"fields": rows, "unknown": unknown, "base": e[0] if e else "ok"}


def _gen_doc(T, gm, output, defs=None, names=None):
    """one generator call; with a registry the assembled document is `returned + {"$defs": get_defs()}`"""
    from utype import JsonSchemaGenerator
    try:
        if defs is None:
            doc = JsonSchemaGenerator(T, mode=gm, output=output)()
        else:
            gen = JsonSchemaGenerator(T, defs=defs, names=names, mode=gm, output=output)
            top = gen()
            doc = dict(top)
            doc["$defs"] = gen.get_defs()
    except BaseException as e:
        return {"exc": type(e).__name__}
    doc = _publish_members(doc)
    try:
        json.dumps(doc)
        ok = True
    except Exception:
        ok = False
    return {"doc": _jsonable(doc), "json_ok": ok}


def _impl_one(case, ctx, regs):
    """one declaration: both views inline, (optionally) both views through a registry, parsed inputs, probes.
    `regs` = {"in": (defs, names), "out": (defs, names)} shared by the steps of a session, or None"""
    from utype.utils.encode import JSONEncoder
    from utype import exc as _exc
    try:
        T = build(case["ty"], ctx)
    except (_exc.ParseError, _exc.ConfigError) as e:
        # the library refuses the declaration (e.g. a default the declared type does not accept): not a C13 case
        return {"declaration_rejected": type(e).__name__}, None
    except Exception as e:
        return {"build_error": f"{type(e).__name__}: {e}"[:200]}, None
    gm = case.get("genMode")
    res = {}
    for view in ("in", "out"):
        res["schema_" + view] = _gen_doc(T, gm, view == "out")
        if case.get("defs"):
            d, n = regs[view] if regs else ({}, {})
            res["defs_" + view] = _gen_doc(T, gm, view == "out", d, n)
    options = _runtime_options(T, gm)
    outs = []
    for x in case.get("inputs", []):
        try:
            r = _parse(T, x, options)
        except BaseException as e:
            outs.append({"err": _err_name(e)})
            continue
        fl = _Flags()
        pv = to_pv(r, fl)
        o = {"pv": pv, "flags": {k: v for k, v in vars(fl).items() if v}}
        try:
            o["enc"] = json.loads(json.dumps(r, cls=JSONEncoder, allow_nan=False))
        except Exception as e:
            o["enc_error"] = type(e).__name__
        outs.append(o)
    res["outs"] = outs
    if case["ty"]["k"] == "data":
        try:
            res["probe"] = _probe(T, case["ty"], options)
            if gm is not None and gm != case["ty"]["opts"].get("mode"):
                res["probe_classmode"] = _probe(T, case["ty"], None)
        except BaseException as e:
            res["probe"] = {"exc": f"{type(e).__name__}: {e}"[:200]}
    return res, T


def impl(case):
    import warnings
    warnings.simplefilter("ignore")
    if case.get("kind") == "pairs":
        return {"pairs": True}
    ctx = {"rules": {}, "classes": {}}
    if case.get("kind") == "session":
        # several documents through ONE registry per view, in sequence
        from utype import JsonSchemaGenerator
        regs = {"in": ({}, {}), "out": ({}, {})}
        steps, tops = [], []
        for st in case["steps"]:
            res, T = _impl_one(st, ctx, regs)
            steps.append(res)
        # every returned document again, against the registry as it is after the last step
        for view in ("in", "out"):
            d, n = regs[view]
            try:
                final = _jsonable(_publish_members(JsonSchemaGenerator(None, defs=d, names=n).get_defs()))
            except BaseException as e:
                final = {"__nonjson__": type(e).__name__}
            for res in steps:
                dd = res.get("defs_" + view) if isinstance(res, dict) else None
                if dd and "doc" in dd:
                    top = {k: v for k, v in dd["doc"].items() if k != "$defs"}
                    res["final_" + view] = {"doc": dict(top, **{"$defs": final}), "json_ok": dd["json_ok"]}
        return {"steps": steps}
    res, _ = _impl_one(case, ctx, None)
    return res


# ==============================================================================================
# the independent validator (jsonschema under python3-vt, PYTHONPATH unset)
# ==============================================================================================

_JS_SCRIPT = r'''
import json, sys
from jsonschema import Draft202012Validator
from jsonschema.exceptions import SchemaError
import decimal
def conv(x):
    if isinstance(x, dict):
        if list(x) == ["__decimal__"]:
            return decimal.Decimal(x["__decimal__"])
        return {k: conv(v) for k, v in x.items()}
    if isinstance(x, list):
        return [conv(v) for v in x]
    return x
jobs = json.load(sys.stdin)
out = []
for job in jobs:
    job["instances"] = [conv(i) for i in job["instances"]]
    res = {}
    try:
        Draft202012Validator.check_schema(job["schema"])
        res["check"] = True
    except SchemaError as e:
        res["check"] = False
        res["why"] = str(e.message)[:200]
    except Exception as e:
        res["check"] = None
        res["why"] = type(e).__name__ + ": " + str(e)[:200]
    valid = []
    if res["check"]:
        v = Draft202012Validator(job["schema"])
        for inst in job["instances"]:
            try:
                valid.append(bool(v.is_valid(inst)))
            except Exception as e:
                valid.append("error:" + type(e).__name__)
    else:
        valid = [None] * len(job["instances"])
    res["valid"] = valid
    out.append(res)
json.dump(out, sys.stdout)
'''


def run_jsonschema(jobs: list) -> list:
    if not jobs:
        return []
    env = {k: v for k, v in os.environ.items() if k != "PYTHONPATH"}
    n = max(1, min(common.NCPU, (len(jobs) + 399) // 400))
    chunks = [jobs[i::n] for i in range(n)]
    procs = []
    for ch in chunks:
        p = subprocess.Popen(["python3-vt", "-c", _JS_SCRIPT], env=env, stdin=subprocess.PIPE,
                             stdout=subprocess.PIPE, stderr=subprocess.PIPE, text=True)
        procs.append(p)
    import threading
    results = [None] * n

    def work(i):
        try:
            o, e = procs[i].communicate(json.dumps(chunks[i]), timeout=900)
            results[i] = json.loads(o) if procs[i].returncode == 0 else RuntimeError(e[-500:])
        except Exception as ex:  # infrastructure
            results[i] = ex

    ths = [threading.Thread(target=work, args=(i,)) for i in range(n)]
    [t.start() for t in ths]
    [t.join() for t in ths]
    out = [None] * len(jobs)
    for i in range(n):
        if isinstance(results[i], Exception):
            raise RuntimeError(f"jsonschema subprocess failed: {results[i]}")
        for k, r in enumerate(results[i]):
            out[i + k * n] = r
    return out


# ==============================================================================================
# regex oracle table (Python `re`; the jsonschema library uses `re.search` for `pattern`)
# ==============================================================================================

def _patterns(doc, acc):
    if isinstance(doc, dict):
        for k, v in doc.items():
            if k in ("pattern", "regex") and isinstance(v, str):
                acc.add(v)
            if k == "patternProperties" and isinstance(v, dict):
                acc.update(v.keys())
            _patterns(v, acc)
    elif isinstance(doc, list):
        for v in doc:
            _patterns(v, acc)


def _strings(doc, acc):
    if isinstance(doc, str):
        acc.add(doc)
    elif isinstance(doc, dict):
        for k, v in doc.items():
            acc.add(str(k))
            _strings(v, acc)
    elif isinstance(doc, list):
        for v in doc:
            _strings(v, acc)
    elif isinstance(doc, bool) or doc is None:
        pass
    elif isinstance(doc, int):
        acc.add(str(doc))


def rx_table(schemas, instances, extra_patterns=()):
    pats, strs = set(extra_patterns), set()
    for s in schemas:
        _patterns(s, pats)
    for i in instances:
        _strings(i, strs)
    rows = []
    for p in sorted(pats):
        try:
            c = re.compile(p)
        except re.error:
            continue
        for s in sorted(strs):
            rows.append([p, s, c.search(s) is not None, c.fullmatch(s) is not None])
    return rows


# ==============================================================================================
# generators
# ==============================================================================================

DYADIC = [0.5, 1.5, 2.25, -0.75, 3.0, 0.25, 10.5, -2.5, 4.0, 0.125]


def _sat_num(cons, v):
    for k, b in cons.items():
        if k == "gt" and not v > b: return False
        if k == "ge" and not v >= b: return False
        if k == "lt" and not v < b: return False
        if k == "le" and not v <= b: return False
        if k == "multiple_of" and (v / b) != int(v / b): return False
        if k == "enum" and v not in b: return False
        if k == "const" and v != b: return False
    return True


def _sat_str(cons, s):
    for k, b in cons.items():
        if k == "min_length" and len(s) < b: return False
        if k == "max_length" and len(s) > b: return False
        if k == "length" and len(s) != b: return False
        if k == "regex" and not re.fullmatch(b, s): return False
        if k == "enum" and s not in b: return False
        if k == "const" and s != b: return False
    return True


STR_POOL = ["", "a", "ab", "abc", "abcd", "hello", "a1", "12", "7", "x-y", "AB", "zz9", "foo_bar", "3.5", "-4", "true", "null"]
REGEXES = ["[a-z]+", "\\d+", "[a-c]*", "a.c?", "[A-Za-z0-9_]+", "x|ab"]


def gen_scalar(rng, p=None, for_key=False):
    p = p or rng.choice(["int", "int", "float", "str", "str", "decimal"])
    cons = {}
    if p in ("int", "float"):
        pool = list(range(-12, 25)) if p == "int" else DYADIC + [float(i) for i in range(-4, 9)]
        r = rng.random()
        if r < 0.12:
            cons["const"] = rng.choice(pool)
        elif r < 0.24:
            cons["enum"] = rng.sample(pool, rng.randint(1, 3))
        else:
            for k in rng.sample(["gt", "ge", "lt", "le", "multiple_of"], rng.randint(1, 3)):
                if k == "multiple_of":
                    cons[k] = rng.choice([2, 3, 5] if p == "int" else [0.5, 0.25, 2.0, 1.5])
                elif k in ("gt", "ge"):
                    cons[k] = rng.choice([-5, 0, 1, 2] if p == "int" else [-0.75, 0.0, 0.5, 1.0])
                else:
                    cons[k] = rng.choice([6, 10, 20] if p == "int" else [4.0, 10.5, 8.0])
            if "gt" in cons and "ge" in cons:
                del cons["ge"]
            if "lt" in cons and "le" in cons:
                del cons["le"]
        if not [v for v in pool if _sat_num(cons, v)][1:]:
            cons = {"ge": 0 if p == "int" else 0.0}
    elif p == "str":
        r = rng.random()
        if r < 0.12:
            cons["const"] = rng.choice(STR_POOL[1:])
        elif r < 0.24:
            cons["enum"] = rng.sample(STR_POOL, rng.randint(2, 3))
        else:
            for k in rng.sample(["min_length", "max_length", "regex", "length"], rng.randint(1, 2)):
                if k == "regex":
                    cons[k] = rng.choice(REGEXES)
                elif k == "min_length":
                    cons[k] = rng.choice([1, 2])
                elif k == "max_length":
                    cons[k] = rng.choice([2, 3, 5, 8])
                else:
                    cons[k] = rng.choice([1, 2, 3])
            if "length" in cons:
                cons.pop("min_length", None)
                cons.pop("max_length", None)
        if len([s for s in STR_POOL if _sat_str(cons, s)]) < 2 and "const" not in cons:
            cons = {"max_length": 5}
    else:  # decimal
        cons = rng.choice([{}, {"max_digits": 6}, {"decimal_places": 3}, {"max_digits": 8, "decimal_places": 3},
                           {"ge": 0}, {"gt": 0, "le": 100}])      # the last two: outside the model (`unmodelled`), oracle only
    d = {"k": "scalar", "p": p, "cons": cons}
    # Lax(...) constraints are C03's business and interact with validator order (found here:
    # `class T(float, Rule): gt=0.5; multiple_of=Lax(1.5)` gives T(1) == 0.0, outside its own `gt`);
    # only length-like lax constraints, which cannot leave the declared range, are generated
    lax = [k for k in cons if k in ("max_length",) and rng.random() < 0.15]
    if lax:
        d["lax"] = lax
    if rng.random() < 0.12 and not for_key:
        d["format"] = rng.choice(["slug", "email", "x-custom"])
    if rng.random() < 0.1 and p == "int":
        d["primitive"] = "number"
    return d


def _kind(v):
    return {bool: "bool", int: "int", float: "float", str: "str", type(None): "null"}[type(v)]


def gen_enum(rng):
    r = rng.random()
    name = "E" + str(rng.randrange(10 ** 6))
    if r < 0.4:
        vals = rng.sample(range(0, 9), rng.randint(1, 3))
        base = rng.choice([None, "int"])
    elif r < 0.8:
        vals = rng.sample(["x", "y", "zz", "on", "off"], rng.randint(1, 3))
        base = rng.choice([None, "str"])
    else:
        # members of different types (class E(Enum): A = 1; B = 'a')
        vals = rng.choice([[1, "a"], ["x", 2, 3], [2.5, "on"], [4, None], [7, 0.5, "zz"]])
        base = None
        if rng.random() < 0.5:
            # … and of different types that share one JSON primitive (str + date / UUID / bytes, float + Decimal)
            typed = rng.choice([[("x", "str"), ("2020-01-02", "date")], [("on", "str"), ("ab", "bytes"), (3, "int")],
                                [("12345678-1234-5678-1234-567812345678", "uuid"), ("y", "str")],
                                [(2.5, "float"), (1.5, "decimal")], [(0.5, "decimal"), (2.25, "float"), ("zz", "str")],
                                [("1999-12-31", "date"), ("cd", "bytes"), ("k", "str")]])
            return {"k": "enum", "name": name, "base": None, "members": [[chr(65 + i), v] for i, (v, _) in enumerate(typed)],
                    "kinds": [kd for _, kd in typed]}
    return {"k": "enum", "name": name, "base": base, "members": [[chr(65 + i), v] for i, v in enumerate(vals)],
            "kinds": [_kind(v) for v in vals]}


PLAIN_LEAVES = ["int", "float", "str", "bool", "null", "decimal", "date", "datetime", "time", "timedelta", "uuid", "bytes"]


def gen_ty(rng, depth=2, role="field"):
    r = rng.random()
    if role == "key":
        if r < 0.45:
            return {"k": "plain", "p": "str"}
        if r < 0.7:
            return {"k": "plain", "p": "int"}
        if r < 0.85:
            d = gen_scalar(rng, "str", for_key=True)
            d["cons"] = {k: v for k, v in d["cons"].items() if k in ("regex", "min_length", "max_length")} or {"regex": "[a-z]+"}
            d.pop("lax", None)
            return d
        return {"k": "scalar", "p": "int", "cons": {"ge": 0}}
    if depth <= 0 or r < 0.3:
        q = rng.random()
        if q < 0.45:
            return {"k": "plain", "p": rng.choice(PLAIN_LEAVES)}
        if q < 0.85:
            return gen_scalar(rng)
        if q < 0.95:
            return gen_enum(rng)
        return {"k": "plain", "p": rng.choice(["list", "dict"])} if rng.random() < 0.5 else {"k": "any"}
    if r < 0.45:
        cons = {}
        p = rng.choice(["list", "list", "set", "tuple"])
        if rng.random() < 0.4:
            if rng.random() < 0.5:
                cons["max_length"] = rng.choice([2, 3, 4])
            if rng.random() < 0.4:
                cons["min_length"] = 1
            if p == "list" and rng.random() < 0.4:
                cons["unique_items"] = True
        item = gen_ty(rng, depth - 1, "item")
        if p == "set" or cons.get("unique_items"):
            item = gen_hashable(rng)
        return {"k": "seq", "p": p, "cons": cons, "item": item}
    if r < 0.53:
        return {"k": "tup", "cons": {}, "items": [gen_ty(rng, depth - 1, "item") for _ in range(rng.randint(1, 3))]}
    if r < 0.65:
        cons = {}
        if rng.random() < 0.3:
            cons["max_length"] = rng.choice([2, 3])
        return {"k": "map", "cons": cons, "key": gen_ty(rng, 0, "key"), "val": gen_ty(rng, depth - 1, "item")}
    if r < 0.85:
        return gen_logic(rng, depth)
    if role in ("field", "item") and depth >= 1:
        return gen_data(rng, depth - 1, nested=True)
    return gen_scalar(rng)


def gen_hashable(rng):
    q = rng.random()
    if q < 0.5:
        return {"k": "plain", "p": rng.choice(["int", "str", "float", "date", "uuid"])}
    return gen_scalar(rng, rng.choice(["int", "str"]))


def _json_kind(t):
    """coarse JSON kind of published values (to build disjoint oneOf arguments)"""
    k = t["k"]
    if k == "derived":
        return _json_kind(t["base"])
    if k == "plain" or k == "scalar":
        return {"int": "num", "float": "num", "decimal": "num", "bool": "bool", "null": "null", "list": "arr",
                "tuple": "arr", "set": "arr", "dict": "obj"}.get(t["p"], "str")
    if k in ("seq", "tup"):
        return "arr"
    if k in ("map", "data"):
        return "obj"
    if k == "enum":
        kinds = set(t.get("kinds") or [])
        if len(kinds) != 1:
            return "any"
        return "num" if kinds <= {"int", "float"} else "str"
    return "any"


def _rejects_none(t):
    """types whose (lenient) converter refuses None — int(None) is 0, str(None) is 'None', list(None) is [None] …"""
    k = t["k"]
    if k == "plain":
        return t["p"] in ("date", "datetime", "time", "uuid")
    if k == "enum":
        return all(m[1] is not None for m in t["members"])
    if k in ("map", "data"):
        return True
    if k == "seq":
        return _rejects_none(t["item"])
    if k == "tup":
        return all(_rejects_none(x) for x in t["items"])
    return False


def gen_logic(rng, depth):
    op = rng.choice(["anyOf", "anyOf", "anyOf", "oneOf", "allOf"])
    if op == "allOf":
        p = rng.choice(["int", "str"])
        a, b = gen_scalar(rng, p), gen_scalar(rng, p)
        for x in (a, b):
            x["cons"] = {k: v for k, v in x["cons"].items() if k not in ("const", "enum")} or ({"ge": 0} if p == "int" else {"max_length": 8})
            x.pop("lax", None)
        return {"k": "logic", "op": op, "ts": [a, b]}
    if op == "oneOf" and rng.random() < 0.3:
        a = {"k": "scalar", "p": "str", "cons": {"regex": rng.choice(["[a-z]+", "\\d+", "[a-c]*"])}}
        b = {"k": "scalar", "p": "str", "cons": {"length": rng.choice([1, 2, 3])}}
        return {"k": "logic", "op": op, "ts": [a, b] if rng.random() < 0.5 else [b, a]}
    if op == "oneOf":
        # exactly-one semantics on the original input: the other argument is `null`, so X must refuse None
        for _ in range(20):
            x = gen_ty(rng, max(depth - 1, 0), "item")
            if _rejects_none(x):
                return {"k": "logic", "op": op, "ts": [x, {"k": "plain", "p": "null"}]}
        return {"k": "logic", "op": op, "ts": [{"k": "plain", "p": "date"}, {"k": "plain", "p": "null"}]}
    ts, kinds = [], set()
    for _ in range(rng.randint(2, 3)):
        t = gen_ty(rng, max(depth - 1, 0), "item")
        if t["k"] in ("logic", "any"):
            continue
        kd = _json_kind(t)
        if op == "oneOf" and (kd in kinds or kd == "any"):
            continue
        if any(json.dumps(t, sort_keys=True) == json.dumps(u, sort_keys=True) for u in ts):
            continue
        kinds.add(kd)
        ts.append(t)
    if rng.random() < 0.4 and "null" not in kinds:
        ts.append({"k": "plain", "p": "null"})
    if len(ts) < 2:
        ts = [{"k": "plain", "p": "int"}, {"k": "plain", "p": "null"}]
    return {"k": "logic", "op": op, "ts": ts}


ATT = ["a", "b", "c", "d", "e", "f", "g", "h"]


def gen_named(rng, k):
    """a named rule class that several sites share"""
    d = gen_scalar(rng, rng.choice(["int", "int", "float", "str"]))
    d["cons"] = {c: v for c, v in d["cons"].items() if c not in ("const", "enum")} or \
        ({"max_length": 5} if d["p"] == "str" else {"ge": 0 if d["p"] == "int" else 0.0})
    d.pop("lax", None)
    d["name"] = "N" + str(k)
    return d


def narrow(rng, base):
    """the named rule narrowed by a field-level constraint (a new rule whose origin is the named one); None if no
    constraint can be added that keeps two values and excludes one the plain rule accepts"""
    vals = _samples(base, rng, 30)
    distinct = []
    for v in vals:
        if v not in distinct:
            distinct.append(v)
    if len(distinct) < 3:
        return None
    cons = {}
    if base["p"] in ("int", "float"):
        srt = sorted(distinct)
        if not any(c in base["cons"] for c in ("le", "lt")) and rng.random() < 0.7:
            cons["le"] = srt[1]                     # keeps the two smallest, excludes the rest
        elif not any(c in base["cons"] for c in ("ge", "gt")):
            cons["ge"] = srt[-2]
        elif "multiple_of" not in base["cons"] and base["p"] == "int":
            cons["multiple_of"] = 2
    else:
        if "regex" not in base["cons"] and rng.random() < 0.6:
            cons["regex"] = rng.choice(["[a-z]+", "\\d+", "[a-c]*"])
        elif "min_length" not in base["cons"] and "length" not in base["cons"]:
            cons["min_length"] = 2
    if not cons:
        return None
    d = {"k": "derived", "base": copy.deepcopy(base), "cons": cons}
    kept = _samples(d, rng, 30)
    if len({json.dumps(v) for v in kept}) < 2 or len({json.dumps(v) for v in kept}) == len(distinct):
        return None
    return d


def use_named(rng, pool):
    """one of the ways a field can use a shared named rule"""
    base = copy.deepcopy(rng.choice(pool))
    r = rng.random()
    if r < 0.3:
        return base
    if r < 0.6:
        return narrow(rng, base) or base
    if r < 0.75:
        return {"k": "seq", "p": rng.choice(["list", "tuple"]), "cons": {}, "item": base}
    if r < 0.85:
        return {"k": "logic", "op": "anyOf", "ts": [base, {"k": "plain", "p": "null"}]}
    if r < 0.93:
        return {"k": "map", "cons": {}, "key": {"k": "plain", "p": "str"}, "val": base}
    return {"k": "tup", "cons": {}, "items": [base, narrow(rng, base) or {"k": "plain", "p": "bool"}]}


def gen_field(rng, attname, depth, cls_mode, pool=None):
    f = {"attname": attname, "ty": use_named(rng, pool) if pool and rng.random() < 0.6 else gen_ty(rng, depth, "field")}
    r = rng.random()
    if r < 0.25:
        f["alias"] = attname + "_x"
    if rng.random() < 0.2:
        f["alias_from"] = [attname + "1"] + ([attname + "2"] if rng.random() < 0.4 else [])
    modes_pool = ["r", "w", "a", "rw", "ra", "wa"]
    if rng.random() < 0.3:
        q = rng.random()
        if q < 0.6:
            f["mode"] = rng.choice(modes_pool)
        elif q < 0.8:
            f["readonly"] = True
        else:
            f["writeonly"] = True
    fmode = f.get("mode") or ("r" if f.get("readonly") else "w" if f.get("writeonly") else None)

    def sub(m):
        pool = [c for c in (m or "rwa")]
        return "".join(rng.sample(pool, rng.randint(1, min(2, len(pool)))))
    q = rng.random()
    if '"k": "data"' in json.dumps(f["ty"]):
        # copy_value() turns a data-class default into a plain dict (C19's business); same JSON, other Python type
        q = max(q, 0.36)
    if q < 0.35:
        f["default"] = {"sample": "ok2", "factory": rng.random() < 0.3}
        if rng.random() < 0.15:
            f["defer_default"] = True
        if rng.random() < 0.15:
            f["required"] = sub(fmode)
    elif q < 0.55:
        f["required"] = False
    elif q < 0.7:
        f["required"] = sub(fmode)
    for a in ("no_input", "no_output"):
        q = rng.random()
        if q < 0.1:
            f[a] = True
        elif q < 0.25:
            f[a] = sub(fmode)
    if rng.random() < 0.08 and f.get("default") and not f.get("defer_default"):
        f["final"] = True
    if rng.random() < 0.15:
        f["title"] = "T " + attname
    if rng.random() < 0.1:
        f["description"] = "about " + attname
    if rng.random() < 0.1:
        f["deprecated"] = True
    if rng.random() < 0.1:
        f["example"] = rng.choice([1, "ex", [1, 2]])
    return f


_UID = [0]


def _next_uid():
    _UID[0] += 1
    return _UID[0]


def gen_data(rng, depth=1, nested=False, cls_mode="rand", pool=None, name=None):
    n = rng.randint(1, 3 if nested else 5)
    name = name or "K" + str(rng.randrange(10 ** 7))
    if pool is None and not nested and rng.random() < 0.3:
        pool = [gen_named(rng, i + 1) for i in range(rng.randint(1, 2))]
    mode = rng.choice([None, None, "r", "w", "a"]) if cls_mode == "rand" else cls_mode
    opts = {"mode": mode, "addition": rng.choice(["drop", "drop", "reject", "keep", "convert"]),
            "ignore_required": rng.random() < 0.1, "no_default": rng.random() < 0.1,
            "defer_default": rng.random() < 0.08}
    if rng.random() < 0.2:
        # a value that cannot be converted is dropped (its default applies) instead of raising — unless the field is
        # required in this mode.  The generator does not read the option; the output contract must hold all the same.
        # ('preserve' keeps the raw value by design and is not generated.)
        opts["invalid_values"] = "exclude"
    fields = [gen_field(rng, ATT[i], depth, mode, pool) for i in range(n)]
    # a CALLABLE no_input / no_output on a field with a mode of its own, in a class whose mode lies outside it: the
    # static view (always_no_input / always_no_output) must still apply the field's mode (outside the Lean fragment:
    # the driver answers `unmodelled`; the oracle compares the documents with the probes)
    if rng.random() < 0.12:
        cands = [f for f in fields if not f.get("prop")]
        if cands:
            f = rng.choice(cands)
            fm = rng.choice(["r", "w", "a", "rw", "ra", "wa"])
            for k in ("readonly", "writeonly", "final"):
                f.pop(k, None)
            f["mode"] = fm
            flag = rng.choice(["no_input", "no_input", "no_output"])
            f[flag] = "@never"
            if flag == "no_output":
                # known finding `callable-nooutput-mode`: with a default the output schema would require a field that
                # is never published (always_no_output returns early on a callable); the corpus holds the witness
                f.pop("default", None)
                f.pop("defer_default", None)
            other = "no_output" if flag == "no_input" else "no_input"
            if isinstance(f.get(other), str) and not set(f[other]) <= set(fm):
                f.pop(other)
            if isinstance(f.get("required"), str) and not set(f["required"]) <= set(fm):
                f["required"] = False
                f.pop("default", None)
                f.pop("defer_default", None)
            outside = [c for c in "rwa" if c not in fm]
            opts["mode"] = rng.choice(outside + [None]) if rng.random() < 0.8 else opts["mode"]
    # Field(deprecated='<name of the field that replaces it>')
    if len(fields) >= 2 and rng.random() < 0.2:
        i, j = rng.sample(range(len(fields)), 2)
        fields[i]["deprecated"] = fields[j].get("alias") or fields[j]["attname"]
    # a getter-only property
    if not nested and rng.random() < 0.2:
        pt = rng.choice([{"k": "plain", "p": "int"}, {"k": "plain", "p": "str"}])
        fields.append({"attname": "p", "prop": True, "ty": pt, "prop_value": 7 if pt["p"] == "int" else "pv"})
    # dependencies: mostly among plain fields; sometimes on a field with a default, and sometimes on a field that is
    # not published / not in every mode (the published data then holds the field without its dependency)
    if len(fields) >= 2 and rng.random() < 0.25:
        a, b = fields[0], fields[1]
        if not a.get("prop") and not b.get("prop") and not b.get("final"):
            q = rng.random()
            plain_b = not b.get("no_output") and not b.get("no_input") and not b.get("mode") \
                and not b.get("readonly") and not b.get("writeonly")
            if plain_b or q < 0.4:
                a["deps"] = [b.get("alias") or b["attname"]]
                if not (a.get("default") and q < 0.5):
                    a.pop("default", None)
                    a.pop("defer_default", None)
                    a.pop("final", None)
                    a["required"] = False
    d = {"k": "data", "name": name, "uid": _next_uid(), "opts": opts, "fields": fields, "addTy": None}
    if opts["addition"] == "convert":
        d["addTy"] = rng.choice([{"k": "plain", "p": "int"}, {"k": "scalar", "p": "int", "cons": {"ge": 0}},
                                 {"k": "plain", "p": "float"},
                                 # not classes: typing generics / Optional (Options(addition=List[int]))
                                 {"k": "seq", "p": "list", "cons": {}, "item": {"k": "plain", "p": "int"}},
                                 {"k": "logic", "op": "anyOf", "ts": [{"k": "plain", "p": "int"}, {"k": "plain", "p": "null"}]},
                                 {"k": "map", "cons": {}, "key": {"k": "plain", "p": "str"}, "val": {"k": "plain", "p": "int"}}])
    return d


# ---- samples: raw JSON inputs that parse, type-directed -------------------------------------------------

def samples(t, rng, n=2):
    """n raw inputs accepted by `t`, pairwise different as far as the type has that many values; [] if none is known"""
    out = _samples(t, rng, n)
    if not out:
        return []
    out = list(out[:n])
    while len(out) < n:
        out.append(out[len(out) % max(1, len(set(map(json.dumps, out))))] if False else out[-1])
    return out


def _samples(t, rng, n=2):
    k = t["k"]
    if k == "any":
        return [5, "five"][:n]
    if k == "plain":
        return {
            "int": [3, 12, 0], "float": [1.5, 2.25, 0.0], "str": ["ab", "cd", "e"], "bool": [True, False, True],
            "null": [None, None, None], "decimal": ["1.5", "2.25", "0.00"], "date": ["2020-01-02", "2021-03-04", "1999-12-31"],
            "datetime": ["2020-01-02T03:04:05", "2021-03-04T05:06:07", "1999-12-31T23:59:59"],
            "time": ["03:04:05", "05:06:07", "23:59:59"], "timedelta": [90, 3600, 86401],
            "uuid": ["12345678-1234-5678-1234-567812345678", "87654321-4321-8765-4321-876543218765", "00000000-0000-0000-0000-000000000001"],
            "bytes": ["ab", "cd", "xyz"], "list": [[1, "a"], [2], []], "dict": [{"k": 1}, {"j": "2"}, {}],
            "tuple": [[1, 2], [3], []], "set": [[1, 2], [3], []],
        }[t["p"]][:n]
    if k == "scalar":
        c = t["cons"]
        if t["p"] == "int":
            pool = [v for v in list(range(0, 25)) + list(range(-12, 0)) if _sat_num(c, v)]
        elif t["p"] == "float":
            pool = [v for v in DYADIC + [float(i) for i in range(-4, 9)] if _sat_num(c, v)]
        elif t["p"] == "str":
            pool = [s for s in STR_POOL if _sat_str(c, s)]
        else:
            pool = [v for v in ["1.5", "2.25", "0", "0.0", "40", "0.125"]
                    if _sat_num({k: b for k, b in c.items() if k in ("gt", "ge", "lt", "le")}, float(v))]
        if not pool:
            return []
        out = [pool[0]]
        for v in pool[1:]:
            if len(out) >= n:
                break
            out.append(v)
        while len(out) < n:
            out.append(out[-1])
        return out
    if k == "derived":
        merged = {"k": "scalar", "p": t["base"]["p"], "cons": {**t["base"]["cons"], **t["cons"]}}
        return _samples(merged, rng, n)
    if k == "enum":
        kinds = t.get("kinds") or ["str"] * len(t["members"])
        vals = [m[1] for m, kd in zip(t["members"], kinds) if kd in ("int", "float", "str", "bool", "null")]
        return [vals[i % len(vals)] for i in range(n)] if vals else []
    if k == "seq":
        its = samples(t["item"], rng, 3)
        if not its:
            return [[] for _ in range(n)] if not t["cons"].get("min_length") else []
        distinct = []
        for x in its:
            if x not in distinct:
                distinct.append(x)
        lo = t["cons"].get("min_length", 0)
        hi = t["cons"].get("max_length", 4)
        cands = [distinct[:1], distinct[:2], distinct[1:2] or distinct[:1], distinct[:3], []]
        cands = [c for c in cands if lo <= len(c) <= hi]
        out = []
        for c in cands:
            if c not in out:
                out.append(c)
        while out and len(out) < n:
            out.append(out[-1])
        return out[:n]
    if k == "tup":
        cols = [samples(x, rng, n) for x in t["items"]]
        if any(not c for c in cols):
            return []
        return [[c[i] for c in cols] for i in range(n)]
    if k == "map":
        ks = samples(t["key"], rng, 2)
        vs = samples(t["val"], rng, 2)
        if not ks or not vs:
            return [{} for _ in range(n)]
        hi = t["cons"].get("max_length", 4)
        a = {str(ks[0]): vs[0]}
        b = {str(ks[0]): vs[1], str(ks[1]): vs[0]} if hi >= 2 and str(ks[1]) != str(ks[0]) else {str(ks[0]): vs[1]}
        return [a, b, {}][:n]
    if k == "logic":
        if t["op"] == "allOf":
            a, b = t["ts"]
            merged = {"k": "scalar", "p": a["p"], "cons": {}}
            pool_a = samples(a, rng, 40)
            pool = [v for v in pool_a if (_sat_num(b["cons"], v) if a["p"] == "int" else _sat_str(b["cons"], v))]
            out = []
            for v in pool:
                if v not in out:
                    out.append(v)
            while out and len(out) < n:
                out.append(out[-1])
            return out[:n]
        if t["op"] == "oneOf" and all(x["k"] == "scalar" and x["p"] == "str" for x in t["ts"]):
            return [v for v in STR_POOL if sum(_sat_str(x["cons"], v) for x in t["ts"]) == 1]
        out = []
        for x in t["ts"]:
            for v in samples(x, rng, 2):
                if v not in out:
                    out.append(v)
        while out and len(out) < n:
            out.append(out[-1])
        return out[:n]
    if k == "data":
        outs = []
        for i in range(n):
            d = {}
            for f in t["fields"]:
                if f.get("prop"):
                    continue
                s = f["samples"]
                d[f.get("alias") or f["attname"]] = s["ok"] if i % 2 == 0 else s["ok2"]
            outs.append(d)
        return outs
    return []


def attach_samples(t, rng):
    """fill `samples` of every field (recursively); False when some field type has no two distinct values"""
    k = t["k"]
    ok = True
    if k == "data":
        for f in t["fields"]:
            if not attach_samples(f["ty"], rng):
                return False
            if f.get("prop"):
                continue
            s = samples(f["ty"], rng, 2)
            if len(s) < 2:
                return False
            f["samples"] = {"ok": s[0], "ok2": s[1]}
            if s[0] == s[1]:
                # a one-valued type (null, const): acceptance is observed through presence only
                f.pop("default", None)
                f.pop("defer_default", None)
                f.pop("final", None)
        if t.get("addTy"):
            ok = attach_samples(t["addTy"], rng) and ok
    elif k in ("seq",):
        ok = attach_samples(t["item"], rng)
    elif k == "tup":
        ok = all([attach_samples(x, rng) for x in t["items"]])
    elif k == "map":
        ok = attach_samples(t["key"], rng) and attach_samples(t["val"], rng)
    elif k == "logic":
        ok = all([attach_samples(x, rng) for x in t["ts"]])
    if ok and k != "data" and not samples(t, rng, 1):
        return False
    return ok


def object_like(x):
    """a damaged value of the same JSON kind that most element/field types refuse"""
    if isinstance(x, list):
        return [{"zz": []}] + x
    if isinstance(x, dict):
        return {**x, "zz_bad": {"zz": []}}
    return x + "\u0000zz"


def variants(v, rng):
    """other spellings of a raw input (strings for numbers, floats for ints, …) and damaged versions"""
    out = []
    if isinstance(v, bool):
        out += [str(v).lower(), int(v)]
    elif isinstance(v, int):
        out += [str(v), float(v), v + 1, -v, v * 1000003, 0, "0", "-0", "0.00", "zz", {"zz": []}]
    elif isinstance(v, float):
        out += [str(v), v + 0.5, int(v), 0.0, -0.0, 0, "0.0", "-0.00", "zz", {"zz": []}]
    elif isinstance(v, str):
        out += [v + "z", v.upper(), v[:1], 7]
        if re.fullmatch(r"-?\d+(\.\d+)?", v):
            out += ["1e20", "-123456789012345678901234567890", "NaN", "0.5", "1e-400",
                    "0", "0.0", "0.00", "-0.0", "-0.00", "0E+3", "0E-7", 0, 0.0, -0.0]
    elif isinstance(v, list):
        out += [v + v[:1], v[:-1], [variants(x, rng)[0] if variants(x, rng) else x for x in v], "x"]
    elif isinstance(v, dict):
        ks = list(v)
        if ks:
            d = dict(v)
            d.pop(rng.choice(ks))
            out.append(d)
            d = dict(v)
            kk = rng.choice(ks)
            vs = variants(v[kk], rng)
            if vs:
                d[kk] = rng.choice(vs)
                out.append(d)
            for kk in ks:
                # every field in turn given something no converter takes
                out.append({**v, kk: {"zz": []}} if not isinstance(v[kk], (dict, list, str)) else {**v, kk: object_like(v[kk])})
        out.append({**v, "extra_key": "12"})
        out.append({**v, "extra_key": "zz"})
    elif v is None:
        out += ["null", 0]
    return out


def assign_ids(descs):
    """every rule class gets the name it is created with and an identity; every narrowed site and data class an
    identity (descriptors that repeat a name / uid denote the same class object)"""
    names, counter, classes = {}, [1000], {}

    def walk(t):
        if isinstance(t, list):
            for x in t:
                walk(x)
            return
        if not isinstance(t, dict):
            return
        k = t.get("k")
        if k == "scalar":
            if not t.get("name"):
                counter[0] += 1
                t["name"] = "R" + str(counter[0])
            t["uid"] = names.setdefault(t["name"], 5000 + len(names))
        elif k == "derived":
            walk(t["base"])
            counter[0] += 1
            t["uid"] = 20000 + counter[0]
        elif k == "data":
            # renumber per case (the generator's running counter only says which descriptors are the same class)
            old = t.get("uid")
            if isinstance(old, int) and old >= 40000:
                pass
            elif old is not None and ("c", old) in classes:
                t["uid"] = classes[("c", old)]
            else:
                counter[0] += 1
                t["uid"] = 40000 + counter[0]
                if old is not None:
                    classes[("c", old)] = t["uid"]
        for key in ("item", "items", "key", "val", "ts", "addTy"):
            if key in t:
                walk(t[key])
        for f in t.get("fields", []) if k == "data" else []:
            walk(f["ty"])

    walk(descs)


def gen_session(rng):
    """several documents through one registry: option variants of one class (same generated name), different
    classes with one name, a nested class shared by two documents, named rules shared by all of them"""
    for _ in range(20):
        pool = [gen_named(rng, i + 1) for i in range(rng.randint(1, 2))]
        first = gen_data(rng, depth=rng.choice([0, 1]), pool=pool, name="Doc" + str(rng.randrange(100)))
        first["opts"]["mode"] = rng.choice([None, "w", "r"])
        steps = [first]
        for _ in range(rng.randint(1, 3)):
            r = rng.random()
            if r < 0.45:
                # the same declaration under other options: a different class with the same generated name
                v = copy.deepcopy(first)
                v["uid"] = _next_uid()
                v["opts"].update(rng.choice([{"ignore_required": True}, {"addition": "reject"}, {"no_default": True},
                                             {"addition": "keep"}]))
                for f in v["fields"]:
                    _fresh_sites(f["ty"])
                steps.append(v)
            elif r < 0.75:
                # an unrelated class that happens to have the same name (and mode)
                v = gen_data(rng, depth=0, pool=pool, name=first["name"])
                v["opts"]["mode"] = first["opts"]["mode"]
                steps.append(v)
            else:
                # a class that embeds the first one (same class object: the registry already knows it)
                v = gen_data(rng, depth=0, pool=pool)
                v["fields"].append({"attname": "h", "ty": copy.deepcopy(first), "required": False})
                if rng.random() < 0.5:
                    v["fields"].append({"attname": "hs", "ty": {"k": "seq", "p": "list", "cons": {}, "item": copy.deepcopy(first)},
                                        "required": False})
                steps.append(v)
        rng.shuffle(steps)
        cases = []
        ok = True
        for t in steps:
            if not attach_samples(t, rng):
                ok = False
                break
            base = samples(t, rng, 3)
            if not base:
                ok = False
                break
            ins = []
            for b in base:
                ins.append(b)
                vs = variants(b, rng)
                rng.shuffle(vs)
                ins += vs[:2]
            cases.append({"ty": t, "genMode": None, "inputs": ins[:8], "defs": True})
        if not ok:
            continue
        assign_ids([c["ty"] for c in cases])
        return {"kind": "session", "steps": cases}
    return gen_case(rng)


def _fresh_sites(t):
    """a copied declaration: nested data classes stay the same objects, narrowed sites are re-created"""
    if isinstance(t, dict):
        if t.get("k") == "derived":
            t.pop("uid", None)
        for v in t.values():
            _fresh_sites(v)
    elif isinstance(t, list):
        for v in t:
            _fresh_sites(v)


def gen_case(rng, top=None):
    top = top or rng.choice(["data", "data", "data", "type"])
    for _ in range(20):
        if top == "data":
            t = gen_data(rng, depth=rng.choice([0, 1, 1, 2]))
        else:
            t = gen_ty(rng, depth=rng.choice([0, 1, 2, 2]), role="item")
        if not attach_samples(t, rng):
            continue
        base = samples(t, rng, 3)
        if not base:
            continue
        ins = []
        for b in base:
            ins.append(b)
            vs = variants(b, rng)
            rng.shuffle(vs)
            ins += vs[:3]
        ins = ins[:10]
        if isinstance(base[0], dict) and base[0]:
            # one field at a time given a value its type cannot take (raises, or is dropped under `exclude`)
            for kk in rng.sample(sorted(base[0]), min(2, len(base[0]))):
                ins.append({**base[0], kk: {"zz": []}})
        case = {"ty": t, "genMode": None, "inputs": ins}
        if t["k"] == "data":
            if rng.random() < 0.25:
                case["genMode"] = rng.choice(["r", "w", "a"])
        if rng.random() < 0.3:
            case["defs"] = True
        assign_ids(case["ty"])
        return case
    return {"ty": {"k": "plain", "p": "int"}, "genMode": None, "inputs": [1, "2", "x"]}


# ---- arbitrary schema / instance pairs for the validator cross-check (reused by C15) ----------------------

def gen_instance(rng, depth=2):
    r = rng.random()
    if depth <= 0 or r < 0.55:
        return rng.choice([None, True, False, 0, 1, 2, 3, -1, 6, 10, 1.5, 2.0, 0.25, "", "a", "ab", "abc", "12", "x-y", "hello"])
    if r < 0.8:
        return [gen_instance(rng, depth - 1) for _ in range(rng.randint(0, 4))]
    return {rng.choice(["a", "b", "c", "ab", "x1", "12"]): gen_instance(rng, depth - 1) for _ in range(rng.randint(0, 3))}


def gen_schema(rng, depth=2, defs=None):
    if rng.random() < 0.06:
        return rng.choice([True, False])
    s = {}
    tp = rng.choice(["null", "boolean", "object", "array", "integer", "number", "string", None, None, "multi"])
    if tp == "multi":
        s["type"] = rng.sample(["null", "boolean", "object", "array", "integer", "number", "string"], 2)
    elif tp:
        s["type"] = tp
    pick = lambda p: rng.random() < p
    if tp in ("integer", "number", None, "multi"):
        if pick(0.3): s["minimum"] = rng.choice([0, 1, 1.5, -1])
        if pick(0.3): s["maximum"] = rng.choice([2, 6, 10, 2.5])
        if pick(0.2): s["exclusiveMinimum"] = rng.choice([0, 1, 1.5])
        if pick(0.2): s["exclusiveMaximum"] = rng.choice([3, 10])
        if pick(0.25): s["multipleOf"] = rng.choice([1, 2, 3, 0.5, 0.25])
    if tp in ("string", None, "multi"):
        if pick(0.3): s["minLength"] = rng.choice([0, 1, 2])
        if pick(0.3): s["maxLength"] = rng.choice([1, 2, 3, 5])
        if pick(0.3): s["pattern"] = rng.choice(REGEXES + ["^a", "b$", "^\\d+$"])
    if tp in ("array", None, "multi") and depth > 0:
        if pick(0.4): s["items"] = gen_schema(rng, depth - 1, defs)
        if pick(0.25): s["prefixItems"] = [gen_schema(rng, depth - 1, defs) for _ in range(rng.randint(1, 2))]
        if pick(0.3): s["minItems"] = rng.choice([0, 1, 2])
        if pick(0.3): s["maxItems"] = rng.choice([1, 2, 3])
        if pick(0.25): s["uniqueItems"] = rng.choice([True, True, False])
        if pick(0.2):
            s["contains"] = gen_schema(rng, depth - 1, defs)
            if pick(0.5): s["minContains"] = rng.choice([0, 1, 2])
            if pick(0.5): s["maxContains"] = rng.choice([1, 2])
    if tp in ("object", None, "multi") and depth > 0:
        if pick(0.5): s["properties"] = {k: gen_schema(rng, depth - 1, defs) for k in rng.sample(["a", "b", "c", "ab"], rng.randint(1, 2))}
        if pick(0.3): s["patternProperties"] = {rng.choice(["^a", "\\d+", "[a-c]+", ".*"]): gen_schema(rng, depth - 1, defs)}
        if pick(0.3): s["additionalProperties"] = rng.choice([True, False, gen_schema(rng, depth - 1, defs)])
        if pick(0.3): s["required"] = rng.sample(["a", "b", "c"], rng.randint(1, 2))
        if pick(0.2): s["dependentRequired"] = {rng.choice(["a", "b"]): rng.sample(["b", "c", "ab"], rng.randint(1, 2))}
        if pick(0.2): s["minProperties"] = rng.choice([0, 1, 2])
        if pick(0.2): s["maxProperties"] = rng.choice([1, 2])
    if pick(0.15): s["enum"] = [gen_instance(rng, 1) for _ in range(rng.randint(1, 3))]
    if pick(0.1): s["const"] = gen_instance(rng, 1)
    if depth > 0:
        if pick(0.12): s["anyOf"] = [gen_schema(rng, depth - 1, defs) for _ in range(2)]
        if pick(0.1): s["oneOf"] = [gen_schema(rng, depth - 1, defs) for _ in range(2)]
        if pick(0.1): s["allOf"] = [gen_schema(rng, depth - 1, defs) for _ in range(2)]
        if pick(0.1): s["not"] = gen_schema(rng, depth - 1, defs)
    if defs is not None and pick(0.15):
        name = "D" + str(len(defs))
        defs[name] = True   # placeholder, filled by the caller
        s["$ref"] = "#/$defs/" + name
    for k in rng.sample(["format", "title", "description", "deprecated", "readOnly", "x-anything", "decimalPlaces"], rng.randint(0, 2)):
        s[k] = {"format": "date", "title": "t", "description": "d", "deprecated": True, "readOnly": True,
                "x-anything": {"type": 12}, "decimalPlaces": 2}[k]
    return s


BAD_SCHEMA_MUTATIONS = [
    ("type", "strange"), ("type", 3), ("type", ["integer", "integer"]), ("type", []), ("type", ["string", "number", "string"]), ("multipleOf", 0), ("multipleOf", -2), ("minLength", -1),
    ("maxItems", 1.5), ("required", ["a", "a"]), ("required", "a"), ("properties", []), ("items", 3), ("allOf", []),
    ("anyOf", {}), ("uniqueItems", 1), ("pattern", 3), ("enum", 3), ("minimum", "1"), ("dependentRequired", {"a": "b"}),
    ("prefixItems", []), ("not", []), ("additionalProperties", "yes"), ("$ref", 3), ("title", 3), ("deprecated", "yes"),
    ("minContains", -1), ("patternProperties", {"a": 3}), ("format", 3), ("examples", 3),
]


def gen_pairs_case(rng):
    pairs = []
    for _ in range(6):
        defs = {} if rng.random() < 0.3 else None
        s = gen_schema(rng, rng.choice([1, 2, 2]), defs)
        if isinstance(s, dict) and defs:
            for name in list(defs):
                defs[name] = gen_schema(rng, 1, None)
            if rng.random() < 0.3 and defs:
                # a recursive definition: lists of itself
                name = next(iter(defs))
                defs[name] = {"anyOf": [{"type": "integer"}, {"type": "array", "items": {"$ref": "#/$defs/" + name}}]}
            s["$defs"] = defs
        if isinstance(s, dict) and rng.random() < 0.2:
            k, v = rng.choice(BAD_SCHEMA_MUTATIONS)
            s[k] = v
        insts = [gen_instance(rng, 2) for _ in range(6)]
        pairs.append({"schema": s, "instances": insts})
    return {"kind": "pairs", "pairs": pairs}


# ==============================================================================================
# table obligation: the Lean copies of constant.py's maps equal the source text (T1-style, via ast)
# ==============================================================================================

TINY_PROBES = [Decimal("1E-308"), Decimal("2E-308"), Decimal("3E-308"),
               # between Decimal(2) ** -1022 as rounded to 28 digits and the exact 2**-1022: tells the two apart
               Decimal("2.2250738585072013830902327172E-308")]


def _const_decimal(node):
    """value of the constant expression `MIN_NORMAL_FLOAT = …` (read, never executed): decimal.Decimal(<int>) ** <int>
    in the default context, or decimal.Decimal(sys.float_info.min) = the exact smallest normal double"""
    import decimal
    import sys as _sys

    def is_decimal_call(n):
        return isinstance(n, ast.Call) and ast.unparse(n.func) in ("decimal.Decimal", "Decimal") and len(n.args) == 1

    if is_decimal_call(node):
        a = node.args[0]
        if isinstance(a, ast.Constant) and isinstance(a.value, (int, str)):
            return decimal.Decimal(a.value)
        if ast.unparse(a) == "sys.float_info.min":
            return decimal.Decimal(_sys.float_info.min)      # IEEE-754 double: 2**-1022, converted exactly
        return None
    if isinstance(node, ast.BinOp) and isinstance(node.op, ast.Pow):
        base = _const_decimal(node.left)
        try:
            e = ast.literal_eval(node.right)
        except Exception:
            return None
        if base is not None and isinstance(e, int):
            return base ** e
    return None


def _min_normal_probe(esrc):
    tree = ast.parse(esrc)
    for node in tree.body:
        if isinstance(node, ast.Assign) and any(isinstance(x, ast.Name) and x.id == "MIN_NORMAL_FLOAT" for x in node.targets):
            thr = _const_decimal(node.value)
            if thr is not None:
                return [p < thr for p in TINY_PROBES]
    return None


def source_tables(repo) -> dict:
    src = (repo / "utype/specs/json_schema/constant.py").read_text()
    tree = ast.parse(src)
    env = {}
    for node in tree.body:
        if isinstance(node, ast.Assign) and len(node.targets) == 1 and isinstance(node.targets[0], ast.Name):
            env[node.targets[0].id] = node.value

    def pairs(d: ast.Dict, literal_keys=True):
        out = []
        for k, v in zip(d.keys, d.values):
            if k is None:   # **OTHER
                out += pairs(env[v.id])
                continue
            ks = ast.literal_eval(k) if isinstance(k, ast.Constant) else ast.unparse(k)
            out.append([ks, ast.literal_eval(v)])
        return out

    t = {"PRIMITIVES": list(ast.literal_eval(env["PRIMITIVES"])),
         "PRIMITIVE_MAP": pairs(env["PRIMITIVE_MAP"]), "FORMAT_MAP": pairs(env["FORMAT_MAP"]),
         "OPERATOR_NAMES": pairs(env["OPERATOR_NAMES"]), "DEFAULT_CONSTRAINTS_MAP": pairs(env["DEFAULT_CONSTRAINTS_MAP"]),
         "FORMAT_PATTERNS": pairs(env["FORMAT_PATTERNS"])}
    tcm = []
    d = env["TYPE_CONSTRAINTS_MAP"]
    for k, v in zip(d.keys, d.values):
        types = list(ast.literal_eval(k))
        mp = pairs(v) if isinstance(v, ast.Dict) else pairs(env[v.id])
        tcm.append([types, mp])
    t["TYPE_CONSTRAINTS_MAP"] = tcm
    gsrc = (repo / "utype/specs/json_schema/generator.py").read_text()
    m = re.search(r'DEFAULT_PRIMITIVE\s*=\s*"(\w+)"', gsrc)
    t["DEFAULT_PRIMITIVE"] = m.group(1) if m else None
    esrc = (repo / "utype/utils/encode.py").read_text()
    m = re.search(r"MAX_SAFE_NUMBER\s*=\s*(\d+)", esrc)
    t["MAX_SAFE"] = int(m.group(1)) if m else None
    t["MIN_NORMAL_tiny_probe"] = _min_normal_probe(esrc)
    return t


# ==============================================================================================
# the check
# ==============================================================================================

def _eqj(a, b):
    """JSON equality: numbers by value, bool is not a number"""
    if isinstance(a, bool) or isinstance(b, bool):
        return isinstance(a, bool) and isinstance(b, bool) and a == b
    if isinstance(a, (int, float)) and isinstance(b, (int, float)):
        return a == b
    if isinstance(a, list) and isinstance(b, list):
        return len(a) == len(b) and all(_eqj(x, y) for x, y in zip(a, b))
    if isinstance(a, dict) and isinstance(b, dict):
        return a.keys() == b.keys() and all(_eqj(a[k], b[k]) for k in a)
    return type(a) is type(b) and a == b


def _has_nonjson(doc):
    if isinstance(doc, dict):
        return "__nonjson__" in doc or any(_has_nonjson(v) for v in doc.values())
    if isinstance(doc, list):
        return any(_has_nonjson(v) for v in doc)
    return False


def _fix_pv(pv):
    return pv


def _patch_unsafe(enc, pv):
    """the published value with every js-unsafe / non-finite Decimal replaced by 0 (classification aid)"""
    if isinstance(pv, dict) and len(pv) == 1:
        (k, v), = pv.items()
        if k == "decSpecial":
            return 0
        if k == "dec":
            # the same value as a number (the jsonschema side turns the marker into a decimal.Decimal)
            return {"__decimal__": v[2]} if isinstance(enc, str) else enc
        if k in ("list", "tuple", "set") and isinstance(enc, list):
            return [_patch_unsafe(e, p) for e, p in zip(enc, v)]
        if k in ("dict", "inst") and isinstance(enc, dict):
            return {str(kk): _patch_unsafe(enc.get(str(kk)), p) for kk, p in v}
        if k == "enum":
            return _patch_unsafe(enc, v)
    return enc


def _relax_oneof(doc):
    if isinstance(doc, dict):
        return {("anyOf" if k == "oneOf" else k): _relax_oneof(v) for k, v in doc.items()}
    if isinstance(doc, list):
        return [_relax_oneof(v) for v in doc]
    return doc


UNMAPPED = ("length", "max_digits", "decimal_places")


def _has_weak_oneof(t):
    """a oneOf with an argument that carries a constraint the generator has no keyword for"""
    if isinstance(t, dict):
        if t.get("k") == "logic" and t.get("op") == "oneOf":
            if any(k in UNMAPPED for x in t["ts"] if isinstance(x.get("cons"), dict) for k in x["cons"]):
                return True
        return any(_has_weak_oneof(v) for v in t.values())
    if isinstance(t, list):
        return any(_has_weak_oneof(v) for v in t)
    return False


def _resolve_top(doc):
    """the schema a document says its instances have: follow a top-level `$ref` into `$defs`"""
    seen = 0
    cur = doc
    while isinstance(cur, dict) and isinstance(cur.get("$ref"), str) and seen < 8:
        name = cur["$ref"].rsplit("/", 1)[-1]
        cur = (doc.get("$defs") or {}).get(name)
        seen += 1
    return cur


def _class_mode(case):
    return case["ty"]["opts"].get("mode") if case["ty"]["k"] == "data" else None


class C13(Check):
    prop = "C13"
    props_modules = ["Utv.Props.C13"]
    driver = "C13"
    impl = "harness.c13:impl"
    uses_extract = True
    case_timeout = 20.0
    budget = {"quick": 3000, "thorough": 30000}
    search_budget = {"quick": 1500, "thorough": 8000}
    rule = ("random declarations: data classes (1-5 fields over the Field parameter product: alias, alias_from, required "
            "bool/mode-string, default/default_factory, defer_default, no_input/no_output bool/mode-string, mode/readonly/"
            "writeonly, Final, dependencies, annotations, getter-only property; class Options mode/addition(None,False,True,"
            "type)/ignore_required/no_default/defer_default), constrained scalars, containers, tuples, mappings, enums, "
            "unions/oneOf/allOf, nested data classes (depth<=2) x generator mode {none,r,w,a} x {input,output} view "
            "(+ the $defs mode for 30%), each with <=10 raw inputs (valid, re-spelled, damaged); classes whose fields share "
            "NAMED rule classes (plain, narrowed by a field-level constraint, inside List/Tuple/Dict/Optional); SESSIONS of "
            "2-4 documents generated in sequence through one defs=/names= registry per view (option variants of one class "
            "= same generated name, unrelated classes with one name, a class embedded in a later one), every document "
            "checked when returned and again against the final registry; plus arbitrary "
            "schema/instance pairs over the whole vocabulary for the Lean-validator vs jsonschema cross-check. "
            "non-trivial = the declaration is not a bare builtin class / Any (i.e. it is a data class, constrained type, "
            "container, enum or combinator) AND at least one input was parsed and published (or it is a pairs case); "
            "distinct by the full case (declaration + mode + inputs)")
    assumptions = [
        "regular expressions are an oracle (Python re answers, supplied per case); the theorems assume RxLaws "
        "(fullmatch implies search, '.*' and the integer key pattern match) which the run audits on every string used",
        "the parser is abstracted by `conforms` (C01/C05's conclusion); the run checks `conforms` on every value the "
        "real parser returned",
        "floats are dyadic rationals whose shortest repr is exact; other floats are excluded from the Lean/jsonschema comparison",
        "jsonschema 4.26 (Draft202012Validator, formats not asserted) is the reference validator",
    ]

    # ---- cases -------------------------------------------------------------------------------
    def cases(self, tier, rng, n):
        out = []
        if tier != "search":
            # every mode x view on a fixed field grid (small exhaustive part)
            out += self.grid_cases(rng, full=(tier == "thorough"))
        for i in range(n):
            r = rng.random()
            if r < 0.12:
                out.append(gen_pairs_case(rng))
            elif r < 0.24:
                out.append(gen_session(rng))
            else:
                out.append(gen_case(rng))
        return out

    def grid_cases(self, rng, full):
        """one field, every flag combination that `Field.__init__` accepts, every class mode and generator mode"""
        out = []
        flags = [None, True, "r", "w", "rw"]
        reqs = [None, False, "r", "w"]
        fmodes = [None, "r", "rw", "wa"]
        combos = []
        for fm in fmodes:
            for ni in flags:
                for no in (flags if full else [None, True, "w"]):
                    for rq in reqs:
                        for dflt in (False, True):
                            ok = True
                            for v in (ni, no, rq):
                                if isinstance(v, str) and fm and not set(v) <= set(fm):
                                    ok = False
                            if ok:
                                combos.append((fm, ni, no, rq, dflt))
        if not full:
            combos = rng.sample(combos, 60)
        for fm, ni, no, rq, dflt in combos:
            for cm in MODES:
                f = {"attname": "a", "ty": {"k": "plain", "p": "int"}, "samples": {"ok": 3, "ok2": 12}}
                if fm: f["mode"] = fm
                if ni: f["no_input"] = ni
                if no: f["no_output"] = no
                if rq is not None: f["required"] = rq
                if dflt: f["default"] = {"sample": "ok2"}
                g = {"attname": "b", "ty": {"k": "plain", "p": "str"}, "samples": {"ok": "ab", "ok2": "cd"}, "required": False}
                t = {"k": "data", "name": "G" + str(len(out)), "opts": {"mode": cm, "addition": rng.choice(["drop", "reject", "keep"])},
                     "fields": [f, g], "addTy": None}
                out.append({"ty": t, "genMode": None, "inputs": [{"a": 3, "b": "x"}, {"b": "y"}, {}]})
        return out

    # ---- evaluation: implementation, independent validator, model ---------------------------------
    def js_jobs(self, case, io):
        """(schema document, instances) pairs handed to jsonschema; remembers where each verdict belongs"""
        jobs = []
        if case.get("kind") == "pairs":
            for p in case["pairs"]:
                jobs.append(("pair", {"schema": p["schema"], "instances": p["instances"]}))
            return jobs
        if case.get("kind") == "session":
            for i, (st, sio) in enumerate(zip(case["steps"], io.get("steps", []))):
                if isinstance(sio, dict):
                    sio["js"] = {}
                    jobs += [((i, key), job) for key, job in self.js_jobs(st, sio)]
            return jobs
        if "outs" not in io:
            return jobs
        encs = [o["enc"] for o in io["outs"] if "enc" in o]
        patched = [_patch_unsafe(o["enc"], o["pv"]) for o in io["outs"] if "enc" in o]
        raw = [x for x in case.get("inputs", [])]
        for key, insts in (("schema_in", raw), ("schema_out", encs + patched), ("defs_in", raw), ("defs_out", encs + patched),
                           ("final_in", raw), ("final_out", encs + patched)):
            s = io.get(key)
            if s and "doc" in s and not _has_nonjson(s["doc"]):
                jobs.append((key, {"schema": s["doc"], "instances": insts}))
                if key.endswith("_out") and '"oneOf"' in json.dumps(s["doc"]):
                    jobs.append((key + "_anyof", {"schema": _relax_oneof(s["doc"]), "instances": encs + patched}))
        return jobs

    def evaluate(self, cases):
        impl_outs = run_impl(self.impl, cases, self.case_timeout, extra_env=self.impl_env)
        jobs, where = [], []
        for ci, (c, io) in enumerate(zip(cases, impl_outs)):
            if not isinstance(io, dict) or "__worker_exc__" in io or io.get("hang") or io.get("crash"):
                continue
            io["js"] = {}
            for key, job in self.js_jobs(c, io):
                jobs.append(job)
                where.append((ci, key))
        verdicts = run_jsonschema(jobs)
        for (ci, key), v in zip(where, verdicts):
            if key == "pair":
                impl_outs[ci]["js"].setdefault("pairs", []).append(v)
            elif isinstance(key, tuple):
                impl_outs[ci]["steps"][key[0]]["js"][key[1]] = v
            else:
                impl_outs[ci]["js"][key] = v
        lines = [self.model_line(c, io) for c, io in zip(cases, impl_outs)]
        model_outs = run_driver(self.driver, lines)
        return impl_outs, model_outs

    def model_line(self, case, io=None):
        if case.get("kind") == "pairs":
            docs = [p["schema"] for p in case["pairs"]]
            insts = [i for p in case["pairs"] for i in p["instances"]]
            return {"op": "pairs", "pairs": case["pairs"], "rx": rx_table(docs, insts)}
        io = io if isinstance(io, dict) else {}
        if case.get("kind") == "session":
            sios = io.get("steps") or [{}] * len(case["steps"])
            return {"op": "session", "steps": [self.model_line(st, sio) for st, sio in zip(case["steps"], sios)]}
        line = {"op": "case", "ty": case["ty"], "genMode": case.get("genMode"), "defs": bool(case.get("defs"))}
        extra_docs = []
        for key in ("defs_in", "defs_out", "final_in", "final_out"):
            d = (io.get(key) or {}).get("doc")
            ok = d is not None and not _has_nonjson(d)
            line[key.replace("_", "_real_", 1)] = d if ok else None
            if ok:
                extra_docs.append(d)
        real_in = (io.get("schema_in") or {}).get("doc")
        real_out = (io.get("schema_out") or {}).get("doc")
        line["real_in"] = real_in if real_in is not None and not _has_nonjson(real_in) else None
        line["real_out"] = real_out if real_out is not None and not _has_nonjson(real_out) else None
        outs = []
        for o in io.get("outs", []):
            if "enc" in o and not (o.get("flags") or {}).get("nonfinite") and not (o.get("flags") or {}).get("foreign"):
                outs.append({"pv": _fix_pv(o["pv"]), "enc": o["enc"]})
        line["outs"] = outs
        line["ins"] = list(case.get("inputs", []))
        pats = set(p for _, p in [("", ".*"), ("", "[-]?\\d+"), ("", "[-]?\\d+(\\.\\d+)?"), ("", "\\d{4}-\\d{2}-\\d{2}")])
        _patterns(case["ty"], pats)
        line["rx"] = rx_table([real_in, real_out] + extra_docs, [o["enc"] for o in outs] + [o["pv"] for o in outs] + line["ins"], pats)
        return line

    # ---- compare: model vs implementation -----------------------------------------------------
    def compare(self, case, io, mo):
        if not isinstance(mo, dict) or "driver-error" in mo:
            return f"driver: {mo}"
        if case.get("kind") == "pairs":
            js = io.get("js", {}).get("pairs", [])
            for p, lib, lean in zip(case["pairs"], js, mo.get("pairs", [])):
                if lean.get("rxmiss"):
                    return f"regex oracle table incomplete: {lean['rxmiss'][:2]}"
                if lib["check"] is None:
                    continue
                if lean["wf"] != lib["check"]:
                    return f"metaschema: Lean wf={lean['wf']} jsonschema check_schema={lib['check']} ({lib.get('why')}) on {json.dumps(p['schema'])[:300]}"
                if lib["check"]:
                    for inst, a, b in zip(p["instances"], lean["valid"], lib["valid"]):
                        if isinstance(b, bool) and a != b:
                            return f"validator: Lean={a} jsonschema={b} schema={json.dumps(p['schema'])[:300]} instance={json.dumps(inst)}"
            return None
        if case.get("kind") == "session":
            if any(isinstance(x, dict) and "declaration_rejected" in x for x in io.get("steps", [])):
                return None     # the registries of model and library are no longer in step
            if any(isinstance(x, dict) and "unmodelled" in x for x in mo.get("steps", [])):
                # a declaration outside the model (e.g. a callable no_input) has entered the shared registry: the
                # model's definitions for it mean nothing; the oracle (spec) still judges every document of the session
                return None
            for i, (st, sio, smo) in enumerate(zip(case["steps"], io.get("steps", []), mo.get("steps", []))):
                d = self.compare(st, sio, smo)
                if d:
                    return f"step {i}: {d}"
            return None
        if "declaration_rejected" in io:
            return None
        if "build_error" in io:
            return "adapter could not build the declaration: " + io["build_error"]
        if "unmodelled" in mo:
            return None
        js = io.get("js", {})
        # `$defs` mode: the assembled document of the real generator is the model's, member by member
        for view in ("in", "out"):
            real = io.get("defs_" + view)
            if real is None:
                continue
            if "doc" not in real:
                return f"generator with a registry raised {real.get('exc')} ({view} view); the model generates a document"
            if not _has_nonjson(real["doc"]) and mo.get("defs_" + view) is not None and not _eqj(real["doc"], mo["defs_" + view]):
                return (f"$defs document differs ({view} view): impl={json.dumps(real['doc'], sort_keys=True)[:500]} "
                        f"model={json.dumps(mo['defs_' + view], sort_keys=True)[:500]}")
            for key, field in (("defs_" + view, "valid_defs"), ("final_" + view, "valid_final")):
                lib = js.get(key)
                if not lib or not lib["check"]:
                    continue
                if view == "out":
                    outs0 = [o for o in io.get("outs", []) if "enc" in o]
                    rows = [(o, m, lib["valid"][k]) for k, (o, m) in enumerate(zip(
                        [o for o in outs0 if not (o.get("flags") or {}).get("nonfinite") and not (o.get("flags") or {}).get("foreign")],
                        mo.get("outs", [])))] if len(outs0) == len(mo.get("outs", [])) else []
                    for o, m, b in rows:
                        if isinstance(b, bool) and m.get(field) is not None and m[field] != b and not (o.get("flags") or {}).get("inexact"):
                            return f"validator ({key} document): Lean={m[field]} jsonschema={b} on {json.dumps(o['enc'])[:200]}"
                else:
                    for x, m, b in zip(case.get("inputs", []), mo.get("ins", []), lib["valid"]):
                        if isinstance(b, bool) and m.get(field) is not None and m[field] != b and not _inexact(x):
                            return f"validator ({key} document): Lean={m[field]} jsonschema={b} on {json.dumps(x)[:200]}"
        for view in ("in", "out"):
            real = io.get("schema_" + view, {})
            if "doc" not in real:
                return f"generator raised {real.get('exc')} ({view} view); the model generates a document"
            if not _has_nonjson(real["doc"]) and not _eqj(real["doc"], mo["schema_" + view]):
                return f"generated schema differs ({view} view): impl={json.dumps(real['doc'], sort_keys=True)[:400]} model={json.dumps(mo['schema_' + view], sort_keys=True)[:400]}"
            lib = js.get("schema_" + view)
            if lib is not None and lib["check"] is not None and mo.get("wf_real_" + view) is not None and mo["wf_real_" + view] != lib["check"]:
                return f"metaschema: Lean wf={mo['wf_real_' + view]} jsonschema={lib['check']} on the real {view} document"
        # encoder, conforms, validator on published values
        outs = [o for o in io.get("outs", []) if "enc" in o and not (o.get("flags") or {}).get("nonfinite") and not (o.get("flags") or {}).get("foreign")]
        lib_out = js.get("schema_out")
        for k, (o, m) in enumerate(zip(outs, mo.get("outs", []))):
            if m.get("rxmiss"):
                return f"regex oracle table incomplete: {m['rxmiss'][:2]}"
            if (o.get("flags") or {}).get("inexact"):
                continue
            if not _eqj(o["enc"], m["enc"]):
                return f"encoder: impl={json.dumps(o['enc'])[:200]} model={json.dumps(m['enc'])[:200]}"
            if not m["conforms"] and not self._mode_override(case):
                return f"a value the parser returned does not satisfy `conforms` (hypothesis of C13_outputs_validate): {json.dumps(o['pv'])[:300]}"
            if m["conforms"] and m["safe"] and m["oneOfOk"] and not m["valid_model"]:
                return f"driver contradicts theorem C13_outputs_validate_partial on {json.dumps(o['pv'])[:300]}"
            if lib_out and lib_out["check"] and isinstance(lib_out["valid"][k], bool) and m["valid_real"] is not None:
                if m["valid_real"] != lib_out["valid"][k]:
                    return f"validator (real output schema): Lean={m['valid_real']} jsonschema={lib_out['valid'][k]} on {json.dumps(o['enc'])[:200]}"
        lib_in = js.get("schema_in")
        if lib_in and lib_in["check"]:
            for x, m, b in zip(case.get("inputs", []), mo.get("ins", []), lib_in["valid"]):
                if m.get("rxmiss"):
                    return f"regex oracle table incomplete: {m['rxmiss'][:2]}"
                if isinstance(b, bool) and m["valid_real"] is not None and m["valid_real"] != b and not _inexact(x):
                    return f"validator (real input schema): Lean={m['valid_real']} jsonschema={b} on {json.dumps(x)[:200]}"
        # field predicates vs observed parser behaviour (class's own options only: that is what the model describes)
        probe = io.get("probe_classmode") or (io.get("probe") if not self._mode_override(case) else None)
        if probe and "fields" in probe:
            rows = {r["name"]: r for r in mo.get("fields", [])}
            for pr in probe["fields"]:
                r = rows.get(pr["name"])
                if r is None:
                    return f"model has no field {pr['name']}"
                if pr["absent"] not in ("ok", "AbsenceError"):
                    continue
                if pr["absent"] == "AbsenceError" and pr["absent_item"] != pr["name"]:
                    continue    # another field (a required dependant left out of the probe input) failed first: undecided
                absent_err = pr["absent"] == "AbsenceError" and pr["absent_item"] == pr["name"]
                if absent_err != r["isRequired"]:
                    return f"field {pr['name']}: absence raises={absent_err} model isRequired={r['isRequired']}"
                if pr["absent"] == "ok" and pr["absent_published"] is not None and not r["isRequired"] and not pr.get("prop"):
                    want = r["defaultApplies"] and not r["isNoOutput"]
                    if pr["absent_published"] != want:
                        return f"field {pr['name']}: published when absent={pr['absent_published']} model={want}"
                for k, verdict in pr["keys"].items():
                    if verdict.startswith("probe-error"):
                        continue
                    if (verdict == "accepted") != r["acceptsInput"]:
                        return f"field {pr['name']} key {k}: parser {verdict}, model acceptsInput={r['acceptsInput']}"
            if not probe["unknown"].startswith("unclear") and probe["unknown"] != mo.get("unknown"):
                return f"unknown keys: parser {probe['unknown']}, model {mo.get('unknown')}"
        return None

    def _mode_override(self, case):
        return case.get("genMode") is not None and case["ty"]["k"] == "data" and case["genMode"] != _class_mode(case)

    # ---- spec: the property's predicate on what the implementation returned -------------------------
    def spec(self, case, io, mo):
        if case.get("kind") == "session":
            if not isinstance(io, dict) or "steps" not in io:
                return None
            for i, (st, sio) in enumerate(zip(case["steps"], io["steps"])):
                w = self._spec(st, sio, sio.get("probe") if isinstance(sio, dict) else None)
                if w:
                    return f"step {i}: {w}"
            return None
        return self._spec(case, io, io.get("probe") if isinstance(io, dict) else None)

    def _spec(self, case, io, probe, structure_only=False):
        if case.get("kind") == "pairs":
            return None
        if not isinstance(io, dict) or "build_error" in io or "declaration_rejected" in io:
            return None
        if io.get("hang") or io.get("crash"):
            return "generator / parser did not return (hang or crash)"
        js = io.get("js", {})
        views = [("schema_in", "in"), ("schema_out", "out")] + ([("defs_in", "in"), ("defs_out", "out")] if case.get("defs") else []) \
            + [(k, k[-2:].strip("_")) for k in ("final_in", "final_out") if k in io]
        if not structure_only:
            # 1. a valid JSON Schema document
            for key, view in views:
                s = io.get(key, {})
                if "exc" in s:
                    return f"valid-schema: generator raised {s['exc']} ({key})"
                if not s.get("json_ok") or _has_nonjson(s["doc"]):
                    return f"valid-schema: the generated document ({key}) is not JSON (json.dumps fails)"
                lib = js.get(key)
                if lib is None or lib["check"] is not True:
                    return f"valid-schema: {key} fails the 2020-12 metaschema: {lib and lib.get('why')}"
            # 2. every published value validates against the output schema
            outs = [o for o in io.get("outs", []) if "enc" in o]
            for key in ("schema_out", "defs_out", "final_out"):
                lib = js.get(key)
                if lib is None:
                    continue
                failing = [(k, o) for k, o in enumerate(outs)
                           if not (o.get("flags") or {}).get("nonfinite") and lib["valid"][k] is False]
                # name an output that no known class could explain first
                failing.sort(key=lambda ko: bool((ko[1].get("flags") or {}).get("unsafe_dec")))
                for k, o in failing[:1]:
                    return f"outputs-validate: parser output {json.dumps(o['enc'])[:200]} does not validate against the {key} document"
            for o in io.get("outs", []):
                if "enc_error" in o and not (o.get("flags") or {}).get("nonfinite") and not (o.get("flags") or {}).get("foreign"):
                    return f"outputs-validate: a parser output cannot be JSON encoded ({o['enc_error']})"
        # 3-5. structure of the input schema vs parser behaviour
        if case["ty"]["k"] != "data" or not probe or "fields" not in probe:
            if probe and "exc" in probe:
                return "probe failed: " + probe["exc"]
            return None
        for key in ("schema_in", "defs_in", "final_in"):
            doc = (io.get(key) or {}).get("doc")
            if not isinstance(doc, dict):
                continue
            w = self._structure(_resolve_top(doc), probe)
            if w:
                return w if key == "schema_in" else w.replace(": ", f" ({key} document): ", 1)
        return None

    def _structure(self, doc, probe):
        if not isinstance(doc, dict):
            return "properties: the returned reference does not resolve in $defs"
        props = doc.get("properties", {})
        listed = set(props)
        for p in props.values():
            if isinstance(p, dict):
                listed.update(a for a in p.get("x-aliases", []) if isinstance(a, str))
        accepted, undecided = set(), set()
        for pr in probe["fields"]:
            for k, verdict in pr["keys"].items():
                if verdict == "accepted":
                    accepted.add(k)
                elif verdict.startswith("probe-error"):
                    undecided.add(k)
        if (listed - undecided) != (accepted - undecided):
            extra = sorted(listed - accepted - undecided)
            missing = sorted(accepted - listed - undecided)
            return f"properties: listed but not accepted as input: {extra}; accepted but not listed: {missing}"
        required = set(doc.get("required", []))
        errs = {pr["name"] for pr in probe["fields"] if pr["absent"] == "AbsenceError" and pr["absent_item"] == pr["name"]}
        unclear = {pr["name"] for pr in probe["fields"] if pr["absent"] not in ("ok", "AbsenceError") or
                   (pr["absent"] == "AbsenceError" and pr["absent_item"] != pr["name"])}
        if (required - unclear) != (errs - unclear):
            return f"required: listed {sorted(required)} but absence is an error exactly for {sorted(errs)}"
        ap = doc.get("additionalProperties", None)
        want = {"rejected": ap is False, "kept": ap is True, "converted": isinstance(ap, dict), "dropped": "additionalProperties" not in doc}
        if probe["unknown"] in want and not want[probe["unknown"]]:
            return f"additionalProperties: schema says {json.dumps(ap) if 'additionalProperties' in doc else 'nothing'} but unknown keys are {probe['unknown']}"
        return None

    def classify(self, case, io, why):
        if case.get("kind") != "session" and why.startswith("outputs-validate") and case["ty"]["k"] == "data":
            cm = case["ty"]["opts"].get("mode")
            for f in case["ty"]["fields"]:
                if f.get("no_output") == "@never" and f.get("default") and f.get("mode") and cm and cm not in f["mode"]:
                    return "callable-nooutput-mode"
        if case.get("kind") == "session":
            m = re.match(r"step (\d+): (.*)", why, re.S)
            if not m:
                return None
            i = int(m.group(1))
            return self.classify(case["steps"][i], io["steps"][i], m.group(2))
        if why.startswith("outputs-validate") and "does not validate" in why:
            # every failing output must be explained by a known class:
            #  (a) a Decimal beyond the JS-safe range / non-finite is published as a string: with those replaced by 0 it validates;
            #  (b) a oneOf branch whose schema is weaker than its parser (unmapped constraint): with oneOf read as anyOf it validates
            js = io.get("js", {})
            outs = [o for o in io.get("outs", []) if "enc" in o]
            n = len(outs)
            weak = _has_weak_oneof(case["ty"])
            kinds, unexplained = set(), False
            for key in ("schema_out", "defs_out", "final_out"):
                lib, rel = js.get(key), js.get(key + "_anyof")
                if not lib:
                    continue
                for k, o in enumerate(outs):
                    if lib["valid"][k] is not False:
                        continue
                    unsafe = bool((o.get("flags") or {}).get("unsafe_dec"))
                    if unsafe and lib["valid"][n + k] is True:
                        kinds.add("decimal-unsafe-string")
                    elif weak and rel and rel["valid"][k] is True:
                        kinds.add("oneof-weaker-branch")
                    elif unsafe and weak and rel and rel["valid"][n + k] is True:
                        kinds.update(("decimal-unsafe-string", "oneof-weaker-branch"))
                    else:
                        unexplained = True
            if kinds and not unexplained:
                return sorted(kinds)[-1] if "oneof-weaker-branch" in kinds and len(kinds) == 1 else sorted(kinds)[0]
        if self._mode_override(case) and (why.startswith("properties") or why.startswith("required") or why.startswith("outputs-validate")):
            # the generator ignored `mode=`: the document is the class-mode one, and it is right for the class mode
            if self._spec(case, io, io.get("probe_classmode"), structure_only=True) is None and self._classmode_outputs_ok(case, io):
                return "generator-mode-ignored"
        return None

    def _classmode_outputs_ok(self, case, io):
        # outputs parsed in the requested mode are not outputs of the class mode; nothing to say about them
        return True

    # ---- evidence ---------------------------------------------------------------------------------
    def key(self, case, io):
        if case.get("kind") == "pairs":
            return json.dumps(case, sort_keys=True)
        if case.get("kind") == "session":
            ok = isinstance(io, dict) and any(isinstance(s, dict) and any("enc" in o for o in s.get("outs", [])) for s in io.get("steps", []))
            return json.dumps(case, sort_keys=True) if ok else None
        if not isinstance(io, dict) or not any("enc" in o for o in io.get("outs", [])):
            return None
        t = case["ty"]
        if t["k"] in ("plain", "any"):
            return None
        return json.dumps(case, sort_keys=True)

    def distribution(self, case, io):
        if case.get("kind") == "pairs":
            return "pairs"
        if case.get("kind") == "session":
            names = [st["ty"].get("name") for st in case["steps"]]
            return f"session/steps={len(names)}/same-name={len(names) - len(set(names))}"
        if isinstance(io, dict) and "declaration_rejected" in io:
            return "declaration-rejected/" + io["declaration_rejected"]
        t = case["ty"]
        if t["k"] == "data":
            n_ok = sum(1 for o in (io.get("outs", []) if isinstance(io, dict) else []) if "enc" in o)
            return f"data/mode={t['opts'].get('mode')}/gen={case.get('genMode')}/add={t['opts'].get('addition')}/fields={len(t['fields'])}/parsed={min(n_ok, 3)}"
        return f"type/{t['k']}" + (f"/{t.get('op') or t.get('p')}" if t.get("op") or t.get("p") else "")

    def neighbours(self, case, rng):
        out = []
        if case.get("kind") == "pairs":
            return out
        if case.get("kind") == "session":
            for i in range(len(case["steps"])):
                out.append({"kind": "session", "steps": case["steps"][:i] + case["steps"][i + 1:]})
            return [c for c in out if c["steps"]]
        for gm in MODES:
            if case["ty"]["k"] == "data":
                out.append(dict(case, genMode=gm))
        if case["ty"]["k"] == "data":
            for cm in MODES:
                c = copy.deepcopy(case)
                c["ty"]["opts"]["mode"] = cm
                c["ty"]["name"] += "m" + str(cm)
                out.append(c)
            for i in range(len(case["ty"]["fields"])):
                c = copy.deepcopy(case)
                del c["ty"]["fields"][i]
                for f in c["ty"]["fields"]:
                    f.pop("deps", None)
                if c["ty"]["fields"]:
                    c["ty"]["name"] += "d" + str(i)
                    out.append(c)
        return out

    def reproduce(self, case):
        return (f"cd {common.VERIF} && UTYPE_REPO={REPO} {common.PY} -c 'import json,sys; sys.path.insert(0,\"{REPO}\"); "
                f"from harness.c13 import impl; print(json.dumps(impl(json.loads(sys.argv[1])), indent=1, default=str))' "
                f"'{json.dumps(case, sort_keys=True)}'")

    def extra_static(self, tier):
        broken = []
        try:
            src = source_tables(REPO)
        except Exception as e:
            return [f"constant.py tables could not be read: {type(e).__name__}: {e}"]
        lean = run_driver(self.driver, [{"op": "tables"}])[0]
        for k, v in src.items():
            if lean.get(k) != v:
                broken.append(f"table {k} in utype/specs/json_schema/constant.py (or generator/encode constants) differs from the "
                              f"Lean copy in Utv/Model/C13.lean: source={json.dumps(v)[:200]} lean={json.dumps(lean.get(k))[:200]}")
        return broken

    def finish_evidence(self, ev, tier):
        ev["coverage"]["exhaustive"] = False
        ev["coverage"]["exhaustive_part"] = (
            "one-field classes over every Field(mode, no_input, no_output, required, default) combination "
            "Field.__init__ accepts x class mode {none,r,w,a}" + (" (all)" if tier == "thorough" else " (60 sampled)"))


def _inexact(x):
    if isinstance(x, float):
        return not float_exact(x)
    if isinstance(x, list):
        return any(_inexact(v) for v in x)
    if isinstance(x, dict):
        return any(_inexact(v) for v in x.values())
    return False


CHECK = C13()
