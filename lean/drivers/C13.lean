import Utv.Model.C13
import Utv.Model.C13Defs
import Utv.Util.J
/-! Line-protocol driver for C13: runs the generator model, the Lean JSON-Schema validator / metaschema,
the encoder model, `conforms` and the field predicates on one case. -/
open Lean Utv.J Utv.C13
open Utv.JsonSchema (Num Obj Ctx validate validateRoot wf uniqueKeys lookup)

abbrev MJ := Utv.JsonSchema.Json

/-! ### Lean.Json <-> model Json -/

partial def toM (j : Json) : MJ :=
  match j with
  | .null => .null
  | .bool b => .bool b
  | .num n => .num ⟨n.mantissa, n.exponent⟩
  | .str s => .str s
  | .arr xs => .arr (xs.toList.map toM)
  | .obj kvs => .obj (kvs.toList.map fun (k, v) => (k, toM v))

partial def ofM (j : MJ) : Json :=
  match j with
  | .null => .null
  | .bool b => .bool b
  | .num n => .num ⟨n.mant, n.exp⟩
  | .str s => .str s
  | .arr xs => .arr (xs.map ofM).toArray
  | .obj kvs => Json.mkObj (kvs.map fun (k, v) => (k, ofM v))

def optStrJ (j : Json) : Option String := j.getStr?.toOption
def chars (j : Json) : List Char := (str! j).toList
def optChar (j : Json) : Option Char := match optStrJ j with
  | some s => s.toList.head?
  | none => none

/-! ### descriptors -/

def primOf (s : String) : Option Prim :=
  match s with
  | "null" => some .null | "bool" => some .bool | "int" => some .int | "float" => some .float
  | "decimal" => some .decimal | "str" => some .str | "bytes" => some .bytes | "date" => some .date
  | "datetime" => some .datetime | "time" => some .time | "timedelta" => some .timedelta
  | "uuid" => some .uuid | "list" => some .list | "tuple" => some .tuple | "set" => some .set
  | "dict" => some .dict | _ => none

def consOf (j : Json) : Cons :=
  match j with
  | .obj kvs => kvs.toList.map fun (k, v) => (k, toM v)
  | _ => []

def metaOf (j : Json) : RuleMeta :=
  { primitive := optStrJ (fld j "primitive"), format := optStrJ (fld j "format"), name := str! (fld j "name"), uid := nat! (fld j "uid") }

def flagOf (j : Json) : Flag :=
  match j with
  | .bool true => .yes
  | .str s => .modes s.toList
  | _ => .no

def reqOf (j : Json) : Option Req :=
  match j with
  | .bool true => some .always
  | .bool false => some .never
  | .str s => some (.modes s.toList)
  | _ => none

def additionOf (s : String) : Addition :=
  match s with
  | "reject" => .reject | "keep" => .keep | "convert" => .convert | _ => .drop

def rawField (j : Json) : RawField :=
  { attname := str! (fld j "attname")
    alias := optStrJ (fld j "alias")
    aliasFrom := (arr! (fld j "alias_from")).map str!
    required := reqOf (fld j "required")
    hasDefault := !(isNull (fld j "default"))
    deferDefault := bool! (fld j "defer_default")
    noInput := flagOf (fld j "no_input")
    noOutput := flagOf (fld j "no_output")
    mode := (optStrJ (fld j "mode")).map String.toList
    readonly := bool! (fld j "readonly")
    writeonly := bool! (fld j "writeonly")
    final := bool! (fld j "final")
    isProp := bool! (fld j "prop")
    deps := (arr! (fld j "deps")).map str!
    title := optStrJ (fld j "title")
    description := optStrJ (fld j "description")
    deprecated := (match fld j "deprecated" with
      | .bool true => Dep.yes
      | .str s => Dep.to s
      | _ => Dep.no)
    exampleV := if isNull (fld j "example") then none else some (toM (fld j "example")) }

partial def tyOf (j : Json) : Ty :=
  match str! (fld j "k") with
  | "plain" => (primOf (str! (fld j "p"))).elim .any .plain
  | "scalar" => .scalar ((primOf (str! (fld j "p"))).getD .str) (metaOf j) (consOf (fld j "cons"))
  | "derived" =>
    let b := fld j "base"
    .derived ((primOf (str! (fld b "p"))).getD .str) (metaOf b) (consOf (fld b "cons")) (nat! (fld j "uid")) (consOf (fld j "cons"))
  | "seq" => .seq ((primOf (str! (fld j "p"))).getD .list) (metaOf j) (consOf (fld j "cons")) (tyOf (fld j "item"))
  | "tup" => .tup (metaOf j) (consOf (fld j "cons")) ((arr! (fld j "items")).map tyOf)
  | "map" => .map (metaOf j) (consOf (fld j "cons")) (tyOf (fld j "key")) (tyOf (fld j "val"))
  | "enum" =>
    let members := (arr! (fld j "members")).map fun m => match arr! m with
      | [n, v] => (str! n, toM v) | _ => ("", .null)
    .enum ⟨(optStrJ (fld j "base")).bind primOf, (arr! (fld j "kinds")).map fun k => (primOf (str! k)).getD .str, members⟩
  | "logic" =>
    let op := match str! (fld j "op") with
      | "allOf" => Op.allOf | "oneOf" => Op.oneOf | _ => Op.anyOf
    .logic op ((arr! (fld j "ts")).map tyOf)
  | "data" =>
    let o := fld j "opts"
    let opts : Opts := { mode := optChar (fld o "mode"), addition := additionOf (str! (fld o "addition")),
                         ignoreRequired := bool! (fld o "ignore_required"), noDefault := bool! (fld o "no_default"),
                         deferDefault := bool! (fld o "defer_default") }
    .data { name := str! (fld j "name"), opts := opts, uid := nat! (fld j "uid") }
      ((arr! (fld j "fields")).map fun f => Fld.mk (normField (rawField f)) (tyOf (fld f "ty")))
      (if isNull (fld j "addTy") then .any else tyOf (fld j "addTy"))
  | _ => .any

def numOfJ (j : Json) : Num :=
  match j with
  | .num n => ⟨n.mantissa, n.exponent⟩
  | _ => ⟨0, 0⟩

partial def pvOf (j : Json) : PV :=
  match j with
  | .obj kvs =>
    match kvs.toList with
    | [("none", _)] => .none
    | [("bool", b)] => .bool (bool! b)
    | [("int", i)] => .int (int! i)
    | [("float", n)] => .float (numOfJ n)
    | [("dec", d)] => (match arr! d with
      | [m, e, r] => .dec ⟨int! m, nat! e⟩ (str! r)
      | _ => .none)
    | [("decSpecial", r)] => .decSpecial (str! r)
    | [("str", s)] => .str (str! s)
    | [("bytes", s)] => .bytes (str! s)
    | [("iso", d)] => (match arr! d with
      | [p, t] => .iso ((primOf (str! p)).getD .date) (str! t)
      | _ => .none)
    | [("enum", v)] => .enumv (pvOf v)
    | [("list", xs)] => .list ((arr! xs).map pvOf)
    | [("tuple", xs)] => .tuple ((arr! xs).map pvOf)
    | [("set", xs)] => .set ((arr! xs).map pvOf)
    | [("dict", kvs)] => .dict ((arr! kvs).map fun kv => match arr! kv with
      | [k, v] => ((match k with
          | .str s => Key.name s
          | k => Key.idx (int! k)), pvOf v)
      | _ => (Key.name "", .none))
    | [("inst", kvs)] => .inst ((arr! kvs).map fun kv => match arr! kv with
      | [k, v] => (str! k, pvOf v)
      | _ => ("", .none))
    | _ => .none
  | _ => .none

/-! ### the regex oracle: a table filled by the harness with Python's `re` answers -/

structure RxRow where
  p : String
  s : String
  search : Bool
  full : Bool

def rxRows (j : Json) : List RxRow :=
  (arr! j).map fun r => match arr! r with
    | [p, s, a, b] => ⟨str! p, str! s, bool! a, bool! b⟩
    | _ => ⟨"", "", false, false⟩

/-- missing entries are recorded so that the harness sees them (never guessed silently) -/
def mkRx (rows : List RxRow) (miss : IO.Ref (List (String × String))) : Rx × (String → String → Bool) :=
  let find (p s : String) := rows.find? fun r => r.p == p && r.s == s
  let _ := miss
  (⟨fun p s => (find p s).elim false (·.full), fun p s => (find p s).elim false (·.search)⟩,
   fun p s => (find p s).isSome)

def boolsJ (bs : List Bool) : Json := Json.arr (bs.map Json.bool).toArray

def unknownName : Spec.Unknown → String
  | .dropped => "dropped" | .rejected => "rejected" | .kept => "kept" | .converted => "converted"

def tablesJ : Json :=
  let pairs (xs : List (String × String)) := Json.arr (xs.map fun (a, b) => Json.arr #[Json.str a, Json.str b]).toArray
  Json.mkObj [
    ("PRIMITIVES", Json.arr (PRIMITIVES.map Json.str).toArray),
    ("PRIMITIVE_MAP", pairs PRIMITIVE_MAP), ("FORMAT_MAP", pairs FORMAT_MAP),
    ("OPERATOR_NAMES", pairs OPERATOR_NAMES), ("DEFAULT_CONSTRAINTS_MAP", pairs DEFAULT_CONSTRAINTS_MAP),
    ("TYPE_CONSTRAINTS_MAP", Json.arr (TYPE_CONSTRAINTS_MAP.map fun (ts, mp) =>
        Json.arr #[Json.arr (ts.map Json.str).toArray, pairs mp]).toArray),
    ("FORMAT_PATTERNS", pairs FORMAT_PATTERNS), ("DEFAULT_PRIMITIVE", Json.str DEFAULT_PRIMITIVE),
    ("MAX_SAFE", Json.num (MAX_SAFE : Int)),
    ("MIN_NORMAL_tiny_probe", Json.arr #[Json.bool (decTiny ⟨1, 308⟩), Json.bool (decTiny ⟨2, 308⟩), Json.bool (decTiny ⟨3, 308⟩),
      Json.bool (decTiny ⟨22250738585072013830902327172, 336⟩)]),
    ("constraintOrder", Json.arr (Utv.Gen.Tables.constraintOrder.map Json.str).toArray)]

/-- strings a validation run asks the oracle about -/
partial def patternsOf (j : MJ) : List String :=
  match j with
  | .obj kvs => kvs.flatMap fun (k, v) =>
      (if k == "pattern" then (match v with | .str p => [p] | _ => []) else []) ++
      (if k == "patternProperties" then (match v with | .obj m => m.map (·.1) | _ => []) else []) ++ patternsOf v
  | .arr xs => xs.flatMap patternsOf
  | _ => []

partial def stringsOf (j : MJ) : List String :=
  match j with
  | .str s => [s]
  | .arr xs => xs.flatMap stringsOf
  | .obj kvs => kvs.flatMap fun (k, v) => k :: stringsOf v
  | _ => []

def missing (known : String → String → Bool) (schema inst : MJ) : List Json :=
  (patternsOf schema).flatMap fun p => (stringsOf inst).filterMap fun s =>
    if known p s then none else some (Json.arr #[Json.str p, Json.str s])

def fieldRow (cfgMode : Option Char) (c : ClassMeta) (f : FieldMeta) : Json :=
  let o := c.opts
  let _ := cfgMode
  Json.mkObj [
    ("name", Json.str f.name), ("attname", Json.str f.attname),
    ("names", Json.arr ((f.name :: f.aliases).map Json.str).toArray),
    ("acceptsInput", Json.bool (!isNoInput f o)),
    ("acceptsInputLegacy", Json.bool (!isNoInputLegacy f o)),
    ("alwaysNoInput", Json.bool (alwaysNoInput f o)),
    ("specNoInput", Json.bool (Spec.noInput f o)),
    ("isRequired", Json.bool (isRequired f o)),
    ("specAbsenceIsError", Json.bool (Spec.absenceIsError f o)),
    ("isNoOutput", Json.bool (isNoOutput f o)),
    ("isNoOutputLegacy", Json.bool (isNoOutputLegacy f o)),
    ("alwaysNoOutput", Json.bool (alwaysNoOutput f o)),
    ("specNoOutput", Json.bool (Spec.noOutput f o)),
    ("present", Json.bool (Spec.present f o)),
    ("defaultApplies", Json.bool (defaultApplies f o))]

/-- one declaration; `regs` = the `$defs` registries (input view, output view) shared by the steps of a session -/
def handleCase (j : Json) (regs : Reg × Reg) : Json × (Reg × Reg) :=
  let rows := rxRows (fld j "rx")
  let find (p s : String) := rows.find? fun r => r.p == p && r.s == s
  let R : Rx := ⟨fun p s => (find p s).elim false (·.full), fun p s => (find p s).elim false (·.search)⟩
  let known (p s : String) : Bool := (find p s).isSome
  let fuel := 64
  let ty := tyOf (fld j "ty")
  let gm := optChar (fld j "genMode")
  if !wfTy ty then
    -- outside the fragment of the theorems: nothing is compared, but the registries keep in step with the library
    let regs0 : Reg × Reg := if bool! (fld j "defs") then ((genD ⟨false, gm⟩ regs.1 ty).2, (genD ⟨true, gm⟩ regs.2 ty).2) else regs
    (Json.mkObj [("unmodelled", Json.str "declaration outside the modelled fragment (wfTy)")], regs0) else
  let sIn := generate ⟨false, gm⟩ ty
  let sOut := generate ⟨true, gm⟩ ty
  let C : Ctx := ⟨R.search, fun _ _ => false⟩
  let optDoc (k : String) : Option MJ := if isNull (fld j k) then none else some (toM (fld j k))
  let realOut := optDoc "real_out"
  let realIn := optDoc "real_in"
  let defsOut := optDoc "defs_real_out"
  let defsIn := optDoc "defs_real_in"
  let finalOut := optDoc "final_real_out"
  let finalIn := optDoc "final_real_in"
  -- `$defs` mode of the model, threading the registries
  let wantDefs := bool! (fld j "defs")
  let dIn := genD ⟨false, gm⟩ regs.1 ty
  let dOut := genD ⟨true, gm⟩ regs.2 ty
  let regs' : Reg × Reg := if wantDefs then (dIn.2, dOut.2) else regs
  let vr (d : Option MJ) (x : MJ) : Json := match d with
    | some d => Json.bool (validateRoot R.search fuel d d x)
    | none => Json.null
  let miss (d : Option MJ) (x : MJ) : List Json := match d with
    | some d => missing known d x
    | none => []
  let outs := (arr! (fld j "outs")).map fun o =>
    let r := pvOf (fld o "pv")
    let e := encode r
    let x := toM (fld o "enc")
    Json.mkObj [("enc", ofM e), ("conforms", Json.bool (conforms R ty r)),
                ("safe", Json.bool (safeDecimals r)), ("oneOfOk", Json.bool (oneOfOk C ⟨true, gm⟩ ty r)),
                ("valid_model", Json.bool (validate C sOut e)),
                ("valid_real", vr realOut x), ("valid_defs", vr defsOut x), ("valid_final", vr finalOut x),
                ("rxmiss", Json.arr (missing known sOut e ++ miss realOut x ++ miss defsOut x ++ miss finalOut x).toArray)]
  let ins := (arr! (fld j "ins")).map fun i =>
    let x := toM i
    Json.mkObj [("valid_model", Json.bool (validate C sIn x)),
                ("valid_real", vr realIn x), ("valid_defs", vr defsIn x), ("valid_final", vr finalIn x),
                ("rxmiss", Json.arr (missing known sIn x ++ miss realIn x ++ miss defsIn x ++ miss finalIn x).toArray)]
  let fields := match ty with
    | .data c fs _ => fs.map fun (f : Fld) => fieldRow gm c f.meta
    | _ => []
  let unknown := match ty with
    | .data c _ _ => Json.str (unknownName (parserUnknown c.opts))
    | _ => Json.null
  let wfOpt (d : Option MJ) : Json := match d with | some d => Json.bool (wf d) | none => Json.null
  (Json.mkObj [
    ("schema_in", ofM sIn), ("schema_out", ofM sOut),
    ("defs_in", if wantDefs then ofM (documentD dIn.1 dIn.2) else Json.null),
    ("defs_out", if wantDefs then ofM (documentD dOut.1 dOut.2) else Json.null),
    ("wf_model_in", Json.bool (wf sIn && uniqueKeys sIn)), ("wf_model_out", Json.bool (wf sOut && uniqueKeys sOut)),
    ("wf_real_in", wfOpt realIn), ("wf_real_out", wfOpt realOut),
    ("wf_defs_in", wfOpt defsIn), ("wf_defs_out", wfOpt defsOut),
    ("outs", Json.arr outs.toArray), ("ins", Json.arr ins.toArray),
    ("fields", Json.arr fields.toArray), ("unknown", unknown)], regs')

def handle (j : Json) : Json :=
  if str! (fld j "op") == "tables" then tablesJ else
  if str! (fld j "op") == "pairs" then
    let rows := rxRows (fld j "rx")
    let find (p s : String) := rows.find? fun r => r.p == p && r.s == s
    let search (p s : String) : Bool := (find p s).elim false (·.search)
    let known (p s : String) : Bool := (find p s).isSome
    -- validator / metaschema cross-check on arbitrary documents
    let outs := (arr! (fld j "pairs")).map fun p =>
      let root := toM (fld p "schema")
      let insts := (arr! (fld p "instances")).map toM
      Json.mkObj [("wf", Json.bool (wf root)),
                  ("valid", boolsJ (insts.map fun i => validateRoot search 64 root root i)),
                  ("rxmiss", Json.arr (insts.flatMap fun i => missing known root i).toArray)]
    Json.mkObj [("pairs", Json.arr outs.toArray)]
  else if str! (fld j "op") == "session" then
    let res := (arr! (fld j "steps")).foldl (fun (acc : List Json × (Reg × Reg)) st =>
      let r := handleCase st acc.2
      (acc.1 ++ [r.1], r.2)) ([], ([], []))
    Json.mkObj [("steps", Json.arr res.1.toArray)]
  else (handleCase j ([], [])).1

def main : IO Unit := serve handle
