import Utv.Model.C04Data
import Utv.Model.C04Ts
import Utv.Model.C04Iter
import Utv.Util.J
/-!
Line-protocol driver for C04: a scenario (entry point + declaration + options + scripted component
behaviours + input) in, the model's outcome (value / exception info / collected infos / diverge, and the
event trace) out.  harness/c04.py builds the same scenario on the real utype through its public API.
-/
open Lean Utv.J Utv.C04

/-- driver values: tokens, None, containers of values -/
inductive DV where
  | tok (n : Nat)
  | nil
  | seq (kind : Nat) (xs : List DV)       -- kind 0 list, 1 tuple, 2 set, 3 frozenset
  | map (kvs : List (DV × DV))
  deriving Inhabited

partial def DV.toJson : DV → Json
  | .tok n => Json.num n
  | .nil => Json.null
  | .seq k xs => Json.mkObj [("seq", Json.num k), ("xs", Json.arr (xs.map DV.toJson).toArray)]
  | .map kvs => Json.mkObj [("map", Json.arr (kvs.map fun (k, v) => Json.arr #[k.toJson, v.toJson]).toArray)]

partial def DV.ofJson (j : Json) : DV :=
  match j with
  | .null => .nil
  | .num _ => .tok (nat! j)
  | _ =>
    match obj? j "seq" with
    | some k => .seq (nat! k) ((arr! (fld j "xs")).map DV.ofJson)
    | none =>
      match obj? j "map" with
      | some kvs => .map ((arr! kvs).map fun p => match arr! p with
          | [k, v] => (DV.ofJson k, DV.ofJson v) | _ => (.nil, .nil))
      | none => .nil

def DV.tokOf : DV → Nat
  | .tok n => n
  | .nil => 9998
  | _ => 9999

/-- tokens from 5000 on stand for unhashable objects -/
def DV.unhashable : DV → Bool
  | .tok n => n ≥ 5000 && n < 9000
  | .nil => false
  | _ => true

inductive Act where
  | ok (v : DV)
  | raise (perr : Bool) (cls : Nat)
  | div
  | truth (b : Bool)        -- for `!=`

def Act.ofJson (j : Json) : Act :=
  match obj? j "raise" with
  | some c => .raise (bool! (fld j "perr")) (nat! c)
  | none =>
    match obj? j "div" with
    | some _ => .div
    | none =>
      match obj? j "truth" with
      | some b => .truth (bool! b)
      | none => .ok (DV.ofJson (fld j "ok"))

structure Script where
  entries : List ((Nat × Nat × Nat) × Act)

def Script.ofJson (j : Json) : Script :=
  ⟨(arr! j).map fun e => match arr! e with
    | [s, t, k, a] => ((nat! s, nat! t, nat! k), Act.ofJson a)
    | _ => ((0, 0, 0), .div)⟩

def Script.find (S : Script) (stage t tok : Nat) : Option Act :=
  (S.entries.find? (fun e => e.1 == (stage, t, tok))).map (·.2)

def runAct (dflt : DV) : Option Act → M DV
  | none => pure dflt
  | some (.ok v) => pure v
  | some (.raise p c) => raise (.one { perr := p, cls := c })
  | some .div => divergeM
  | some (.truth _) => pure dflt

/- script stages: 0 common conversion, 1/2 union stages, 5 `to_dict`, 6 discriminator lookup,
   7 hooks (t: 0 pre, 1 post), 8 `!=`, 9 validator k -/
def mkWorld (S : Script) (items : List DV) (pairs : List (DV × DV)) (warnError : Bool := false) : World DV where
  conv := fun t v =>
    if t ≥ 900 then pure (if t == 904 then .map pairs else .seq (t - 900) items)
    else runAct v (S.find 0 t v.tokOf)
  convAt := fun st t v => runAct v (S.find st t v.tokOf)
  depthExceeded := fun _ => false
  isNone := fun v => match v with | .nil => true | _ => false
  typeIs := fun v t => match v with
    | .seq k _ => t == 900 + k
    | .map _ => t == 904
    | _ => false
  -- script stage 5, t 4: the container's own protocol (`__iter__` / `__len__` / `items()`) raises or never ends
  readItems := fun v => match S.find 5 4 9999 with
    | some (.raise p c) => raise (.one { perr := p, cls := c })
    | some .div => divergeM
    | _ => pure (match v with | .seq _ xs => xs | _ => [])
  indexable := fun v => match v with | .seq k _ => k == 0 || k == 1 | _ => false
  readPairs := fun v => match S.find 5 4 9999 with
    | some (.raise p c) => raise (.one { perr := p, cls := c })
    | some .div => divergeM
    | _ => pure (match v with | .map kvs => kvs | _ => [])
  warn := fun _ => if warnError then raise (builtinExc 120) else pure ()
  ofList := fun xs => .seq 0 xs
  ofTuple := fun xs => .seq 1 xs
  ofPairs := fun kvs => .map kvs
  construct := fun t v => match v with
    | .seq _ xs =>
      if (t == 902 || t == 903) && xs.any DV.unhashable then raise (builtinExc K.typeError)
      else pure (.seq (t - 900) xs)
    | _ => pure v
  insertKey := fun k => if k.unhashable then raise (builtinExc K.typeError) else pure ()
  keyStr := fun k => do let _ ← runAct k (S.find 5 3 k.tokOf); pure ()
  validate := fun k v => runAct v (S.find 9 k v.tokOf)
  pre := fun v => runAct v (S.find 7 0 v.tokOf)
  post := fun v => runAct v (S.find 7 1 v.tokOf)
  isTypeOrValueError := fun c => c == K.typeError || c == K.valueError || c == 109

def mkData (S : Script) (W : World DV) (strKeys : Bool) : DataWorld DV where
  toWorld := W
  isMapping := fun v => match v with | .map _ => true | _ => false
  toDict := fun v => runAct v (S.find 5 0 v.tokOf)
  castKeys := fun v => runAct v (S.find 5 1 v.tokOf)
  readMapping := fun v => runAct v (S.find 5 2 v.tokOf)
  strKeyed := fun _ => strKeys
  reservedKey := fun v => match v with | .map kvs => kvs.any (fun p => p.1.tokOf == 60) | _ => false
  unpack := fun v => match v with
    | .map kvs => kvs.map fun (k, x) => (k.tokOf, x)
    | _ => []
  discLookup := fun f v =>
    match S.find 6 f v.tokOf with
    | some (.ok (.tok t)) => pure (some t)
    | some (.raise p c) => raise (.one { perr := p, cls := c })
    | some .div => divergeM
    | _ => pure none
  noInput := fun _ _ => false
  isBranchInstance := fun _ _ => false
  neq := fun a b =>
    match S.find 8 0 a.tokOf with
    | some (.truth b) => pure b
    | some (.raise p c) => raise (.one { perr := p, cls := c })
    | some .div => divergeM
    | _ => pure (a.tokOf != b.tokOf)
  depsLack := fun _ => false

def policyOf (j : Json) : Policy :=
  match str! j with | "exclude" => .exclude | "preserve" => .preserve | _ => .throw

def optPolicy (j : Json) : Option Policy :=
  match j with | .str _ => some (policyOf j) | _ => none

def mkOpts (j : Json) : Opts :=
  { collect := bool! (fld j "collect_errors")
    maxErrors := optNat (fld j "max_errors")
    invalidItems := policyOf (fld j "invalid_items")
    invalidKeys := policyOf (fld j "invalid_keys")
    invalidValues := policyOf (fld j "invalid_values")
    addition := match fld j "addition" with
      | .bool true => .allow
      | .bool false => .forbid
      | .null => .unset
      | a => .typed (nat! (fld a "t"))
    noDataLoss := bool! (fld j "no_data_loss")
    noExplicitCast := bool! (fld j "no_explicit_cast")
    ignoreConstraints := bool! (fld j "ignore_constraints")
    ignoreAliasConflicts := bool! (fld j "ignore_alias_conflicts")
    ignoreRequired := bool! (fld j "ignore_required")
    dataFirst := bool! (fld j "data_first_search")
    castKeywordStr := bool! (fld j "cast_keyword_str")
    maxParams := optNat (fld j "max_params")
    minParams := optNat (fld j "min_params")
    override := bool! (fld j "override") }

def mkLegacy (j : Json) : Legacy :=
  { seqIndex := bool! (fld j "seqIndex"), tupleMissing := bool! (fld j "tupleMissing"),
    rewrap := bool! (fld j "rewrap"), mapInsert := bool! (fld j "mapInsert"),
    containsNarrow := bool! (fld j "containsNarrow"), allOfRaw := bool! (fld j "allOfRaw"),
    aliasCompare := bool! (fld j "aliasCompare"), discLookup := bool! (fld j "discLookup"),
    nonStrKeys := bool! (fld j "nonStrKeys"), mapKeyStr := bool! (fld j "mapKeyStr"),
    rawIteration := bool! (fld j "rawIteration"), initNamedParams := bool! (fld j "initNamedParams") }

def infoJson (i : Info) : Json :=
  Json.mkObj [("perr", Json.bool i.perr), ("cls", Json.num i.cls), ("site", Json.num i.site),
    ("origin", match i.origin with | some c => Json.num c | none => Json.null),
    ("item", match i.item with | some c => Json.num c | none => Json.null)]

def evName : Ev → String
  | .enterBody => "enterBody" | .attrsSet => "attrsSet" | .postInit => "postInit"

def outJson {α : Type} (toJ : α → Json) (r : Res α × St) : Json :=
  let tr := Json.arr (r.2.trace.map (fun e => Json.str (evName e))).toArray
  match r.1 with
  | .ok a => Json.mkObj [("out", "ok"), ("value", toJ a), ("trace", tr)]
  | .raise (.one i) => Json.mkObj [("out", "raise"), ("info", infoJson i), ("trace", tr)]
  | .raise (.collected es) => Json.mkObj [("out", "collected"), ("errors", Json.arr (es.map infoJson).toArray), ("trace", tr)]
  | .diverge => Json.mkObj [("out", "diverge"), ("trace", tr)]

def kvJson (kvs : List (Nat × DV)) : Json :=
  Json.arr (kvs.map fun (k, v) => Json.arr #[Json.num k, v.toJson]).toArray

def originTy (j : Json) : Option Ty :=
  match j with
  | .str "list" => some 900 | .str "tuple" => some 901 | .str "set" => some 902
  | .str "frozenset" => some 903 | .str "dict" => some 904
  | .null => none
  | o => some (nat! (fld o "comp"))

def mkRule (j : Json) : RuleDecl :=
  let a := fld j "args"
  { origin := originTy (fld j "origin")
    args := match obj? a "seq" with
      | some t => .seq (nat! t)
      | none => match obj? a "tuple" with
        | some ts => .tuple ((arr! ts).map nat!)
        | none => match obj? a "map" with
          | some kv => (match arr! kv with | [k, v] => .map (nat! k) (optNat v) | _ => .none)
          | none => .none
    abstract := false
    validators := (arr! (fld j "validators")).map nat!
    contains := optNat (fld j "contains")
    minContains := optNat (fld j "min_contains")
    maxContains := optNat (fld j "max_contains") }

def mkField (j : Json) : FieldDecl DV :=
  { id := nat! (fld j "id")
    aliases := (arr! (fld j "aliases")).map nat!
    ty := optNat (fld j "t")
    onError := optPolicy (fld j "on_error")
    required := bool! (fld j "required")
    default := match fld j "default" with | .null => none | d => some (DV.ofJson d)
    disc := bool! (fld j "disc")
    posOnly := bool! (fld j "po") }

def mkParser (j : Json) : ParserDecl DV :=
  { fields := (arr! (fld j "fields")).map mkField
    additionType := optNat (fld j "addition_t")
    excludeVars := [] }

def kwOf (j : Json) : List (Nat × DV) :=
  (arr! j).map fun p => match arr! p with | [k, v] => (nat! k, DV.ofJson v) | _ => (0, .nil)

def bigNat (j : Json) : Nat :=
  match j with | .str s => s.toNat?.getD 0 | _ => nat! j

def handle (j : Json) : Json :=
  let S := Script.ofJson (fld j "script")
  let o := mkOpts (fld j "opts")
  let L := mkLegacy (fld j "legacy")
  let items := (arr! (fld j "items")).map DV.ofJson
  let pairs := (arr! (fld j "pairs")).map fun p => match arr! p with
    | [k, v] => (DV.ofJson k, DV.ofJson v) | _ => (.nil, .nil)
  let W := mkWorld S items pairs (bool! (fld j "warn_error"))
  match str! (fld j "kind") with
  | "rule" =>
    outJson DV.toJson (ruleParse W L o (mkRule j) (DV.ofJson (fld j "input")) {})
  | "logical" =>
    let c := match str! (fld j "comb") with | "&" => Comb.all | "|" => .any | "^" => .xor | _ => .not
    outJson DV.toJson (logicalParse W L o c ((arr! (fld j "args")).map nat!) (DV.ofJson (fld j "input")) {})
  | "schema" =>
    let D := mkData S W (bool! (fld j "str_keys"))
    let P := mkParser j
    let hook (k : Nat) : M Unit := do let _ ← runAct .nil (S.find 7 2 k); pure ()
    let optOpts (x : Json) : Option Opts := match x with | .null => none | x => some (mkOpts x)
    let isSchema (x : Json) : Bool := str! x == "Schema" || (match x with | .null => true | _ => false)
    let schema := isSchema (fld j "cls_kind")
    match str! (fld j "entry") with
    | "from" =>
      outJson kvJson (initDataclass D L o (optOpts (fld j "given")) (optOpts (fld j "ctx")) P (hook 0)
        (DV.ofJson (fld j "input")) schema {})
    | "nested" =>
      -- an outer class with one field (id 90) whose type is the data class described by this case: the field's
      -- converter is `transform_dataclass` = init_dataclass with the outer context
      let outer := fld j "outer"
      let oo := mkOpts (fld outer "opts")
      let inner : DV → M DV := fun v => do
        let kv ← initDataclass D L o none (some oo) P (hook 1) v schema
        pure (DV.map (kv.map fun (k, x) => (DV.tok k, x)))
      let conv1 : Ty → DV → M DV := fun t v => if t == 800 then inner v else W.conv t v
      let W1 : World DV := { W with conv := conv1 }
      let D1 := mkData S W1 true
      let Pout : ParserDecl DV := { fields := [{ id := 90, aliases := [90], ty := some 800, required := true }] }
      outJson kvJson (classCall D1 L oo Pout (hook 0) [(90, DV.ofJson (fld j "input"))] (isSchema (fld outer "cls_kind")) {})
    | "init_dict" => outJson kvJson (classCallDict D L o P (hook 0) (DV.ofJson (fld j "input")) schema {})
    | _ => outJson kvJson (classCall D L o P (hook 0) (kwOf (fld j "kwargs")) schema {})
  | "func" =>
    let D := mkData S W true
    let P := mkParser j
    let F : FuncDecl DV :=
      { parser := P
        positional := (arr! (fld j "positional")).map fun f => match f with | .null => none | f => some (mkField f)
        excludeIndexes := (arr! (fld j "exclude_indexes")).map nat!
        posVarIndex := optNat (fld j "pos_var_index")
        posType := optNat (fld j "pos_t")
        posOnly := (arr! (fld j "pos_only")).map fun p => match arr! p with
          | [i, f] => (nat! i, mkField f) | _ => (0, mkField Json.null)
        returnType := optNat (fld j "return_t") }
    let body : List DV → List (Nat × DV) → M DV := fun _ _ => runAct (.tok 0) (S.find 7 3 0)
    outJson DV.toJson (syncCall D L o F body ((arr! (fld j "args")).map DV.ofJson) (kwOf (fld j "kwargs")) {})
  | "ts" =>
    let x : Ts := match fld j "ts" with
      | .str "nan" => .nan
      | .str "inf" => .inf false
      | .str "-inf" => .inf true
      | t => match arr! t with
        | [s, n, q] => .fin (bool! s) (bigNat n) (bigNat q - 1)
        | _ => .nan
    let k := match x with | .fin _ n q => loopK n q | _ => 0
    -- beyond the float range: an int raises OverflowError, a Decimal is refused by the finiteness guard
    let xin : TsIn := match str! (fld j "huge"), x with
      | "int", _ => .hugeInt
      | "dec", .fin s n q => .hugeDec s n q
      | _, x => .num x
    match (tsNormalizeIn (bool! (fld j "legacy_ts")) xin {}).1 with
    | .ok _ => Json.mkObj [("out", "ok"), ("k", Json.num k)]
    | .raise e => Json.mkObj [("out", "raise"), ("info", infoJson e.info)]
    | .diverge => Json.mkObj [("out", "diverge")]
  | "iter" =>
    let f : Iter.Flags := { noExplicitCast := bool! (fld j "nec"), noDataLoss := bool! (fld j "ndl"),
                            legacyDatetime := bool! (fld j "legacy_dt"), legacyAttemptFrom := bool! (fld j "legacy_af") }
    let k : Iter.InKind := match str! (fld j "in_kind") with
      | "sized" => .sized (nat! (fld j "n")) | "lazy" => .lazy | "iterable" => .iterable
      | "getitem" => .getitem | "text" => .text | _ => .scalar
    let t : Iter.Target := match str! (fld j "target") with
      | "int" => .scalar .int | "float" => .scalar .float | "str" => .scalar .str | "bytes" => .scalar .bytes
      | "Decimal" => .scalar .decimal | "complex" => .scalar .complex | "bool" => .scalar .bool
      | "datetime" => .scalar .datetime | "date" => .scalar .date | "time" => .scalar .time
      | "timedelta" => .scalar .timedelta | "UUID" => .scalar .uuid
      | "dict" => .mapping | "dataclass" => .dataclass
      | a => .array (a == "list" && str! (fld j "in_kind") == "sized")
    Json.mkObj [("consumes", Json.bool (Iter.consumes f t k))]
  | _ => Json.mkObj [("skip", Json.bool true)]

def main : IO Unit := serve handle
