#!/bin/bash
# usage: tools/landfix.sh <patch> "<commit message starting with fix:>"   -- applies in the scratch worktree /tmp/integ,
# runs the unedited suite, commits there.  /repo main is fast-forwarded separately (git -C /repo merge --ff-only <sha>).
set -e
P=$(readlink -f "$1"); M="$2"
[ -d /tmp/integ ] || git -C /repo worktree add -f --detach /tmp/integ HEAD >/dev/null
cd /tmp/integ
git apply --3way "$P" || { echo "APPLY FAILED"; git reset --hard -q; exit 1; }
out=$(/venv/bin/python -m pytest -ra -q -p no:cacheprovider --timeout=900 --continue-on-collection-errors 2>&1 | tail -1)
echo "$out"
case "$out" in *"115 passed"*) ;; *) echo "SUITE NOT GREEN"; git reset --hard -q; exit 1;; esac
git add -A utype; git -c user.name=builder -c user.email=builder@example.invalid commit -qm "$M"; git rev-parse --short HEAD
