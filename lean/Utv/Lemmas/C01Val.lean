import Utv.Model.C01
import Utv.Props.C02
/-! C01 — the validator phase: strict validators hand their input back (so the result still is what the origin
conversion / args parser produced, and every strict constraint accepts it); `const` hands back the declared constant. -/
namespace Utv.C01
open Utv.Conv
open Utv.Py (PyVal Exc M)
open Utv.Gen Utv.Rule

/-! ### `toPy` / `ofPy` round trip -/

theorem clsSeq_seqCls {k : SeqK} {cl : Utv.Py.Cls} (h : seqCls k = some cl) : clsSeq cl = some k := by
  cases k <;> simp [seqCls] at h <;> subst h <;> rfl

mutual
theorem ofPy_toPy : ∀ (v : V) (pv : PyVal), toPy v = some pv → ofPy pv = some v
  | .none, pv, h => by simp [toPy] at h; subst h; rfl
  | .bool b, pv, h => by simp [toPy] at h; subst h; rfl
  | .int c i, pv, h => by
    simp only [toPy] at h; split at h <;> simp at h
    subst h; rename_i hc; simp at hc; subst hc; rfl
  | .float c f, pv, h => by
    simp only [toPy] at h; split at h <;> simp at h
    subst h; rename_i hc; simp at hc; subst hc; rfl
  | .dec c d, pv, h => by
    simp only [toPy] at h; split at h <;> simp at h
    subst h; rename_i hc; simp at hc; obtain ⟨hc, _⟩ := hc; subst hc; rfl
  | .str c s, pv, h => by
    simp only [toPy] at h; split at h <;> simp at h
    subst h; rename_i hc; simp at hc; subst hc; rfl
  | .seq k c xs, pv, h => by
    simp only [toPy] at h
    split at h
    · rename_i hc; simp at hc; subst hc
      split at h
      · rename_i cl ys hcl hys
        simp at h; subst h
        simp [ofPy, clsSeq_seqCls hcl, ofPyList_toPyList xs ys hys]
      · simp at h
    · simp at h
  | .complex _ _, _, h => by simp [toPy] at h
  | .bytes _ _ _, _, h => by simp [toPy] at h
  | .dict _ _, _, h => by simp [toPy] at h
  | .date _ _, _, h => by simp [toPy] at h
  | .datetime _ _ _, _, h => by simp [toPy] at h
  | .time _ _, _, h => by simp [toPy] at h
  | .delta _ _, _, h => by simp [toPy] at h
  | .uuid _ _, _, h => by simp [toPy] at h
  | .enum _ _, _, h => by simp [toPy] at h
  | .obj _, _, h => by simp [toPy] at h
theorem ofPyList_toPyList : ∀ (xs : List V) (ys : List PyVal), toPyList xs = some ys → ofPyList ys = some xs
  | [], ys, h => by simp [toPyList] at h; subst h; rfl
  | x :: xs, ys, h => by
    simp only [toPyList] at h
    split at h
    · rename_i y ys' hy hys
      simp at h; subst h
      simp [ofPyList, ofPy_toPy x y hy, ofPyList_toPyList xs ys' hys]
    · simp at h
end

/-- the `PyVal` form of a float instance is a float: `decimal_places` leaves it alone -/
theorem toPy_not_dec {v : V} {pv : PyVal} (h : toPy v = some pv) (hv : ∀ c d, v ≠ .dec c d) :
    Utv.Py.isinstance pv .decimal = false := by
  cases v <;> simp [toPy] at h
  case none => subst h; rfl
  case bool => subst h; rfl
  case int c i => obtain ⟨_, rfl⟩ := h; rfl
  case float c f => obtain ⟨_, rfl⟩ := h; rfl
  case dec c d => exact absurd rfl (hv c d)
  case str c s => obtain ⟨_, rfl⟩ := h; rfl
  case seq k c xs =>
    obtain ⟨_, h⟩ := h
    split at h
    · simp at h; subst h
      rename_i cl _ hcl _
      cases k <;> simp [seqCls] at hcl <;> subst hcl <;> rfl
    · simp at h

/-! ### strict validators that hand their input back -/

/-- `f` returns the value it was given whenever it accepts `v` -/
def PreservingAt (f : Validator) (v : PyVal) : Prop := ∀ P b r, f P v b = .ok r → r = v

/-- closes `f P v b = .ok r → r = v` for straight-line validators: every `return` is `return value_` -/
macro "pres_auto" h:ident : tactic => `(tactic| (
  simp only [bind, Except.bind, pure, Except.pure, throw, throwThe, MonadExceptOf.throw] at $h:ident
  repeat' (first
    | (cases $h:ident; done)
    | (injection $h:ident with h'; exact h'.symm)
    | split at $h:ident)))

theorem pres_regex (v : PyVal) : PreservingAt Constraints.regex v := by
  intro P b r h; unfold Constraints.regex at h; pres_auto h

theorem pres_multiple_of (v : PyVal) : PreservingAt Constraints.multiple_of v := by
  intro P b r h; unfold Constraints.multiple_of at h; pres_auto h

theorem pres_max_digits (v : PyVal) : PreservingAt Constraints.max_digits v := by
  intro P b r h; unfold Constraints.max_digits at h; pres_auto h

theorem pres_length (v : PyVal) : PreservingAt Constraints.length v := by
  intro P b r h; unfold Constraints.length at h; pres_auto h

theorem pres_max_length (v : PyVal) : PreservingAt Constraints.max_length v := by
  intro P b r h; unfold Constraints.max_length at h; pres_auto h

theorem pres_min_length (v : PyVal) : PreservingAt Constraints.min_length v := by
  intro P b r h; unfold Constraints.min_length at h; pres_auto h

theorem pres_unique_items (v : PyVal) : PreservingAt Constraints.unique_items v := by
  intro P b r h; unfold Constraints.unique_items at h; pres_auto h

theorem pres_enum (v : PyVal) : PreservingAt Constraints.enum v := by
  intro P b r h
  unfold Constraints.enum at h
  simp only [Utv.Py.callValue, Utv.Py.getattrValue] at h
  pres_auto h

/-- `decimal_places` leaves a non-Decimal alone (`round` is only applied to Decimals) -/
theorem pres_decimal_places (v : PyVal) (hv : Utv.Py.isinstance v .decimal = false) :
    PreservingAt Constraints.decimal_places v := by
  intro P b r h; unfold Constraints.decimal_places at h
  simp only [hv] at h
  pres_auto h

/-- strict validators that return their input (all of them except `const`, which returns the declared constant,
and `decimal_places`, which rounds a Decimal) -/
def strictPreservingNames : List String :=
  ["gt", "ge", "lt", "le", "enum", "regex", "multiple_of", "max_digits", "length", "max_length", "min_length",
   "unique_items"]

theorem preservingAt_of_name {name : String} {f : Validator} (hn : name ∈ strictPreservingNames)
    (hf : validatorOf name = some f) (v : PyVal) : PreservingAt f v := by
  simp only [strictPreservingNames, List.mem_cons, List.mem_nil_iff, or_false] at hn
  rcases hn with rfl | rfl | rfl | rfl | rfl | rfl | rfl | rfl | rfl | rfl | rfl | rfl <;>
    simp only [validatorOf, Option.some.injEq] at hf <;> subst hf
  · exact fun P b r h => Utv.C02.preserving_gt P v b r h
  · exact fun P b r h => Utv.C02.preserving_ge P v b r h
  · exact fun P b r h => Utv.C02.preserving_lt P v b r h
  · exact fun P b r h => Utv.C02.preserving_le P v b r h
  · exact pres_enum v
  · exact pres_regex v
  · exact pres_multiple_of v
  · exact pres_max_digits v
  · exact pres_length v
  · exact pres_max_length v
  · exact pres_min_length v
  · exact pres_unique_items v

/-- the validator loop over validators that hand `v` back: the result is `v` and every one of them accepts `v` -/
theorem validate_preserving (PP : Utv.Py.Prims) (cs : List (String × PyVal)) (v r : PyVal)
    (hp : ∀ c ∈ cs, ∃ f, validatorOf c.1 = some f ∧ PreservingAt f v)
    (h : validate PP cs v = .ok r) :
    r = v ∧ ∀ c ∈ cs, ∃ f, validatorOf c.1 = some f ∧ f PP v c.2 = .ok v := by
  induction cs with
  | nil => simp [validate, pure, Except.pure] at h; exact ⟨h.symm, by simp⟩
  | cons c cs ih =>
    obtain ⟨f, hf, hpres⟩ := hp c (by simp)
    obtain ⟨name, bound⟩ := c
    simp only at hf
    simp only [validate, hf, bind, Except.bind] at h
    cases hfv : f PP v bound with
    | error e => simp [hfv] at h
    | ok v' =>
      have hv' : v' = v := hpres PP bound v' hfv
      subst hv'
      simp only [hfv] at h
      obtain ⟨h1, h2⟩ := ih (fun c' hc' => hp c' (by simp [hc'])) h
      refine ⟨h1, ?_⟩
      intro c' hc'
      simp only [List.mem_cons] at hc'
      rcases hc' with rfl | hc'
      · exact ⟨f, hf, hfv⟩
      · exact h2 c' hc'

/-! ### what "satisfies the constraint" means for a result -/

/-- the `lax_*` validators of `Constraints` (rule.py:889-1110) -/
def laxNames : List String :=
  ["lax_ge", "lax_le", "lax_const", "lax_enum", "lax_decimal_places", "lax_multiple_of", "lax_max_digits", "lax_length",
   "lax_max_length", "lax_unique_items"]

def isLaxName (n : String) : Bool := laxNames.contains n

/-- `r` satisfies the declared constraint `cv` = (validator name, constraint value): the strict validator — whose
documented sense is pinned down by the `C02_*_iff` theorems — accepts `r` and hands it back; for `const`, `r` is the
declared constant.  A `Lax(...)` constraint is a transformation, not a promise about the result. -/
def Sat (PP : Utv.Py.Prims) (cv : String × PyVal) (r : V) : Prop :=
  if isLaxName cv.1 then True
  else if cv.1 = "const" then ofPy cv.2 = some r
  else ∃ pv f, toPy r = some pv ∧ validatorOf cv.1 = some f ∧ f PP pv cv.2 = .ok pv

/-- which validators may follow the origin conversion for the result to be provably conforming: the preserving
strict ones; `decimal_places` where the converted value cannot be a Decimal -/
def preservingFor (notDec : Bool) (name : String) : Bool :=
  strictPreservingNames.contains name || (name == "decimal_places" && notDec)

theorem not_lax_of_preservingFor {nd : Bool} {name : String} (h : preservingFor nd name = true) :
    isLaxName name = false ∧ name ≠ "const" := by
  simp only [preservingFor, strictPreservingNames, List.contains_cons, List.contains_nil, Bool.or_false,
    Bool.or_eq_true, beq_iff_eq, Bool.and_eq_true] at h
  rcases h with (rfl | rfl | rfl | rfl | rfl | rfl | rfl | rfl | rfl | rfl | rfl | rfl) | ⟨rfl, _⟩ <;>
    exact ⟨by decide, by decide⟩

theorem validatePhase_preserving (PP : Utv.Py.Prims) (vs : List (String × PyVal)) (v r : V) (nd : Bool)
    (hnd : nd = true → ∀ c d, v ≠ .dec c d)
    (hp : ∀ cv ∈ vs, preservingFor nd cv.1 = true)
    (h : validatePhase PP vs v = .ok r) : r = v ∧ ∀ cv ∈ vs, Sat PP cv r := by
  unfold validatePhase at h
  split at h
  · rename_i he
    cases h
    refine ⟨rfl, ?_⟩
    intro cv hcv
    simp only [List.isEmpty_iff] at he
    subst he; simp at hcv
  · split at h
    · simp at h
    · rename_i pv hpv
      split at h
      · rename_i pr hval
        have hpres : ∀ c ∈ vs, ∃ f, validatorOf c.1 = some f ∧ PreservingAt f pv := by
          intro c hc
          have hc' := hp c hc
          cases hf : validatorOf c.1 with
          | none =>
            -- an unknown validator name makes `validate` answer unmodelled: contradiction with `hval`
            exfalso
            simp only [preservingFor, strictPreservingNames, List.contains_cons, List.contains_nil, Bool.or_false,
              Bool.or_eq_true, beq_iff_eq, Bool.and_eq_true] at hc'
            rcases hc' with (h' | h' | h' | h' | h' | h' | h' | h' | h' | h' | h' | h') | ⟨h', _⟩ <;>
              simp [h', validatorOf] at hf
          | some f =>
            refine ⟨f, rfl, ?_⟩
            simp only [preservingFor, Bool.or_eq_true, Bool.and_eq_true, beq_iff_eq] at hc'
            rcases hc' with h' | ⟨h', hnd'⟩
            · exact preservingAt_of_name (by simpa using h') hf pv
            · rw [h'] at hf
              simp only [validatorOf, Option.some.injEq] at hf
              subst hf
              exact pres_decimal_places pv (toPy_not_dec hpv (hnd hnd'))
        obtain ⟨hr, hacc⟩ := validate_preserving PP vs pv pr hpres hval
        subst hr
        rw [ofPy_toPy v pr hpv] at h
        simp at h
        subst h
        refine ⟨rfl, ?_⟩
        intro cv hcv
        obtain ⟨hl, hc⟩ := not_lax_of_preservingFor (hp cv hcv)
        obtain ⟨f, hf, hfa⟩ := hacc cv hcv
        simp only [Sat, hl, hc, Bool.false_eq_true, if_false]
        exact ⟨pr, f, hpv, hf, hfa⟩
      · simp at h
      · simp at h

/-- `const` alone: the result is the declared constant -/
theorem validatePhase_const (PP : Utv.Py.Prims) (c : PyVal) (v r : V)
    (h : validatePhase PP [("const", c)] v = .ok r) : ofPy c = some r := by
  unfold validatePhase at h
  simp only [List.isEmpty_cons, Bool.false_eq_true, if_false] at h
  split at h
  · simp at h
  · rename_i pv hpv
    split at h
    · rename_i pr hval
      simp only [validate, validatorOf, bind, Except.bind] at hval
      cases hc : Constraints.const PP pv c with
      | error e => simp [hc] at hval
      | ok x =>
        simp only [hc, pure, Except.pure] at hval
        have hx : x = c := ((Utv.C02.C02_const_iff PP pv c x).mp hc).2.2
        subst hx
        cases hval
        split at h <;> simp at h
        subst h; assumption
    · simp at h
    · simp at h

end Utv.C01
