import Utv.Props.C20
open Utv.C20
#print axioms C20_linearizable
#print axioms C20_finished_all
#print axioms C20_no_internal_error
#print axioms C20_mutual_exclusion
#print axioms C20_parsing_sees_resolved
#print axioms C20_quiescent
#print axioms C20_no_deadlock
#print axioms C20_alone_is_sequential
#print axioms C20_legacy_keyerror_witness
#print axioms C20_legacy_half_initialised_witness
#print axioms C20_legacy_corrupted_type_witness
#print axioms C20_legacy_not_linearizable
