import Utv.Model.C10
namespace Utv.C10

/-- a fail-fast context raises the error it is handed -/
theorem C10_ff_handle_raises (c : Ctx) (h : c.mode.collect = false) (e : Err) :
    (c.handleError e).2 = some (.raw e) := by
  simp [Ctx.handleError, h]

end Utv.C10
