import Utv.Model.Rule
import Utv.Util.PyJson
open Lean Utv Utv.J Utv.Py Utv.PyJson Utv.Rule

/-- `validate_constraints` normalisation that matters for which validators run (rule.py:757-821):
const alone, else enum alone, else drop a false `unique_items`. -/
def normalise (cs : List (String × PyVal)) : List (String × PyVal) :=
  match cs.find? (fun c => baseKey c.1 == "const") with
  | some c => [c]
  | none => match cs.find? (fun c => baseKey c.1 == "enum") with
    | some c => [c]
    | none => cs.filter fun c => !(baseKey c.1 == "unique_items" && !Py.truthy c.2)

def boolJ (r : M Bool) : Json :=
  match r with
  | .ok b => Json.mkObj [("ok", Json.bool b)]
  | .error (.unmodelled w) => Json.mkObj [("unmodelled", Json.str w)]
  | .error e => Json.mkObj [("err", Json.str (excName e))]

def handle (j : Json) : Json :=
  let P := decodePrims (fld j "prims")
  match str! (fld j "op") with
  | "validator" =>
    match validatorOf (str! (fld j "name")) with
    | some f => encodeOutcome (f P (decode (fld j "value")) (decode (fld j "bound")))
    | none => Json.mkObj [("unmodelled", Json.str "unknown validator")]
  | "rule" =>
    let cs := (arr! (fld j "constraints")).map fun p => match arr! p with
      | [n, b] => (str! n, decode b) | _ => ("", PyVal.none)
    encodeOutcome (validate P (ordered (normalise cs)) (decode (fld j "value")))
  | "cmp" =>
    let a := decode (fld j "a"); let b := decode (fld j "b")
    Json.mkObj [("lt", boolJ (Py.lt a b)), ("le", boolJ (Py.le a b)), ("eq", Json.bool (Py.eq a b)),
                ("truthy", Json.bool (Py.truthy a))]
  | "arith" =>
    let a := decode (fld j "a"); let b := decode (fld j "b")
    match str! (fld j "f") with
    | "mod" => encodeOutcome (Py.mod a b)
    | "floordiv" => encodeOutcome (Py.floordiv a b)
    | "mul" => encodeOutcome (Py.mul a b)
    | "round" => encodeOutcome (Py.round P a b)
    | "len" => encodeOutcome (Py.len a)
    | "str" => encodeOutcome (Py.str P a)
    | "sliceTo" => encodeOutcome (Py.sliceTo a b)
    | "contains" => boolJ (Py.contains a b)
    | _ => Json.mkObj [("unmodelled", Json.str "arith op")]
  | _ => Json.mkObj [("driver-error", Json.str "unknown op")]

def main : IO Unit := serve handle
