"""C16 — converter resolution is a pure function of the registration history.

Correspondence: the same history of public calls runs on a real `TypeRegistry` — a fresh one, a fresh one with a
live `base=` registry, and the library's two own registries through their public entry points
(`utype.register_transformer` / `TypeTransformer.resolver_transformer` / `utype.type_transform`,
`utype.register_encoder` / `encoder_registry.resolve` / `JSONEncoder().default`; the library's own registrations are
the beginning of the history, the registry is put back afterwards) — and on the Lean model (`Utv.C16.runCalls`,
`Utv.C16.run2`); every answer (converter returned by each resolve / used by each conversion, error of each refused
registration) is compared.  Oracle for the search: `spec_run` below, written from the property text.
"""
from __future__ import annotations

import itertools
import json
import random

from .common import Check, run_impl

NCLS = 10         # classes 0..9 can be registered and resolved
NT = 11           # resolve targets 0..10 (10 = typing.List[int]: not a class, issubclass() raises on it)
ATTRS = ["x", "y"]
LIB_DET = 100     # custom-detector numbers 100+i = the library's own registrations (lib modes)
LIB_FN = 5000     # converter numbers 5000+i = the library's own converters


def _world():
    """The real class hierarchy the histories talk about (built inside the worker)."""
    import typing

    class M(type):
        pass

    class A:  # 0
        pass

    class B(A):  # 1
        x = 1

    class C(B):  # 2
        pass

    class D(A, metaclass=M):  # 3
        y = 2

    class E(D):  # 4
        pass

    class F:  # 5
        pass

    class G(C, F):  # 6   diamond-ish: subclass of A,B,C,F
        pass

    class H(F):  # 7   carries a shortcut converter
        pass

    class S(str):  # 8   the library's own str converter matches it
        pass

    class K(dict):  # 9   the library's own dict / Mapping converters and Mapping encoder match it
        pass

    return [A, B, C, D, E, F, G, H, S, K, typing.List[int]], [M]


def _custom_detectors(classes):
    A, B, C, D, E, F, G, H = classes[:8]

    def d0(c):
        if c is F:
            raise TypeError("no")
        return issubclass(c, B)      # raises TypeError on a non-class

    def d1(c):
        if c in (A, E):
            raise ValueError("no")
        return c in (D, G)

    def d2(c):
        # every target of the world, nothing else (str, int, list … stay with the library's converters, so that
        # conversions through Dict[str, T] / Tuple[T, int] / List[T] only show the converter of T)
        return any(c is k for k in classes)

    return [d0, d1, d2]


def _tabulate(classes, metas, dets, base=0):
    t = {"issub": [], "isinst": [], "hasattr": [], "custom": []}
    for i, c in enumerate(classes):
        for j, k in enumerate(classes[:NCLS]):
            try:
                if issubclass(c, k):
                    t["issub"].append([i, j])
            except TypeError:
                pass
        for j, m in enumerate(metas):
            if isinstance(c, m):
                t["isinst"].append([i, j])
        for j, a in enumerate(ATTRS):
            if hasattr(c, a):
                t["hasattr"].append([i, j])
        for k, d in enumerate(dets):
            try:
                v = 1 if d(c) else 0
            except (TypeError, ValueError):
                v = 2
            t["custom"].append([base + k, i, v])
    return t


def build_tables():
    classes, metas = _world()
    return _tabulate(classes, metas, _custom_detectors(classes))


def _lib_registry(mode):
    import utype
    from utype.utils import encode as enc
    return utype.TypeTransformer.registry if mode == "transformer" else enc.encoder_registry


def lib_probe(case):
    """(worker) the library's own registrations, oldest first, as opaque detectors tabulated on the world classes"""
    classes, metas = _world()
    reg = _lib_registry(case["mode"])
    hist = list(reversed(list(reg._registry)))
    rows, prios = [], []
    for i, (det, _f, prio) in enumerate(hist):
        prios.append(prio)
        for t, c in enumerate(classes):
            try:
                v = 1 if det(c) else 0
            except (TypeError, ValueError):
                v = 2
            rows.append([LIB_DET + i, t, v])
    return {"rows": rows, "prios": prios, "shortcut": reg.shortcut, "cache": bool(reg.cache), "base": reg.base is not None,
            "default": reg.default is not None}


NONCLASS = 5

# every place of a declaration where a value is converted to a type: each is "a conversion to that type" and must use
# the converter the registrations made SO FAR select, however long ago the class / function was declared
KINDS = ["field", "opt", "list", "dict", "tuple", "dc", "prop", "proplist", "param", "paramlist", "ret", "retlist",
         "nested"]


def declare(classes, ts):
    """(worker) declare, NOW, one consumer of every kind for each class in `ts`; returns {(kind, t): thunk} where the
    thunk performs a conversion of a fresh non-instance to the class through that consumer and returns the result"""
    import utype
    from typing import Dict, List, Optional, Tuple
    from utype import Schema
    uses = {}

    def schema(ann):
        return type("S", (Schema,), {"__annotations__": {"v": ann}})

    def prop_schema(ann, mk):
        def p(self):
            return mk()
        p.__annotations__ = {"return": ann}
        return type("P", (Schema,), {"p": property(p)})

    def fparam(ann):
        def f(x):
            return x
        f.__annotations__ = {"x": ann}
        return utype.parse(f)

    def fret(ann, mk):
        def g():
            return mk()
        g.__annotations__ = {"return": ann}
        return utype.parse(g)

    for t in ts:
        T = classes[t]
        S1, S2, S3, S4, S5 = schema(T), schema(Optional[T]), schema(List[T]), schema(Dict[str, T]), schema(Tuple[T, int])
        DC = utype.dataclass(type("DC", (), {"__annotations__": {"v": T}}))
        P1, P2 = prop_schema(T, object), prop_schema(List[T], lambda: [object()])
        F1, F2 = fparam(T), fparam(List[T])
        G1, G2 = fret(T, object), fret(List[T], lambda: [object()])
        N = schema(List[S1])                       # second level: a declared class inside a declared container
        uses[("field", t)] = lambda S1=S1: S1(v=object()).v
        uses[("opt", t)] = lambda S2=S2: S2(v=object()).v
        uses[("list", t)] = lambda S3=S3: S3(v=[object()]).v[0]
        uses[("dict", t)] = lambda S4=S4: next(iter(S4(v={"a": object()}).v.values()))
        uses[("tuple", t)] = lambda S5=S5: S5(v=(object(), 1)).v[0]
        uses[("dc", t)] = lambda DC=DC: DC(v=object()).v
        uses[("prop", t)] = lambda P1=P1: P1().p
        uses[("proplist", t)] = lambda P2=P2: P2().p[0]
        uses[("param", t)] = lambda F1=F1: F1(object())
        uses[("paramlist", t)] = lambda F2=F2: F2([object()])[0]
        uses[("ret", t)] = lambda G1=G1: G1()
        uses[("retlist", t)] = lambda G2=G2: G2()[0]
        uses[("nested", t)] = lambda N=N: N(v=[{"v": object()}]).v[0].v
    return uses


def impl(case):
    """Run the history on the real TypeRegistry through the public calls."""
    from utype.utils.base import TypeRegistry

    mode = case.get("mode", "fresh")
    classes, metas = _world()
    dets = _custom_detectors(classes)
    fns = {}

    def fn(n):
        if n == 0:
            return 5                      # not callable: the registry's validator refuses it
        if n not in fns:
            def f(*a, _n=n, **k):
                return ("conv", _n)
            f.fid = n
            fns[n] = f
        return fns[n]

    def dflt(n):
        return fn(n) if n is not None else None

    saved = None
    base = None
    if mode in ("transformer", "encoder"):
        import utype
        from utype.utils import encode as enc
        reg = _lib_registry(mode)
        saved = list(reg._registry)
        libid = {id(e[1]): LIB_FN + i for i, e in enumerate(reversed(saved))}
        attr = reg.shortcut
        if mode == "transformer":
            register, resolve = utype.register_transformer, utype.TypeTransformer.resolver_transformer
            convert = lambda c: utype.type_transform(object(), c)
        else:
            register, resolve = utype.register_encoder, enc.encoder_registry.resolve
            convert = lambda c: utype.JSONEncoder().default(c())
    else:
        libid = {}
        if case.get("base"):
            b = case["base"]
            base = TypeRegistry("base", cache=b.get("cache", False), shortcut="__bconv__", default=dflt(b.get("default")))
        kw = {}
        if case.get("validator") == "odd":
            # a registry with its own idea of a valid target (also applied to the shortcut attribute)
            kw["validator"] = lambda f: getattr(f, "fid", 0) % 2 == 1
        reg = TypeRegistry("t", base=base, cache=case["cache"], shortcut=None if case.get("noshortcut") else "__conv__",
                           default=dflt(case.get("default")), **kw)
        attr = "__conv__"
        register, resolve = reg.register, reg.resolve
        convert = None

    def ident(r):
        if r is None:
            return None
        if id(r) in libid:
            return libid[id(r)]
        return getattr(r, "fid", -1)

    def do_register(register, r):
        kw = {}
        cl = [classes[i] if i >= 0 else NONCLASS for i in r.get("classes", [])]
        if r.get("custom") is not None:
            kw["detector"] = dets[r["custom"]]
        if r.get("sub") is not None:
            kw["allow_subclasses"] = r["sub"]
        if r.get("meta") is not None:
            kw["metaclass"] = metas[r["meta"]]
        a = r.get("attr")
        if a is not None:
            kw["attr"] = "" if a == -2 else 5 if a == -1 else ATTRS[a]
        try:
            register(*cl, priority=r["prio"], **kw)(fn(r["fn"]))
            return "ok"
        except (ValueError, AssertionError, TypeError) as e:
            return type(e).__name__

    try:
        for t, f in case.get("shortcut", []):
            setattr(classes[t], attr, staticmethod(fn(f)) if f >= 0 else 5)   # f < 0: a non-callable attribute
        if base is not None:
            for t, f in case["base"].get("shortcut", []):
                setattr(classes[t], "__bconv__", staticmethod(fn(f)) if f >= 0 else 5)
        outs = []
        declared = {}
        for op in case["ops"]:
            if "decl" in op:
                declared[op["decl"]] = declare(classes, op["cls"])
                outs.append("decl")
            elif "use" in op:
                # a conversion through a consumer declared earlier in the history (library registry only)
                try:
                    r = declared[op["use"]][(op["kind"], op["t"])]()
                    outs.append(r[1] if isinstance(r, tuple) and len(r) == 2 and r[0] == "conv" else "other")
                except Exception:
                    outs.append("other")
            elif "res" in op or "resb" in op:
                try:
                    outs.append(ident(resolve(classes[op["res"]]) if "res" in op else base.resolve(classes[op["resb"]])))
                except Exception as e:       # a lookup never raises (a detector's TypeError/ValueError means "no")
                    outs.append("raised:" + type(e).__name__)
            elif "conv" in op:
                # conversion through the public entry point (library registries only)
                try:
                    r = convert(classes[op["conv"]])
                    outs.append(r[1] if isinstance(r, tuple) and len(r) == 2 and r[0] == "conv" else "other")
                except Exception:
                    outs.append("other")
            elif "regb" in op:
                outs.append(do_register(base.register, op["regb"]))
            else:
                outs.append(do_register(register, op["reg"]))
        return {"outs": outs}
    finally:
        if saved is not None:
            reg._registry = list(saved)
            reg._cache.clear()


# ---- specification, written from the property text: the oracle for the real code ------------------------------------
# "the converter used for a type is the matching registration with the highest priority, the most recent one winning
#  ties, where matching follows the registration's own criteria (exact class, subclass, metaclass, attribute,
#  detector)"; a registration the registry refuses (nothing to match by, a non-class, a non-string attribute name, a
#  target that is not callable) is an error and changes nothing; a class carrying the registry's shortcut attribute
#  brings its own converter; when nothing matches, the base registry (else the default) decides.

def accepts(tb, r, t):
    if r.get("custom") is not None:
        # a custom detector is the whole criterion (base.py:50 does not look at the other arguments); raising = no
        return [r["custom"], t, 1] in tb["custom"]
    cs = r["classes"]
    if cs:
        if r["sub"]:
            if not any([t, c] in tb["issub"] for c in cs):
                return False
        elif t not in cs:
            return False
    if r.get("meta") is not None and [t, r["meta"]] not in tb["isinst"]:
        return False
    a = r.get("attr")
    if a is not None and a >= 0 and [t, a] not in tb["hasattr"]:
        return False
    return True


def valid_target(case, f, own=True):
    """does the registry's validator accept converter number f (0 = not callable)"""
    if f <= 0:
        return False
    return f % 2 == 1 if (own and case.get("validator") == "odd") else True


def well_formed(r, case=None, own=True):
    if not valid_target(case or {}, r["fn"], own):
        return False
    if r.get("custom") is not None:
        return True
    a = r.get("attr")
    if not r["classes"] and a in (None, -2) and r.get("meta") is None:
        return False
    if any(c < 0 for c in r["classes"]) or a == -1:
        return False
    return True


def chosen(tb, regs, t):
    """the accepting registration of highest priority, the latest among equals; None when nothing accepts"""
    cands = [(r["prio"], i) for i, r in enumerate(regs) if accepts(tb, r, t)]
    return regs[max(cands)[1]] if cands else None


def lib_regs(tb):
    return [{"custom": k, "classes": [], "sub": True, "fn": f, "prio": p} for k, f, p in tb.get("lib", [])]


def eff_shortcut(tb, pairs, case=None, own=True):
    """the classes that carry a shortcut attribute the registry's validator accepts: the class it was set on and its
    subclasses (a class attribute is inherited); a non-callable attribute (f < 0) is no shortcut; a registry without a
    shortcut attribute name ignores them all"""
    if own and (case or {}).get("noshortcut"):
        return {}
    return {t: f for c, f in pairs if valid_target(case or {}, f, own) for t in range(NT) if [t, c] in tb["issub"]}


def spec_run(case, tb):
    mode = case.get("mode", "fresh")
    regs, bregs = list(lib_regs(tb)), []
    shortcut = eff_shortcut(tb, case.get("shortcut", []), case)
    b = case.get("base") or None
    bshort = eff_shortcut(tb, (b or {}).get("shortcut", []), case, own=False)
    outs = []

    def base_answer(t):
        if t in bshort:
            return bshort[t]
        e = chosen(tb, bregs, t)
        return e["fn"] if e else b.get("default")

    for op in case["ops"]:
        if "decl" in op:
            outs.append("decl")        # declaring a class or a function registers nothing and converts nothing
            continue
        if "reg" in op or "regb" in op:
            r = op.get("reg") or op.get("regb")
            if well_formed(r, case, own="reg" in op):
                (regs if "reg" in op else bregs).append(r)
                outs.append("ok")
            else:
                outs.append("ERR")
            continue
        if "resb" in op:
            outs.append(base_answer(op["resb"]))
            continue
        # a conversion through a declared consumer is a conversion to that type, made now
        t = op["res"] if "res" in op else op["conv"] if "conv" in op else op["t"]
        if t in shortcut:
            v = shortcut[t]
        else:
            e = chosen(tb, regs, t)
            v = e["fn"] if e else (base_answer(t) if b else (case.get("default") if mode == "fresh" else None))
        outs.append(_conv(v) if ("conv" in op or "use" in op) else v)
    return outs


def _conv(v):
    """a conversion shows which of OUR converters ran; the library's own / none at all are 'other'"""
    return v if isinstance(v, int) and 0 < v < LIB_FN else "other"


def _err(v):
    return "ERR" if v in ("ValueError", "AssertionError", "TypeError") else v


_TABLES = {}


def tables(mode="fresh"):
    """world tables; for the library registries also their own registrations (probed once per run in a worker)"""
    key = mode if mode in ("transformer", "encoder") else "fresh"
    if "fresh" not in _TABLES:
        _TABLES["fresh"] = build_tables()
    if key not in _TABLES:
        p = run_impl("harness.c16:lib_probe", [{"mode": key}], 30.0, jobs=1)[0]
        if not isinstance(p, dict) or "rows" not in p:
            raise RuntimeError(f"cannot probe the library's {key} registry: {p}")
        t = {k: list(v) for k, v in _TABLES["fresh"].items()}
        relevant = sorted({k for k, _t, v in p["rows"] if v == 1})
        t["custom"] = t["custom"] + [row for row in p["rows"] if row[0] in relevant]
        t["lib"] = [[k, LIB_FN + (k - LIB_DET), p["prios"][k - LIB_DET]] for k in relevant]
        t["lib_meta"] = {k: p[k] for k in ("shortcut", "cache", "base", "default")}
        _TABLES[key] = t
    return _TABLES[key]


def gen_reg(rng, fn, bad_ok=True):
    r = {"fn": fn, "prio": rng.choice([0, 0, 0, 0, 1, 1, 2, -1, -1, -2, 5]), "meta": None, "attr": None, "custom": None}
    k = rng.random()
    if k < 0.14:
        r.update(custom=rng.randrange(3), classes=[], sub=None)
        if rng.random() < 0.3:
            # a detector together with other arguments: the detector alone decides; the others are not even checked
            r.update(classes=[rng.choice([-1] + list(range(NCLS)))], sub=rng.random() < 0.5)
            if rng.random() < 0.3:
                r["attr"] = rng.choice([0, 1, -1])
        return r
    ncl = rng.choice([0, 1, 1, 1, 1, 2])
    r["classes"] = rng.sample(range(NCLS), ncl)
    r["sub"] = rng.random() < 0.65
    r["meta"] = 0 if rng.random() < (0.6 if ncl == 0 else 0.12) else None
    r["attr"] = rng.randrange(2) if rng.random() < (0.6 if ncl == 0 else 0.12) else None
    if ncl == 0 and r["meta"] is None and r["attr"] is None:
        r["attr"] = rng.randrange(2)
    if ncl and rng.random() < 0.05:
        r["attr"] = -2                      # attr='' is "no attribute criterion"
    if bad_ok and rng.random() < 0.08:
        kind = rng.randrange(5)
        if kind == 0:
            r.update(classes=[], meta=None, attr=rng.choice([None, -2]))     # nothing to match by
        elif kind == 1:
            r["classes"] = r["classes"] + [-1]                               # not a class
            rng.shuffle(r["classes"])
        elif kind == 2:
            r["attr"] = -1                                                   # attribute name is not a string
        elif kind == 3:
            r["fn"] = 0                                                      # target is not callable
        else:
            r.update(classes=[-1], fn=0)                                     # both: the argument check comes first
    return r


def gen_case(rng, maxlen=8, mode=None):
    mode = mode or rng.choices(["fresh", "base", "transformer", "encoder"], [45, 20, 20, 15])[0]
    lib = mode in ("transformer", "encoder")
    tb = tables("fresh")
    n = rng.randint(2, maxlen)
    ops = []
    fid = 100
    resolved = []          # targets already resolved (their answer may sit in a cache)
    directed = rng.random() < 0.7
    for _ in range(n):
        k = rng.random()
        if k < 0.5:
            fid += 1
            key = "regb" if mode == "base" and rng.random() < 0.55 else "reg"
            earlier = [o[key] for o in ops if key in o]
            if earlier and rng.random() < 0.3:
                # the SAME registration signature (criteria and priority) again with another converter, after whatever
                # was registered in between: the latest registration must still win ties
                ops.append({key: dict(rng.choice(earlier), fn=fid)})
            else:
                r = gen_reg(rng, fid, bad_ok=(mode != "base"))
                if directed and resolved and rng.random() < 0.7:
                    # a registration that accepts a class resolved earlier (through a superclass, the exact class, its
                    # metaclass, an attribute or a detector): it must take effect at the next resolve of that class
                    for _try in range(30):
                        if well_formed(r) and any(accepts(tb, r, t) for t in resolved[-3:]):
                            break
                        r = gen_reg(rng, fid, bad_ok=False)
                ops.append({key: r})
        else:
            t = rng.randrange(NT)
            if directed and rng.random() < 0.7:
                regs = [o.get("reg") or o.get("regb") for o in ops if "reg" in o or "regb" in o]
                cand = [x for x in range(NT) if any(well_formed(r) and accepts(tb, r, x) for r in regs[-3:])]
                pool = (resolved[-2:] * 2) + cand
                if pool:
                    t = rng.choice(pool)
            resolved.append(t)
            if lib and t < NCLS and rng.random() < 0.5:
                ops.append({"conv": t})
            elif mode == "base" and rng.random() < 0.3:
                ops.append({"resb": t})
            else:
                ops.append({"res": t})
    if mode == "transformer" and rng.random() < 0.6:
        ops = with_declarations(rng, ops, tb)
    if not any("reg" in o for o in ops):
        ops.insert(0, {"reg": gen_reg(rng, 100, bad_ok=False)})
    ops.append({"res": rng.choice(resolved) if resolved and rng.random() < 0.6 else rng.randrange(NT)})
    case = {"mode": mode, "cache": True if lib else rng.random() < 0.6, "ops": ops}
    if rng.random() < 0.3:
        case["shortcut"] = [[7, 900]] if rng.random() < 0.7 else [[7, -1]]
    if mode == "fresh" and rng.random() < 0.15:
        case["validator"] = "odd"      # even-numbered converters (and the shortcut converter 900) are refused
    if mode == "fresh" and rng.random() < 0.1:
        case["noshortcut"] = True
    if mode in ("fresh", "base") and rng.random() < 0.4:
        case["default"] = 990          # with a base registry the own default is never used (base.py:125-128)
    if mode == "base":
        case["base"] = {"cache": rng.random() < 0.6, "default": 991 if rng.random() < 0.5 else None}
        if rng.random() < 0.3:
            case["base"]["shortcut"] = [[5, 950]] if rng.random() < 0.7 else [[5, -1]]
    return case


def with_declarations(rng, ops, tb):
    """declare consumers (Schema fields, item types, @property returns, dataclass fields, function params / returns)
    somewhere in the history — preferably when a converter for the class is already in force — and convert through them
    after later registrations: a converter remembered per declaration shows as a stale answer"""
    regs_at = [i for i, o in enumerate(ops) if "reg" in o]
    pos = rng.choice(regs_at) + 1 if regs_at and rng.random() < 0.7 else rng.randrange(len(ops) + 1)
    touched = [t for t in range(NCLS) for o in ops if "reg" in o and well_formed(o["reg"]) and accepts(tb, o["reg"], t)]
    pool = (touched * 2 + [8, 9, 8, 9] + list(range(NCLS)))      # 8, 9: the library's own converter exists at declaration
    ts = sorted({rng.choice(pool) for _ in range(rng.randint(1, 3))})
    out = list(ops[:pos]) + [{"decl": 0, "cls": ts}]
    for o in ops[pos:]:
        out.append(o)
        if rng.random() < 0.6:
            out.append({"use": 0, "kind": rng.choice(KINDS), "t": rng.choice(ts)})
    for _ in range(rng.randint(1, 3)):
        out.append({"use": 0, "kind": rng.choice(KINDS), "t": rng.choice(ts)})
    return out


def exhaustive_cases(maxlen):
    """all histories up to maxlen over a reduced alphabet (2 priorities x 3 class choices, 3 resolves)"""
    regs = [{"classes": [c], "sub": s, "prio": p} for c in (0, 1, 2) for s in (True,) for p in (0, 1)]
    ress = [{"res": t} for t in (1, 2, 6)]
    alpha = [("reg", r) for r in regs] + [("res", r) for r in ress]
    out = []
    for L in range(2, maxlen + 1):
        for seq in itertools.product(alpha, repeat=L):
            if seq[-1][0] != "res" or not any(k == "reg" for k, _ in seq):
                continue
            ops, fid = [], 100
            for k, o in seq:
                if k == "reg":
                    fid += 1
                    ops.append({"reg": dict(o, fn=fid, meta=None, attr=None, custom=None)})
                else:
                    ops.append(o)
            for cache in (True, False):
                out.append({"mode": "fresh", "cache": cache, "ops": ops})
    return out


def exhaustive_base_cases():
    """every history of length <= 4 over {own/base registration of class 0 or 2, own/base resolve of class 2}"""
    alpha = [("reg", 0), ("reg", 2), ("regb", 0), ("regb", 2), ("res", 2), ("resb", 2)]
    out = []
    for L in range(2, 5):
        for seq in itertools.product(alpha, repeat=L):
            if seq[-1][0] != "res" or not any(k == "regb" for k, _ in seq):
                continue
            ops, fid = [], 100
            for k, c in seq:
                if k.startswith("reg"):
                    fid += 1
                    ops.append({k: {"classes": [c], "sub": True, "prio": 0, "fn": fid, "meta": None, "attr": None, "custom": None}})
                else:
                    ops.append({k: c})
            for cache, bcache in ((True, True), (False, True), (True, False)):
                out.append({"mode": "base", "cache": cache, "ops": ops, "base": {"cache": bcache, "default": 991}})
    return out


class C16(Check):
    prop = "C16"
    props_modules = ["Utv.Props.C16", "Utv.Lemmas.C16Gen"]
    driver = "C16"
    impl = "harness.c16:impl"
    rule = ("random histories of public calls (len<=8 quick, <=14 thorough) over 10 real classes + 1 non-class target "
            "(diamond, metaclass, attributes, shortcut attribute, str/dict subclasses the library's own converters match): "
            "register(*classes, allow_subclasses, priority, attr, metaclass, detector) incl. detectors that raise, "
            "detector+classes, refused registrations (nothing to match by / non-class / non-str attr / non-callable target), "
            "re-registration of the same signature; resolve / conversion; on a fresh TypeRegistry (cache on/off, default), "
            "on one with a live base registry (registered into and resolved during the history, own cache/default/"
            "shortcut), and on the library's transformer and encoder registries through utype.register_transformer / "
            "register_encoder / type_transform / JSONEncoder.default; in the transformer setting also conversions through consumers "
            "DECLARED during the history (13 kinds: Schema/dataclass field, Optional, List/Dict/Tuple item, nested declared class, "
            "@property return, parsed-function parameter / return, each plain and List[...]) after later registrations; thorough adds every history of length<=5 over a "
            "9-op alphabet and every own/base history of length<=4 over a 6-op alphabet.  non-trivial = contains a resolve "
            "after >=2 accepting registrations or a registration after a resolve of a class it accepts; distinct by the "
            "full history")
    assumptions = ["class world (issubclass/isinstance/hasattr/detector behaviour) is sampled from 11 real targets in T2; the theorems are for every world",
                   "the live base registry and the consumers of a resolution outside base.py (fields, item types, property / function annotations of declared classes) are modelled by hand and tied by T2 only (T1 regenerates register — outer call, detector closure, inner decorator — and resolve)"]
    budget = {"quick": 1500, "thorough": 20000}
    search_budget = {"quick": 4000, "thorough": 40000}

    def cases(self, tier, rng, n):
        out = []
        if tier == "thorough":
            out += exhaustive_cases(5) + exhaustive_base_cases()
        maxlen = 8 if tier == "quick" else 14
        out += [gen_case(rng, maxlen) for _ in range(n)]
        if tier != "thorough":
            out += rng.sample(exhaustive_base_cases(), 150)
        return out

    def model_line(self, case):
        mode = case.get("mode", "fresh")
        t = tables(mode)
        line = {k: t[k] for k in ("issub", "isinst", "hasattr", "custom")}
        fns = {(o.get("reg") or o.get("regb") or {}).get("fn", 0) for o in case["ops"]}
        line["invalid"] = sorted(f for f in fns | {0} if not valid_target(case, f))
        line["cache"] = case["cache"]
        line["shortcut"] = [[a, b] for a, b in eff_shortcut(t, case.get("shortcut", []), case).items()]
        line["fallback"] = []
        line["legacy"] = bool(case.get("legacy"))
        # the model has no per-declaration state: a declaration is nothing, a use is a lookup made at that moment
        ops = [({"res": o["conv"]} if "conv" in o else {"res": o["t"]} if "use" in o else o)
               for o in case["ops"] if "decl" not in o]
        if mode == "base" or case.get("base"):
            b = case["base"]
            line["base"] = {"cache": b.get("cache", False),
                            "shortcut": [[a, c] for a, c in eff_shortcut(t, b.get("shortcut", []), case, own=False).items()],
                            "fallback": [[x, b["default"]] for x in range(NT)] if b.get("default") is not None else []}
        else:
            if mode == "fresh" and case.get("default") is not None:
                line["fallback"] = [[x, case["default"]] for x in range(NT)]
            ops = [{"reg": r} for r in lib_regs(t)] + ops
        line["ops"] = ops
        return line

    def _aligned(self, case, outs, tb):
        """the driver answers one entry per call; drop the library's own registrations in front, show conversions as
        conversions"""
        nlib = 0 if case.get("base") else len(tb.get("lib", []))
        it = iter(outs[nlib:])
        res = []
        for op in case["ops"]:
            if "decl" in op:
                res.append("decl")
                continue
            v = next(it, "missing")
            res.append(_conv(v) if ("conv" in op or "use" in op) else v)
        rest = list(it)
        return res + ([{"extra": rest}] if rest else [])

    def compare(self, case, io, mo):
        if not isinstance(mo, dict) or "model" not in mo:
            return f"driver: {mo}"
        if "outs" not in io:
            return f"impl: {io}"
        model = self._aligned(case, mo["model"], tables(case.get("mode", "fresh")))
        if io["outs"] != model:
            return f"answers differ: impl={io['outs']} model={model}"
        return None

    def spec(self, case, io, mo):
        if "outs" not in io:
            return f"registry operation did not complete: {io}"
        tb = tables(case.get("mode", "fresh"))
        want = spec_run(case, tb)
        if isinstance(mo, dict) and "spec" in mo:
            lean = [_err(v) for v in self._aligned(case, mo["spec"], tb)]
            if lean != want:
                return f"HARNESS: python spec {want} != lean spec {lean}"
        got = [_err(v) for v in io["outs"]]
        if got != want:
            i = next((k for k, (a, b) in enumerate(zip(got, want)) if a != b), min(len(got), len(want)))
            op = case["ops"][i] if i < len(case["ops"]) else None
            g = got[i] if i < len(got) else None
            w = want[i] if i < len(want) else None
            if op and ("reg" in op or "regb" in op):
                return f"call #{i} {json.dumps(op)}: registration answered {g!r} but the property says {w!r}"
            return (f"call #{i} {json.dumps(op)} used converter {g!r} but the registrations made so far select {w!r}")
        return None

    def key(self, case, io):
        tb = tables(case.get("mode", "fresh"))
        regs_seen, resolved, nontrivial = list(lib_regs(tb)), set(), False
        for op in case["ops"]:
            r = op.get("reg") or op.get("regb")
            if r is not None:
                if not well_formed(r, case, own="reg" in op):
                    continue
                if any(accepts(tb, r, t) for t in resolved):
                    nontrivial = True
                regs_seen.append(r)
            elif "decl" in op:
                continue
            else:
                t = op["t"] if "use" in op else next(iter(op.values()))
                resolved.add(t)
                if sum(accepts(tb, r, t) for r in regs_seen) >= 2:
                    nontrivial = True
        return json.dumps(case, sort_keys=True) if nontrivial else None

    def distribution(self, case, io):
        nreg = sum("reg" in o or "regb" in o for o in case["ops"])
        return f"{case.get('mode')}/cache={case['cache']}/regs={nreg}/len={len(case['ops'])}"

    def neighbours(self, case, rng):
        out = []
        ops = case["ops"]
        for i in range(len(ops)):
            if "decl" in ops[i]:
                continue        # uses need their declaration
            out.append(dict(case, ops=ops[:i] + ops[i + 1:] + [{"res": rng.randrange(NT)}]))
        for t in range(NT):
            out.append(dict(case, ops=ops + [{"res": t}]))
        if case.get("mode") in ("fresh", "base"):
            out.append(dict(case, cache=not case["cache"]))
        return out

    def finish_evidence(self, ev, tier):
        ev["coverage"]["exhaustive"] = False
        if tier == "thorough":
            ev["coverage"]["exhaustive_part"] = ("all histories of length<=5 over 6 registrations x 3 resolves x cache on/off; "
                                                 "all own/base histories of length<=4 over 6 ops x 3 cache settings")


CHECK = C16()
