import Utv.Model.C15
import Utv.Util.J
/-! Line-protocol driver for C15: runs the parser model on a schema, and the contract (`conforms`), the Lean
validator and the known-defect predicates on the JSON form of what the real code returned.

Documents arrive in an order-preserving encoding: `{"a":[…]}` = array, `{"o":[[k,v],…]}` = object. -/
open Lean Utv.J Utv.C15
open Utv.JsonSchema (Num Obj Ctx validate lookup)

abbrev MJ := Utv.JsonSchema.Json

partial def dec (j : Json) : MJ :=
  match j with
  | .null => .null
  | .bool b => .bool b
  | .num n => .num ⟨n.mantissa, n.exponent⟩
  | .str s => .str s
  | .arr xs => .arr (xs.toList.map dec)
  | .obj _ =>
    match obj? j "a" with
    | some a => .arr ((arr! a).map dec)
    | none => .obj ((arr! (fld j "o")).map fun p => match arr! p with
      | [k, v] => (str! k, dec v)
      | _ => ("", .null))

partial def enc (j : MJ) : Json :=
  match j with
  | .null => .null
  | .bool b => .bool b
  | .num n => .num ⟨n.mant, n.exp⟩
  | .str s => .str s
  | .arr xs => Json.mkObj [("a", Json.arr (xs.map enc).toArray)]
  | .obj kvs => Json.mkObj [("o", Json.arr (kvs.map fun (k, v) => Json.arr #[Json.str k, enc v]).toArray)]

def primName : Prim → String
  | .null => "NoneType" | .str => "str" | .bool => "bool" | .int => "int" | .float => "float" | .dict => "dict"
  | .list => "list" | .tuple => "tuple" | .decimal => "Decimal" | .sfmt n => n

def opName : Op → String
  | .all => "&" | .any => "|" | .one => "^" | .neg => "~"

def optNumJ : Option Num → Json
  | some n => .num ⟨n.mant, n.exp⟩
  | none => .null

mutual
partial def ofTy (t : Ty) : Json :=
  match t with
  | .any => "any"
  | .anyRule => "rule"
  | .prim p => Json.mkObj [("p", primName p)]
  | .rule b cons => Json.mkObj [("rule", ofTy b), ("cons", Json.arr (cons.map fun (k, v) => Json.arr #[Json.str k, enc v]).toArray)]
  | .arr [] => Json.mkObj [("p", "list")]       -- a Rule over `list` with neither arguments nor constraints reads like `list`
  | .arr args => Json.mkObj [("arr", Json.arr (args.map ofTy).toArray)]
  | .tup items add addTy => Json.mkObj [("tup", Json.arr (items.map ofTy).toArray), ("add", ofAdd add addTy)]
  | .map v => Json.mkObj [("map", ofTy v)]
  | .logic op ts => Json.mkObj [("op", opName op), ("args", Json.arr (ts.map ofTy).toArray)]
  | .data fields add addTy minP maxP =>
    Json.mkObj [("data", Json.arr (fields.map fun f => Json.arr #[Json.str f.attname, Json.str f.name, ofTy f.ty,
                   Json.bool f.required, Json.arr (f.deps.map Json.str).toArray]).toArray),
                ("add", ofAdd add addTy), ("min", optNumJ minP), ("max", optNumJ maxP)]
partial def ofAdd (add : AddK) (addTy : Ty) : Json :=
  match add with
  | .free => "free"
  | .reject => "reject"
  | .typed => ofTy addTy
end

def strs (l : List String) : Json := Json.arr (l.map Json.str).toArray

def tables : Json :=
  Json.mkObj [("CONSTRAINTS_MAP", Json.arr (constraintsMap.map fun (a, b) => Json.arr #[Json.str a, Json.str b]).toArray),
              ("TYPE_CONSTRAINTS_MAP", Json.arr (typeGroups.map fun (a, b) => Json.arr #[strs a, strs b]).toArray),
              ("DEFAULT_CONSTRAINTS_MAP", strs defaultKeywords),
              ("TYPE_KEYWORDS", Json.arr (typeKeywords.map fun (a, b) => Json.arr #[Json.str a, strs b]).toArray),
              ("TYPE_MAP", Json.arr (["null", "string", "boolean", "bool", "object", "array", "integer", "int", "bigint", "number",
                  "float", "decimal", "binary", "ipv4", "ipv6", "date-time", "date", "time", "duration", "uuid", "nope"].map fun n =>
                  Json.arr #[Json.str n, match typeMap n with
                    | some p => Json.arr #[Json.str (primName p), Json.str (primitiveOf p)]
                    | none => Json.null]).toArray),
              ("kwlist", strs pyKeywords)]

def handle (j : Json) : Json :=
  if (obj? j "op").isSome then tables else
  let s := dec (fld j "schema")
  let rows := (arr! (fld j "rx")).map fun r => match arr! r with
    | [p, x, a, b] => ((str! p, str! x), (bool! a, bool! b))
    | _ => (("", ""), (false, false))
  let R : Rx := { search := fun p x => ((rows.lookup (p, x)).map (·.1)).getD false
                  full := fun p x => ((rows.lookup (p, x)).map (·.2)).getD false }
  let C : Ctx := ⟨R.search, fun _ _ => false⟩
  let ident := (arr! (fld j "ident")).map fun r => match arr! r with
    | [k, b] => (str! k, bool! b)
    | _ => ("", false)
  let N : Names := { isIdent := fun k => (ident.lookup k).getD false
                     reserved := (arr! (fld j "reserved")).map str!
                     sfx := fun i => "_" ++ toString i }
  let t := parse N s
  let outs := (arr! (fld j "outs")).map fun o =>
    let x := dec o
    Json.mkObj [("valid", validate C s x),
                ("conforms", match t with
                  | some T => Json.bool (conforms R T x)
                  | none => Json.null),
                ("oneOfAtMost", KnownDefect.oneOfAtMost C s x)]
  let pairs := (arr! (fld j "instances")).map fun o => Json.bool (validate C s (dec o))
  let clash := (arr! (fld j "instances")).map fun o => match t with
    | some T => Json.bool (KnownDefect.memberNameClash N T (dec o))
    | none => Json.bool false
  Json.mkObj [("build", t.isSome),
              ("ty", match t with
                | some T => ofTy T
                | none => Json.null),
              ("fragment", inFragmentW s),
              ("emptyName", KnownDefect.emptyName s),
              ("degenerate", KnownDefect.degenerate s),
              ("defects", match t with
                | some T => strs ((if KnownDefect.maxPropsZero T then ["max-properties-zero"] else []) ++
                                  (if KnownDefect.fmtStrCons T then ["format-string-constraints"] else []) ++
                                  (if KnownDefect.enumBoolNum T then ["enum-bool-number"] else []) ++
                                  (if KnownDefect.tupleRest false T then ["tuple-rest-in-object"] else []) ++
                                  (if KnownDefect.kindMix T then ["conj-converts-kind"] else []))
                | none => Json.arr #[]),
              ("outs", Json.arr outs.toArray),
              ("valid", Json.arr pairs.toArray),
              ("clash", Json.arr clash.toArray)]

def main : IO Unit := serve handle
