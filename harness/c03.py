"""C03 — parsing is idempotent; lax constraints converge in one step.

Same machinery as C02 (T1-generated validators + correspondence), with the lax validators and declarations that use
`Lax(...)`; every accepted value is parsed a second time on the real code.
"""
from __future__ import annotations

import json
import math
from decimal import Decimal

from . import c02
from .c02 import C02, LAXABLE, Undefined, dec2, digit_counts, enc2, sat
from .c02 import decode, encode      # the extended codec (deques, dicts, bytes)

LAX_NAMES = ["lax_" + n for n in LAXABLE]


def impl(case):
    """C02's adapter, plus: a lax validator is applied a second time and followed by its strict form."""
    if case["op"] == "reparse":
        return impl_reparse(case)
    if case["op"] == "copy":
        return impl_copy(case)
    out = c02.impl(case)
    if case["op"] == "validator" and case["name"].startswith("lax_") and "ok" in out:
        from utype.parser.rule import Constraints
        r, b = decode(out["ok"]), decode(case["bound"])

        def run(name):
            try:
                return {"ok": encode(getattr(Constraints, name)(r, b))}
            except RecursionError:
                return {"err": "RecursionError"}
            except Exception as e:
                return {"err": type(e).__name__}
        out["again"] = run(case["name"])
        out["strict"] = run(case["name"][4:])
    return out


# ------------------------------------------------------------------------------------------------
# op "reparse": whole-type idempotence on the real code — logical combinations (| ^ & ~ of rules and builtins), nested
# generics (List/Set/Tuple/Dict/Optional of rules) and data classes (Schema and DataClass: defaults of every container
# kind incl. nested tuples/sets/dicts, default factories, aliases, no_output, nested data classes), each under several
# Options.  The result of the first parse is parsed again, as the instance it is and (data classes) as a plain dict of
# its data; both must succeed and be equal to the first result including the container TYPE at every level.
# op "copy": utils.functional.copy_value against the T1-generated model (container class and == at every level).
# ------------------------------------------------------------------------------------------------

def deep(v):
    """type-exact structural description of a result (for comparison and for the replay)"""
    cls = type(v)
    if hasattr(cls, "__parser__"):
        data = dict(v) if isinstance(v, dict) else {k: x for k, x in vars(v).items() if not k.startswith("__")}
        return {"K": cls.__name__, "m": sorted(([deep(k), deep(x)] for k, x in data.items()), key=lambda p: json.dumps(p[0], sort_keys=True))}
    if isinstance(v, dict):
        return {"D": cls.__name__, "m": sorted(([deep(k), deep(x)] for k, x in v.items()), key=lambda p: json.dumps(p[0], sort_keys=True))}
    if cls in (list, tuple):
        return {"l" if cls is list else "t": [deep(x) for x in v]}
    if cls in (set, frozenset):
        return {"S" if cls is set else "F": sorted((deep(x) for x in v), key=lambda x: json.dumps(x, sort_keys=True))}
    e = encode(v)
    if isinstance(e, dict) and "o" in e:
        return {"o": cls.__name__, "repr": repr(v)[:80]}
    return e


def deep_equal(a, b) -> bool:
    """equal as Python values (==, NaN = NaN) with the same container class at every level"""
    ca, cb = type(a), type(b)
    if hasattr(ca, "__parser__") or hasattr(cb, "__parser__"):
        if ca is not cb:
            return False
        da = dict(a) if isinstance(a, dict) else {k: x for k, x in vars(a).items() if not k.startswith("__")}
        db = dict(b) if isinstance(b, dict) else {k: x for k, x in vars(b).items() if not k.startswith("__")}
        return deep_equal(da, db)
    if isinstance(a, dict) or isinstance(b, dict):
        if ca is not cb or len(a) != len(b):
            return False
        for k in a:
            if k not in b or not deep_equal(a[k], b[k]):
                return False
        return True
    if ca in (list, tuple) or cb in (list, tuple):
        return ca is cb and len(a) == len(b) and all(deep_equal(x, y) for x, y in zip(a, b))
    if ca in (set, frozenset) or cb in (set, frozenset):
        try:
            return ca is cb and a == b
        except Exception:
            return False
    try:
        return bool(a == b) or bool(a != a and b != b)
    except Exception:
        return False


FACTORIES = {"list": list, "dict": dict, "set": set, "tuple": tuple, "pair": lambda: (0, 1), "nested": lambda: [("a", 1)],
             "frozenset": frozenset}


def build_ann(t, env):
    """type descriptor -> annotation (typing generics / utype types / data classes)"""
    import typing
    from utype.parser.rule import LogicalType, Rule
    if "b" in t:
        return {"Any": typing.Any, "NoneType": type(None), "dict": dict}.get(t["b"]) or c02.CLS_BY_NAME[t["b"]]
    if "r" in t:
        r = t["r"]
        return Rule.annotate(c02.CLS_BY_NAME[r["origin"]], constraints={k: decode(b) for k, b in r["cs"]})
    if "dc" in t:
        return env[t["dc"]]
    if "cr" in t:
        c = t["cr"]
        origin = c02.ORIGINS[c["origin"]]
        args = [resolve_type(build_ann(a, env)) for a in c["args"]]
        cons = cr_constraints(c, env)
        if c.get("how") == "class":
            attrs = dict(cons, __args__=tuple(args))
            if c.get("ellipsis"):
                attrs["__ellipsis_args__"] = True
            return type("C", (origin, Rule), attrs)
        return Rule.annotate(origin, *(args + ([...] if c.get("ellipsis") else [])), constraints=cons)
    if "g" in t:
        args = [build_ann(a, env) for a in t["args"]]
        g = t["g"]
        if g == "List":
            return typing.List[args[0]]
        if g == "Set":
            return typing.Set[args[0]]
        if g == "FrozenSet":
            return typing.FrozenSet[args[0]]
        if g == "TupleE":
            return typing.Tuple[args[0], ...]
        if g == "Tuple":
            return typing.Tuple[tuple(args)]
        if g == "Dict":
            return typing.Dict[args[0], args[1]]
        if g == "Optional":
            return typing.Optional[args[0]]
        if g == "Union":
            return typing.Union[tuple(args)]
        raise ValueError(g)
    if "c" in t:
        args = [resolve_type(build_ann(a, env)) for a in t["args"]]
        op = t["c"]
        if t.get("via") == "call" or not isinstance(args[0], (LogicalType,)) and not hasattr(args[0], "__parser__"):
            f = {"|": LogicalType.any_of, "^": LogicalType.one_of, "&": LogicalType.all_of}.get(op)
            return LogicalType.not_of(args[0]) if op == "~" else f(*args)
        if op == "~":
            return ~args[0]
        acc = args[0]
        for a in args[1:]:
            acc = (acc | a) if op == "|" else (acc ^ a) if op == "^" else (acc & a)
        return acc
    raise ValueError(t)


def cr_constraints(c, env):
    cons = {k: decode(b) for k, b in c.get("cs", [])}
    ct = c.get("contains")
    if ct:
        cons["contains"] = resolve_type(build_ann(ct["t"], env))
        if ct.get("min") is not None:
            cons["min_contains"] = ct["min"]
        if ct.get("max") is not None:
            cons["max_contains"] = ct["max"]
    return cons


G_ORIGIN = {"List": "list", "Set": "set", "FrozenSet": "frozenset", "TupleE": "tuple", "Tuple": "tuple", "Dict": "dict"}


def field_node(f):
    """the type a field's values are parsed by: its annotation, together with the constraints given to Field(...)"""
    if f.get("fcs") and "g" in f["type"] and f["type"]["g"] in G_ORIGIN:
        g = f["type"]["g"]
        return {"cr": dict(f["fcs"], origin=G_ORIGIN[g], args=f["type"]["args"], ellipsis=(g == "TupleE"))}
    return f["type"]


def resolve_type(ann):
    from utype.parser.rule import Rule
    r = Rule.parse_annotation(ann)
    return r if r is not None else ann


def build_classes(case):
    import utype
    env = []
    for i, k in enumerate(case.get("classes", [])):
        anns, attrs = {}, {"__module__": __name__}
        for f in k["fields"]:
            if "prop" in f:
                # a getter-only @property with a return annotation: an OUTPUT of the class that is not an input
                def getter(self, _v=dec2(f["prop"])):
                    return _v
                getter.__annotations__ = {"return": build_ann(f["type"], env)}
                getter.__name__ = f["name"]
                attrs[f["name"]] = property(getter)
                continue
            anns[f["name"]] = build_ann(f["type"], env)
            kw = {}
            if f.get("discriminator"):
                kw["discriminator"] = f["discriminator"]
            if "default" in f:
                kw["default"] = dec2(f["default"])
            if f.get("factory"):
                kw["default_factory"] = FACTORIES[f["factory"]]
            for key in ("alias", "alias_from", "no_output", "no_input", "required", "case_insensitive", "on_error", "defer_default"):
                if f.get(key) is not None:
                    kw[key] = f[key]
            if f.get("fcs"):
                kw.update(cr_constraints(f["fcs"], env))
            if "const" in f:
                kw["const"] = dec2(f["const"])
            if list(kw) == ["default"] and not f.get("as_field"):
                attrs[f["name"]] = kw["default"]          # plain class-level default
            elif kw:
                attrs[f["name"]] = utype.Field(**kw)
        attrs["__annotations__"] = anns
        if k.get("options"):
            attrs["__options__"] = utype.Options(**k["options"])
        base = utype.Schema if k["kind"] == "Schema" else utype.DataClass
        env.append(type(k["name"], (base,), attrs))
    return env


def _data_of(inst):
    return dict(inst) if isinstance(inst, dict) else {k: x for k, x in vars(inst).items() if not k.startswith("__")}


class _Reparse:
    """the re-parse experiment on the real code, plus the location of the sub-type at which a result stops being a fixed
    point and — for the logical combinators — what their *documented algorithm* predicts from the real parsers of the arms"""

    def __init__(self, case):
        import utype
        self.u = utype
        self.case = case
        self.env = build_classes(case)
        self.T = resolve_type(build_ann(case["type"], self.env))
        self.opts = utype.Options(**case["options"]) if case.get("options") else None
        self.is_dc = hasattr(self.T, "__parser__")

    def run(self, f):
        from utype.utils.exceptions import ParseError
        try:
            return ("ok", f())
        except ParseError as e:
            return ("perr", type(e).__name__)
        except RecursionError:
            return ("escape", "RecursionError")
        except Exception as e:
            return ("escape", type(e).__name__)

    def top(self, x):
        from collections.abc import Mapping
        if self.is_dc and self.case.get("entry") == "from" and (isinstance(x, Mapping) or not isinstance(x, self.T)):
            return self.T.__from__(x, options=self.opts)    # (an instance of a non-dict DataClass is not *data* for __from__)
        return self.u.type_transform(x, self.T, options=self.opts)

    def sub(self, t, x, eff):
        T = resolve_type(build_ann(t, self.env))
        return self.run(lambda: self.u.type_transform(x, T, options=eff))

    def keeps(self, t, x, eff):
        k, r = self.sub(t, x, eff)
        return k == "ok" and deep_equal(x, r) and deep_equal(r, x)

    # -- documented algorithms of the combinators over the real arm parsers (rule.py logical_parse) ------------
    def predict(self, t, x, eff):
        u = self.u
        base = eff or u.Options()
        op = "|" if t.get("g") in ("Optional", "Union") else t["c"]
        arms = list(t["args"]) + ([{"b": "NoneType"}] if t.get("g") == "Optional" else [])
        if op == "&":
            cur = x
            for a in arms:
                k, cur = self.sub(a, cur, eff)
                if k != "ok":
                    return ("fail", None)
            return ("ok", cur)
        if op == "~":
            k, _ = self.sub(arms[0], x, eff)
            return ("fail", None) if k == "ok" else ("ok", x)
        if op == "^":
            got = [r for k, r in (self.sub(a, x, eff) for a in arms) if k == "ok"]
            return ("ok", got[0]) if len(got) == 1 else ("fail", None)
        # "|": exact type, strict, no-loss, lenient
        built = [resolve_type(build_ann(a, self.env)) for a in arms]
        for T in built:
            if type(x) == T:
                return ("ok", x)
        stages = []
        if not base.no_data_loss or not base.no_explicit_cast:
            stages.append(base & u.Options(no_data_loss=True, no_explicit_cast=True))
        if not base.no_data_loss and not base.no_explicit_cast:
            stages.append(base & u.Options(no_data_loss=True))
        stages.append(base)
        for st in stages:
            for T in built:
                k, r = self.run(lambda: u.type_transform(x, T, options=st))
                if k == "ok":
                    return ("ok", r)
        return ("fail", None)

    def locate(self, t, r, eff, top=False):
        """the innermost sub-type / sub-value at which `r` is not a fixed point; None if it is one"""
        if top:
            k, r2 = self.run(lambda: self.top(r))
        else:
            k, r2 = self.sub(t, r, eff)
        if k == "ok" and deep_equal(r, r2) and deep_equal(r2, r):
            return None
        here = {"node": t, "value": deep(r), "observed": {k: deep(r2) if k == "ok" else r2}}
        if "dc" in t:
            K = self.env[t["dc"]]
            if type(r) is K:
                inner = self.opts if (top and self.case.get("entry") == "from" and self.opts is not None) else K.__options__
                desc = self.case["classes"][t["dc"]]
                data = _data_of(r)
                missing = [f.attname for f in K.__parser__.fields.values()
                           if f.field.no_output and f.field.required is True and f.name not in data and f.attname not in data]
                if missing and k != "ok":
                    return dict(here, kind="dc", dropped_required_no_output=missing)
                for name, f in K.__parser__.fields.items():
                    fd = next((x for x in desc["fields"] if x["name"] == f.attname), None)
                    if fd is None:
                        continue
                    for key in (f.name, f.attname):
                        if key in data:
                            c = self.locate(field_node(fd), data[key], inner)
                            tolerant = (f.field.on_error or getattr(inner, "invalid_values", None)) in ("preserve",)
                            if c and not (tolerant and "ok" not in c.get("observed", {})):
                                # (a value the field keeps although its type rejects it — on_error / invalid_values
                                # 'preserve' — is rejected and kept again: a fixed point of the field; with 'exclude' the
                                # field is dropped or defaulted instead, so the field type's behaviour is the cause)
                                return c
                            break
                return dict(here, kind="dc", dropped_required_no_output=missing)
            return dict(here, kind="dc-foreign")
        if "cr" in t:
            c = t["cr"]
            if type(r) is c02.ORIGINS[c["origin"]]:
                a = c["args"]
                if c["origin"] == "dict" and len(a) == 2:
                    pairs = [(a[0], k_) for k_ in r] + [(a[1], v_) for v_ in r.values()]
                elif c["origin"] == "tuple" and not c.get("ellipsis"):
                    pairs = list(zip(a, r))
                else:
                    pairs = [(a[0], x) for x in r]
                for st, sv in pairs:
                    cc = self.locate(st, sv, eff)
                    if cc:
                        return cc
            return dict(here, kind="container-rule")
        if "g" in t and t["g"] in ("List", "Set", "FrozenSet", "TupleE", "Tuple", "Dict"):
            want = {"List": list, "Set": set, "FrozenSet": frozenset, "TupleE": tuple, "Tuple": tuple, "Dict": dict}[t["g"]]
            if type(r) is want:
                if t["g"] == "Dict":
                    pairs = [(t["args"][0], k_) for k_ in r] + [(t["args"][1], v_) for v_ in r.values()]
                elif t["g"] == "Tuple":
                    pairs = list(zip(t["args"], r))
                else:
                    pairs = [(t["args"][0], x) for x in r]
                for st, sv in pairs:
                    c = self.locate(st, sv, eff)
                    if c:
                        return c
            return dict(here, kind="generic")
        if "c" in t or t.get("g") in ("Optional", "Union"):
            arms = list(t["args"]) + ([{"b": "NoneType"}] if t.get("g") == "Optional" else [])
            op = "|" if "g" in t else t["c"]
            keepers = [i for i, a in enumerate(arms) if self.keeps(a, r, eff)]
            pk, pv = self.predict(t, r, eff)
            agrees = (pk == "fail" and k != "ok") or (pk == "ok" and k == "ok" and deep_equal(pv, r2) and deep_equal(r2, pv))
            me = dict(here, kind="comb", op=op, keepers=keepers, last_arm_keeps=(len(arms) - 1) in keepers,
                      algorithm_agrees=bool(agrees))
            if not keepers:
                # no arm hands `r` back: `r` came out of an arm that is itself not idempotent on it — look inside the arms,
                # preferring a location that its own algorithm explains
                deeper = [c for c in (self.locate(a, r, eff) for a in arms) if c]
                for c in deeper:
                    if c.get("kind") == "comb" and c.get("keepers") and c.get("algorithm_agrees"):
                        return c
            return me
        return dict(here, kind="leaf")


def _crmodel(R, case):
    """for a top-level container rule (one item type, sequence origin, default options): the input items as the real item
    type converts them one by one, and which converted items the contains type takes — the Lean model packs and checks"""
    import utype
    t = case["type"]
    if "cr" not in t or case.get("options") or t["cr"]["origin"] == "dict" or len(t["cr"]["args"]) != 1:
        return {}
    c = t["cr"]
    raw = dec2(case["input"])
    if not isinstance(raw, (list, tuple, set, frozenset)):
        return {}
    if c["origin"] in ("set", "frozenset"):
        try:
            raw = c02.ORIGINS[c["origin"]](raw)      # the origin conversion comes first (an unhashable raw item ends it)
        except TypeError:
            return {}
    itemT = resolve_type(build_ann(c["args"][0], R.env))
    conv = []
    for x in raw:
        k, r = R.run(lambda: utype.type_transform(x, itemT))
        if k == "ok" and isinstance(encode(r), dict) and "o" in encode(r):
            return {}
        conv.append(encode(r) if k == "ok" else None)
    contains = None
    if c.get("contains"):
        cT = resolve_type(build_ann(c["contains"]["t"], R.env))
        acc = []
        for e in conv:
            if e is not None:
                k, _ = R.run(lambda: utype.type_transform(decode(e), cT))
                acc.append([e, k == "ok"])
        contains = {"acc": acc, "min": c["contains"].get("min"), "max": c["contains"].get("max")}
    return {"crmodel": {"op": "crule", "origin": c["origin"], "converted": conv, "cs": c["cs"], "contains": contains}}


def impl_reparse(case):
    import warnings
    warnings.simplefilter("ignore")
    import utype
    try:
        R = _Reparse(case)
    except Exception as e:
        return {"decl": type(e).__name__}
    out = {"decl": "ok"}
    k1, first = R.run(lambda: R.top(dec2(case["input"])))
    out["first"] = {k1: deep(first) if k1 == "ok" else first}
    if k1 != "ok":
        try:
            out.update(_crmodel(R, case))
        except Exception:
            pass
        return out
    # conformance of the declared defaults with their field types (a precondition on the declaration, measured on
    # the *declared* default, not on what the parse copied out of it)
    bad = []
    for K in R.env:
        for name, f in K.__parser__.fields.items():
            d = f.field.default
            if f.field.default_factory:
                try:
                    d = f.field.default_factory()
                except Exception:
                    continue
            elif utype.unprovided(d):
                continue
            if f.type is None:
                continue
            # the options the fields of K are parsed under: K's own, except at the top level of a `__from__` call
            # with explicit runtime options (these replace the class's, cls.py init_dataclass)
            eff = R.opts if (K is R.T and case.get("entry") == "from" and R.opts is not None) else K.__options__
            k, r = R.run(lambda: utype.type_transform(d, f.type, options=eff))
            if not (k == "ok" and deep_equal(r, d) and deep_equal(d, r)):
                bad.append(f"{K.__name__}.{name}")
    out["nonconforming_defaults"] = bad
    k2, second = R.run(lambda: R.top(first))
    out["second"] = {k2: deep(second) if k2 == "ok" else second}
    out.update(_crmodel(R, case))
    if k2 == "ok":
        out["second_equal"] = deep_equal(first, second) and deep_equal(second, first)
    if k2 != "ok" or not out["second_equal"]:
        try:
            out["culprit"] = R.locate(case["type"], first, R.opts, top=True)
        except Exception as e:
            out["culprit"] = {"kind": "locate-failed", "exc": type(e).__name__}
    if R.is_dc:
        plain = _data_of(first)
        k3, third = R.run(lambda: R.top(plain))
        out["plain"] = {k3: deep(third) if k3 == "ok" else third}
        if k3 == "ok":
            out["plain_equal"] = deep_equal(first, third) and deep_equal(third, first)
        if (k3 != "ok" or not out["plain_equal"]) and "culprit" not in out:
            # the instance is a fixed point but its data is not: look for the field whose value does not re-parse
            try:
                K = R.T
                inner = R.opts if (case.get("entry") == "from" and R.opts is not None) else K.__options__
                desc = case["classes"][case["type"]["dc"]]
                cul = None
                missing = [f.attname for f in K.__parser__.fields.values()
                           if f.field.no_output and f.field.required is True and f.name not in plain and f.attname not in plain]
                for name, f in K.__parser__.fields.items():
                    if missing and k3 != "ok":
                        break
                    fd = next((x for x in desc["fields"] if x["name"] == f.attname), None)
                    for key in (f.name, f.attname):
                        if fd and key in plain:
                            cul = R.locate(field_node(fd), plain[key], inner)
                            tolerant = (f.field.on_error or getattr(inner, "invalid_values", None)) in ("preserve",)
                            if cul and tolerant and "ok" not in cul.get("observed", {}):
                                cul = None
                            break
                    if cul:
                        break
                out["culprit"] = cul or {"kind": "dc", "node": case["type"], "value": deep(first), "observed": out["plain"],
                                         "dropped_required_no_output": missing}
            except Exception as e:
                out["culprit"] = {"kind": "locate-failed", "exc": type(e).__name__}
    return out


def impl_copy(case):
    from utype.utils.functional import copy_value
    v = dec2(case["value"])
    try:
        r = copy_value(v)
    except Exception as e:
        return {"err": type(e).__name__}
    fresh = True
    if isinstance(v, (list, dict, set)) and r is v:
        fresh = False
    return {"ok": enc2(r), "equal": deep_equal(v, r) and deep_equal(r, v), "fresh": fresh}


# ---- generators for the reparse stream -----------------------------------------------------------------------

LEAF_RULES = [
    {"origin": "int", "cs": [["gt", 0]]},
    {"origin": "int", "cs": [["ge", 0], ["le", 10]]},
    {"origin": "int", "cs": [["multiple_of", 5]]},
    {"origin": "int", "cs": [["const", 1]]},
    {"origin": "str", "cs": [["max_length", 3]]},
    {"origin": "str", "cs": [["regex", "[a-z]+"]]},
    {"origin": "str", "cs": [["regex", r"\d\.\d"]]},
    {"origin": "str", "cs": [["enum", ["a", "b"]]]},
    {"origin": "float", "cs": [["ge", 0.5]]},
    {"origin": "Decimal", "cs": [["max_digits", 4], ["decimal_places", 2]]},
    {"origin": "Decimal", "cs": [["decimal_places", 2]]},
    {"origin": "list", "cs": [["max_length", 3]]},
    {"origin": "list", "cs": [["unique_items", True]]},
    {"origin": "tuple", "cs": [["min_length", 1]]},
]
LEAF_POOL = {
    "int": [-3, -1, 0, 1, 2, 3, 5, 7, 10, 11, 15, 100],
    "str": ["", "a", "b", "ab", "abc", "abcd", "A", "1.5", "3", "12", "x1", "1e0", "true", "-5", "0.50"],
    "float": [0.0, 0.5, 0.25, 1.0, 1.5, -2.0, 3.0, 10.0, 1e3],
    "Decimal": [Decimal(x) for x in ["0", "0.5", "1.50", "12.34", "123.456", "99.99", "1000", "-1.5", "7"]],
    "bool": [True, False],
    "list": [[], [1], [1, 2], [1, 1], ["a", "b", "c", "d"], [1, "1"], [[1], [2]]],
    "tuple": [(), (1,), (1, 2), ("a", 1)],
}
GARBAGE = ["zz", None, [], {}, 1.5, "1,2", [1, "x"], {"k": 1}, True, "", (1, 2), "null", "[1, 2]", '{"a": 1}']
OPTION_MENU = [
    {"no_explicit_cast": True}, {"no_data_loss": True}, {"invalid_items": "exclude"}, {"invalid_items": "preserve"},
    {"invalid_values": "preserve"}, {"invalid_values": "exclude"}, {"invalid_keys": "exclude"}, {"invalid_keys": "preserve"},
    {"addition": True}, {"addition": False}, {"ignore_required": True}, {"no_default": True}, {"case_insensitive": True},
    {"collect_errors": True}, {"ignore_constraints": True}, {"data_first_search": True},
    {"no_data_loss": True, "no_explicit_cast": True}, {"max_depth": 4}, {"unresolved_types": "ignore"},
]
FIELD_NAMES = ["a", "b", "name", "Val", "elems", "x_y", "n", "tags", "lim", "kind"]


def leaf_type(rng, hashable=False):
    k = rng.random()
    if k < 0.5:
        return {"b": rng.choice(["int", "int", "str", "str", "float", "bool", "Decimal"])}
    rules = [r for r in LEAF_RULES if not hashable or r["origin"] not in ("list",)]
    r = rng.choice(rules)
    return {"r": {"origin": r["origin"], "cs": [[k_, encode(b)] for k_, b in r["cs"]]}}


def gen_type(rng, depth, nclasses=0, hashable=False):
    if depth <= 0:
        return leaf_type(rng, hashable)
    k = rng.random()
    sub = lambda h=False: gen_type(rng, depth - 1, nclasses, h)      # noqa
    if hashable:
        if k < 0.6:
            return leaf_type(rng, True)
        if k < 0.8:
            return {"g": "Tuple", "args": [leaf_type(rng, True), leaf_type(rng, True)]}
        return {"g": "TupleE", "args": [leaf_type(rng, True)]}
    if k < 0.2:
        return leaf_type(rng) if rng.random() < 0.7 else {"cr": gen_cr(rng)}
    if k < 0.32:
        return {"g": "List", "args": [sub()]}
    if k < 0.38:
        return {"g": rng.choice(["Set", "Set", "FrozenSet"]), "args": [sub(True)]}
    if k < 0.45:
        return {"g": "TupleE", "args": [sub()]}
    if k < 0.54:
        return {"g": "Tuple", "args": [sub() for _ in range(rng.choice([1, 2, 2, 3]))]}
    if k < 0.62:
        return {"g": "Dict", "args": [rng.choice([{"b": "str"}, {"b": "str"}, {"b": "int"}, leaf_type(rng, True)]), sub()]}
    if k < 0.7:
        return {"g": "Optional", "args": [sub()]}
    if k < 0.77:
        return {"g": "Union", "args": [sub(), sub()] + ([sub()] if rng.random() < 0.25 else [])}
    if k < 0.85:
        return {"c": "|", "args": [sub(), sub()] + ([sub()] if rng.random() < 0.25 else []), "via": rng.choice(["op", "op", "call"])}
    if k < 0.9:
        return {"c": "^", "args": [sub(), sub()], "via": rng.choice(["op", "op", "call"])}
    if k < 0.94:
        return {"c": "&", "args": [sub(), sub()], "via": rng.choice(["op", "op", "call"])}
    if k < 0.96:
        return {"c": "~", "args": [sub()], "via": rng.choice(["op", "call"])}
    if nclasses:
        return {"dc": rng.randrange(nclasses)}
    return leaf_type(rng)


def rule_value(rng, r, exact):
    pool = LEAF_POOL.get(r["origin"], [0])
    cs = [(k, decode(b)) for k, b in r["cs"]]
    good = []
    for x in pool:
        try:
            if c02.accept_cs(cs, x):
                good.append(x)
        except Exception:
            pass
    if good and (exact or rng.random() < 0.8):
        return rng.choice(good)
    return rng.choice(pool)


def gen_value(rng, t, classes, exact, depth=0):
    """exact: an instance of the type (a conforming default); otherwise an input that mostly converts"""
    if not exact and rng.random() < 0.04:
        return rng.choice(GARBAGE)
    if "b" in t:
        b = t["b"]
        if b == "Any":
            return rng.choice([1, "a", [1], None])
        if b == "NoneType":
            return None
        if b == "dict":
            return {"k": 1}
        v = rng.choice(LEAF_POOL[b])
        if exact or rng.random() < 0.55:
            return v
        if b == "int":
            return rng.choice([str(v), float(v), Decimal(v), v, bool(v % 2), str(v) + ".0"])
        if b == "float":
            return rng.choice([str(v), int(v), Decimal(str(v)), v])
        if b == "str":
            return rng.choice([v, 3, 1.5, True, Decimal("1.50"), None])
        if b == "bool":
            return rng.choice(["true", "false", 0, 1, "1", "0", "yes", v])
        if b == "Decimal":
            return rng.choice([str(v), float(v), int(v), v])
        return v
    if "r" in t:
        v = rule_value(rng, t["r"], exact)
        if exact or rng.random() < 0.6:
            return v
        o = t["r"]["origin"]
        if o in ("int", "float", "Decimal"):
            return rng.choice([str(v), float(v) if o != "float" else int(v), v])
        if o == "str":
            return rng.choice([v, 3, 1.5])
        if o == "list":
            return rng.choice([tuple(v), v, ",".join(map(str, v))])
        if o == "tuple":
            return rng.choice([list(v), v])
        return v
    if "dc" in t:
        return gen_dc_input(rng, classes[t["dc"]], classes, depth + 1)
    if "cr" in t:
        c = t["cr"]
        if exact:
            # an instance: distinct items of the item type, as many as the length bounds ask for
            n = max([decode(b) for k, b in c["cs"] if k in ("min_length", "length")] + [(c.get("contains") or {}).get("min") or 1, 1])
            fams = COLLIDE.get(item_origin(c["args"][0]), [[1]])
            items = [fam[0] for fam in fams[:n]]
            if c["origin"] == "dict":
                vf = COLLIDE.get(item_origin(c["args"][1]), [[1]])
                return {x: vf[0][0] for x in items}
            return c02.ORIGINS[c["origin"]](items)
        return gen_cr_input(rng, c)
    if "g" in t:
        g, a = t["g"], t["args"]
        sub = lambda x: gen_value(rng, x, classes, exact, depth + 1)      # noqa
        n = rng.choice([0, 1, 2, 2, 3]) if depth < 3 else rng.choice([0, 1])
        if g in ("List", "Set", "FrozenSet", "TupleE"):
            items = [sub(a[0]) for _ in range(n)]
            want = {"List": list, "Set": set, "FrozenSet": frozenset, "TupleE": tuple}[g]
            if not exact and rng.random() < 0.35:
                want = rng.choice([list, tuple])
            try:
                return want(items)
            except TypeError:
                return list(items)
        if g == "Tuple":
            items = [sub(x) for x in a]
            if not exact and rng.random() < 0.1:
                items = items[:-1] if rng.random() < 0.5 else items + [1]
            return tuple(items) if exact or rng.random() < 0.6 else list(items)
        if g == "Dict":
            out = {}
            for _ in range(n):
                try:
                    out[gen_value(rng, a[0], classes, exact, depth + 1)] = sub(a[1])
                except TypeError:
                    pass
            return out
        if g == "Optional":
            return None if rng.random() < 0.3 else sub(a[0])
        if g == "Union":
            return sub(rng.choice(a) if not exact else a[0])
    if "c" in t:
        a = t["args"]
        if t["c"] in ("|", "^"):
            return gen_value(rng, rng.choice(a) if not exact else a[0], classes, exact, depth + 1)
        if t["c"] == "&":
            return gen_value(rng, a[0], classes, exact, depth + 1)
        return rng.choice([1, "a", 2.5, [1], None, "abc", -1, {"k": 1}]) if rng.random() < 0.6 else gen_value(rng, a[0], classes, exact, depth + 1)
    return None


# ---- container rules: an origin container with item types AND length / unique / contains constraints, on inputs whose items
# become equal by conversion (1 and '1', 1 and 1.0, True and 1, 'a' and b'a') or whose keys collide after conversion

COLLIDE = {
    "int": [[1, "1", 1.0, True, Decimal("1")], [2, "2", 2.0, Decimal("2")], [0, False, "0", 0.0], [7, "7"], [-3, "-3", -3.0]],
    "float": [[1.0, 1, "1", "1.0", True], [0.5, "0.5", Decimal("0.5")], [2.0, 2, "2"], [0.0, 0, False, "0"]],
    "Decimal": [[Decimal("1"), 1, "1", Decimal("1.0"), "1.0"], [Decimal("1.5"), "1.5", "1.50", 1.5], [Decimal("0"), 0, "0"]],
    "str": [["a", b"a"], ["1", 1], ["1.5", 1.5, Decimal("1.5")], ["True", True], ["ab", b"ab"], ["abcd"]],
    "bool": [[True, 1, "true", "1"], [False, 0, "false", "0"]],
}
CR_ITEM_TYPES = [{"b": "int"}, {"b": "int"}, {"b": "str"}, {"b": "float"}, {"b": "Decimal"}, {"b": "bool"},
                 {"r": {"origin": "int", "cs": [["ge", {"i": "0"}]]}}, {"r": {"origin": "str", "cs": [["max_length", {"i": "3"}]]}}]


def item_origin(t):
    return t["b"] if "b" in t else t["r"]["origin"]


def gen_cr(rng):
    origin = rng.choice(["set", "set", "frozenset", "list", "tuple", "dict"])
    it = rng.choice(CR_ITEM_TYPES)
    c = {"origin": origin, "args": [it], "ellipsis": origin == "tuple", "cs": [], "contains": None,
         "how": rng.choice(["annotate", "annotate", "class"])}
    if origin == "dict":
        c["args"] = [rng.choice([{"b": "int"}, {"b": "str"}, {"b": "float"}]), it]
    k = rng.random()
    if k < 0.25:
        c["cs"].append(["length", encode(rng.randint(1, 3))])
    else:
        if rng.random() < 0.7:
            c["cs"].append(["min_length", encode(rng.randint(1, 3))])
        if rng.random() < 0.4:
            lo = decode(c["cs"][0][1]) if c["cs"] else 1
            c["cs"].append(["max_length", encode(lo + rng.randint(0, 2))])
    if origin in ("list", "tuple") and rng.random() < 0.5:
        c["cs"].append(["unique_items", True])
    if origin != "dict" and rng.random() < 0.35:
        ct = it if rng.random() < 0.5 else rng.choice([t for t in CR_ITEM_TYPES if item_origin(t) == item_origin(it)])
        mn = rng.choice([None, 1, 2, 2, 3])
        mx = rng.choice([None, None, 2, 3])
        if mn is not None and mx is not None and mx < mn:
            mn, mx = mx, mn
        c["contains"] = {"t": ct, "min": mn, "max": mx}
    if not c["cs"] and not c["contains"]:
        c["cs"].append(["min_length", encode(2)])
    return c


def gen_cr_input(rng, c):
    """raw items: `d` groups of spellings of the same converted value, so that the converted container has `d` distinct
    items while the input has more; d around the length / contains bounds"""
    key_t = c["args"][0]
    fams = COLLIDE.get(item_origin(key_t), [[1, "1"]])
    bounds = [decode(b) for k, b in c["cs"] if k in ("min_length", "max_length", "length")]
    if c.get("contains"):
        bounds += [x for x in (c["contains"].get("min"), c["contains"].get("max")) if x is not None]
    d = max(0, min(len(fams), rng.choice([b + o for b in (bounds or [2]) for o in (-1, 0, 0, 1)])))
    chosen = rng.sample(fams, d)
    items = []
    for fam in chosen:
        k = rng.choice([1, 2, 2, 3])
        items += rng.sample(fam, min(k, len(fam)))
    rng.shuffle(items)
    if c["origin"] == "dict":
        vt = c["args"][1]
        pool = [x for fam in COLLIDE.get(item_origin(vt), [[1]]) for x in fam[:2]]
        out = {}
        for x in items:
            try:
                out[x] = rng.choice(pool)
            except TypeError:
                pass
        return out
    if rng.random() < 0.08:
        items.append(rng.choice(["zz", None, [1]]))
    want = rng.choice([list, list, tuple])
    return want(items)


def factory_for(rng, t):
    if "g" in t:
        g = t["g"]
        if g == "List":
            a = t["args"][0]
            if a.get("g") == "Tuple" and len(a["args"]) == 2 and a["args"][0] == {"b": "str"} and a["args"][1] == {"b": "int"}:
                return "nested"
            return "list"
        if g == "Dict":
            return "dict"
        if g == "Set":
            return "set"
        if g == "FrozenSet":
            return "frozenset"
        if g == "TupleE":
            return "tuple"
        if g == "Tuple" and t["args"] == [{"b": "int"}, {"b": "int"}]:
            return "pair"
    if t == {"b": "list"}:
        return "list"
    return None


SPECIAL_FIELD_TYPES = [
    {"g": "Tuple", "args": [{"b": "int"}, {"b": "int"}]},
    {"g": "TupleE", "args": [{"b": "str"}]},
    {"g": "List", "args": [{"g": "Tuple", "args": [{"b": "str"}, {"b": "int"}]}]},
    {"g": "Dict", "args": [{"b": "str"}, {"g": "TupleE", "args": [{"b": "int"}]}]},
    {"g": "Dict", "args": [{"b": "str"}, {"g": "Dict", "args": [{"b": "str"}, {"g": "Tuple", "args": [{"b": "int"}, {"b": "str"}]}]}]},
    {"g": "Set", "args": [{"b": "int"}]},
    {"g": "FrozenSet", "args": [{"b": "str"}]},
    {"g": "Set", "args": [{"g": "Tuple", "args": [{"b": "int"}, {"b": "int"}]}]},
    {"g": "Tuple", "args": [{"g": "TupleE", "args": [{"b": "int"}]}, {"g": "Set", "args": [{"b": "str"}]}]},
    {"g": "List", "args": [{"g": "Set", "args": [{"b": "int"}]}]},
    {"g": "Optional", "args": [{"g": "Tuple", "args": [{"b": "int"}, {"b": "int"}]}]},
    {"g": "List", "args": [{"g": "List", "args": [{"b": "int"}]}]},
]


def gen_class(rng, idx, classes):
    kind = rng.choice(["Schema", "Schema", "DataClass"])
    names = rng.sample(FIELD_NAMES, rng.randint(1, 5))
    fields = []
    for nm in names:
        k = rng.random()
        if k < 0.3:
            t = rng.choice(SPECIAL_FIELD_TYPES)
        else:
            t = gen_type(rng, rng.choice([0, 1, 1, 2]), idx)
        f = {"name": nm, "type": t}
        if rng.random() < 0.18:
            # Set[int] / FrozenSet[int] / List[...] / Dict[...] annotation with the constraints given to Field(...)
            c = gen_cr(rng)
            g = {"set": "Set", "frozenset": "FrozenSet", "list": "List", "tuple": "TupleE", "dict": "Dict"}[c["origin"]]
            f["type"] = t = {"g": g, "args": c["args"]}
            f["fcs"] = {"cs": c["cs"], "contains": c["contains"]}
        k = rng.random()
        if k < 0.3 or f.get("fcs"):
            pass                                                   # required
        elif k < 0.65:
            f["default"] = enc2(gen_value(rng, t, classes, True))
            if rng.random() < 0.5:
                f["as_field"] = True
        elif k < 0.85:
            fac = factory_for(rng, t)
            if fac:
                f["factory"] = fac
            else:
                f["default"] = enc2(gen_value(rng, t, classes, True))
                f["as_field"] = True
        else:
            f["required"] = False
        k = rng.random()
        if k < 0.15:
            f["alias"] = "Al" + nm
        elif k < 0.22:
            f["alias_from"] = ["from_" + nm, nm.upper()]
        elif k < 0.3:
            # letters whose caseless form is not their lower-case form (ß, final sigma, dotted İ) — with case_insensitive
            f["alias"] = rng.choice(["Straße", "ΟΔΟΣ", "İd", "MASSE", "ǅem"]) + nm
            if rng.random() < 0.8:
                f["case_insensitive"] = True
            if rng.random() < 0.4:
                f["alias_from"] = ["Weiß" + nm]
        if rng.random() < 0.08:
            f["no_output"] = True
        if rng.random() < 0.05:
            f["case_insensitive"] = True
        if rng.random() < 0.06:
            f["on_error"] = rng.choice(["exclude", "preserve"])
            if f["on_error"] == "exclude" and "default" not in f and not f.get("factory"):
                f["required"] = False
        if rng.random() < 0.07 and ("default" in f or f.get("factory")) and not f.get("no_output"):
            f["no_input"] = True          # an output (its default) that is not an input
        fields.append(f)
    if rng.random() < 0.2:
        pt = leaf_type(rng)
        fields.append({"name": "prop_" + rng.choice(["p", "q"]), "type": pt, "prop": enc2(gen_value(rng, pt, classes, True))})
    out = {"kind": kind, "name": f"K{idx}", "fields": fields}
    if rng.random() < 0.3:
        out["options"] = dict(rng.choice([{"addition": True}, {"addition": False}, {"case_insensitive": True}, {"ignore_required": True},
                                          {"no_default": True}, {"collect_errors": True}, {"invalid_values": "preserve"},
                                          {"invalid_values": "exclude"}, {"data_first_search": True}, {"no_explicit_cast": True},
                                          {"no_data_loss": True}]))
    return out


def gen_dc_input(rng, k, classes, depth=0):
    data = {}
    for f in k["fields"]:
        optional = "default" in f or f.get("factory") or f.get("required") is False
        if ("prop" in f or f.get("no_input")) and rng.random() < 0.9:
            continue
        if rng.random() < (0.45 if optional else 0.04):
            continue
        key = f["name"]
        if f.get("alias") and rng.random() < 0.7:
            key = f["alias"]
        elif f.get("alias_from") and rng.random() < 0.5:
            key = rng.choice(f["alias_from"])
        elif rng.random() < 0.06:
            key = key.upper() if key != key.upper() else key.lower()
        data[key] = gen_value(rng, field_node(f), classes, False, depth + 1)
    if rng.random() < 0.12:
        data[rng.choice(["extra", "zz", "Extra_1"])] = rng.choice([1, "x", [1], None])
    return data


def gen_discriminated(rng):
    """S.item: Union[A, B] = Field(discriminator='kind') with data-class branches A, B (DataClass or Schema; the discriminator
    field of a branch may have an alias); the input selects a branch by its attribute name or by its alias"""
    classes = []
    consts = rng.sample(["a", "b", "c", 1, 2], 2)
    alias = rng.choice([None, None, "k", "Kind"])
    for i, cst in enumerate(consts):
        kf = {"name": "kind", "type": {"b": "str" if isinstance(cst, str) else "int"}, "const": enc2(cst)}
        if alias:
            kf["alias"] = alias
        other = {"name": rng.choice(["x", "y"]) + str(i), "type": leaf_type(rng)}
        if rng.random() < 0.4:
            other["default"] = enc2(gen_value(rng, other["type"], classes, True))
        classes.append({"kind": rng.choice(["DataClass", "Schema"]), "name": f"K{i}", "fields": [kf, other]})
    holder = {"kind": rng.choice(["Schema", "Schema", "DataClass"]), "name": "K2", "fields": [
        {"name": "item", "type": {"g": "Union", "args": [{"dc": 0}, {"dc": 1}]}, "discriminator": "kind"}]}
    if rng.random() < 0.3:
        holder["fields"].append({"name": "n", "type": {"b": "int"}, "default": enc2(1)})
    classes.append(holder)
    i = rng.randrange(2)
    branch = classes[i]
    data = {(alias if alias and rng.random() < 0.5 else "kind"): consts[i] if rng.random() < 0.9 else "zz"}
    of = branch["fields"][1]
    if "default" not in of or rng.random() < 0.6:
        data[of["name"]] = gen_value(rng, of["type"], classes, False)
    return {"op": "reparse", "classes": classes, "type": {"dc": 2},
            "options": dict(rng.choice(OPTION_MENU)) if rng.random() < 0.3 else None,
            "entry": rng.choice(["from", "transform"]), "input": enc2({"item": data})}


def gen_reparse_case(rng):
    if rng.random() < 0.06:
        return gen_discriminated(rng)
    classes = []
    for i in range(rng.choice([0, 1, 1, 1, 2, 2, 3])):
        classes.append(gen_class(rng, i, classes))
    k = rng.random()
    if k < 0.15:
        t = {"cr": gen_cr(rng)}
    elif classes and k < 0.75:
        t = {"dc": len(classes) - 1}
    else:
        t = gen_type(rng, rng.choice([1, 2, 2, 3]), len(classes))
    case = {"op": "reparse", "classes": classes, "type": t,
            "options": dict(rng.choice(OPTION_MENU)) if rng.random() < 0.45 else None,
            "entry": rng.choice(["from", "transform"]),
            "input": enc2(gen_value(rng, t, classes, False))}
    return case


def gen_copy_case(rng):
    t = rng.choice(SPECIAL_FIELD_TYPES) if rng.random() < 0.6 else gen_type(rng, rng.choice([1, 2, 3]), 0)
    v = gen_value(rng, t, [], True)
    k = rng.random()
    if k < 0.06 and isinstance(v, dict):
        v = rng.choice([v.values(), v.keys()])
    elif k < 0.1:
        v = [{"a": (1, [2, {3}])}, ({"b": frozenset({1})},)]
    return {"op": "copy", "value": enc2(v)}


# ------------------------------------------------------------------------------------------------
# the DOCUMENTED semantics of a constrained type's validator phase (docs/en/references/rule.md), frozen here:
# constraints run in the documented order; a strict one checks (c02.sat), a Lax one transforms as documented.  The known
# findings of the "rule" stream are classified against this reference, never against the model regenerated from the
# (possibly changed) source: a finding is "known" only if the real code did exactly what the documented order does.
# ------------------------------------------------------------------------------------------------

DOC_ORDER = ["gt", "ge", "lt", "le", "const", "enum", "regex", "decimal_places", "multiple_of", "max_digits", "length",
             "max_length", "min_length", "unique_items"]


class DocFail(Exception):
    pass


def doc_lax(name, v, b):
    """documented transformation of a Lax constraint ("Lax constraints", rule.md)"""
    if name == "ge":
        return b if v < b else v
    if name == "le":
        return b if v > b else v
    if name in ("max_length", "length"):
        s_ = v if hasattr(v, "__len__") else str(v)
        if len(s_) > b:
            if not hasattr(v, "__len__"):
                raise DocFail
            return v[:b]
        if name == "length" and len(s_) < b:
            raise DocFail
        return v
    if name == "decimal_places":
        return round(v, b)
    if name == "max_digits":
        digits, decimals = digit_counts(v)
        if digits <= b:
            return v
        delta = digits - b
        if decimals >= delta:
            return round(v, decimals - delta)
        raise DocFail
    if name == "multiple_of":
        return v if not (v % b) else (v // b) * b
    if name == "const":
        return b
    if name == "enum":
        return v if v in b else list(b)[0]
    if name == "unique_items":
        if not b:
            return v
        out = []
        for x in v:
            if not any(x == y for y in out):
                out.append(x)
        return type(v)(out)
    raise DocFail


def doc_parse(case, v):
    """-> ("ok", result) | ("fail", None): the validator phase in the documented order and sense"""
    lax = set(case.get("lax", []))
    cs = [(n, decode(b)) for n, b in case["constraints"]]
    names = [n for n, _ in cs]
    if "const" in names:
        cs = [c for c in cs if c[0] == "const"]
    elif "enum" in names:
        cs = [c for c in cs if c[0] == "enum"]
        cs = [(n, list(b) if isinstance(b, (tuple, set, frozenset)) else b) for n, b in cs]
    run = v
    try:
        for n, b in sorted(cs, key=lambda c: DOC_ORDER.index(c[0])):
            if b is None and n != "const":
                continue
            if n == "unique_items" and not b:
                continue
            if n in lax:
                run = doc_lax(n, run, b)
            else:
                if not sat(n, run, b):
                    return ("fail", None)
                if n == "const":
                    run = b
                if n == "decimal_places" and isinstance(run, Decimal):
                    run = run.quantize(Decimal(1).scaleb(-b))
    except Undefined:
        return ("undefined", None)
    except Exception:
        return ("fail", None)
    return ("ok", run)


def behaves_as_documented(case, io) -> bool:
    """did the real code, on this case, do exactly what the documented order and sense prescribe — for the first parse
    and for the re-parse of its result?"""
    try:
        v = decode(case["value"])
        k1, r1 = doc_parse(case, v)
        p = io.get("parse", {})
        if k1 != "ok" or "ok" not in p or not same(r1, decode(p["ok"])):
            return False
        origin = c02.CLS_BY_NAME.get(case.get("origin"))
        if origin is not None and not isinstance(r1, origin):
            return True      # the re-parse of a value of another type starts with the origin conversion (not this phase)
        k2, r2 = doc_parse(case, r1)
        rp = io.get("reparse", {})
        if k2 == "fail":
            return "perr" in rp
        if k2 == "ok":
            return "ok" in rp and same(r2, decode(rp["ok"]))
        return False
    except Exception:
        return False


# ---- "every declared constraint holds on the RESULT": the documented sense of the constraints (c02.sat), evaluated on what the
# parse returned, at every node of the type whose constraints are declared data (strict rules, container rules, fields)

UNSAFE_OPTIONS = ("ignore_constraints", "invalid_items", "invalid_values", "invalid_keys", "unresolved_types")


class _DC(dict):
    """a data class instance of the result, as its data"""
    cls_name = ""


def undeep(j):
    """the Python value a `deep` description stands for (data classes as _DC dicts); raises for opaque leaves"""
    if isinstance(j, dict):
        if "K" in j:
            d = _DC((undeep(k), undeep(v)) for k, v in j["m"])
            d.cls_name = j["K"]
            return d
        if "D" in j:
            return {undeep(k): undeep(v) for k, v in j["m"]}
        if "l" in j:
            return [undeep(x) for x in j["l"]]
        if "t" in j:
            return tuple(undeep(x) for x in j["t"])
        if "S" in j:
            return {undeep(x) for x in j["S"]}
        if "F" in j:
            return frozenset(undeep(x) for x in j["F"])
        if "o" in j:
            raise Undefined
    return decode(j)


def leaf_accepts(t, x):
    """does a leaf type (builtin / strict rule) hold for a value of exactly its class?  Undefined otherwise"""
    if "b" in t and t["b"] in c02.CLS_BY_NAME:
        if type(x) is c02.CLS_BY_NAME[t["b"]]:
            return True
        raise Undefined
    if "r" in t:
        if type(x) is c02.CLS_BY_NAME[t["r"]["origin"]]:
            return c02.accept_cs([(k, decode(b)) for k, b in t["r"]["cs"]], x)
    raise Undefined


def result_sat(t, r, case):
    """None, or a sentence naming the declared constraint the result `r` of type `t` does not satisfy"""
    def pt(x):
        return C03._reparse_text({"classes": case.get("classes", []), "type": x, "options": None, "input": None}).split(" | ")[-1].split(", options")[0]
    if "r" in t:
        try:
            if leaf_accepts(t, r) is False:
                return f"{r!r} does not satisfy {pt(t)}"
        except Undefined:
            pass
        return None
    if "cr" in t:
        c = t["cr"]
        if type(r) is not c02.ORIGINS[c["origin"]]:
            return None
        for k, b in c["cs"]:
            try:
                if not sat(k, r, decode(b)):
                    return f"the result {r!r} violates {k}={decode(b)!r} of {pt(t)}"
            except Undefined:
                pass
            except Exception:
                pass
        ct = c.get("contains")
        if ct and c["origin"] != "dict":
            try:
                n = sum([1 for x in r if leaf_accepts(ct["t"], x)])
                if n < 1 or (ct.get("min") is not None and n < ct["min"]) or (ct.get("max") is not None and n > ct["max"]):
                    return f"the result {r!r} holds {n} items of the contains type, outside the declared bounds of {pt(t)}"
            except Undefined:
                pass
        a = c["args"]
        if c["origin"] == "dict" and len(a) == 2:
            pairs = [(a[0], k_) for k_ in r] + [(a[1], v_) for v_ in r.values()]
        elif c["origin"] == "tuple" and not c.get("ellipsis"):
            pairs = list(zip(a, r))
        else:
            pairs = [(a[0], x) for x in r]
        for st, sv in pairs:
            w = result_sat(st, sv, case)
            if w:
                return w
        return None
    if "g" in t:
        g, a = t["g"], t["args"]
        if g == "Optional":
            return None if r is None or "c" in a[0] or a[0].get("g") in ("Optional", "Union") else result_sat(a[0], r, case)
        want = {"List": list, "Set": set, "FrozenSet": frozenset, "TupleE": tuple, "Tuple": tuple, "Dict": dict}.get(g)
        if want is None or type(r) is not want:
            return None
        if g == "Dict":
            pairs = [(a[0], k_) for k_ in r] + [(a[1], v_) for v_ in r.values()]
        elif g == "Tuple":
            pairs = list(zip(a, r))
        else:
            pairs = [(a[0], x) for x in r]
        for st, sv in pairs:
            w = result_sat(st, sv, case)
            if w:
                return w
        return None
    if "dc" in t:
        k = case["classes"][t["dc"]]
        if not isinstance(r, _DC) or r.cls_name != k["name"] or any(o in (k.get("options") or {}) for o in UNSAFE_OPTIONS):
            return None
        for f in k["fields"]:
            if f.get("on_error"):
                continue
            for key in (f.get("alias") or f["name"], f["name"]):
                if key in r:
                    w = result_sat(field_node(f), r[key], case)
                    if w:
                        return f"field {f['name']}: {w}"
                    break
        return None
    return None


def exact_domain(v) -> bool:
    if isinstance(v, bool):
        return True
    if isinstance(v, int) or isinstance(v, str):
        return True
    if isinstance(v, Decimal):
        return v.is_finite()
    if isinstance(v, (list, tuple)):
        return all(exact_domain(x) or x is None for x in v)
    return False


def same(a, b) -> bool:
    try:
        return type(a) is type(b) and (a == b or (a != a and b != b))
    except Exception:
        return False


class C03(C02):
    prop = "C03"
    props_modules = ["Utv.Props.C03", "Utv.Lemmas.C03Copy", "Utv.Lemmas.C03Join"]
    impl = "harness.c03:impl"
    lax_mode = True
    decl_share = 0.0
    ptype_share = 0.0
    multi_share = 0.0
    validator_names = LAX_NAMES + ["ge", "le", "length", "unique_items"]
    rule = ("(a) every lax validator on (value, bound) pairs at and around the bounds, applied twice and followed by its strict form; "
            "(b) declared types with 1-2 Lax(...) constraints (plus strict ones) applied to values of the source type and re-parsed; "
            "(c) operator audit; (d) pairs/triples of Lax constraints on numbers with bounds that disturb each other; "
            "(e) whole-type re-parse on the real code: logical combinations (| ^ & ~), nested generics, Schema/DataClass with defaults of "
            "every container kind, factories, aliases, no_output, nested classes, 20 option sets, result re-parsed as instance and as plain "
            "data and compared incl. container classes; (f) copy_value on nested data vs the T1 model.  non-trivial = the lax validator "
            "changed its input, or the value is within 1 of a bound, or the declaration has >= 2 constraints, or a re-parse case whose first "
            "parse succeeded, or a copy case with a nested container; distinct by (declaration/type, options, value)")

    reparse_share = 0.3
    copy_share = 0.04

    def cases(self, tier, rng, n):
        out = []
        n_re = int(n * self.reparse_share)
        n_cp = int(n * self.copy_share)
        out += super().cases(tier, rng, n - n_re - n_cp)
        out += [gen_reparse_case(rng) for _ in range(n_re)]
        out += [gen_copy_case(rng) for _ in range(n_cp)]
        return out

    def run(self, tier, seed):
        # audit the axioms module by module, so that a module that no longer builds (e.g. the obligations about
        # utils/functional.py) does not take the theorems of the other module down with it in the report
        from . import common
        orig = common.print_axioms

        def per_module(mods, names):
            res = {}
            prefix = self.theorem_prefix or (self.prop + "_")
            for m in mods:
                mine = [n for n in names if n in set(common.theorem_names(m, prefix))]
                if mine:
                    res.update(orig([m], mine))
            for n in names:
                res.setdefault(n, None)
            return res
        common.print_axioms = per_module
        try:
            return super().run(tier, seed)
        finally:
            common.print_axioms = orig

    def sweep(self, cases, impl_outs, model_outs, findings):
        disagreements, unknown, known = super().sweep(cases, impl_outs, model_outs, findings)
        # a failing input of the property itself (a parse whose result does not re-parse) is reported in preference to
        # one of the helper `copy_value` called directly
        if any(u["case"].get("op") != "copy" for u in unknown):
            unknown = [u for u in unknown if u["case"].get("op") != "copy"]
        return disagreements, unknown, known

    def model_line(self, case):
        if case["op"] == "reparse":
            return {"op": "skip"}
        if case["op"] == "copy":
            return {"op": "copy", "value": case["value"]}
        return super().model_line(case)

    def evaluate(self, cases):
        """C02's evaluation, plus: the model is also run on the *result* of every accepted declared-type parse (the re-parse),
        so that the second pass of the real code is tied to the model too (io['reparse_model'])."""
        impl_outs, model_outs = super().evaluate(cases)
        idx, derived = [], []
        for i, (c, io) in enumerate(zip(cases, impl_outs)):
            if isinstance(io, dict) and c.get("op") == "rule" and io.get("decl") == "ok" and "ok" in io.get("parse", {}) \
                    and "reparse" in io and io["parse"].get("type") == c.get("origin"):
                # (the model covers the validator phase on values of the source type; a result of another type would
                # first go through the origin conversion, which is C01/C12's model)
                d = dict(c)
                d["value"] = io["parse"]["ok"]
                idx.append(i)
                derived.append(d)
        if derived and self.driver:
            from .common import run_driver
            outs = run_driver(self.driver, [self.model_line(d) for d in derived])
            for i, mo in zip(idx, outs):
                impl_outs[i]["reparse_model"] = mo
        cr = [(i, io["crmodel"]) for i, io in enumerate(impl_outs) if isinstance(io, dict) and io.get("crmodel")]
        if cr and self.driver:
            from .common import run_driver
            lines = []
            for _, l in cr:
                vals = [decode(e) for e in l["converted"] if e is not None] + [decode(b) for _, b in l["cs"]]
                lines.append(dict(l, prims=c02.prims_for({"op": "crule", "value": encode(vals)})))
            outs = run_driver(self.driver, lines)
            for (i, _), mo in zip(cr, outs):
                impl_outs[i]["crmodel_out"] = mo
        return impl_outs, model_outs

    def compare(self, case, io, mo):
        if case["op"] == "reparse":
            cm = io.get("crmodel_out") if isinstance(io, dict) else None
            if isinstance(cm, dict) and "unmodelled" not in cm and "driver-error" not in cm and "first" in io:
                f = io["first"]
                if "escape" in f:
                    return None
                if ("ok" in f) != ("ok" in cm):
                    return f"container rule: impl {f} / model (convert items, pack into the origin container, then check) {cm}"
                if "ok" in f:
                    try:
                        a, b = undeep(f["ok"]), decode(cm["ok"])
                        same_ = type(a) is type(b) and a == b       # (which of two equal spellings a set keeps is CPython's choice)
                    except Exception:
                        same_ = True
                    if not same_:
                        return f"container rule result differs: impl {f['ok']} model {cm['ok']}"
            return None
        if case["op"] == "copy":
            if not isinstance(mo, dict) or "driver-error" in mo:
                return f"driver: {mo}"
            if "unmodelled" in mo:
                return None
            if ("ok" in io) != ("ok" in mo):
                return f"copy_value verdict differs: impl {io} model {mo}"
            if "ok" in io and json.dumps(canon2(io["ok"]), sort_keys=True) != json.dumps(canon2(mo["ok"]), sort_keys=True):
                return f"copy_value result differs: impl {io['ok']} model {mo['ok']}"
            return None
        d = super().compare(case, io, mo)
        if d:
            return d
        rm = io.get("reparse_model") if isinstance(io, dict) else None
        if isinstance(rm, dict) and "unmodelled" not in rm and "driver-error" not in rm:
            rp = io.get("reparse", {})
            if "ok" in rp and "ok" in rm:
                if c02.canon(rp["ok"]) != c02.canon(rm["ok"]):
                    return f"re-parse result differs: impl {rp['ok']} model {rm['ok']}"
            elif not ("perr" in rp and "err" in rm):
                return f"re-parse verdict differs: impl {rp} model {rm}"
        return None

    def spec(self, case, io, mo):
        op = case["op"]
        if op == "copy":
            if "ok" not in io:
                v = dec2(case["value"])
                if isinstance(v, (type({}.values()), type({}.keys()))):
                    return None       # dict views cannot be rebuilt from their own class: copy_value raises (not reachable from a default)
                return f"copy_value({v!r}) raised {io.get('err')}"
            if not io.get("equal"):
                return f"copy_value({dec2(case['value'])!r}) = {dec2(io['ok'])!r}: not equal to its argument with the same container classes"
            if not io.get("fresh"):
                return f"copy_value({dec2(case['value'])!r}) returned the same mutable object"
            return None
        if op == "reparse":
            if io.get("decl") != "ok" or "ok" not in io.get("first", {}):
                return None
            if io.get("nonconforming_defaults"):
                return None           # precondition on the declaration: a default must be a value of its field's type
            what = self._reparse_text(case)
            # every declared constraint holds on the RESULT (not merely on the input)
            if not any(o in (case.get("options") or {}) for o in UNSAFE_OPTIONS):
                try:
                    w = result_sat(case["type"], undeep(io["first"]["ok"]), case)
                except Undefined:
                    w = None
                except Exception:
                    w = None
                if w:
                    return f"{what}: parse succeeded but {w}"
            for key, eq in (("second", "second_equal"), ("plain", "plain_equal")):
                if key not in io:
                    continue
                r = io[key]
                if "escape" in r:
                    continue          # C04's business
                how = "the result" if key == "second" else "the plain data of the result"
                if "ok" not in r:
                    return f"{what}: parse succeeded with {json.dumps(io['first']['ok'])[:300]} but re-parsing {how} fails with {r.get('perr')}"
                if not io.get(eq):
                    return (f"{what}: parse gave {json.dumps(io['first']['ok'])[:300]} but re-parsing {how} gives "
                            f"{json.dumps(r['ok'])[:300]} (not equal / another container class)")
            return None
        if op == "validator":
            name = case["name"]
            if not name.startswith("lax_") or "ok" not in io:
                return None
            v, b, r = decode(case["value"]), decode(case["bound"]), decode(io["ok"])
            again = io.get("again", {})
            if "ok" not in again:
                return f"{name}({v!r}, {b!r}) = {r!r} but applying it again raises {again.get('err')}"
            r2 = decode(again["ok"])
            if not same(r, r2):
                return f"{name}({v!r}, {b!r}) = {r!r} is not a fixed point: second application gives {r2!r}"
            # (de-duplication is about `==` between the items, whatever they are: the strict form is checked on every
            # sequence; the numeric constraints only on the exact domains)
            if (name == "lax_unique_items" and isinstance(r, (list, tuple, c02._deque))) or \
                    (exact_domain(v) and exact_domain(r) and (exact_domain(b) or isinstance(b, (list, tuple, set)))):
                base = name[4:]
                try:
                    holds = sat(base, r, b)
                except Undefined:
                    return None
                except Exception:
                    return None
                if not holds or "ok" not in io.get("strict", {}):
                    return f"{name}({v!r}, {b!r}) = {r!r} does not satisfy the strict constraint {base}={b!r}"
            return None
        if op == "rule":
            if io.get("decl") != "ok":
                return None
            p = io["parse"]
            if "ok" not in p:
                return None
            v, r = decode(case["value"]), decode(p["ok"])
            rp = io.get("reparse", {})
            if r != r:
                # a NaN result (only reachable through a declared Lax(const=nan)/enum member, which the property
                # treats as trusted declaration data): "returns an equal value" is undefined for NaN -> oracle silent
                return None
            if "ok" not in rp:
                return f"T({v!r}) = {r!r} but T({r!r}) fails with {rp}; constraints {self._cs(case)} lax={case.get('lax')}"
            r2 = decode(rp["ok"])
            if not same(r, r2):
                return f"T({v!r}) = {r!r} but T({r!r}) = {r2!r}; constraints {self._cs(case)} lax={case.get('lax')}"
            return None
        return None

    @staticmethod
    def _reparse_text(case):
        def pt(t):
            if "b" in t:
                return t["b"]
            if "r" in t:
                return f"Rule[{t['r']['origin']}]({', '.join(k + '=' + repr(decode(b)) for k, b in t['r']['cs'])})"
            if "dc" in t:
                return case["classes"][t["dc"]]["name"]
            if "cr" in t:
                c = t["cr"]
                cons = [f"{k}={decode(b)!r}" for k, b in c.get("cs", [])]
                if c.get("contains"):
                    cons.append(f"contains={pt(c['contains']['t'])}, min={c['contains'].get('min')}, max={c['contains'].get('max')}")
                return f"Rule[{c.get('origin')}]({', '.join(pt(a) for a in c.get('args', []))}{', ...' if c.get('ellipsis') and c.get('origin') == 'tuple' else ''}; {', '.join(cons)})"
            if "g" in t:
                return f"{t['g']}[{', '.join(pt(a) for a in t['args'])}]"
            if t["c"] == "~":
                return f"~{pt(t['args'][0])}"
            return "(" + f" {t['c']} ".join(pt(a) for a in t["args"]) + ")"
        parts = []
        for k in case.get("classes", []):
            fs = []
            for f in k["fields"]:
                extra = {x: (dec2(f[x]) if x == "default" else f[x]) for x in f if x not in ("name", "type", "as_field", "fcs")}
                fs.append(f"{f['name']}: {pt(field_node(f))}" + (f" {extra}" if extra else ""))
            parts.append(f"class {k['name']}({k['kind']}{', options=' + str(k['options']) if k.get('options') else ''}): " + "; ".join(fs))
        parts.append(f"type {pt(case['type'])}, options {case.get('options')}, input {dec2(case['input'])!r}")
        return " | ".join(parts)

    def classify(self, case, io, why):
        if case["op"] == "reparse":
            cu = io.get("culprit") or {}
            if cu.get("kind") == "dc" and cu.get("dropped_required_no_output"):
                return "no-output-required-dropped"
            if cu.get("kind") == "comb" and cu.get("keepers") and cu.get("algorithm_agrees"):
                return {"|": "union-winner-differs", "&": "allof-threading", "^": "xor-result-reaccepted"}.get(cu.get("op"))
            return None
        if case["op"] == "copy":
            return None
        documented = case["op"] != "rule" or behaves_as_documented(case, io)
        # (for declared types every known finding below is "known" only when the real code did exactly what the DOCUMENTED
        # order and sense prescribe, first parse and re-parse: the defect then lies in the documented design; a
        # deviation from the documented order — whatever the regenerated model says — is never a known finding)
        if not documented:
            return None
        # known finding lax-max-digits-carry: Lax(max_digits) rounding carries into a new digit
        lax_md = (case["op"] == "validator" and case["name"] == "lax_max_digits") or \
                 (case["op"] == "rule" and "max_digits" in case.get("lax", []))
        try:
            if lax_md:
                if case["op"] == "validator":
                    r, m = decode(io["ok"]), decode(case["bound"])
                else:
                    r, m = decode(io["parse"]["ok"]), dict(self._cs(case))["max_digits"]
                if isinstance(r, (Decimal, float, int)) and digit_counts(r)[0] > m:
                    return "lax-max-digits-carry"
        except Exception:
            pass
        # known finding lax-const-not-origin: Lax(const=c)/Lax(enum=[...]) hands back the declared value c, which is not an
        # instance of the origin type and which the origin conversion itself rejects (int origin, const=Lax(inf))
        if case["op"] == "rule" and ({"const", "enum"} & set(case.get("lax", []))) and "ok" in io.get("parse", {}) \
                and "perr" in io.get("reparse", {}):
            r = decode(io["parse"]["ok"])
            origin = {"int": int, "float": float, "str": str, "Decimal": Decimal, "bool": bool,
                      "list": list, "tuple": tuple, "set": set}.get(case.get("origin"))
            cs = self._cs(case)
            declared = ([cs["const"]] if "const" in cs and "const" in case["lax"] else []) + \
                       (list(cs["enum"]) if "enum" in cs and "enum" in case["lax"] and isinstance(cs["enum"], (list, tuple, set)) else [])
            if origin is not None and not isinstance(r, origin) and any(type(r) is type(d) and same(r, d) for d in declared):
                return "lax-const-not-origin"
        # known finding lax-result-not-revalidated: the value a Lax constraint produced violates another declared
        # constraint (a later Lax constraint moved the value after an earlier constraint was checked, documented order)
        if case["op"] == "rule" and case.get("lax") and len(case["constraints"]) >= 2 and "ok" in io.get("parse", {}):
            r = decode(io["parse"]["ok"])
            if not same(r, decode(case["value"])):
                return "lax-result-not-revalidated"
        return None

    def key(self, case, io):
        if case["op"] == "reparse":
            if io.get("decl") != "ok" or "ok" not in io.get("first", {}):
                return None
            return json.dumps([case["classes"], case["type"], case["options"], case["input"]], sort_keys=True)
        if case["op"] == "copy":
            return json.dumps(case["value"], sort_keys=True) if '"l"' in json.dumps(case["value"]) or '"t"' in json.dumps(case["value"]) or '"m"' in json.dumps(case["value"]) else None
        try:
            if case["op"] == "validator" and case["name"].startswith("lax_") and "ok" in io:
                if json.dumps(io["ok"], sort_keys=True) != json.dumps(case["value"], sort_keys=True):
                    return json.dumps([case["name"], case["value"], case["bound"]], sort_keys=True)
        except Exception:
            pass
        return super().key(case, io)


    def distribution(self, case, io):
        if case["op"] == "copy":
            return f"copy/{'ok' if 'ok' in io else io.get('err')}"
        if case["op"] == "reparse":
            t = case["type"]
            shape = "dc:" + case["classes"][t["dc"]]["kind"] if "dc" in t else ("comb:" + t["c"] if "c" in t else "gen:" + t["g"] if "g" in t else "cr:" + t["cr"]["origin"] if "cr" in t else "leaf")
            if io.get("decl") != "ok":
                return f"reparse/{shape}/decl-{io.get('decl')}"
            f = io["first"]
            if "ok" not in f:
                return f"reparse/{shape}/first-{list(f)[0]}"
            o = "opts" if case.get("options") else "noopts"
            return f"reparse/{shape}/{o}/{'nonconforming-default' if io.get('nonconforming_defaults') else 'reparsed'}"
        return super().distribution(case, io)

    def neighbours(self, case, rng):
        if case["op"] == "reparse":
            out = []
            # the same declaration with other inputs (fields omitted so that defaults are used) and other options
            for _ in range(8):
                t = case["type"]
                out.append(dict(case, input=enc2(gen_value(rng, t, case["classes"], False))))
            out.append(dict(case, input=enc2({})))
            for o in OPTION_MENU[:6]:
                out.append(dict(case, options=dict(o)))
            return out
        if case["op"] == "copy":
            return [gen_copy_case(rng) for _ in range(10)]
        return super().neighbours(case, rng)


def canon2(j):
    """order-insensitive form of an enc2 value (sets sorted; dict order kept)"""
    if isinstance(j, dict):
        if "m" in j:
            return {"m": [[canon2(k), canon2(v)] for k, v in j["m"]]}
        for k in ("S", "F"):
            if k in j:
                return {k: sorted((canon2(x) for x in j[k]), key=lambda x: json.dumps(x, sort_keys=True))}
        for k in ("l", "t", "V", "K"):
            if k in j:
                return {k: [canon2(x) for x in j[k]]}
        return {k: v for k, v in j.items() if k != "repr"}
    return j


CHECK = C03()
