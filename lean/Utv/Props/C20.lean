import Utv.Model.C20
namespace Utv.C20

def W1 : World := { nf := 1, isRef := fun _ => true, defd := fun _ => true, rawOk := fun _ => true, isLocal := false, isFn := false }
def P2 : Nat → List Call := fun k => if k < 2 then [[⟨0, false⟩]] else []

/-- Pre-fix code: two first parses, thread 0 is preempted after listing the pending names. -/
theorem C20_legacy_keyerror_witness :
    ((run W1 true (init W1 P2) ([0,0,0,0] ++ List.replicate 30 1 ++ List.replicate 30 0)).th 0).outs = [.keyError] := by
  decide +kernel

end Utv.C20
