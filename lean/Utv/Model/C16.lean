/-
C16 — model of `utype.utils.base.TypeRegistry` (register / resolve), utils/base.py:10-107.

Hand-written, branch for branch.  Tied to the code by the correspondence check
(harness/c16.py): the same register/resolve histories are run on a fresh real
`TypeRegistry` and on `run` below and every resolve answer is compared.

Classes, callables, metaclasses and attribute names are natural numbers; the class
world (`issubclass`, `isinstance(cls, meta)`, `hasattr`, behaviour of custom
detectors, the shortcut attribute, the base registry / default) is an abstract
structure, so every theorem holds for every class hierarchy.
-/
namespace Utv.C16

structure World where
  issub    : Nat → Nat → Bool          -- issubclass(t, c)
  isinst   : Nat → Nat → Bool          -- isinstance(t, metaclass)
  hasattr  : Nat → Nat → Bool          -- hasattr(t, attr)
  custom   : Nat → Nat → Option Bool   -- custom detector k on t; none = raises TypeError/ValueError
  shortcut : Nat → Option Nat          -- valid shortcut attribute of t (base.py:91-93)
  fallback : Nat → Option Nat          -- base.resolve(t) or default (base.py:104-107)

/-- A detector as data: the closure built in `register` (base.py:60-73) or a user function. -/
inductive Det where
  | std (classes : List Nat) (allowSub : Bool) (metacls attr : Option Nat)
  | custom (k : Nat)
  deriving Repr

def Det.matches (W : World) : Det → Nat → Bool
  | .std cs sub m a, t =>
      (cs.isEmpty || (if sub then cs.any (fun c => W.issub t c) else cs.contains t))
      && (match m with | none => true | some m => W.isinst t m)
      && (match a with | none => true | some a => W.hasattr t a)
  -- `except (TypeError, ValueError): continue` (base.py:102-103): raising = no match
  | .custom k, t => (W.custom k t).getD false

structure Entry where
  det  : Det
  fn   : Nat
  prio : Int
  deriving Repr

structure Reg where
  entries : List Entry := []
  cache   : List (Nat × Nat) := []     -- most recent first
  cacheOn : Bool
  deriving Repr

/-- Stable insertion used to model `list.sort(key=lambda v: -v[2])` (Python's sort is stable). -/
def ins (e : Entry) : List Entry → List Entry
  | [] => [e]
  | x :: xs => if x.prio > e.prio then x :: ins e xs else e :: x :: xs

def sortPrio : List Entry → List Entry
  | [] => []
  | e :: es => ins e (sortPrio es)

/-- `register(...)(f)` — base.py:75-82 *after* the `fix:` commit: insert at the front, always
re-sort by priority (stable), drop the lookup cache. -/
def register (r : Reg) (e : Entry) : Reg :=
  { r with entries := sortPrio (e :: r.entries), cache := [] }

/-- The behaviour before the fix (kept for the negation witnesses in Props/C16):
the sort is skipped for priority 0 and the cache is never invalidated. -/
def registerLegacy (r : Reg) (e : Entry) : Reg :=
  { r with entries := if e.prio != 0 then sortPrio (e :: r.entries) else e :: r.entries }

def lookup (t : Nat) : List (Nat × Nat) → Option Nat
  | [] => none
  | (k, v) :: rest => if k == t then some v else lookup t rest

/-- `resolve(t)` — base.py:88-107. -/
def resolve (W : World) (r : Reg) (t : Nat) : Reg × Option Nat :=
  match W.shortcut t with
  | some f => (r, some f)
  | none =>
    match (if r.cacheOn then lookup t r.cache else none) with
    | some f => (r, some f)
    | none =>
      match r.entries.find? (fun e => e.det.matches W t) with
      | some e => (if r.cacheOn then { r with cache := (t, e.fn) :: r.cache } else r, some e.fn)
      | none => (r, W.fallback t)

inductive Op where
  | reg (e : Entry)
  | res (t : Nat)
  deriving Repr

def step (W : World) (r : Reg) : Op → Reg × Option (Option Nat)
  | .reg e => (register r e, none)
  | .res t => let (r', o) := resolve W r t; (r', some o)

def stepLegacy (W : World) (r : Reg) : Op → Reg × Option (Option Nat)
  | .reg e => (registerLegacy r e, none)
  | .res t => let (r', o) := resolve W r t; (r', some o)

/-- Run a history, collecting the answer of every resolve. -/
def runWith (stp : Reg → Op → Reg × Option (Option Nat)) : Reg → List Op → Reg × List (Option Nat)
  | r, [] => (r, [])
  | r, op :: ops =>
    let (r1, o) := stp r op
    let (r2, outs) := runWith stp r1 ops
    (r2, match o with | some a => a :: outs | none => outs)

def run (W : World) := runWith (step W)
def runLegacy (W : World) := runWith (stepLegacy W)

/-! ### Specification: a function of the registration history only -/

/-- Chronological fold: a later matching registration replaces the current best when its
priority is at least as high ("highest priority, most recent wins ties"). -/
def best (W : World) (t : Nat) (regs : List Entry) : Option Entry :=
  regs.foldl (fun acc e =>
    if e.det.matches W t then
      match acc with
      | none => some e
      | some b => if e.prio ≥ b.prio then some e else some b
    else acc) none

def specResolve (W : World) (regs : List Entry) (t : Nat) : Option Nat :=
  match W.shortcut t with
  | some f => some f
  | none => match best W t regs with
    | some e => some e.fn
    | none => W.fallback t

/-- Spec of a whole history: each resolve answers from the registrations made before it. -/
def specRun (W : World) : List Entry → List Op → List (Option Nat)
  | _, [] => []
  | regs, .reg e :: ops => specRun W (regs ++ [e]) ops
  | regs, .res t :: ops => specResolve W regs t :: specRun W regs ops

end Utv.C16
