import Utv.Model.C08Spec
import Utv.Util.J
open Lean Utv.J Utv.C08

/-- the value universe of the correspondence run: small ints, short strings, opaque objects (self / cls / None) -/
inductive Val where
  | int (i : Int)
  | str (s : String)
  | obj (tag : String)
  deriving DecidableEq, Repr

def allDigits (s : String) : Bool := !s.isEmpty && s.all (fun c => '0' ≤ c && c ≤ '9')

/-- the transformer on this universe (what `int(...)` / `str(...)` annotations do to ints and strings); under
`Options(no_explicit_cast=True)` a value only converts within its own type -/
def convBase (strict : Bool) (t : String) (v : Val) : Option Val :=
  match t, v with
  | "int", .int i => some (.int i)
  | "int", .str s =>
    if strict then none
    else if allDigits s then some (.int s.toNat!)
    else if s.startsWith "-" && allDigits (s.drop 1).toString then some (.int (-(((s.drop 1).toString.toNat! : Nat) : Int)))
    else none
  | "str", .str s => some (.str s)
  | "str", .int i => if strict then none else some (.str (toString i))
  | _, _ => none

/-- a type id is `int` / `str`, optionally with a constraint carried by the parameter's `Param`: `int:ge0`
(`Param(ge=0)`), `str:max3` (`Param(max_length=3)`) -/
def convVal (strict : Bool) (t : String) (v : Val) : Option Val :=
  match t.splitOn ":" with
  | [b] => convBase strict b v
  | [b, "ge0"] => match convBase strict b v with
    | some (.int i) => if i ≥ 0 then some (.int i) else none
    | _ => none
  | [b, "max3"] => match convBase strict b v with
    | some (.str x) => if x.length ≤ 3 then some (.str x) else none
    | _ => none
  | _ => none

def Wof (strict : Bool) : World String Val String where
  conv := convVal strict
  priv := fun n => n.startsWith "_"
  lower := String.toLower
  noneV := .obj "None"
  isInst := fun v => v == .obj "self"

def W0 : World String Val String := Wof false

def valOf (j : Json) : Val :=
  match obj? j "i" with
  | some i => .int (int! i)
  | none => match obj? j "s" with
    | some s => .str (str! s)
    | none => .obj (str! (fld j "o"))

/-- a raw JSON scalar (declared defaults, script constants) -/
def valOfRaw (v : Json) : Val :=
  match v.getInt?.toOption with
  | some i => .int i
  | none => match v.getStr?.toOption with
    | some s => .str s
    | none => .obj "None"

def jsonOf : Val → Json
  | .int i => Json.mkObj [("i", Json.num (JsonNumber.fromInt i))]
  | .str s => Json.mkObj [("s", Json.str s)]
  | .obj t => Json.mkObj [("o", Json.str t)]

def optStr (j : Json) : Option String := j.getStr?.toOption

/-- the settings a `Param(...)` carries, as far as the model uses them -/
structure Settings where
  alias : Option String
  aliasFrom : List String
  ci : Option Bool
  cons : Option String          -- "ge0" / "max3"

def mkParam (ciOpt : Bool) (j : Json) : Param String Val String :=
  let name := str! (fld j "name")
  let priv := name.startsWith "_"
  let st : Settings := { alias := optStr (fld j "alias"), aliasFrom := (arr! (fld j "alias_from")).map str!,
                         ci := (fld j "ci").getBool?.toOption, cons := optStr (fld j "cons") }
  -- `meta`: the Annotated metadata in order ("doc" / "param"); absent = the Param (if any) is the default value
  let found : Option Settings := match obj? j "meta" with
    | none => some st
    | some m => findParam ((arr! m).map fun x => if str! x == "param" then Meta.param st else Meta.other)
  let st := if priv then none else found
  { name := name
    posOnly := str! (fld j "kind") == "po"
    ann := (optStr (fld j "ann")).map fun a => match st.bind (·.cons) with
      | some c => a ++ ":" ++ c
      | none => a
    dflt := (obj? (fld j "default") "v").map valOfRaw
    pyDefault := bool! (fld j "py_default")
    alias := st.bind (·.alias)
    aliasFrom := (st.map (·.aliasFrom)).getD []
    -- field.py:751-754: the field's own setting, else Options.case_insensitive; private parameters are not fields
    ci := if priv then false else match st.bind (·.ci) with
      | some b => b
      | none => ciOpt }

def mkSig (ciOpt : Bool) (params : List Json) : Sig String Val String :=
  let kind (j : Json) := str! (fld j "kind")
  let var (k : String) := (params.find? (fun j => kind j == k)).map fun j => (str! (fld j "name"), optStr (fld j "ann"))
  { pos := (params.filter (fun j => kind j == "po" || kind j == "pk")).map (mkParam ciOpt)
    vp := var "vp"
    kos := (params.filter (fun j => kind j == "ko")).map (mkParam ciOpt)
    vk := var "vk" }

def pairs (j : Json) : List (String × Val) := (arr! j).map fun p => match arr! p with
  | [k, v] => (str! k, valOf v) | _ => ("", .obj "?")

def bindingJson (b : Binding String Val) : Json :=
  Json.mkObj [("pos", Json.arr (b.pos.map jsonOf).toArray), ("star", Json.arr (b.star.map jsonOf).toArray),
              ("kos", Json.arr (b.kos.map jsonOf).toArray),
              ("dstar", Json.arr (b.dstar.map fun (k, v) => Json.arr #[Json.str k, jsonOf v]).toArray)]

def outcomeJson : Outcome String Val → Json
  | .body b => Json.mkObj [("out", "body"), ("binding", bindingJson b)]
  | .perr => Json.mkObj [("out", "perr")]
  | .tyerr => Json.mkObj [("out", "tyerr")]

def mkOpts (j : Json) : Opts :=
  { dfs := match obj? j "data_first_search" with
      | none => some false
      | some v => v.getBool?.toOption
    ignoreAliasConflicts := bool! (fld j "ignore_alias_conflicts")
    -- Options(addition=…): absent / null = unset, false = False, true or {"type": …} = truthy
    addition := match obj? j "addition" with
      | none => none
      | some v => if isNull v then none else match v.getBool?.toOption with
        | some b => some b
        | none => some true
    noDataLoss := bool! (fld j "no_data_loss")
    ignoreRequired := bool! (fld j "ignore_required") }

/-! generator scripts: state = number of yields done; step k yields a constant or echoes what it was resumed with -/
structure Script where
  segs : List (List (Option Val × Val))  -- the generators in hand-over order; each a list of yields:
                                         -- (some c, _) = constant c; (none, d) = echo, d when resumed with None
  ret  : Option (Option Val × Val)       -- what the last one returns (same coding); none = returns None

/-- state = (which generator, how many of its yields are done); after its last yield a generator that is not the last
hands over to the next one by yielding it -/
def scriptStep (sc : Script) (st : Nat × Nat) (inp : Option Val) : RawStep (Nat × Nat) Val :=
  let eval (e : Option Val × Val) : Val := match e.1 with
    | some c => c
    | none => inp.getD e.2
  match sc.segs[st.1]? with
  | none => .ret none
  | some steps =>
    match steps[st.2]? with
    | some e => .yield (eval e) (st.1, st.2 + 1)
    | none => if st.1 + 1 < sc.segs.length then .delegate (st.1 + 1, 0) else .ret (sc.ret.map eval)

def mkExpr (j : Json) : Option Val × Val :=
  match obj? j "v" with
  | some v => (some (valOfRaw v), .obj "None")
  | none => (none, valOfRaw (fld j "echo"))

def evJson : Ev Val → Json
  | .yielded v => Json.arr #["y", jsonOf v]
  | .returned none => Json.arr #["r", jsonOf (.obj "None")]
  | .returned (some v) => Json.arr #["r", jsonOf v]
  | .raised => Json.arr #["e", "ParseError"]
  | .escaped => Json.arr #["e", "TypeError"]
  | .diverged => Json.arr #["e", "diverged"]

def handleGen (j : Json) : Json :=
  let g := fld j "gen"
  let isAsync := str! (fld j "wrapper") == "agen"
  let annot := (optStr (fld g "annot")).getD "generator"
  let ty (k : String) : Option String := optStr (fld g k)
  -- generate_return_types (func.py:310-352): Generator[Y,S,R] / Iterator[Y] / AsyncGenerator[Y,S] / AsyncIterator[Y]
  let gt : GenTypes String :=
    if annot == "generator" then { yieldT := ty "yt", sendT := ty "st", retT := if isAsync then none else ty "rt" }
    else if annot == "iterator" then { yieldT := ty "yt" }
    else {}
  let retJ := fld g "ret"
  let sc : Script :=
    { segs := ((arr! (fld g "steps")) :: (arr! (fld g "chain")).map arr!).map (·.map mkExpr)
      ret := if isAsync || isNull retJ then none
             else match obj? retJ "v" with
               | some v => if isNull v then none else some (mkExpr retJ)
               | none => some (mkExpr retJ) }
  let sends := (arr! (fld g "sends")).map fun s => if isNull s then none else some (valOf s)
  let legacy := bool! (fld j "legacy")
  let eager := bool! (fld j "eager")
  -- `no_reset`: the hand-over loop without `sent = None` (sync_from_generator before fix C08-sync-delegate-sent)
  let resume := hop (!bool! (fld j "no_reset")) (scriptStep sc) 64
  let model := if legacy && isAsync then legacyAsyncTrace W0 gt resume (0, 0) sends
               else if eager then wrapTrace W0 gt resume (0, 0) none sends
               else lazyTrace W0 gt resume pyIsNone (0, 0) none sends
  let spec := Spec.pointwise W0 gt (Spec.flat (scriptStep sc) 64) (0, 0) none sends
  Json.mkObj [("trace", Json.arr (model.map evJson).toArray), ("spec_trace", Json.arr (spec.map evJson).toArray)]

def handle (j : Json) : Json :=
  if str! (fld j "kind") == "gen" then handleGen j else
  let o := fld j "options"
  let ciOpt := bool! (fld o "case_insensitive")
  let full := mkSig ciOpt (arr! (fld j "params"))
  let c := fld j "ctx"
  let ctx : Ctx := { isStatic := bool! (fld c "static"), isClassm := bool! (fld c "classm"),
                     fromClass := bool! (fld c "from_class"), dotted := bool! (fld c "dotted") }
  let args := (arr! (fld j "args")).map valOf
  let kw := pairs (fld j "kwargs")
  let W0 := Wof (bool! (fld o "no_explicit_cast"))
  -- the specification is evaluated on the signature as the caller sees it (`spec_params`: bound first parameter removed)
  let ss := mkSig ciOpt (arr! (fld j "spec_params"))
  let sargs := (arr! (fld j "spec_args")).map valOf
  let spec := match Spec.expected W0 ss sargs kw with
    | none => Json.null
    | some e => outcomeJson e
  -- the body returns `retval` whatever its binding.  `ret_measured`: what the return annotation itself does to that
  -- value, measured on the real type in isolation (a logical combination is C09's subject; here it is the transformer
  -- of `parse_result`)
  let retval : Val := match obj? j "retval" with
    | some r => valOf r
    | none => .obj "None"
  let (Wc, retT) : World String Val String × Option String := match obj? j "ret_measured" with
    | some m =>
      let tbl : Option Val := (obj? m "ok").map valOf
      ({ W0 with conv := fun t v => if t == "__ret__" then tbl else W0.conv t v }, some "__ret__")
    | none => (W0, optStr (fld j "ret"))
  let res := callR Wc ctx full (mkOpts o) retT (fun _ => retval) args kw
  let (out, ret) : Outcome String Val × Json := match res with
    | .returned b v => (.body b, jsonOf v)
    | .resultErr b => (.body b, Json.str "perr")
    | .perr => (.perr, Json.null)
    | .tyerr => (.tyerr, Json.null)
  let ret := if (obj? j "retval").isSome then ret else Json.null
  -- coroutine functions: does the exception (if any) surface at the call or at the await?
  let atCall := match coroCall (bool! (fld j "eager")) Wc ctx full (mkOpts o) retT (fun _ => retval) args kw with
    | .raisedAtCall _ => true
    | .awaited _ => false
  Json.mkObj [("model", outcomeJson out), ("spec", spec), ("ret", ret), ("decl_ok", Json.bool (declOk full (mkOpts o))),
              ("reserve", Json.bool (firstReserve ctx full)), ("raised_at_call", Json.bool atCall),
              ("dfs", Json.bool (useDfs W0 full (mkOpts o)))]

def main : IO Unit := serve handle
