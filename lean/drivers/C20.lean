import Utv.Model.C20
import Utv.Util.J
open Lean Utv.J Utv.C20

def boolAt (l : List Json) (i : Nat) : Bool := bool! (l.getD i Json.null)

def mkWorld (j : Json) : World :=
  let isRef := arr! (fld j "isRef")
  let defd := arr! (fld j "defd")
  let rawOk := arr! (fld j "rawOk")
  { nf := nat! (fld j "nf"), isRef := boolAt isRef, defd := boolAt defd, rawOk := boolAt rawOk,
    isLocal := bool! (fld j "isLocal"), isFn := bool! (fld j "isFn") }

def mkCall (j : Json) : Call := (arr! j).map fun u => match arr! u with
  | [f, b] => ⟨nat! f, bool! b⟩ | _ => ⟨0, false⟩

def outName : Outcome → String
  | .ok => "ok" | .perr => "perr" | .nameError => "NameError" | .keyError => "KeyError"
  | .wrong => "wrong" | .unmodelled => "unmodelled"

/-- replay the observed (thread, label) sequence on the model; stop at the first label it cannot follow -/
def replay (W : World) (lg : Bool) : Sys → List (Nat × String) → Nat → Sys × Option (Nat × String)
  | s, [], _ => (s, none)
  | s, (tid, lab) :: rest, k =>
    let want := (s.th tid).pc.label
    if want != lab then (s, some (k, want)) else replay W lg (s.step W lg tid) rest (k + 1)

def handleFwd (j : Json) : Json :=
  let W := mkWorld (fld j "world")
  let progs := (arr! (fld j "threads")).map fun t => (arr! t).map mkCall
  let n := progs.length
  let lg := bool! (fld j "legacy")
  let trace := (arr! (fld j "trace")).map fun e => match arr! e with
    | [t, l] => (nat! t, str! l) | _ => (0, "")
  let s0 := init W (fun k => progs.getD k [])
  let (s, bad) := replay W lg s0 trace 0
  let tids := List.range n
  let outs := tids.map fun k => Json.arr ((s.th k).outs.map (Json.str ∘ outName)).toArray
  let pcs := tids.map fun k => Json.str (s.th k).pc.label
  let spec := progs.map fun cs => Json.arr (cs.map (Json.str ∘ outName ∘ alone W)).toArray
  Json.mkObj [
    ("follows", Json.bool bad.isNone),
    ("at", match bad with | some (k, _) => Json.num k | none => Json.null),
    ("model_label", match bad with | some (_, l) => Json.str l | none => Json.null),
    ("outs", Json.arr outs.toArray), ("pcs", Json.arr pcs.toArray), ("alone", Json.arr spec.toArray),
    ("pending", Json.arr (s.g.pending.map (fun (i : Nat) => Json.num (JsonNumber.fromNat i))).toArray)]

def handle (j : Json) : Json :=
  match str! (fld j "op") with
  | "fwd" => handleFwd j
  | o => Json.mkObj [("driver-error", Json.str ("unknown op " ++ o))]

def main : IO Unit := serve handle
