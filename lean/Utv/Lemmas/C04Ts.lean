import Utv.Model.C04Ts
/-! C04 — the model loop `tsLoop` agrees with the small-step reading `whileFuel` of Python's `while`. -/
namespace Utv.C04

theorem whileFuel_fin (s : Bool) (n q : Nat) :
    whileFuel Ts.gtW Ts.div1000 (loopK n q + 1) (.fin s n q) = some (.fin s n (loopQ n q)) := by
  fun_induction loopQ n q with
  | case1 q h ih =>
    rw [loopK]
    simp only [h, if_true]
    rw [whileFuel]
    simp only [Ts.gtW, h, decide_true, if_true, Ts.div1000]
    exact ih
  | case2 q h =>
    rw [loopK]
    simp only [h, if_false]
    simp [whileFuel, Ts.gtW, h]

theorem whileFuel_inf (s : Bool) (fuel : Nat) : whileFuel Ts.gtW Ts.div1000 fuel (.inf s) = none := by
  induction fuel with
  | zero => rfl
  | succ k ih => rw [whileFuel]; simpa [Ts.gtW, Ts.div1000] using ih

theorem whileFuel_nan : whileFuel Ts.gtW Ts.div1000 1 .nan = some .nan := rfl

/-- a loop that has stopped within some fuel stops at the same state with any other sufficient fuel -/
theorem whileFuel_det {σ : Type} (c : σ → Bool) (b : σ → σ) :
    ∀ (f1 f2 : Nat) (x y1 y2 : σ), whileFuel c b f1 x = some y1 → whileFuel c b f2 x = some y2 → y1 = y2 := by
  intro f1
  induction f1 with
  | zero => intro f2 x y1 y2 h1; simp [whileFuel] at h1
  | succ k ih =>
    intro f2 x y1 y2 h1 h2
    cases f2 with
    | zero => simp [whileFuel] at h2
    | succ k2 =>
      rw [whileFuel] at h1 h2
      by_cases hc : c x = true
      · simp only [hc, if_true] at h1 h2
        exact ih k2 (b x) y1 y2 h1 h2
      · simp only [hc] at h1 h2
        simp at h1 h2
        rw [← h1, ← h2]

theorem tsLoop_ok_iff (x y : Ts) :
    tsLoop x = .ok y ↔ ∃ fuel, whileFuel Ts.gtW Ts.div1000 fuel x = some y := by
  constructor
  · intro h
    cases x with
    | fin s n q =>
      simp only [tsLoop, Res.ok.injEq] at h
      exact ⟨loopK n q + 1, by rw [← h]; exact whileFuel_fin s n q⟩
    | inf s => simp [tsLoop] at h
    | nan =>
      simp only [tsLoop, Res.ok.injEq] at h
      exact ⟨1, by rw [← h]; rfl⟩
  · intro ⟨fuel, h⟩
    cases x with
    | fin s n q =>
      have := whileFuel_det _ _ _ _ _ _ _ h (whileFuel_fin s n q)
      simp [tsLoop, this]
    | inf s => rw [whileFuel_inf] at h; cases h
    | nan =>
      have := whileFuel_det _ _ _ _ _ _ _ h whileFuel_nan
      simp [tsLoop, this]

theorem tsLoop_diverge_iff_inf (x : Ts) : tsLoop x = .diverge ↔ ∃ s, x = .inf s := by
  cases x <;> simp [tsLoop]

theorem tsLoop_diverge_iff (x : Ts) :
    tsLoop x = .diverge ↔ ∀ fuel, whileFuel Ts.gtW Ts.div1000 fuel x = none := by
  constructor
  · intro h
    obtain ⟨s, rfl⟩ := (tsLoop_diverge_iff_inf x).mp h
    exact whileFuel_inf s
  · intro h
    cases x with
    | fin s n q => have := h (loopK n q + 1); rw [whileFuel_fin] at this; cases this
    | inf s => rfl
    | nan => have := h 1; rw [whileFuel_nan] at this; cases this

theorem loopQ_exit (n q : Nat) : ¬ n > watershed * (loopQ n q + 1) := by
  fun_induction loopQ n q with
  | case1 q h ih => exact ih
  | case2 q h => exact h

end Utv.C04
