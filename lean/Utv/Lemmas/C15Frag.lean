import Utv.Lemmas.C15Kw
/-! Member-wise readings of `inFragment`, `oneOfAtMost`, the list validators and the list forms of `conforms`. -/
set_option linter.unusedSimpArgs false
set_option linter.unusedVariables false
namespace Utv.C15
open Utv.JsonSchema

/-! ### `inFragment` -/

def fragEntry (all : Obj) (k : String) (v : Json) : Bool :=
  fragmentKeywords.contains k &&
  (if k == "items" || k == "additionalProperties" then inFragment v
   else if manyKeywords.contains k then (match v with
     | .arr (s :: ss) => inFragment s && fragList ss
     | _ => false)
   else if k == "properties" then (match v with
     | .obj ps => strDistinct (keys ps) && !(keys ps).contains "" && fragProps ps
     | _ => false)
   else fragSimple all k v)

theorem fragKws_nil (all : Obj) : fragKws all [] = true := by rw [fragKws]

theorem fragKws_cons (all : Obj) (k : String) (v : Json) (rest : List (String × Json)) :
    fragKws all ((k, v) :: rest) = (fragEntry all k v && fragKws all rest) := by
  conv => lhs; rw [fragKws.eq_def]
  rfl

theorem fragKws_mem (all : Obj) : (kws : List (String × Json)) → fragKws all kws = true →
    ∀ k v, (k, v) ∈ kws → fragEntry all k v = true
  | [], _, k, v, hm => by simp at hm
  | (k', v') :: rest, h, k, v, hm => by
    rw [fragKws_cons] at h
    simp only [Bool.and_eq_true] at h
    rcases List.mem_cons.mp hm with h1 | h1
    · cases h1; exact h.1
    · exact fragKws_mem all rest h.2 k v h1

theorem inFragment_obj (kvs : Obj) : inFragment (.obj kvs) = (strDistinct (keys kvs) && fragKws kvs kvs) := by
  rw [inFragment]

theorem fragList_mem : (ss : List Json) → fragList ss = true → ∀ s ∈ ss, inFragment s = true
  | [], _, s, hm => by simp at hm
  | s' :: rest, h, s, hm => by
    rw [fragList] at h
    simp only [Bool.and_eq_true] at h
    rcases List.mem_cons.mp hm with h1 | h1
    · subst h1; exact h.1
    · exact fragList_mem rest h.2 s h1

theorem fragProps_mem : (ps : List (String × Json)) → fragProps ps = true → ∀ p ∈ ps, inFragment p.2 = true
  | [], _, p, hm => by simp at hm
  | (n, s') :: rest, h, p, hm => by
    rw [fragProps] at h
    simp only [Bool.and_eq_true] at h
    rcases List.mem_cons.mp hm with h1 | h1
    · subst h1; exact h.1
    · exact fragProps_mem rest h.2 p h1

/-! ### `oneOfAtMost` -/

open KnownDefect in
def oneOfEntry (C : Ctx) (all : Obj) (k : String) (v j : Json) : Bool :=
  if k == "oneOf" then (match v with
    | .arr ss => decide (validateCount C ss j ≤ 1) && oneOfList C ss j
    | _ => true)
  else if k == "anyOf" || k == "allOf" then (match v with
    | .arr ss => oneOfList C ss j
    | _ => true)
  else if k == "items" then (match j with
    | .arr xs => (xs.drop (prefixLen all)).all fun x => oneOfAtMost C v x
    | _ => true)
  else if k == "prefixItems" then (match v, j with
    | .arr ss, .arr xs => oneOfZip C ss xs
    | _, _ => true)
  else if k == "properties" then (match v, j with
    | .obj ps, .obj o => oneOfProps C ps o
    | _, _ => true)
  else if k == "additionalProperties" then (match j with
    | .obj o => o.all fun m => oneOfAtMost C v m.2
    | _ => true)
  else true

open KnownDefect in
theorem oneOfKws_cons (C : Ctx) (all : Obj) (k : String) (v : Json) (rest : List (String × Json)) (j : Json) :
    oneOfKws C all ((k, v) :: rest) j = (oneOfEntry C all k v j && oneOfKws C all rest j) := by
  conv => lhs; rw [oneOfKws.eq_def]
  rfl

open KnownDefect in
theorem oneOfKws_mem (C : Ctx) (all : Obj) (j : Json) : (kws : List (String × Json)) → oneOfKws C all kws j = true →
    ∀ k v, (k, v) ∈ kws → oneOfEntry C all k v j = true
  | [], _, k, v, hm => by simp at hm
  | (k', v') :: rest, h, k, v, hm => by
    rw [oneOfKws_cons] at h
    simp only [Bool.and_eq_true] at h
    rcases List.mem_cons.mp hm with h1 | h1
    · cases h1; exact h.1
    · exact oneOfKws_mem C all j rest h.2 k v h1

open KnownDefect in
theorem oneOfAtMost_obj (C : Ctx) (kvs : Obj) (j : Json) : oneOfAtMost C (.obj kvs) j = oneOfKws C kvs kvs j := by
  rw [oneOfAtMost]

open KnownDefect in
theorem oneOfList_mem (C : Ctx) (j : Json) : (ss : List Json) → oneOfList C ss j = true → ∀ s ∈ ss, oneOfAtMost C s j = true
  | [], _, s, hm => by simp at hm
  | s' :: rest, h, s, hm => by
    rw [oneOfList] at h
    simp only [Bool.and_eq_true] at h
    rcases List.mem_cons.mp hm with h1 | h1
    · subst h1; exact h.1
    · exact oneOfList_mem C j rest h.2 s h1

open KnownDefect in
theorem oneOfProps_mem (C : Ctx) (o : Obj) : (ps : List (String × Json)) → oneOfProps C ps o = true →
    ∀ n s x, (n, s) ∈ ps → lookup n o = some x → oneOfAtMost C s x = true
  | [], _, n, s, x, hm, _ => by simp at hm
  | (n', s') :: rest, h, n, s, x, hm, hl => by
    rw [oneOfProps] at h
    simp only [Bool.and_eq_true] at h
    rcases List.mem_cons.mp hm with h1 | h1
    · cases h1
      have := h.1
      simp [hl] at this
      exact this
    · exact oneOfProps_mem C o rest h.2 n s x h1 hl

/-! ### list validators -/

theorem validateAll_iff (C : Ctx) (j : Json) : (ss : List Json) → (validateAll C ss j = true ↔ ∀ s ∈ ss, validate C s j = true)
  | [] => by rw [validateAll]; simp
  | s :: rest => by rw [validateAll]; simp [validateAll_iff C j rest]

theorem validateAny_iff (C : Ctx) (j : Json) : (ss : List Json) → (validateAny C ss j = true ↔ ∃ s ∈ ss, validate C s j = true)
  | [] => by rw [validateAny]; simp
  | s :: rest => by rw [validateAny]; simp [validateAny_iff C j rest]

theorem validateCount_pos (C : Ctx) (j : Json) : (ss : List Json) → (∃ s ∈ ss, validate C s j = true) → 1 ≤ validateCount C ss j
  | [], h => by simp at h
  | s :: rest, h => by
    rw [validateCount]
    obtain ⟨s', hm, hv⟩ := h
    rcases List.mem_cons.mp hm with h1 | h1
    · subst h1; simp [hv]
    · have := validateCount_pos C j rest ⟨s', h1, hv⟩
      omega

theorem validateProps_iff (C : Ctx) (o : Obj) : (ps : List (String × Json)) →
    (validateProps C ps o = true ↔ ∀ p ∈ ps, ∀ x, lookup p.1 o = some x → validate C p.2 x = true)
  | [] => by rw [validateProps]; simp
  | (n, s) :: rest => by
    rw [validateProps]
    simp only [Bool.and_eq_true, validateProps_iff C o rest, List.mem_cons, forall_eq_or_imp]
    constructor
    · rintro ⟨h1, h2⟩
      refine ⟨fun x hx => ?_, h2⟩
      simp [hx] at h1; exact h1
    · rintro ⟨h1, h2⟩
      refine ⟨?_, h2⟩
      cases hl : lookup n o with
      | none => rfl
      | some x => exact h1 x hl

/-- zipped prefix: every schema with an item at its position -/
theorem validatePrefix_of (C : Ctx) : (ss : List Json) → (xs : List Json) →
    (∀ (i : Nat) s x, ss[i]? = some s → xs[i]? = some x → validate C s x = true) → validatePrefix C ss xs = true
  | [], xs, _ => by rw [validatePrefix]
  | s :: rest, [], _ => by rw [validatePrefix]
  | s :: rest, x :: xs, h => by
    rw [validatePrefix]
    simp only [Bool.and_eq_true]
    refine ⟨h 0 s x rfl rfl, validatePrefix_of C rest xs fun i s' x' hs hx => h (i + 1) s' x' ?_ ?_⟩
    · simpa using hs
    · simpa using hx

/-! ### list forms of `conforms` -/

theorem conformsEach_iff (R : Rx) (xs : List Json) : (ts : List Ty) →
    (conformsEach R ts xs = true ↔ ∀ t ∈ ts, ∀ x ∈ xs, conforms R t x = true)
  | [] => by rw [conformsEach]; simp
  | t :: rest => by
    rw [conformsEach]
    simp [conformsEach_iff R xs rest]

theorem conformsZip_get (R : Rx) : (ts : List Ty) → (xs : List Json) → conformsZip R ts xs = true →
    ts.length ≤ xs.length ∧ ∀ (i : Nat) t x, ts[i]? = some t → xs[i]? = some x → conforms R t x = true
  | [], xs, _ => by simp
  | t :: rest, [], h => by rw [conformsZip] at h; simp at h
  | t :: rest, x :: xs, h => by
    rw [conformsZip] at h
    simp only [Bool.and_eq_true] at h
    have ih := conformsZip_get R rest xs h.2
    refine ⟨by simp; exact ih.1, fun i t' x' ht hx => ?_⟩
    cases i with
    | zero => simp at ht hx; subst ht; subst hx; exact h.1
    | succ i => exact ih.2 i t' x' (by simpa using ht) (by simpa using hx)

theorem conformsFields_mem (R : Rx) (o : Obj) : (fs : List Fld) → conformsFields R fs o = true →
    ∀ f ∈ fs, (∀ x, lookup f.name o = some x → conforms R f.ty x = true ∧ ∀ d ∈ f.deps, hasKey d o = true) ∧
      (lookup f.name o = none → f.required = false)
  | [], _, f, hm => by simp at hm
  | .mk a n t r d :: rest, h, f, hm => by
    rw [conformsFields] at h
    simp only [Bool.and_eq_true] at h
    rcases List.mem_cons.mp hm with h1 | h1
    · subst h1
      simp only [Fld.name, Fld.ty, Fld.deps, Fld.required]
      have := h.1
      cases hl : lookup n o with
      | none => simp [hl] at this ⊢; exact this
      | some x => simp [hl] at this ⊢; exact this
    · exact conformsFields_mem R o rest h.2 f h1

end Utv.C15
