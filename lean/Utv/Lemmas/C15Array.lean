import Utv.Lemmas.C15Scalar
/-! The array case: `parse_array`. -/
set_option linter.unusedSimpArgs false
set_option linter.unusedVariables false
namespace Utv.C15
open Utv.JsonSchema

theorem keys_single (kvs : Obj) (h : (keys kvs == ["type"]) = true) (k : String) (v : Json) (hm : (k, v) ∈ kvs) : k = "type" := by
  have : keys kvs = ["type"] := by simpa using h
  have hk : k ∈ keys kvs := List.mem_map.mpr ⟨(k, v), hm, rfl⟩
  rw [this] at hk
  simpa using hk

open KnownDefect in
theorem oneOfZip_get (C : Ctx) : (ss : List Json) → (xs : List Json) → oneOfZip C ss xs = true →
    ∀ (i : Nat) s x, ss[i]? = some s → xs[i]? = some x → oneOfAtMost C s x = true
  | [], xs, _, i, s, x, hs, _ => by simp at hs
  | s0 :: rest, [], _, i, s, x, _, hx => by simp at hx
  | s0 :: rest, x0 :: xs, h, i, s, x, hs, hx => by
    rw [oneOfZip] at h
    simp only [Bool.and_eq_true] at h
    cases i with
    | zero => simp at hs hx; subst hs; subst hx; exact h.1
    | succ i => exact oneOfZip_get C rest xs h.2 i s x (by simpa using hs) (by simpa using hx)

/-- a size within `min(m, n)` is within `m` -/
theorem lenSat_minJ (v : Json) (n : Nat) (j : Json) (h : lenSat (fun b x => x.le b) (minJ v (Num.ofNat n)) j = true) :
    lenSat (fun b x => x.le b) v j = true := by
  cases v <;> try (simp [lenSat])
  rename_i m
  simp only [minJ] at h
  by_cases hlt : (Num.ofNat n).lt m = true
  · simp only [hlt, if_true] at h
    simp only [lenSat] at h ⊢
    cases hs : sizeOf? j with
    | none => simp
    | some len =>
      simp only [hs] at h
      simp only [Num.le, Num.lt, Num.ofNat, decide_eq_true_eq, Int.pow_zero, Int.mul_one] at h hlt ⊢
      have hpos : (0 : Int) ≤ 10 ^ m.exp := Int.le_of_lt (Int.pow_pos (by decide))
      have h1 : (len : Int) * 10 ^ m.exp ≤ (n : Int) * 10 ^ m.exp := Int.mul_le_mul_of_nonneg_right h hpos
      omega
  · simp only [hlt, Bool.false_eq_true, if_false] at h; exact h

theorem capLength_sat (R : Rx) (cons : Cons) (n : Nat) (j : Json) (h : ∀ c ∈ capLength cons n, sat R c j = true) :
    ∀ c ∈ cons, sat R c j = true := by
  intro c hcm
  unfold capLength at h
  by_cases hl : (cons.lookup "max_length").isSome = true
  · simp only [hl, if_true] at h
    by_cases hn : (c.1 == "max_length") = true
    · have := h (c.1, minJ c.2 (Num.ofNat n)) (List.mem_map.mpr ⟨c, hcm, by simp [hn]⟩)
      have hc1 : c.1 = "max_length" := by simpa using hn
      obtain ⟨c1, c2⟩ := c
      simp only at hc1
      subst hc1
      simp [sat] at this ⊢
      exact lenSat_minJ c2 n j this
    · exact h c (List.mem_map.mpr ⟨c, hcm, by simp [hn]⟩)
  · simp only [hl, Bool.false_eq_true, if_false] at h
    exact h c (List.mem_append_left _ hcm)

theorem getElem?_map_some {N : Names} {ss : List Json} {ts : List Ty} (h : ss.map (parse N) = ts.map some) (i : Nat) (s : Json)
    (hs : ss[i]? = some s) : ∃ t, ts[i]? = some t ∧ parse N s = some t := by
  have h1 : (ss.map (parse N))[i]? = some (parse N s) := by simp [hs]
  rw [h] at h1
  simp at h1
  obtain ⟨t, ht, hte⟩ := h1
  exact ⟨t, ht, hte.symm⟩

/-- `parse_array`: what conforms is an array, meets the kept constraints, and validates `items` / `prefixItems` -/
theorem array_ok (N : Names) (R : Rx) (C : Ctx) (kvs : Obj) (j : Json) (hd : strDistinct (keys kvs) = true)
    (hf : fragKws kvs kvs = true) (cons : Cons) (t0 : Ty)
    (hb : parseArray kvs (parseKws N kvs) cons = some t0) (hc : conforms R t0 j = true)
    (hone : KnownDefect.oneOfKws C kvs kvs j = true)
    (ih1 : ∀ k v, (k, v) ∈ kvs → SubSound N R C v)
    (ihA : ∀ k ss, (k, Json.arr ss) ∈ kvs → ∀ s ∈ ss, SubSound N R C s) :
    (∃ xs, j = .arr xs) ∧ (∀ c ∈ cons, sat R c j = true) ∧
    (∀ k v, (k, v) ∈ kvs → (k = "items" ∨ k = "prefixItems") → validateEntry C kvs k v j = true) := by
  unfold parseArray at hb
  by_cases hsingle : (keys kvs == ["type"] && cons.isEmpty) = true
  · simp only [hsingle, if_true] at hb
    cases hb
    simp only [Bool.and_eq_true] at hsingle
    refine ⟨?_, ?_, ?_⟩
    · cases j <;> simp [conforms, primOk] at hc; exact ⟨_, rfl⟩
    · intro c hcm
      have : cons = [] := by simpa using hsingle.2
      rw [this] at hcm; simp at hcm
    · intro k v hm hk
      have := keys_single kvs hsingle.1 k v hm
      rcases hk with rfl | rfl <;> simp at this
  · simp only [hsingle, Bool.false_eq_true, if_false] at hb
    -- what the fragment says about `items` and `prefixItems`
    have hitems : ∀ v, lookup "items" kvs = some v → inFragment v = true := by
      intro v hl
      have hm := mem_of_lookup kvs _ _ hl
      have hfe := fragKws_mem kvs kvs hf _ _ hm
      simp only [fragEntry, Bool.and_eq_true] at hfe
      have h2 := hfe.2
      simpa using h2
    -- a schema of the fragment that is neither truthy nor `false` is `{}`
    have hempty : ∀ v, inFragment v = true → truthy v = false → isFalse v = false → v = .obj [] := by
      intro v hv ht hf'
      cases v with
      | obj o => cases o <;> simp_all [truthy]
      | bool b => cases b <;> simp_all [truthy, isFalse]
      | _ => simp [inFragment] at hv
    have hprefix : ∀ v, lookup "prefixItems" kvs = some v → ∃ s ss, v = .arr (s :: ss) ∧ ∀ x ∈ s :: ss, inFragment x = true := by
      intro v hl
      have hm := mem_of_lookup kvs _ _ hl
      have hfe := fragKws_mem kvs kvs hf _ _ hm
      simp only [fragEntry, Bool.and_eq_true] at hfe
      have h2 := hfe.2
      simp [manyKeywords] at h2
      cases v with
      | arr xs =>
        cases xs with
        | nil => simp at h2
        | cons s ss =>
          simp only [Bool.and_eq_true] at h2
          refine ⟨s, ss, rfl, fun x hx => ?_⟩
          rcases List.mem_cons.mp hx with h | h
          · subst h; exact h2.1
          · exact fragList_mem ss h2.2 x h
      | _ => simp at h2
    have same_items : ∀ iv, lookup "items" kvs = some iv → ∀ v, ("items", v) ∈ kvs → v = iv := by
      intro iv hi v hm
      have := lookup_of_mem_distinct kvs hd _ _ hm
      rw [hi] at this; simpa using this.symm
    cases hp : lookup "prefixItems" kvs with
    | none =>
      -- a list
      simp only [hp, Bool.false_eq_true, if_false] at hb
      have hplen : prefixLen kvs = 0 := by simp [prefixLen, hp]
      have noPrefix : ∀ v, ("prefixItems", v) ∈ kvs → False := by
        intro v hm
        rw [lookup_of_mem_distinct kvs hd _ _ hm] at hp
        simp at hp
      cases hi : lookup "items" kvs with
      | none =>
        simp only [hi] at hb
        have := annotate_conforms R (.arr []) false cons t0 j (by simp) hb hc
        refine ⟨?_, this.2.1, ?_⟩
        · have h1 := this.1
          cases j <;> simp [bareOrigin, conforms, primOk] at h1; exact ⟨_, rfl⟩
        · intro k v hm hk
          rcases hk with rfl | rfl
          · rw [lookup_of_mem_distinct kvs hd _ _ hm] at hi; simp at hi
          · exact absurd hm (fun h => noPrefix v h)
      | some iv =>
        simp only [hi] at hb
        have hfi := hitems iv hi
        have hmi : ("items", iv) ∈ kvs := mem_of_lookup kvs _ _ hi
        by_cases htr : (truthy iv || isFalse iv) = true
        · rw [if_pos htr, subOne_items N kvs iv hi] at hb
          cases hpi : parse N iv with
          | none => simp [hpi] at hb
          | some t =>
            simp only [hpi] at hb
            have := annotate_conforms R (.arr [t]) true cons t0 j (by simp) hb hc
            have hcj := this.2.2 rfl
            cases j with
            | arr xs =>
              refine ⟨⟨_, rfl⟩, this.2.1, ?_⟩
              intro k v hm hk
              rcases hk with rfl | rfl
              · rw [same_items iv hi v hm]
                have hoe := oneOfKws_mem C kvs (.arr xs) kvs hone _ _ hmi
                simp only [oneOfEntry] at hoe
                simp [hplen] at hoe
                simp only [validateEntry]
                simp [hplen]
                intro x hx
                simp only [conforms] at hcj
                have hcx := (conformsEach_iff R xs [t]).mp hcj t (by simp) x hx
                exact ih1 _ _ hmi t x hfi hpi hcx (hoe x hx)
              · exact absurd hm (fun h => noPrefix v h)
            | _ => simp [conforms] at hcj
        · rw [if_neg htr] at hb
          have htr' := (Bool.not_eq_true _).mp htr
          rw [Bool.or_eq_false_iff] at htr'
          have hiv := hempty iv hfi htr'.1 htr'.2
          have := annotate_conforms R (.arr []) false cons t0 j (by simp) hb hc
          refine ⟨?_, this.2.1, ?_⟩
          · have h1 := this.1
            cases j <;> simp [bareOrigin, conforms, primOk] at h1; exact ⟨_, rfl⟩
          · intro k v hm hk
            rcases hk with rfl | rfl
            · rw [same_items iv hi v hm, hiv]
              simp only [validateEntry]
              simp
              cases j <;> simp [validate, validateKws]
            · exact absurd hm (fun h => noPrefix v h)
    | some pv =>
      obtain ⟨s0, ss0, hpv, hfs⟩ := hprefix pv hp
      subst hpv
      have htrp : truthy (.arr (s0 :: ss0)) = true := by simp [truthy]
      simp only [hp, htrp, if_true] at hb
      rw [subMany_of N kvs "prefixItems" (by simp [manyKeywords]) (s0 :: ss0) hp] at hb
      simp only [List.map_cons] at hb
      cases hargs : allSome (parse N s0 :: ss0.map (parse N)) with
      | none => simp [hargs] at hb
      | some args =>
        simp only [hargs] at hb
        have hmap : (s0 :: ss0).map (parse N) = args.map some := by
          simpa using allSome_eq_some _ _ hargs
        have hlen : args.length = (s0 :: ss0).length := by
          have := congrArg List.length hmap
          simpa using this.symm
        have hplen : prefixLen kvs = args.length := by simp [prefixLen, hp, hlen]
        have hpm : ("prefixItems", Json.arr (s0 :: ss0)) ∈ kvs := mem_of_lookup kvs _ _ hp
        -- the prefix, for every shape of `items`
        have prefix_ok : ∀ xs, conformsZip R args xs = true → KnownDefect.oneOfKws C kvs kvs (.arr xs) = true →
            validateEntry C kvs "prefixItems" (.arr (s0 :: ss0)) (.arr xs) = true := by
          intro xs hz hone'
          have hoe := oneOfKws_mem C kvs (.arr xs) kvs hone' _ _ hpm
          simp only [oneOfEntry] at hoe
          simp at hoe
          simp only [validateEntry]
          simp
          apply validatePrefix_of
          intro i s x hs hx
          obtain ⟨t, ht, hpt⟩ := getElem?_map_some hmap i s hs
          have hsm : s ∈ s0 :: ss0 := List.mem_of_getElem? hs
          exact ihA _ _ hpm s hsm t x (hfs s hsm) hpt ((conformsZip_get R args xs hz).2 i t x ht hx)
            (oneOfZip_get C _ xs hoe i s x hs hx)
        have same_prefix : ∀ v, ("prefixItems", v) ∈ kvs → v = .arr (s0 :: ss0) := by
          intro v hm
          have := lookup_of_mem_distinct kvs hd _ _ hm
          rw [hp] at this; simpa using this.symm
        cases hi : lookup "items" kvs with
        | none =>
          simp only [hi] at hb
          have := annotate_conforms R (.tup args .free .any) true cons t0 j (by simp) hb hc
          have hcj := this.2.2 rfl
          cases j with
          | arr xs =>
            simp only [conforms, Bool.and_eq_true] at hcj
            refine ⟨⟨_, rfl⟩, this.2.1, ?_⟩
            intro k v hm hk
            rcases hk with rfl | rfl
            · rw [lookup_of_mem_distinct kvs hd _ _ hm] at hi; simp at hi
            · rw [same_prefix v hm]; exact prefix_ok xs hcj.1 hone
          | _ => simp [conforms] at hcj
        | some iv =>
          simp only [hi] at hb
          have hfi := hitems iv hi
          have hmi : ("items", iv) ∈ kvs := mem_of_lookup kvs _ _ hi
          by_cases hfalse : isFalse iv = true
          · have hiv : iv = .bool false := by
              cases iv with
              | bool b => cases b <;> simp [isFalse] at hfalse ⊢
              | _ => simp [isFalse] at hfalse
            rw [if_pos hfalse] at hb
            have := annotate_conforms R (.tup args .reject .any) true _ t0 j (by simp) hb hc
            have hcj := this.2.2 rfl
            cases j with
            | arr xs =>
              simp only [conforms, Bool.and_eq_true, decide_eq_true_eq] at hcj
              refine ⟨⟨_, rfl⟩, capLength_sat R cons args.length _ this.2.1, ?_⟩
              intro k v hm hk
              rcases hk with rfl | rfl
              · rw [same_items iv hi v hm, hiv]
                simp only [validateEntry]
                simp [hplen]
                have : xs.drop args.length = [] := List.drop_eq_nil_of_le hcj.2
                rw [this]; simp
              · rw [same_prefix v hm]; exact prefix_ok xs hcj.1 hone
            | _ => simp [conforms] at hcj
          · rw [if_neg hfalse] at hb
            by_cases htr : truthy iv = true
            · rw [if_pos htr, subOne_items N kvs _ hi] at hb
              cases hpi : parse N iv with
              | none => simp [hpi] at hb
              | some t =>
                simp only [hpi] at hb
                have := annotate_conforms R (.tup args .typed t) true cons t0 j (by simp) hb hc
                have hcj := this.2.2 rfl
                cases j with
                | arr xs =>
                  simp only [conforms, Bool.and_eq_true] at hcj
                  refine ⟨⟨_, rfl⟩, this.2.1, ?_⟩
                  intro k v hm hk
                  rcases hk with rfl | rfl
                  · rw [same_items iv hi v hm]
                    have hoe := oneOfKws_mem C kvs (.arr xs) kvs hone _ _ hmi
                    simp only [oneOfEntry] at hoe
                    simp [hplen] at hoe
                    simp only [validateEntry]
                    simp [hplen]
                    intro x hx
                    have hcx := List.all_eq_true.mp hcj.2 x hx
                    exact ih1 _ _ hmi t x hfi hpi hcx (hoe x hx)
                  · rw [same_prefix v hm]; exact prefix_ok xs hcj.1 hone
                | _ => simp [conforms] at hcj
            · rw [if_neg htr] at hb
              have hiv := hempty iv hfi (by simpa using htr) (by simpa using hfalse)
              have := annotate_conforms R (.tup args .free .any) true cons t0 j (by simp) hb hc
              have hcj := this.2.2 rfl
              cases j with
              | arr xs =>
                simp only [conforms, Bool.and_eq_true] at hcj
                refine ⟨⟨_, rfl⟩, this.2.1, ?_⟩
                intro k v hm hk
                rcases hk with rfl | rfl
                · rw [same_items iv hi v hm, hiv]
                  simp only [validateEntry]
                  simp [validate, validateKws]
                · rw [same_prefix v hm]; exact prefix_ok xs hcj.1 hone
              | _ => simp [conforms] at hcj

end Utv.C15
