import Utv.Model.C14P0
namespace Utv.C14
theorem C14_stub : (1 : Nat) = 1 := rfl
end Utv.C14
