"""Shared machinery of every check (DESIGN.md §3-4).

A check = (1) regenerate Utv/Gen from /repo (T1), (2) `lake build` the property's theorems and
audit their axioms, (3) run the correspondence between the Lean model and the real code (T2),
(4) evaluate the property's own predicate on what the real code returned (spec sweep),
(5) when anything is broken, search for a concrete failing input on the real code.
"""
from __future__ import annotations

import fcntl
import hashlib
import json
import os
import random
import re
import select
import subprocess
import sys
import threading
import time
from pathlib import Path

VERIF = Path(__file__).resolve().parent.parent
REPO = Path(os.environ.get("UTYPE_REPO", "/repo"))
LEAN = VERIF / "lean"
PY = os.environ.get("UTYPE_PY", "/venv/bin/python")
NCPU = int(os.environ.get("VERIF_JOBS", "0")) or min(16, os.cpu_count() or 4)
ALLOWED_AXIOMS = {"propext", "Classical.choice", "Quot.sound"}
FORBIDDEN = re.compile(
    r"\bsorry\b|\badmit\b|^\s*axiom\s|native_decide|bv_decide|implemented_by|\bunsafe\s|maxHeartbeats\s+0\b",
    re.M,
)
TRUSTED_BASE = [
    "Lean 4.33.0 kernel; axioms limited to propext, Classical.choice, Quot.sound (audited per theorem each run)",
    "hand-written Lean models (lean/Utv/Model) are modelled, not verified: tied to /repo only by the correspondence run",
    "tools/extract.py (T1 translator / table extractor) where the check names it",
    "harness canonicalisation of Python values and the driver's JSON decoding",
    "CPython 3.12 (/venv) as the reference interpreter",
]


def env_seed() -> int:
    try:
        return int(os.environ.get("VERIF_SEED", "0"))
    except ValueError:
        return 0


def rng_for(prop: str, seed: int, salt: str = "") -> random.Random:
    h = hashlib.sha256(f"{prop}:{seed}:{salt}".encode()).hexdigest()
    return random.Random(int(h[:16], 16))


# ----------------------------------------------------------------------------------------------
# Lean side
# ----------------------------------------------------------------------------------------------

class BuildLock:
    def __enter__(self):
        (LEAN / ".lake").mkdir(exist_ok=True)
        self.f = open(LEAN / ".lake" / "verif.lock", "w")
        fcntl.flock(self.f, fcntl.LOCK_EX)
        return self

    def __exit__(self, *a):
        fcntl.flock(self.f, fcntl.LOCK_UN)
        self.f.close()


def run_extract() -> tuple[bool, str]:
    """T1: regenerate lean/Utv/Gen/*.lean from /repo's current source text."""
    p = subprocess.run(
        [PY, str(VERIF / "tools" / "extract.py"), "--repo", str(REPO), "--out", str(LEAN / "Utv" / "Gen")],
        capture_output=True, text=True,
    )
    return p.returncode == 0, (p.stdout + p.stderr)[-4000:]


def lake_build(modules: list[str], timeout: int = 1500) -> tuple[bool, str]:
    targets = ["+" + m for m in modules]
    try:
        p = subprocess.run(["lake", "build", *targets], cwd=LEAN, capture_output=True, text=True, timeout=timeout)
    except subprocess.TimeoutExpired:
        return False, "lake build timed out"
    out = p.stdout + p.stderr
    return p.returncode == 0, out[-6000:]


def strip_comments(src: str) -> str:
    src = re.sub(r"/-.*?-/", "", src, flags=re.S)
    src = re.sub(r"--.*", "", src)
    return src


def module_path(mod: str) -> Path:
    return LEAN / (mod.replace(".", "/") + ".lean")


def imports_closure(mods: list[str]) -> list[str]:
    seen, todo = [], list(mods)
    while todo:
        m = todo.pop()
        if m in seen or not m.startswith("Utv."):
            continue
        p = module_path(m)
        if not p.exists():
            continue
        seen.append(m)
        for im in re.findall(r"^import\s+([\w.]+)", p.read_text(), flags=re.M):
            todo.append(im)
    return seen


def forbidden_tokens(mods: list[str]) -> list[str]:
    hits = []
    for m in imports_closure(mods):
        for mt in FORBIDDEN.finditer(strip_comments(module_path(m).read_text())):
            hits.append(f"{m}: {mt.group(0).strip()}")
    return hits


def theorem_names(mod: str, prefix: str) -> list[str]:
    """Fully qualified names of the property theorems `<prefix>_*` declared in a Props module."""
    src = strip_comments(module_path(mod).read_text())
    ns = []
    names = []
    for line in src.splitlines():
        m = re.match(r"\s*namespace\s+([\w.]+)", line)
        if m:
            ns.append(m.group(1))
            continue
        m = re.match(r"\s*end\s+([\w.]+)\s*$", line)
        if m and ns and ns[-1] == m.group(1):
            ns.pop()
            continue
        m = re.match(r"\s*(?:private\s+|protected\s+)?theorem\s+([\w.']+)", line)
        if m and m.group(1).startswith(prefix):
            names.append(".".join(ns + [m.group(1)]))
    return names


def print_axioms(mods: list[str], names: list[str]) -> dict[str, list[str] | None]:
    """`#print axioms` for each name; None = the name does not check (not found / error)."""
    if not names:
        return {}
    src = "".join(f"import {m}\n" for m in mods) + "".join(f"#print axioms {n}\n" for n in names)
    tmp = LEAN / ".lake" / f"audit_{os.getpid()}.lean"
    tmp.write_text(src)
    try:
        p = subprocess.run(["lake", "env", "lean", str(tmp)], cwd=LEAN, capture_output=True, text=True, timeout=900)
    finally:
        tmp.unlink(missing_ok=True)
    out = p.stdout + p.stderr
    res: dict[str, list[str] | None] = {n: None for n in names}
    for n in names:
        m = re.search(r"'" + re.escape(n) + r"' depends on axioms: \[(.*?)\]", out, flags=re.S)
        if m:
            res[n] = [a.strip() for a in m.group(1).replace("\n", " ").split(",") if a.strip()]
        elif re.search(r"'" + re.escape(n) + r"' does not depend on any axioms", out):
            res[n] = []
    return res


def leanchecker(mods: list[str]) -> tuple[bool, str]:
    try:
        p = subprocess.run(["lake", "env", "leanchecker", *mods], cwd=LEAN, capture_output=True, text=True, timeout=1800)
    except (subprocess.TimeoutExpired, FileNotFoundError) as e:
        return False, str(e)
    return p.returncode == 0, (p.stdout + p.stderr)[-2000:]


def run_driver(driver: str, lines: list, jobs: int | None = None, timeout: int = 1800) -> list:
    """Pipe JSON cases through `lake env lean --run drivers/<driver>.lean`; one JSON answer per case."""
    if not lines:
        return []
    jobs = max(1, min(jobs or NCPU, (len(lines) + 199) // 200))
    chunks = [lines[i::jobs] for i in range(jobs)]
    results: list = [None] * jobs

    def work(i):
        data = "".join(json.dumps(c, sort_keys=True) + "\n" for c in chunks[i])
        try:
            p = subprocess.run(["lake", "env", "lean", "--run", f"drivers/{driver}.lean"], cwd=LEAN,
                               input=data, capture_output=True, text=True, timeout=timeout)
            outs = [l for l in p.stdout.splitlines() if l.strip()]
            parsed = []
            for l in outs:
                try:
                    parsed.append(json.loads(l))
                except Exception:
                    parsed.append({"driver-error": l[:300]})
            if len(parsed) != len(chunks[i]):
                err = (p.stderr or "")[-500:]
                parsed = parsed[:len(chunks[i])] + [{"driver-error": f"missing output (rc={p.returncode}) {err}"}] * (len(chunks[i]) - len(parsed))
            results[i] = parsed
        except subprocess.TimeoutExpired:
            results[i] = [{"driver-error": "timeout"}] * len(chunks[i])

    ths = [threading.Thread(target=work, args=(i,)) for i in range(jobs)]
    [t.start() for t in ths]
    [t.join() for t in ths]
    out = [None] * len(lines)
    for i in range(jobs):
        for k, r in enumerate(results[i]):
            out[i + k * jobs] = r
    return out


# ----------------------------------------------------------------------------------------------
# Implementation side: worker processes with a hard per-case wall-clock kill
# ----------------------------------------------------------------------------------------------

def _spawn(func_path: str, extra_env=None):
    env = dict(os.environ)
    env["PYTHONPATH"] = str(VERIF) + os.pathsep + env.get("PYTHONPATH", "")
    env["UTYPE_REPO"] = str(REPO)
    env.setdefault("PYTHONHASHSEED", "0")
    if extra_env:
        env.update(extra_env)
    return subprocess.Popen([PY, "-m", "harness.worker", func_path], cwd=VERIF, env=env,
                            stdin=subprocess.PIPE, stdout=subprocess.PIPE, stderr=subprocess.DEVNULL)


def _run_chunk(func_path: str, cases: list, case_timeout: float, extra_env=None) -> list:
    res = []
    pos = 0
    while pos < len(cases):
        p = _spawn(func_path, extra_env)
        pending = cases[pos:]
        data = "".join(json.dumps(c, sort_keys=True) + "\n" for c in pending).encode()

        def feed(proc=p, d=data):
            try:
                proc.stdin.write(d)
                proc.stdin.close()
            except Exception:
                pass

        th = threading.Thread(target=feed, daemon=True)
        th.start()
        fd = p.stdout.fileno()
        buf = b""
        got = 0
        dead = False
        # the first answer also pays for interpreter start + import
        deadline = time.time() + case_timeout + 20
        while got < len(pending):
            nl = buf.find(b"\n")
            if nl >= 0:
                line, buf = buf[:nl], buf[nl + 1:]
                try:
                    res.append(json.loads(line))
                except Exception:
                    res.append({"__worker_exc__": "bad line"})
                got += 1
                deadline = time.time() + case_timeout
                continue
            left = deadline - time.time()
            if left <= 0:
                break
            r, _, _ = select.select([fd], [], [], left)
            if not r:
                break
            chunk = os.read(fd, 1 << 16)
            if not chunk:
                dead = True
                break
            buf += chunk
        if got < len(pending):
            # the in-flight case either hung (timeout) or killed the interpreter (EOF)
            p.kill()
            p.wait()
            res.append({"hang": True} if not dead else {"crash": True})
            got += 1
        else:
            try:
                p.wait(timeout=10)
            except subprocess.TimeoutExpired:
                p.kill()
        pos += got
    return res


def run_impl(func_path: str, cases: list, case_timeout: float = 10.0, jobs: int | None = None, extra_env=None) -> list:
    """Run adapter `module:function` on every case in worker processes (real utype from /repo)."""
    if not cases:
        return []
    jobs = max(1, min(jobs or NCPU, (len(cases) + 49) // 50))
    chunks = [cases[i::jobs] for i in range(jobs)]
    results: list = [None] * jobs

    def work(i):
        results[i] = _run_chunk(func_path, chunks[i], case_timeout, extra_env)

    ths = [threading.Thread(target=work, args=(i,)) for i in range(jobs)]
    [t.start() for t in ths]
    [t.join() for t in ths]
    out = [None] * len(cases)
    for i in range(jobs):
        for k, r in enumerate(results[i]):
            out[i + k * jobs] = r
    return out


# ----------------------------------------------------------------------------------------------
# Known findings, replays, evidence
# ----------------------------------------------------------------------------------------------

def load_findings(prop: str) -> dict:
    """known_findings.json is assembled from findings.d/*.json by tools/mkmanifest.py (both committed)."""
    out = {}
    files = sorted((VERIF / "findings.d").glob("*.json")) if (VERIF / "findings.d").is_dir() else []
    if not files and (VERIF / "known_findings.json").exists():
        files = [VERIF / "known_findings.json"]
    for p in files:
        d = json.loads(p.read_text())
        for f in d.get("findings", []):
            if f.get("property") == prop:
                out[f["id"]] = f
    return out


def write_replay(prop: str, seed: int, payload: dict) -> str:
    d = VERIF / "replays"
    d.mkdir(exist_ok=True)
    n = 0
    while (d / f"{prop}-{seed}-{n}.json").exists():
        n += 1
    path = d / f"{prop}-{seed}-{n}.json"
    path.write_text(json.dumps(payload, indent=1, sort_keys=True, default=str))
    return str(path.relative_to(VERIF))


def write_evidence(prop: str, ev: dict):
    d = VERIF / "evidence"
    d.mkdir(exist_ok=True)
    (d / f"{prop}.json").write_text(json.dumps(ev, indent=1, sort_keys=True, default=str))


class Check:
    """Base class of a property check; subclasses fill in the property-specific parts."""

    prop = "C00"
    props_modules: list[str] = []        # Lean modules holding the property theorems (+ GenEq obligations)
    theorem_prefix = ""                  # defaults to "<prop>_"
    extra_obligations: list[str] = []    # fully-qualified extra theorem names (e.g. GenEq obligations)
    driver = ""                          # drivers/<driver>.lean
    impl = ""                            # "harness.cXX:impl"
    case_timeout = 10.0
    uses_extract = False
    rule = ""
    assumptions: list[str] = []
    budget = {"quick": 1000, "thorough": 20000}
    search_budget = {"quick": 3000, "thorough": 30000}
    impl_env = None                      # extra environment for worker processes (e.g. hook guard)

    # ---- to override -------------------------------------------------------------------------
    def corpus(self) -> list:
        """minimised past disagreements / known-finding and fixed witnesses; always run first"""
        p = VERIF / "harness" / "corpus" / f"{self.prop}.jsonl"
        if not p.exists():
            return []
        return [json.loads(l) for l in p.read_text().splitlines() if l.strip()]

    def cases(self, tier: str, rng: random.Random, n: int) -> list:
        raise NotImplementedError

    def model_line(self, case):
        return case

    def compare(self, case, impl_out, model_out) -> str | None:
        """None when model and implementation agree on this case."""
        raise NotImplementedError

    def spec(self, case, impl_out, model_out) -> str | None:
        """The property's own predicate applied to what the *implementation* did; None = holds."""
        return None

    def classify(self, case, impl_out, why: str) -> str | None:
        """id of the known finding this spec violation falls under, if any."""
        return None

    def neighbours(self, case, rng: random.Random) -> list:
        return []

    def key(self, case, impl_out):
        """distinct-nontrivial key, or None for a trivial case"""
        return json.dumps(case, sort_keys=True)

    def distribution(self, case, impl_out) -> str | None:
        return None

    def reproduce(self, case) -> str:
        return f"UTYPE_REPO={REPO} {PY} -c 'import json,sys; sys.path.insert(0,\"{VERIF}\"); from {self.impl.split(':')[0]} import {self.impl.split(':')[1]} as f; print(f(json.loads(sys.argv[1])))' '{json.dumps(case, sort_keys=True)}'"

    def extra_static(self, tier: str) -> list[str]:
        """additional static obligations (strings describing what broke); [] = fine"""
        return []

    # ---- machinery ---------------------------------------------------------------------------
    def evaluate(self, cases: list):
        impl_outs = run_impl(self.impl, cases, self.case_timeout, extra_env=self.impl_env)
        model_outs = run_driver(self.driver, [self.model_line(c) for c in cases]) if self.driver else [None] * len(cases)
        return impl_outs, model_outs

    def sweep(self, cases, impl_outs, model_outs, findings):
        disagreements, unknown, known = [], [], {}
        for c, io, mo in zip(cases, impl_outs, model_outs):
            infra = isinstance(io, dict) and "__worker_exc__" in io
            if infra:
                disagreements.append({"case": c, "impl": io, "model": mo, "why": "adapter exception: " + io["__worker_exc__"]})
                continue
            if self.driver:
                d = self.compare(c, io, mo)
                if d:
                    disagreements.append({"case": c, "impl": io, "model": mo, "why": d})
            why = self.spec(c, io, mo)
            if why:
                fid = self.classify(c, io, why)
                if fid and fid in findings and findings[fid].get("status") == "known":
                    known.setdefault(fid, []).append({"case": c, "impl": io, "why": why})
                else:
                    unknown.append({"case": c, "impl": io, "model": mo, "why": why, "finding_class": fid})
        return disagreements, unknown, known

    def run(self, tier: str, seed: int) -> int:
        t0 = time.time()
        prefix = self.theorem_prefix or (self.prop + "_")
        findings = load_findings(self.prop)
        broken: list[str] = []
        build_log = ""
        # 1-2. extract, build, audit
        # T1 obligations kept apart from the property's own files: lean/Utv/GenEq/<prop>.lean proves that functions
        # regenerated from the source (Utv/Gen) equal the hand-written model functions the property theorems are about;
        # its theorems `<prop>_gen_*` are obligations of this check (DESIGN.md §3 T1, §11)
        geneq = LEAN / "Utv" / "GenEq" / f"{self.prop}.lean"
        has_geneq = geneq.exists()
        with BuildLock():
            if self.uses_extract or has_geneq:
                ok, log = run_extract()
                if not ok:
                    broken.append("T1 extract: " + log.strip().splitlines()[-1] if log.strip() else "T1 extract failed")
                    build_log += log
            mods = list(self.props_modules)
            if has_geneq and f"Utv.GenEq.{self.prop}" not in mods:
                mods.append(f"Utv.GenEq.{self.prop}")
            ok, log = lake_build(mods)
            failed_mods = []
            if not ok:
                # which modules fail individually?  (a broken GenEq must not hide the others)
                build_log += log
                for m in mods:
                    okm, logm = lake_build([m])
                    if not okm:
                        failed_mods.append(m)
                        errs = [l for l in logm.splitlines() if "error" in l][:3]
                        broken.append(f"lake build {m} failed: " + " | ".join(errs))
            names = []
            for m in self.props_modules:
                if module_path(m).exists():
                    names += theorem_names(m, prefix)
            if has_geneq:
                names += [n for n in theorem_names(f"Utv.GenEq.{self.prop}", self.prop + "_gen_") if n not in names]
            names += list(self.extra_obligations)
            # audit only against the modules that built: the theorems of a module that does not build are reported as
            # not checking, the others keep their own verdict
            axioms = print_axioms([m for m in mods if module_path(m).exists() and m not in failed_mods], names) if names else {}
        obligations = len(names)
        discharged = 0
        for n in names:
            ax = axioms.get(n)
            if ax is None:
                broken.append(f"theorem {n} does not check")
            elif not set(ax) <= ALLOWED_AXIOMS:
                broken.append(f"theorem {n} depends on axioms {sorted(set(ax) - ALLOWED_AXIOMS)}")
            else:
                discharged += 1
        if not names:
            broken.append("no property theorem found")
        for h in forbidden_tokens(mods):
            broken.append("forbidden token in " + h)
        broken += self.extra_static(tier)
        checker = f"cd lean && lake build {' '.join('+' + m for m in mods)} && #print axioms (each theorem)"
        if tier == "thorough" and not broken:
            ok, log = leanchecker(mods)
            checker += " && lake env leanchecker " + " ".join(mods)
            if not ok:
                broken.append("leanchecker: " + log[-300:])

        # 3-4. correspondence + spec sweep
        rng = rng_for(self.prop, seed)
        corpus = self.corpus()
        n = int(os.environ.get("VERIF_CASES", "0")) or self.budget[tier]
        cases = corpus + self.cases(tier, rng, n)
        impl_outs, model_outs = self.evaluate(cases)
        disagreements, unknown, known = self.sweep(cases, impl_outs, model_outs, findings)
        keys = set()
        dist: dict[str, int] = {}
        for c, io in zip(cases, impl_outs):
            k = self.key(c, io)
            if k is not None:
                keys.add(k)
            d = self.distribution(c, io)
            if d is not None:
                dist[d] = dist.get(d, 0) + 1
        evaluations = len(cases)
        searched = 0

        # 5-6. decide
        rc = 0
        violation_lines = []
        if unknown:
            u = min(unknown, key=lambda x: len(json.dumps(x["case"])))
            path = write_replay(self.prop, seed, {
                "property": self.prop, "kind": "failing-input", "seed": seed, "tier": tier,
                "case": u["case"], "implementation": u["impl"], "model": u["model"], "spec_verdict": u["why"],
                "reproduce": self.reproduce(u["case"]), "other_failing_cases": len(unknown) - 1,
                "broken_obligations": broken[:10]})
            violation_lines.append(f"VIOLATION property={self.prop} replay={path}")
            rc = 1
        elif broken or disagreements:
            # a broken proof/correspondence is not by itself a violation: search the real code
            srng = rng_for(self.prop, seed, "search")
            extra = []
            for d in disagreements[:200]:
                extra += self.neighbours(d["case"], srng)
            extra += self.cases("search", srng, self.search_budget[tier])
            s_impl, s_model = self.evaluate(extra)
            searched = len(extra)
            d2, unknown2, known2 = self.sweep(extra, s_impl, s_model, findings)
            for k, v in known2.items():
                known.setdefault(k, []).extend(v)
            if unknown2:
                u = min(unknown2, key=lambda x: len(json.dumps(x["case"])))
                path = write_replay(self.prop, seed, {
                    "property": self.prop, "kind": "failing-input", "seed": seed, "tier": tier,
                    "case": u["case"], "implementation": u["impl"], "model": u["model"], "spec_verdict": u["why"],
                    "reproduce": self.reproduce(u["case"]), "broken_obligations": broken[:10],
                    "first_disagreements": disagreements[:5]})
                violation_lines.append(f"VIOLATION property={self.prop} replay={path}")
            else:
                path = write_replay(self.prop, seed, {
                    "property": self.prop, "kind": "no-failing-input-found", "seed": seed, "tier": tier,
                    "no_longer_checks": broken[:20] + ([f"correspondence {self.driver} vs {self.impl}: {len(disagreements)} disagreeing cases"] if disagreements else []),
                    "first_disagreements": (disagreements + d2)[:10], "searched_cases": searched,
                    "build_log_tail": build_log[-3000:]})
                violation_lines.append(f"VIOLATION property={self.prop} replay={path} no-failing-input-found")
            rc = 1

        for fid, f in findings.items():
            if f.get("status") == "known" and fid in known:
                print(f"KNOWN-FINDING: property={self.prop} {fid}: {f.get('what', '')} ({len(known[fid])} cases this run)")
        for l in violation_lines:
            print(l)

        samples = []
        for c, io, mo in list(zip(cases, impl_outs, model_outs))[: 3]:
            samples.append({"case": c, "implementation": io, "model": mo})
        samples.append({"theorems": names})
        ev = {
            "property_id": self.prop, "tier": tier, "seed": seed, "level": "proof",
            "coverage": {
                "obligations": max(obligations, 1), "discharged": discharged,
                "checker_cmd": checker,
                "trusted_base": TRUSTED_BASE + list(self.assumptions),
                "axioms": {k: v for k, v in axioms.items()},
                "evaluations": evaluations + searched, "distinct_nontrivial": len(keys),
                "rule": self.rule, "samples": samples, "distribution": dict(sorted(dist.items(), key=lambda kv: -kv[1])[:60]),
                "corpus_cases": len(corpus), "correspondence_disagreements": len(disagreements),
                "spec_violations_unknown": len(unknown), "known_findings_hit": {k: len(v) for k, v in known.items()},
                "broken": broken, "search_cases": searched,
                "exhaustive": False,
            },
            "assumptions": list(self.assumptions),
            "wall_s": round(time.time() - t0, 2),
            "violations": len(violation_lines),
        }
        self.finish_evidence(ev, tier)
        write_evidence(self.prop, ev)
        print(f"[{self.prop}] tier={tier} seed={seed} obligations={discharged}/{obligations} cases={evaluations} "
              f"nontrivial={len(keys)} disagreements={len(disagreements)} unknown_spec_violations={len(unknown)} "
              f"known={ {k: len(v) for k, v in known.items()} } broken={len(broken)} wall={ev['wall_s']}s")
        for b in broken[:10]:
            print(f"[{self.prop}] broken: {b}")
        return rc

    def finish_evidence(self, ev: dict, tier: str):
        pass

    def replay(self, path: str) -> int:
        payload = json.loads(Path(path).read_text())
        case = payload.get("case")
        if case is None:
            print(json.dumps(payload.get("no_longer_checks"), indent=1))
            return 1
        io, mo = self.evaluate([case])
        why = self.spec(case, io[0], mo[0])
        print(json.dumps({"case": case, "implementation": io[0], "model": mo[0], "spec_verdict": why}, indent=1))
        return 1 if why else 0
