import Utv.GenEq.Support
import Utv.Gen.Options
import Utv.Model.C18
/-!
C18 — T1 obligations: the depth / route accounting of `RuntimeContext.__init__` (utype/parser/options.py), regenerated
on every run as `Utv.Gen.Options.RuntimeContext_init`, is what `Model/C18.lean` says it is:

* a context entered *with a route* (`context.enter(route, …)`, also for the falsy routes `0` and `''`) stays on the
  level of its parent and appends the route — `Utv.C18.enter Quirks.fixed`;
* a context made *without a route for a class* (`Options.make_context(cls=K, context=c)`) is one level deeper, and
  raises `DepthExceedError` exactly when `Utv.C18.exceeded max_depth (depth + 1)` — the `.data` branch of `step`;
* a class-less root context is level 0 (`parseTop`, `Quirks.fixed`).
-/
namespace Utv.GenEq.C18
open Utv.Obj Utv.C18 Utv.Gen

abbrev U := OVal Unit

def encMaxDepth : Option Nat → U
  | none => .none
  | some m => .int m

/-- the parent `RuntimeContext`: its level and the routes that lead to it -/
def encCtx (c : Ctx) (routes : List U) : U :=
  .obj "RuntimeContext" [("depth", .int c.depth), ("routes", .seq .list routes)]

/-- the `Options` of the new context (`max_depth` is the only attribute `__init__` reads) -/
def encOptions (md : Option Nat) : U := .obj "Options" [("max_depth", encMaxDepth md)]

/-- what the construction amounts to for the model: the level of the new context, or the depth error -/
def decode (r : M Unit (U × Outcome Unit)) : Option (Out Nat × List U) :=
  match r with
  | .ok (self', .ret _) =>
    (match getattr self' "depth", getattr self' "routes" with
     | .ok (.int d), .ok (.seq .list rs) => some (.ok d.toNat, rs)
     | _, _ => none)
  | .ok (_, .raise (.obj "DepthExceedError" _)) => some (.err { depth := true }, [])
  | _ => none

def outDepth : Out Ctx → Out Nat
  | .ok c => .ok c.depth
  | .err f => .err f

macro "ctx_simp" "[" ls:Lean.Parser.Tactic.simpLemma,* "]" : tactic =>
  `(tactic| obj_simp [Options.RuntimeContext_init, encCtx, encOptions, encMaxDepth, decode, getattr, setattr, lookupAttr,
      setAttrL, truthy, toList, iter, append, concat, add, intOf?, gt, lt,
      exceeded, enter, outDepth, Quirks.fixed, $ls,*])

/-- entering an item / key / field: same level, the route (falsy or not) is appended, no depth error as long as the
parent itself was within its limit -/
theorem C18_gen_init_enter (W : World Unit) (c : Ctx) (routes : List U) (route cls fe eh : U) (falsy : Bool) (m : Mode)
    (hr : route.isUnprovided = false) (hc : exceeded c.md c.depth = false) :
    decode (Options.RuntimeContext_init W (.obj "RuntimeContext" []) (encCtx c routes) cls route fe eh (encOptions c.md))
      = some (outDepth (enter Quirks.fixed c falsy m), routes ++ [route]) := by
  gen_obligation "C18_gen_init_enter: the regenerated code (Utv.Gen) is no longer equal to the hand model here" by
    obtain ⟨depth, mode, md⟩ := c
    cases md with
    | none => ctx_simp [hr]
    | some k =>
      simp only [exceeded] at hc
      by_cases h0 : k = 0
      · subst h0; ctx_simp [hr]
      · have h1 : ¬ k < depth := by simp_all
        ctx_simp [hr, h0, h1]

/-- a nested data class (no route, a class): one level deeper; `DepthExceedError` iff `exceeded max_depth (depth+1)`
(`md` is the class's own `max_depth`: `make_context` passes the class's options) -/
theorem C18_gen_init_level (W : World Unit) (c : Ctx) (routes : List U) (cls fe eh : U) (md : Option Nat)
    (hcls : cls.isNone = false) :
    decode (Options.RuntimeContext_init W (.obj "RuntimeContext" []) (encCtx c routes) cls .unprovided fe eh (encOptions md))
      = some (if exceeded md (c.depth + 1) then (.err { depth := true }, []) else (.ok (c.depth + 1), routes)) := by
  gen_obligation "C18_gen_init_level: the regenerated code (Utv.Gen) is no longer equal to the hand model here" by
    obtain ⟨depth, mode, cmd⟩ := c
    cases md with
    | none => ctx_simp [hcls, OVal.isUnprovided]
    | some k =>
      by_cases h0 : k = 0
      · subst h0; ctx_simp [hcls, OVal.isUnprovided]
      · by_cases h1 : k < depth + 1
        · have h1' : (k : Int) < (depth : Int) + 1 := by omega
          ctx_simp [hcls, OVal.isUnprovided, h0, h1, h1']
        · have h1' : ¬ (k : Int) < (depth : Int) + 1 := by omega
          ctx_simp [hcls, OVal.isUnprovided, h0, h1, h1']

/-- the class-less root context (`type_transform`, a function call): level 0, no routes -/
theorem C18_gen_init_root (W : World Unit) (fe eh : U) (md : Option Nat) :
    decode (Options.RuntimeContext_init W (.obj "RuntimeContext" []) .none .none .unprovided fe eh (encOptions md))
      = some (.ok 0, []) := by
  gen_obligation "C18_gen_init_root: the regenerated code (Utv.Gen) is no longer equal to the hand model here" by
    cases md with
    | none => ctx_simp [OVal.isUnprovided, OVal.isNone]
    | some k =>
      by_cases h0 : k = 0
      · subst h0; ctx_simp [OVal.isUnprovided, OVal.isNone]
      · have h1' : ¬ (k : Int) < 0 := by omega
        ctx_simp [OVal.isUnprovided, OVal.isNone, h0, h1']

/-- the root context of a class (`K(**data)`): level 1, checked against the class's `max_depth` -/
theorem C18_gen_init_class_root (W : World Unit) (cls fe eh : U) (md : Option Nat) (hcls : cls.isNone = false) :
    decode (Options.RuntimeContext_init W (.obj "RuntimeContext" []) .none cls .unprovided fe eh (encOptions md))
      = some (if exceeded md 1 then (.err { depth := true }, []) else (.ok 1, [])) := by
  gen_obligation "C18_gen_init_class_root: the regenerated code (Utv.Gen) is no longer equal to the hand model here" by
    cases md with
    | none => ctx_simp [hcls, OVal.isUnprovided]
    | some k =>
      by_cases h0 : k = 0
      · subst h0; ctx_simp [hcls, OVal.isUnprovided]
      · by_cases h1 : k < 1
        · omega
        · have h1' : ¬ (k : Int) < 1 := by omega
          ctx_simp [hcls, OVal.isUnprovided, h0, h1, h1']

end Utv.GenEq.C18
